#!/bin/bash
# Offline setup: warm the Go build cache for every check (plain and instrumented builds).
export GOFLAGS=-mod=mod GOPROXY=off GOSUMDB=off GOTOOLCHAIN=local
cd /verif/harness || exit 1
cp /repo/go.sum go.sum
mkdir -p /verif/bin /verif/evidence /verif/replays
scratch=$(mktemp -d /tmp/verif-setup.XXXXXX)
trap 'rm -rf "$scratch"' EXIT
go build -o "$scratch/vrewrite" ./cmd/vrewrite || exit 1
"$scratch/vrewrite" -out "$scratch/vr" || exit 1
for d in cmd/*/; do
  n=$(basename "$d")
  if [ -f "$d/VSCHED" ]; then
    go build -overlay "$scratch/vr/overlay.json" -o "$scratch/$n" "./cmd/$n" || exit 1
  else
    go build -o "$scratch/$n" "./cmd/$n" || exit 1
  fi
done
echo setup ok
