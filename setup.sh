#!/bin/bash
# Offline setup: build every check binary once so that the Go build cache is warm.
export GOFLAGS=-mod=mod GOPROXY=off GOSUMDB=off GOTOOLCHAIN=local
cd /verif/harness || exit 1
cp /repo/go.sum go.sum
mkdir -p /verif/bin /verif/evidence /verif/replays
go build -o /verif/bin/ ./cmd/... || exit 1
echo setup ok
