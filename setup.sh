#!/bin/bash
# Offline setup: warm the Go build cache for every check (plain and instrumented builds).
export GOFLAGS=-mod=mod GOPROXY=off GOSUMDB=off GOTOOLCHAIN=local
cd /verif/harness || exit 1
cp /repo/go.sum go.sum
mkdir -p /verif/bin /verif/evidence /verif/replays
scratch=$(mktemp -d /tmp/verif-setup.XXXXXX)
trap 'rm -rf "$scratch"' EXIT
go build -o "$scratch/vrewrite" ./cmd/vrewrite || exit 1
"$scratch/vrewrite" -out "$scratch/vr" || exit 1
for d in cmd/*/; do
  n=$(basename "$d")
  ov=()
  if [ -f "$d/VSCHED" ]; then ov=(-overlay "$scratch/vr/overlay.json"); fi
  go build "${ov[@]}" -o "$scratch/$n" "./cmd/$n" || exit 1
  if [ -f "$d/RACE" ] || [ -f "$d/RACE_ON_DEMAND" ]; then
    # the -race variants (data-race passes of C13/C14, C17's TLS harness called by C13)
    go build -race "${ov[@]}" -o "$scratch/$n.race" "./cmd/$n" || exit 1
  fi
done
echo setup ok
