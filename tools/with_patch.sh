#!/bin/bash
# usage: tools/with_patch.sh <patch.diff> <command...>
# applies the patch to /repo, first verifies that it builds and that the pinned test suite passes,
# runs the command, and always restores /repo afterwards.
p="$1"; shift
export GOFLAGS=-mod=mod GOPROXY=off GOSUMDB=off GOTOOLCHAIN=local
if [ -n "$(git -C /repo status --porcelain)" ]; then echo "/repo not clean"; exit 3; fi
git -C /repo apply "$p" || { echo "patch does not apply"; exit 3; }
trap 'git -C /repo checkout -- . ; git -C /repo clean -fdq' EXIT
if [ -z "${SKIP_SUITE:-}" ]; then
  (cd /repo && go build ./... && go test -vet=off -count=1 ./... >/tmp/with_patch_suite.log 2>&1) || { echo "SUITE FAILS with patch"; tail -20 /tmp/with_patch_suite.log; exit 4; }
  echo "suite passes with patch"
fi
"$@"
rc=$?
echo "exit=$rc"
exit $rc
