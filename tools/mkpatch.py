#!/usr/bin/env python3
# usage: mkpatch.py <repo-relative-file> <old-text> <new-text>   -> unified diff on stdout (a/ b/ prefixes)
import sys,difflib
f,old,new=sys.argv[1],sys.argv[2],sys.argv[3]
old=old.replace('\\n','\n').replace('\\t','\t'); new=new.replace('\\n','\n').replace('\\t','\t')
s=open('/repo/'+f).read()
if s.count(old)!=1:
    sys.stderr.write("old text occurs %d times\n"%s.count(old)); sys.exit(1)
t=s.replace(old,new)
sys.stdout.writelines(difflib.unified_diff(s.splitlines(True),t.splitlines(True),'a/'+f,'b/'+f))
