#!/bin/bash
# usage: tools/mutant.sh <patch.diff> <command...>
# Runs <command> against /repo + patch WITHOUT touching /repo: the patched files are materialised
# in a scratch directory and injected through `go build -overlay` (env VERIF_OVERLAY, honoured by
# ./check). First checks that the patched tree builds and that the pinned suite still passes
# (skip with SKIP_SUITE=1). Safe to run concurrently with other checks.
set -u
p="$(readlink -f "$1")"; shift
export GOFLAGS=-mod=mod GOPROXY=off GOSUMDB=off GOTOOLCHAIN=local
d=$(mktemp -d /tmp/verif-mut.XXXXXX)
trap 'rm -rf "$d"' EXIT
files=$(grep '^+++ b/' "$p" | sed 's#^+++ b/##')
mkdir -p "$d/tree"
for f in $files; do mkdir -p "$d/tree/$(dirname $f)"; [ -f "/repo/$f" ] && cp "/repo/$f" "$d/tree/$f"; done
(cd "$d/tree" && patch -s -p1 < "$p") || { echo "patch does not apply"; exit 3; }
{
  echo '{"Replace":{'
  first=1
  for f in $files; do
    [ $first = 1 ] || echo ','
    first=0
    printf '"/repo/%s":"%s/tree/%s"' "$f" "$d" "$f"
  done
  echo '}}'
} > "$d/overlay.json"
if [ -z "${SKIP_SUITE:-}" ]; then
  (cd /repo && go build -overlay "$d/overlay.json" ./... && go test -overlay "$d/overlay.json" -vet=off -count=1 -timeout 120s ./... > "$d/suite.log" 2>&1) || { echo "SUITE FAILS with patch"; tail -20 "$d/suite.log"; exit 4; }
  echo "suite passes with patch"
fi
export VERIF_OVERLAY="$d/overlay.json" VERIF_OUT="$d/out"
"$@"
rc=$?
echo "exit=$rc"
exit $rc
