#!/bin/bash
# usage: confirm_race.sh <seed-id> <pkgdir>
sid=$1; pkg=$2
export GOFLAGS=-mod=mod GOPROXY=off GOSUMDB=off GOTOOLCHAIN=local
dst=/verif/seeded/$sid
wt=$(mktemp -d /tmp/seedchk.XXXXXX); rmdir "$wt"
git -C /repo worktree add --detach "$wt" HEAD -q || exit 3
trap 'git -C /repo worktree remove --force "$wt" 2>/dev/null; rm -rf "$wt"' EXIT
cd "$wt"
git apply "$dst/patch.diff" || { echo "$sid: patch does not apply"; exit 1; }
cp "$dst/zz_seed_test.go" "$pkg/zz_seed_test.go"
with=pass; go test -race -vet=off -count=1 -timeout 300s "./$pkg" -run 'TestSeed' >/tmp/cr_with.$$ 2>&1 || with=fail
git checkout -q -- . ; cp "$dst/zz_seed_test.go" "$pkg/zz_seed_test.go"
without=pass; go test -race -vet=off -count=1 -timeout 300s "./$pkg" -run 'TestSeed' >/tmp/cr_without.$$ 2>&1 || without=fail
echo "$sid with=$with without=$without"
python3 - "$sid" "$with" "$without" "$pkg" <<'PY'
import json,sys
sid,w,wo,pkg=sys.argv[1:]
p=f'/verif/seeded/{sid}/meta.json'; m=json.load(open(p))
m['confirmed']['demo_fails_with_patch']=(w=='fail'); m['confirmed']['demo_passes_without_patch']=(wo=='pass')
m['confirmed']['demo']=f'go test -race ./{pkg} -run TestSeed (zz_seed_test.go placed in {pkg}; the demonstration is a data race and needs -race)'
json.dump(m,open(p,'w'),indent=1)
PY
rm -f /tmp/cr_with.$$ /tmp/cr_without.$$
