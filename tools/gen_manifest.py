#!/usr/bin/env python3
# Regenerates /verif/MANIFEST.json from the table below (single source of truth).
import json
MC="model_checking"; EX="exploration"; FE="fault_enumeration"
checks = {
 "C01": dict(level=EX, design="DESIGN.md §4 C01",
   text="bounded-exhaustive round trips Encoder->Decoder in both directions and all 8 encoder modes: every byte string <=4/5 over a 16-symbol alphabet + threshold family around 4096, every mailbox name <=4/5 runes, 239 flags/attributes incl. malformed, boundary numbers, every number set of <=3 insertions, every list tree <=5/6 nodes + depth chains around the cap; oracle: value equality modulo documented canonicalisations, exact consumption (independent scanner), refusals write nothing, byte legality for the mode",
   note="independent wire scanner (no imapwire import); negative int64 and 8-bit flag acceptance excluded; sync-literal handshake belongs to C18",
   technique="bounded-exhaustive input x configuration enumeration on the real codec with inverse-pair and independent-scanner oracles"),
 "C02": dict(level=EX, design="DESIGN.md §4 C02",
   text="one real client <-> one real server connection (recording stub backend), 7 capability/enablement configurations, 58 k cases per configuration (533 k thorough): every string position of every command x a special-string alphabet (+ all pairs), all option subsets (STATUS, LIST select/return, FETCH attributes x 144 section shapes, SEARCH return), every number set of <=3 insertions, search-criteria trees with <=2 leaves over 31 leaf kinds under Not/Or nesting; oracle: the recorded backend call equals the issued call semantically (search criteria compared as predicates with the reference matcher over the message universe)",
   note="strings above the server's declared 4096-byte limit are counted, not judged; illegal arguments enumerated but not judged",
   technique="bounded-exhaustive input x configuration enumeration on the real client/server pair vs semantic-equality oracle"),
 "C03": dict(level=EX, design="DESIGN.md §4 C03",
   text="one real client <-> one real server whose stub backend writes generated data through the real writer API: 658 k cases x 3 configurations (4.07 M thorough): FETCH attribute subsets, 1-3 body sections with literal sizes around 4096, envelopes (full presence product), all body-structure trees <=5 (6-7) nodes, LIST/LIST-STATUS, STATUS, SELECT, SEARCH/ESEARCH, APPENDUID, COPYUID, MOVE, NAMESPACE, capabilities, expunges, unilateral updates; oracle: equality modulo the protocol's canonicalisations (listed as assumptions), literals byte-identical, order preserved",
   note="RFC 2047 look-alike strings excluded; 22 canonicalisations/assumptions recorded in the evidence",
   technique="bounded-exhaustive enumeration of response data structures on the real server/client pair vs canonical-equality oracle"),
 "C04": dict(level=EX, design="DESIGN.md §4 C04",
   text="971 k raw byte streams (9.2 M thorough) into a real server connection: sequences of <=2 (3) commands from 600 variants (12 templates x atom/quoted/{n}/{n+} x sizes {0,1,4096,4097,100 MiB(+1)} x payload classes incl. command-like text x announced>actual / junk tails, AUTHENTICATE and IDLE exchanges) x 3 capability sets x 3 start states x pipelined or not x waits for '+' or not; oracle: whole well-formed responses, exactly the framed commands answered once each in order, no smuggled marker ever executed or delivered elsewhere, '+' only for accepted synchronising literals / AUTHENTICATE / IDLE, refused non-sync literals discarded or connection closed",
   note="recording stub backend; unique marker per smuggled text",
   technique="bounded-exhaustive input x configuration enumeration on the real server with an independent response tokenizer"),
 "C06": dict(level=FE, design="DESIGN.md §4 C06",
   text="for 27 valid multi-command transcripts every byte offset x {EOF, reset}, every server write call failing, NewSession failing; 109 k single-position mutations/truncations of 60 valid lines, 24 k (331 k) raw strings, the C04 stream family, nesting families up to 10^6 in memory-limited workers; oracle: no panic, server closes and forgets the connection, every Idle returns, backend Close exactly once, no buffered literal > 4096, no APPEND > limit accepted, nesting refused",
   note="IDLE runs free with exact quiescence (stub signals the driver); 30 s watchdog hits are re-run 3x before being reported",
   technique="exhaustive fault-point enumeration (every byte offset / write call of each transcript) + bounded-exhaustive malformed-input enumeration on the real server"),
 "C05": dict(level=MC, design="DESIGN.md §4 C05",
   text="explicit-state BFS (to closure) of the connection state machine on the real server over 12 configurations x 4 session variants x 82 events, every transition executed on the real code against an RFC 9051 reference model (permitted-state table, TLS/InsecureAuth policy, response class, capability lists, Close exactly once); plus all un-deduplicated histories of depth 2 everywhere and depth 3 (4 thorough) in default configurations",
   note="real crypto/tls over the in-memory network; BAD/NO both accepted where the RFC leaves the class open; dedup key = reference state, soundness backed by a behaviour-function table and the un-deduplicated runs",
   technique="explicit-state model checking over the real transition function (fresh instance + history replay) vs reference state machine"),
 "C07": dict(level=MC, design="DESIGN.md §4 C07",
   text="explicit-state BFS over histories of tracker operations (Append(1..3), Expunge(i), MsgFlags(i,source), MailboxFlags, NewSession, Close, Poll with/without expunge permission) on the REAL MailboxTracker/SessionTracker, polls issued through real connections (NOOP / FETCH) and read back from the wire; closed search (bounded pending queue, frontier emptied) + depth-bounded search + un-merged histories + a command matrix for conn.poll; oracle: DecodeSeqNum/EncodeSeqNum for every number after every step, delivered updates applied in order equal the model view, no EXPUNGE when disallowed, order preserved, source suppression",
   note="mailbox <= 4, sessions <= 2 (3 thorough); Decode of numbers beyond the client's view unconstrained (undocumented)",
   technique="explicit-state model checking over the real transition function (fresh instance + history replay) vs reference model"),
 "C08": dict(level=MC, design="DESIGN.md §4 C08",
   text="explicit-state BFS over command histories issued one at a time by 2 (3-4) sessions sharing two mailboxes on the REAL imapserver + imapmemserver (fresh server + history replay per transition), 28-command alphabet incl. UID/non-UID forms, ranges, '*', IDLE; a wire-only observer per connection (announced count, UID per slot) + reference mailbox model + fresh probe connection; invariants on every response line: 1 <= seq <= announced count, no EXPUNGE during non-UID FETCH/STORE/SEARCH, count shrinks only by EXPUNGE, each removal reported exactly once, view == mailbox after NOOP",
   note="mailbox size cap 3 (4); depth 5 (thorough: budgeted); stale-view '*' accepts both readings; counterexamples re-run 5x",
   technique="explicit-state model checking over the real transition function (fresh instance + history replay) vs reference model and independent wire observer"),
 "C09": dict(level=MC, design="DESIGN.md §4 C09",
   text="Part A: explicit-state BFS over command histories (CREATE/DELETE/RENAME/SUBSCRIBE, APPEND, SELECT/EXAMINE, STORE variants, COPY, MOVE, EXPUNGE, UID EXPUNGE, CLOSE) by 2 sessions on the REAL imapserver + imapmemserver (fresh server + replay per transition) against a reference mailbox model, with a fresh probe connection after every step (LIST/LSUB/LIST-STATUS, STATUS, UID FETCH, UID SEARCH): UID monotonicity and non-reuse, UIDVALIDITY change on recreate, APPENDUID/COPYUID, exact flag/expunge effects; Part B: 173 k (2.25 M) SEARCH forms over 62 keys vs the reference matcher, 19 k (27 k) FETCH section/partial shapes incl. extreme offsets vs a hand-written section table, 495 LIST pattern commands, no-crash group",
   note="flat namespace (no hierarchy semantics); sections the RFC leaves open are framing-only; known finding: EXAMINE is not read-only (code TODO)",
   technique="explicit-state model checking over the real transition function vs reference model + bounded-exhaustive query-space enumeration"),
 "C10": dict(level=MC, design="DESIGN.md §4 C10",
   text="the real client runs under a controlled scheduler (all goroutines, locks, channels and the connection instrumented); for each of 40 transcripts and every byte offset of the server stream the connection is cut with EOF / read error / stall+read-timeout / stall+Close, and a write error is injected at every client write call; within each fault scenario every schedule up to the deviation bound is executed; the scheduler itself decides termination (all threads finished) - no clock",
   note="scripted peer; caller honours the streaming contract; STARTTLS transcripts excluded (crypto/tls is not instrumented); bound 0 quick / 1 thorough with a per-scenario execution cap that is reported",
   technique="stateless model checking of the implementation: exhaustive fault-point enumeration x deviation-bounded schedule exploration under a controlled scheduler"),
 "C11": dict(level=EX, design="DESIGN.md §4 C11",
   text="260 k distinct server byte streams (2.6 M thorough) x 6 client variants (21 pending commands of every kind, unilateral handlers, no handlers, IDLE, greeting): exhaustive expansion of a 623-production response grammar, all single-token and single-byte mutations and truncations, raw strings, growth families up to 512 k; every accessor of every returned value called; worker subprocesses attribute process-fatal panics, stack overflows and OOM; oracle: no panic anywhere, protocol-invariant violations surface as errors not data, allocations/reads grow <= 2.5x per doubling",
   note="known finding: SearchData.AllSeqNums materialises '1:4294967295' (API design); CPU-time growth only reported at >= 6x per doubling",
   technique="bounded-exhaustive grammar/mutation enumeration on the real client in resource-limited worker processes"),
 "C12": dict(level=MC, design="DESIGN.md §4 C12",
   text="the real client under the controlled scheduler against every server behaviour in a bounded family: pipelines of <=2 (3) pairwise-unambiguous commands from 19 kinds x outcome assignment {OK, OK [code], NO, NO [code], BAD} x every interleaving of all response lines that respects per-command order (RFC 9051 §5.5), in authenticated and selected start states, plus every sequence of <=3 (4) unilateral responses in 4 contexts; after EVERY server line the system runs to scheduler-decided quiescence and State()/Mailbox() are compared with a reference transcript interpreter; per command status+data comparison; final NOOP must succeed",
   note="default schedule only (schedules are C13's subject); summary not compared while a SELECT is in flight; scripted peer",
   technique="explicit enumeration of environment behaviours (server answer orders/outcomes) executed on the real client under a controlled scheduler vs reference interpreter"),
 "C13": dict(level=MC, design="DESIGN.md §4 C13",
   text="14 concurrency scenarios (2-3 callers, streaming/literal/IDLE/AUTHENTICATE commands, environment-chosen connection drop, concurrent Close/State/Caps/Mailbox) on the real client under a controlled scheduler with points before every lock, after every unlock and at every channel/select/spawn/connection operation; all schedules within preemption bound 1 (2 thorough) and delay bound 2 (3 thorough); verdict by the scheduler (all threads finish, no panic), wire tags pairwise distinct",
   note="data races themselves are invisible to a cooperative scheduler (their behavioural consequences are explored); execution caps per scenario are reported with the bound completed",
   technique="stateless model checking of the implementation: preemption-bounded and delay-bounded exhaustive schedule exploration under a controlled scheduler"),
 "C14": dict(level=MC, design="DESIGN.md §4 C14",
   text="the real imapserver + real in-memory backend under a controlled scheduler (every lock, unlock, channel op, select, goroutine spawn and connection read/write is a scheduling point): 2 (3) sessions on shared mailboxes A/B, every ordered pair of racing commands from an 18-command alphabet x every assignment of selected mailboxes (includes opposite-direction COPY/MOVE), same-history runs, triples (thorough); per scenario all schedules within delay bound 2 (3) and preemption bound 1; verdict by the scheduler: deadlock = no enabled thread (reported with the lock each thread waits for), plus exactly one tagged completion per command and no panic",
   note="server writes never block (peers drain); execution cap per scenario and mode reported; data races as such are outside a cooperative scheduler's sight",
   technique="stateless model checking of the implementation: delay-bounded and preemption-bounded exhaustive schedule exploration under a controlled scheduler"),
 "C15": dict(level=MC, design="DESIGN.md §4 C15",
   text="explicit-state BFS (to closure) over AddNum/AddRange/AddSet sequences on the real set types against an explicit-membership model, every transition executed on the real code; exhaustive text enumeration against an independent ABNF recogniser",
   note="bounded endpoint alphabet {1,2,3,4,6,M-2,M-1,M,*}; probe universe {1..8,M-3..M}; Nums() only for static cardinality <= 10^4, in a resource-limited worker",
   technique="explicit-state model checking (BFS over operation sequences on the real code vs reference model) + bounded-exhaustive input enumeration"),
 "C16": dict(level=EX, design="DESIGN.md §4 C16",
   text="bounded-exhaustive enumeration of all encoder inputs (<=5/6 runes over 15 runes) and decoder inputs (<=5/7 bytes over 16 symbols + UTF-16 unit families) against an independent RFC 3501 codec, and of every (src chunk, dst size) driving of the streaming transformer",
   note="alphabets chosen per branch of the codec; RFC-silent inputs only safety-checked",
   technique="bounded-exhaustive enumeration of inputs and of environment answers (buffer chunkings) on the real code vs reference codec"),
 "C17": dict(level=EX, design="DESIGN.md §4 C17",
   text="server: {TLSConfig nil,set} x {InsecureAuth} x 9 plaintext suffixes after 'a STARTTLS' delivered in EVERY segmentation into <=3/4 (5) network writes (one segment per server Read, which fixes what the bufio.Reader holds at the switch), followed by nothing or a genuine TLS handshake + LOGIN inside TLS; oracle: after the OK line only TLS records are ever written, no backend call stems from the suffix, handshake fails unless the suffix is empty, credentials policy table (540 cases); client: NewStartTLS against a scripted peer x greeting x completion line x injected responses x every segmentation x {plaintext, close, junk record, genuine TLS server}: no capability, update or completion from post-boundary plaintext, PREAUTH refused, plaintext-era capabilities do not survive",
   note="real crypto/tls over the in-memory network; free-running (outcomes are fixed by segment boundaries); watchdog = engine error",
   technique="bounded-exhaustive enumeration of inputs and of environment answers (all segmentations of the byte stream) on the real code"),
 "C18": dict(level=MC, design="DESIGN.md §4 C18",
   text="legality: 6 capability configurations x enablement x 13 commands x a 21-string alphabet in every string position (+ all pairs) and APPEND sizes around 4096, bytes written by the real client judged by an independent scanner ({n+} only when advertised, no CR/LF/NUL in quotes, 8-bit in quotes only with IMAP4rev2 or enabled UTF8=ACCEPT, literal sizes match); synchronisation: 16 scenarios with synchronising literals granted or refused by the server, every schedule of server vs client threads within delay bound 2 (3) / preemption bound 1 (2), write hooks on the connection flag any byte written while a continuation is awaited and any refused payload",
   note="scripted peer; legality judged against advertised/enabled capabilities; CHARSET not judged",
   technique="bounded-exhaustive input x configuration enumeration + stateless model checking (bounded schedule exploration) of the real client under a controlled scheduler"),
 "C19": dict(level=EX, design="DESIGN.md §4 C19",
   text="every ordered pair (and basic triple) of criteria operands over every field incl. unset, NOT, OR, conjunction records: And must match exactly the intersection on a field-separating message universe and must not mutate its operand; every sequence of <=3/4 SEARCH keys (40-key alphabet) sent to a real server connection must hand the backend criteria selecting exactly the messages that satisfy every key",
   note="independent matcher written from RFC 9051 §6.4.4; day-granular dates; recording stub backend; in-memory connection",
   technique="bounded-exhaustive enumeration of operand pairs/triples and of key sequences on the real code vs reference matcher"),
 "C20": dict(level=EX, design="DESIGN.md §4 C20",
   text="every (name, pattern, reference, delimiter) up to length 5/6 over {a,b,/,.,*,%} incl. non-ASCII delimiters, MatchList vs an anchored regular expression",
   note="reference resolution rule taken from the package's own table test; regexp package trusted",
   technique="bounded-exhaustive input enumeration on the real matcher vs regexp reference"),
}
# additions of the later rounds (appended to the level text so the original wording stays)
extra = {
 "C01": "; + 1500 long mailbox names whose UTF-7 form crosses the transformer's 128/256/512-byte buffers",
 "C04": "; + backend answers to APPEND (refused unread / partly read, accepted partly read), announced literal sizes 2^32, 2^32+1, 2^33+4096, 2^62, 2^63-1",
 "C05": "; + 'UID' in front of commands that have no UID form (85 events)",
 "C06": "; + end-of-run census of every goroutine with an imapserver frame (culprit case attributed by serial re-runs)",
 "C08": "; + sequence numbers in ESEARCH MIN/MAX",
 "C09": "; + the life cycle of the saved search result '$' (SAVE incl. empty results, refused SAVE, UID EXPUNGE $, EXPUNGE, SELECT)",
 "C10": "; + 44 transcripts incl. MOVE fallback with more STORE/EXPUNGE responses than the internal channels buffer and two-literal LOGIN failed early; success after a write error without a delivered completion is a violation; delay-bounded second pass",
 "C11": "; + buffered literals announcing 2^62, 2^63-1, 16 GiB; growth families of pairwise distinct elements; quadratic-CPU rule (>= 24x over three doublings ending at >= 2 s)",
 "C12": "; 32 command kinds incl. SORT, THREAD, QUOTA, METADATA, NAMESPACE, a second ESEARCH answered in any order, FETCH data in descending order, STATUS names differing by case only; start state not authenticated with every command refused",
 "C13": "; + connection lost inside a tagged completion line; exhaustive data-race pass under the controlled scheduler (-race build, race-transparent baton); supplementary free-running -race pass over honest STARTTLS upgrades (crypto/tls cannot run under the scheduler)",
 "C14": "; + lock-hygiene family: 29 early-return / special-marker commands each followed by and racing with a LIST-STATUS probe; exhaustive data-race pass (-race build)",
 "C16": "; mailbox names through the wire codec with and without QuotedUTF8",
 "C18": "; 24 commands (every client command taking caller strings incl. QUOTA/METADATA/SORT/THREAD/MOVE/CONDSTORE entry name), enablement incl. declined, UNAUTHENTICATE after ENABLE, capabilities withdrawn after LOGIN",
 "C19": "; the saved-search marker '$' as operand and key; part D: the in-memory backend's matcher (UserSession.Search) on And results, NOT/OR sub-trees and mixed forms over a 192/384-message mailbox",
 "C20": "; references ending in two delimiters",
}
for k, v in extra.items():
    checks[k]["text"] += v
checks["C11"]["note"] = checks["C11"]["note"].replace("CPU-time growth only reported at >= 6x per doubling", "CPU-time growth reported at >= 6x per doubling or >= 24x over three doublings ending at >= 2 s of CPU")
checks["C13"]["note"] += "; the STARTTLS race pass is sampling (supplementary), everything else exhaustive within the stated bounds"
checks["C14"]["note"] += "; a client that stops reading is outside the environment model"

m = {
 "version": 1,
 "setup_cmd": "/verif/setup.sh",
 "hooks": {
  "guard": "verif",
  "enable": "no committed hooks: checks generate instrumentation from /repo's working tree and inject it with go build -overlay (see DESIGN.md §3.2)",
  "baseline_off_cmd": "cd /repo && go test -vet=off -count=1 ./...",
  "source_commits": [],
  "add_only": True
 },
 "engines": [
  {"name": "enum+bfs", "path": "/verif/harness", "serves_properties": sorted(checks), "kind_free_text": "bounded-exhaustive enumeration and explicit-state BFS over the real code against plain-Go reference models; controlled scheduler for goroutine interleavings"}
 ],
 "checks": [],
 "not_applicable": [],
 "notes": "see DESIGN.md; known_findings.txt lists fixed defects and known findings"
}
for pid in sorted(checks):
    c = checks[pid]
    m["checks"].append({
      "property_id": pid,
      "quick_cmd": "./check %s --tier quick" % pid,
      "thorough_cmd": "./check %s --tier thorough" % pid,
      "evidence_file": "/verif/evidence/%s.json" % pid,
      "replay_cmd_template": "./check %s --replay {path}" % pid,
      "engine": "enum+bfs",
      "level_claimed": {"category": c["level"], "text": c["text"], "design_ref": c["design"]},
      "level_note": c["note"],
      "technique": c["technique"],
    })
for i in range(1, 21):
    pid = "C%02d" % i
    if pid not in checks:
        m["not_applicable"].append({"property_id": pid, "reason": "check not built yet (in progress; model checking applies per DESIGN.md)"})
json.dump(m, open("/verif/MANIFEST.json", "w"), indent=1, ensure_ascii=False)
print("wrote MANIFEST with", len(checks), "checks")
