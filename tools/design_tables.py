#!/usr/bin/env python3
# Regenerates the marked regions of DESIGN.md from known_findings.txt and seeded/*/meta.json.
import re,subprocess,json,glob
p='/verif/DESIGN.md'
s=open(p).read()
# findings
rows=[]
for l in open('/verif/known_findings.txt'):
    l=l.strip()
    m=re.match(r'(fixed|known): property=(C\d+) (?:key=(\S+) )?(.*)',l)
    if not m: continue
    kind,prop,key,rest=m.groups()
    if kind=='fixed':
        commit,desc=rest.split(' ',1)
        rows.append(f'| {prop} | fixed in `{commit}` | {desc} |')
    else:
        rows.append(f'| {prop} | **known finding** (key `{key}`) | {rest} |')
rows.sort()
tab='| property | disposition | what failed |\n|---|---|---|\n'+'\n'.join(rows)
s=re.sub(r'<!-- FINDINGS-BEGIN -->.*?<!-- FINDINGS-END -->','<!-- FINDINGS-BEGIN -->\n'+tab.replace('\\','\\\\')+'\n<!-- FINDINGS-END -->',s,flags=re.S)
seeds=subprocess.run(['python3','/verif/tools/seed_table.py'],capture_output=True,text=True).stdout
s=re.sub(r'<!-- SEEDS-BEGIN -->.*?<!-- SEEDS-END -->','<!-- SEEDS-BEGIN -->\n'+seeds.replace('\\','\\\\')+'<!-- SEEDS-END -->',s,flags=re.S)
open(p,'w').write(s)
print("findings rows:",len(rows))
