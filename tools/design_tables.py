#!/usr/bin/env python3
# Regenerates the marked regions of DESIGN.md from known_findings.txt and seeded/*/meta.json.
import re,subprocess,json,glob
p='/verif/DESIGN.md'
s=open(p).read()
# findings
rows=[]
for l in open('/verif/known_findings.txt'):
    l=l.strip()
    m=re.match(r'(fixed|known): property=(C\d+) (?:key=(\S+) )?(.*)',l)
    if not m: continue
    kind,prop,key,rest=m.groups()
    if kind=='fixed':
        commit,desc=rest.split(' ',1)
        rows.append(f'| {prop} | fixed in `{commit}` | {desc} |')
    else:
        rows.append(f'| {prop} | **known finding** (key `{key}`) | {rest} |')
rows.sort()
tab='| property | disposition | what failed |\n|---|---|---|\n'+'\n'.join(rows)
s=re.sub(r'<!-- FINDINGS-BEGIN -->.*?<!-- FINDINGS-END -->','<!-- FINDINGS-BEGIN -->\n'+tab.replace('\\','\\\\')+'\n<!-- FINDINGS-END -->',s,flags=re.S)
seeds=subprocess.run(['python3','/verif/tools/seed_table.py'],capture_output=True,text=True).stdout
s=re.sub(r'<!-- SEEDS-BEGIN -->.*?<!-- SEEDS-END -->','<!-- SEEDS-BEGIN -->\n'+seeds.replace('\\','\\\\')+'<!-- SEEDS-END -->',s,flags=re.S)

# status table (from the evidence files of the last run of each check)
WHAT={
 'C01':'round trips Encoder->Decoder: strings over a 16-symbol alphabet + threshold family, mailbox names (short + long across the UTF-7 buffer sizes), flags, numbers, number sets, list trees; 16 configurations',
 'C02':'client commands through a real client/server pair into a recording backend, 7 configurations',
 'C03':'backend-supplied response data through a real server into the real client, 3 configurations',
 'C04':'raw command streams: 15 templates x argument encodings x literal sizes (incl. 2^32-class, 2^62, 2^63-1) x payload classes x anomalies x backend answers to APPEND, pairs/triples, AUTHENTICATE, IDLE, rejected lines',
 'C05':'explicit-state BFS of the real server: 12 configurations x 4 variants x 85 events to closure + un-merged histories',
 'C06':'every byte offset x {EOF, reset} of 27 transcripts, write faults, mutations, raw strings, nesting families, the C04 stream family; end-of-run goroutine census',
 'C07':'BFS on the real tracker behind a real Conn: closed search + bounded depth + un-merged histories',
 'C08':'BFS over 2 sessions on server + in-memory backend, views compared after every step',
 'C09':'Part A: BFS over command histories of 2 sessions vs the reference mailbox model; Part B: SEARCH / FETCH section / LIST query spaces and the saved-search life cycle',
 'C10':'fault scenarios (transcripts x every byte offset x 4 fault kinds, write faults) x schedules of the instrumented client; delay-bounded second pass',
 'C11':'grammar-derived byte streams x 6 variants in resource-limited worker processes; growth families',
 'C12':'server behaviours (pipelines of 32 command kinds x outcomes x response interleavings; unilateral sequences), client state compared after every line',
 'C13':'concurrent-caller scenarios x {preemption, delay} bounding + exhaustive data-race pass',
 'C14':'2-3 sessions on server + in-memory backend: all ordered command pairs, lock-hygiene family, histories x {delay, preemption} bounding + data-race pass',
 'C15':'BFS over set operations to closure + un-merged sequences + texts',
 'C16':'every string up to the bound over derived alphabets, every chunking of source and destination',
 'C17':'segmentations of the STARTTLS boundary with real crypto/tls on both sides, policy matrix',
 'C18':'legality: capability x enablement x 24 commands x 21-string alphabet; synchronisation scenarios x schedules',
 'C19':'And pairs/triples vs reference matcher; SEARCH key sequences through the real parser; the in-memory backend matcher on combined criteria',
 'C20':'every (name, pattern, reference, delimiter) up to the length bound vs compiled regexp',
}
import os
fixed={};known={}
for l in open('/verif/known_findings.txt'):
    m=re.match(r'(fixed|known): property=(C\d+)',l)
    if m: (fixed if m.group(1)=='fixed' else known).setdefault(m.group(2),0); (fixed if m.group(1)=='fixed' else known)[m.group(2)]+=1
rows=[]
for i in range(1,21):
    pid='C%02d'%i
    try: e=json.load(open(f'/verif/evidence/{pid}.json'))
    except Exception: continue
    c=e.get('coverage',{})
    def n(k):
        v=c.get(k,0)
        return f'{v:,}' if isinstance(v,int) else str(v)
    fk=f"{fixed.get(pid,0)} fixed"+(f", {known[pid]} known" if pid in known else '')
    rows.append(f"| {pid} | {e.get('level','')} | {WHAT[pid]} | {e.get('tier','')} | {n('evaluations')} | {n('states')} / {n('transitions')} | {c.get('exhaustive')} | {e.get('wall_s',0):.0f} | {fk} |")
tab='| id | level | what is enumerated | tier of the evidence file | evaluations | states / transitions | all bounds completed | wall s | defects |\n|---|---|---|---|---|---|---|---|---|\n'+'\n'.join(rows)
s=re.sub(r'<!-- STATUS-BEGIN -->.*?<!-- STATUS-END -->',lambda m:'<!-- STATUS-BEGIN -->\n'+tab+'\n<!-- STATUS-END -->',s,flags=re.S)
open(p,'w').write(s)
print("rows:",len(rows))
