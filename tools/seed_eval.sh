#!/bin/bash
# usage: tools/seed_eval.sh <source-dir with patch.diff, zz_seed_test.go, NOTE.md> <seed-id> <demo-pkg-dir> <check-id> [more check ids]
# 1. confirms the seeded change in a scratch worktree of /repo (outside /repo and /verif): applies, builds,
#    pinned suite passes, demonstration fails with it and passes without it; 2. stores it under
#    /verif/seeded/<seed-id>/; 3. runs the named checks against it through tools/mutant.sh (build overlay;
#    /repo is never touched) and records everything in meta.json.
set -u
src="$1"; sid="$2"; pkg="$3"; shift 3
export GOFLAGS=-mod=mod GOPROXY=off GOSUMDB=off GOTOOLCHAIN=local
dst=/verif/seeded/$sid
mkdir -p "$dst"
cp "$src/patch.diff" "$dst/patch.diff"
for f in "$src"/zz_seed*_test.go; do cp "$f" "$dst/zz_seed_test.go"; done 2>/dev/null
cp "$src/NOTE.md" "$dst/NOTE.md" 2>/dev/null
wt=$(mktemp -d /tmp/seedchk.XXXXXX); rmdir "$wt"
git -C /repo worktree add --detach "$wt" HEAD -q || exit 3
trap 'git -C /repo worktree remove --force "$wt" 2>/dev/null; rm -rf "$wt"' EXIT
cd "$wt"
applies=false; builds=false; suite=false; demo_fails_with=false; demo_passes_without=false
if git apply "$dst/patch.diff" 2>/dev/null; then applies=true; fi
if $applies && go build ./... 2>/dev/null; then builds=true; fi
if $builds && go test -vet=off -count=1 -timeout 180s ./... >/tmp/seed_suite.$$ 2>&1; then suite=true; fi
testname=$(grep -o 'func TestSeed[A-Za-z0-9_]*' "$dst/zz_seed_test.go" | head -1 | sed 's/func //')
cp "$dst/zz_seed_test.go" "$pkg/zz_seed_test.go"
if ! go test -vet=off -count=1 -timeout 180s "./$pkg" -run 'TestSeed' >/tmp/seed_demo_with.$$ 2>&1; then demo_fails_with=true; fi
git checkout -q -- . ; cp "$dst/zz_seed_test.go" "$pkg/zz_seed_test.go"
if go test -vet=off -count=1 -timeout 180s "./$pkg" -run 'TestSeed' >/tmp/seed_demo_without.$$ 2>&1; then demo_passes_without=true; fi
cd /verif
results=""
for chk in "$@"; do
  out=$(timeout 2400 tools/mutant.sh "$dst/patch.diff" ./check "$chk" 2>&1)
  viol=$(echo "$out" | grep -c '^VIOLATION')
  keys=$(echo "$out" | grep '^VIOLATION' | sed 's/.*key=//' | head -5 | tr '\n' ';' | sed 's/"/\\"/g')
  rc=$(echo "$out" | grep -o 'exit=[0-9]*' | tail -1)
  results="$results{\"check\":\"$chk\",\"violations\":$viol,\"exit\":\"$rc\",\"keys\":\"$keys\"},"
  echo "$sid $chk: violations=$viol $rc $keys"
done
cat > "$dst/meta.json" <<META
{
 "seed_id": "$sid",
 "breaks_property": "$(echo $sid | cut -d- -f1)",
 "source": "independent sub-agent given only the property text and a scratch worktree",
 "needs_to_manifest": "see NOTE.md",
 "confirmed": {"patch_applies": $applies, "builds": $builds, "pinned_suite_passes": $suite, "demo_fails_with_patch": $demo_fails_with, "demo_passes_without_patch": $demo_passes_without, "demo": "go test ./$pkg -run TestSeed (zz_seed_test.go placed in $pkg)"},
 "checks_run": [${results%,}],
 "repo_head": "$(git -C /repo rev-parse --short HEAD)"
}
META
rm -f /tmp/seed_suite.$$ /tmp/seed_demo_with.$$ /tmp/seed_demo_without.$$
cat "$dst/meta.json" | head -12
