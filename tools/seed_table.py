#!/usr/bin/env python3
# prints a markdown table of /verif/seeded/*/meta.json (used for DESIGN.md §0.6)
import json,glob,os
rows=[]
for f in sorted(glob.glob('/verif/seeded/*/meta.json')):
    d=json.load(open(f)); c=d['confirmed']
    conf='yes' if all(v is True for k,v in c.items() if k!='demo') else 'NO: '+','.join(k for k,v in c.items() if v is False)
    caught=[x['check'] for x in d['checks_run'] if x['violations']>0]
    missed=[x['check'] for x in d['checks_run'] if x['violations']==0]
    note=d.get('note','')
    rows.append((d['seed_id'],conf,', '.join(caught) or '-',', '.join(missed) or '-',note))
print('| seed | confirmed (applies, builds, suite passes, demo fails with / passes without) | caught by | run but silent | note |')
print('|---|---|---|---|---|')
for r in rows: print('| '+' | '.join(r)+' |')
