#!/usr/bin/env python3
# validate MANIFEST.json and evidence files against the schemas
import json,sys,glob
try:
    import jsonschema
except ImportError:
    print("jsonschema missing; run with python3-vt"); sys.exit(2)
ok=True
m=json.load(open('/verif/MANIFEST.json'))
try:
    jsonschema.validate(m,json.load(open('/root/.vp/MANIFEST.schema.json')))
    print("MANIFEST ok, checks:",[c['property_id'] for c in m['checks']])
except Exception as e:
    ok=False; print("MANIFEST INVALID",e)
es=json.load(open('/root/.vp/EVIDENCE.schema.json'))
for f in sorted(glob.glob('/verif/evidence/*.json')):
    try:
        jsonschema.validate(json.load(open(f)),es); print("ok",f)
    except Exception as e:
        ok=False; print("INVALID",f,str(e)[:300])
sys.exit(0 if ok else 1)
