//go:build race

package vsched

import (
	"runtime"
	"unsafe"
)

// RaceEnabled reports whether the binary was built with -race.
const RaceEnabled = true

//go:norace
func raceAcquire(p unsafe.Pointer) { runtime.RaceAcquire(p) }

//go:norace
func raceRelease(p unsafe.Pointer) { runtime.RaceRelease(p) }

//go:norace
func raceReleaseMerge(p unsafe.Pointer) { runtime.RaceReleaseMerge(p) }
