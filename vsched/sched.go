// Package vsched is a controlled cooperative scheduler injected into go-imap through a build
// overlay (virtual package github.com/emersion/go-imap/v2/internal/vsched). Instrumented code
// (rewritten by /verif/tools/vrewrite) calls into it before every lock, channel operation,
// select, goroutine spawn and timer; harness code uses the same primitives for its in-memory
// network. Exactly one thread runs at a time; at every scheduling point the explorer decides
// who continues. Blocking is visible: "no enabled thread" is a deadlock verdict, decided
// without any clock.
package vsched

import (
	"fmt"
	"reflect"
	"runtime"
	"runtime/debug"
	"sort"
	"strings"
	gosync "sync"
	"sync/atomic"
	"time"
	"unsafe"
)

// Choice is one recorded choice point of an execution.
type Choice struct {
	N              int    // number of alternatives
	Chosen         int    // index taken
	RunningEnabled bool   // scheduling choice where the running thread could have continued
	Kind           string // "sched", "data", "select"
	Cost           int    // deviation cost of taking a non-zero alternative
	Label          string
}

type thread struct {
	id       int
	name     string
	wake     chan struct{}
	run      int32 // race builds: plain word the parked goroutine spins on (invisible to the race detector)
	pred     func() bool
	op       string
	pc       uintptr
	finished bool
	started  bool
}

// Sched is the state of one execution.
type Sched struct {
	threads   []*thread
	cur       *thread
	prefix    []int
	Trace     []Choice
	steps     int
	Horizon   int
	aborting  int32
	done      chan struct{}
	Verdict   string // "ok", "deadlock", "horizon", "panic"
	Panics    []string
	Blocked   []string        // description of blocked threads at a deadlock
	closed    []reflect.Value // closed channels (kept alive so that their addresses are not reused)
	wg        gosync.WaitGroup
	Log       []string
	LogOn     bool
	EngineErr string
	timers    []*Timer
	objSeq    int
	noted     map[interface{}]int // insertion sequence of pointer keys of instrumented maps (see Note)
}

var cur atomic.Pointer[Sched]

// Active reports whether a controlled execution is in progress.
//
//go:norace
func Active() bool { s := cur.Load(); return s != nil && atomic.LoadInt32(&s.aborting) == 0 }

//go:norace
func get() *Sched {
	s := cur.Load()
	if s == nil {
		return nil
	}
	if atomic.LoadInt32(&s.aborting) != 0 {
		// the execution is being torn down: unwind this goroutine (deferred calls still run;
		// recover() does not intercept Goexit)
		runtime.Goexit()
	}
	return s
}

// Result of one execution.
type Result struct {
	Trace     []Choice
	Verdict   string
	Panics    []string
	Blocked   []string
	Steps     int
	Log       []string
	EngineErr string
}

// Run executes body as thread 0 under the controlled scheduler, replaying prefix and then
// taking alternative 0 everywhere. It returns when every thread has finished, or at a
// deadlock / horizon / panic (remaining threads are torn down).
//
//go:norace
func Run(prefix []int, horizon int, logOn bool, body func()) *Result {
	s := &Sched{prefix: prefix, Horizon: horizon, done: make(chan struct{}), LogOn: logOn}
	if !cur.CompareAndSwap(nil, s) {
		panic("vsched: nested Run")
	}
	t := s.newThread("main")
	s.cur = t
	t.started = true
	s.wg.Add(1)
	go s.threadMain(t, body, false)
	watchdog := time.NewTimer(120 * time.Second)
	select {
	case <-s.done:
		watchdog.Stop()
	case <-watchdog.C:
		// a native (un-instrumented) block: engine error, never a verdict
		s.EngineErr = "watchdog: execution did not finish within 120s (native block?)\n" + s.dump()
		cur.Store(nil)
		return s.result()
	}
	s.wg.Wait()
	cur.Store(nil)
	return s.result()
}

//go:norace
func (s *Sched) result() *Result {
	return &Result{Trace: s.Trace, Verdict: s.Verdict, Panics: s.Panics, Blocked: s.Blocked, Steps: s.steps, Log: s.Log, EngineErr: s.EngineErr}
}

//go:norace
func (s *Sched) newThread(name string) *thread {
	t := &thread{id: len(s.threads), name: name, wake: make(chan struct{}, 1)}
	s.threads = append(s.threads, t)
	return t
}

type abortSentinel struct{}

//go:norace
func (s *Sched) threadMain(t *thread, body func(), waitFirst bool) {
	defer s.wg.Done()
	if waitFirst {
		await(t)
		if atomic.LoadInt32(&s.aborting) != 0 {
			return
		}
	}
	normal := false
	defer func() {
		if normal {
			return
		}
		if r := recover(); r != nil {
			// a panic escaping a goroutine would crash the process in real life
			if atomic.LoadInt32(&s.aborting) == 0 {
				s.Panics = append(s.Panics, fmt.Sprintf("thread %d (%s): panic: %v\n%s", t.id, t.name, r, trimStack(debug.Stack())))
				s.exit(t)
			}
			return
		}
		// runtime.Goexit during teardown (or called by the body): if not aborting, treat as finish
		if atomic.LoadInt32(&s.aborting) == 0 {
			s.exit(t)
		}
	}()
	body()
	normal = true
	s.exit(t)
}

//go:norace
func trimStack(b []byte) string {
	lines := strings.Split(string(b), "\n")
	if len(lines) > 40 {
		lines = lines[:40]
	}
	return strings.Join(lines, "\n")
}

// enabledThreads returns enabled threads in canonical order: the running thread first if it is
// still enabled, then ascending ids.
//
//go:norace
func (s *Sched) enabledThreads(running *thread) []*thread {
	var out []*thread
	if running != nil && !running.finished && (running.pred == nil || running.pred()) {
		out = append(out, running)
	}
	for _, t := range s.threads {
		if t == running || t.finished {
			continue
		}
		if t.pred == nil || t.pred() {
			out = append(out, t)
		}
	}
	return out
}

//go:norace
func (s *Sched) choose(n int, runningEnabled bool, kind string, cost int, label string) int {
	idx := 0
	pos := len(s.Trace)
	if pos < len(s.prefix) {
		idx = s.prefix[pos]
		if idx < 0 || idx >= n {
			s.EngineErr = fmt.Sprintf("replay divergence at choice %d: prefix wants %d of %d (%s %s)", pos, idx, n, kind, label)
			idx = 0
		}
	}
	s.Trace = append(s.Trace, Choice{N: n, Chosen: idx, RunningEnabled: runningEnabled, Kind: kind, Cost: cost, Label: label})
	return idx
}

// point parks the running thread at a scheduling point; pred tells when it may continue.
//
//go:norace
func (s *Sched) point(op string, pred func() bool) {
	t := s.cur
	t.op, t.pred = op, pred
	var pcs [1]uintptr
	runtime.Callers(3, pcs[:])
	t.pc = pcs[0]
	s.steps++
	if s.steps > s.Horizon {
		s.finish("horizon")
		runtime.Goexit()
	}
	en := s.enabledThreads(t)
	if len(en) == 0 {
		s.deadlock()
		runtime.Goexit()
	}
	next := en[0]
	if len(en) > 1 {
		next = en[s.choose(len(en), en[0] == t, "sched", 1, op)]
	}
	if s.LogOn {
		s.Log = append(s.Log, fmt.Sprintf("T%d %s -> run T%d", t.id, op, next.id))
	}
	if next != t {
		s.cur = next
		next.started = true
		signal(next)
		await(t)
		if atomic.LoadInt32(&s.aborting) != 0 {
			runtime.Goexit()
		}
	}
	t.pred = nil
	t.op = "running"
}

//go:norace
func (s *Sched) exit(t *thread) {
	t.finished = true
	if s.LogOn {
		s.Log = append(s.Log, fmt.Sprintf("T%d exit", t.id))
	}
	if len(s.Panics) > 0 {
		s.finish("panic")
		return
	}
	en := s.enabledThreads(nil)
	if len(en) == 0 {
		all := true
		for _, x := range s.threads {
			if !x.finished {
				all = false
			}
		}
		if all {
			s.finish("ok")
		} else {
			s.deadlock()
		}
		return
	}
	next := en[0]
	if len(en) > 1 {
		next = en[s.choose(len(en), false, "sched", 1, "exit")]
	}
	s.cur = next
	next.started = true
	signal(next)
}

//go:norace
func (s *Sched) deadlock() {
	for _, x := range s.threads {
		if !x.finished {
			s.Blocked = append(s.Blocked, fmt.Sprintf("T%d(%s) blocked in %s at %s", x.id, x.name, x.op, pcString(x.pc)))
		}
	}
	s.finish("deadlock")
}

//go:norace
func pcString(pc uintptr) string {
	if pc == 0 {
		return "?"
	}
	f := runtime.FuncForPC(pc)
	if f == nil {
		return "?"
	}
	file, line := f.FileLine(pc)
	if i := strings.LastIndex(file, "/"); i >= 0 {
		if j := strings.LastIndex(file[:i], "/"); j >= 0 {
			file = file[j+1:]
		}
	}
	name := f.Name()
	if i := strings.LastIndex(name, "/"); i >= 0 {
		name = name[i+1:]
	}
	return fmt.Sprintf("%s:%d (%s)", file, line, name)
}

//go:norace
func (s *Sched) dump() string {
	var sb strings.Builder
	for _, x := range s.threads {
		fmt.Fprintf(&sb, "T%d(%s) finished=%v op=%s at %s\n", x.id, x.name, x.finished, x.op, pcString(x.pc))
	}
	return sb.String()
}

// finish ends the execution: every parked thread is woken and unwinds with Goexit.
//
//go:norace
func (s *Sched) finish(verdict string) {
	if !atomic.CompareAndSwapInt32(&s.aborting, 0, 1) {
		return
	}
	s.Verdict = verdict
	for _, x := range s.threads {
		if !x.finished && x != s.cur {
			signal(x)
		}
	}
	// threads that never started are parked on wake too (handled above); the caller unwinds itself
	close(s.done)
}

// ---- API used by instrumented code and harnesses ----

// Go spawns a controlled thread.
//
//go:norace
func Go(name string, fn func()) {
	s := get()
	if s == nil {
		go fn()
		return
	}
	t := s.newThread(name)
	t.op = "start"
	s.wg.Add(1)
	go s.threadMain(t, fn, true)
	s.point("spawn "+name, nil)
}

// Yield is a plain scheduling point.
//
//go:norace
func Yield(label string) {
	if s := get(); s != nil {
		s.point("yield "+label, nil)
	}
}

// WaitUntil parks the running thread until pred holds (pred is evaluated only while no thread
// runs). Harness building block for fake connections.
//
//go:norace
func WaitUntil(op string, pred func() bool) {
	if s := get(); s != nil {
		s.point(op, pred)
		return
	}
	panic("vsched.WaitUntil outside a controlled execution")
}

// Choose returns a value in [0,n) decided by the explorer (alternative 0 by default; any other
// alternative costs `cost` deviations).
//
//go:norace
func Choose(n int, cost int, label string) int {
	s := get()
	if s == nil || n <= 1 {
		return 0
	}
	return s.choose(n, false, "data", cost, label)
}

// Logf adds a line to the execution log (when logging is on).
//
//go:norace
func Logf(format string, a ...interface{}) {
	if s := cur.Load(); s != nil && s.LogOn {
		s.Log = append(s.Log, fmt.Sprintf(format, a...))
	}
}

// ThreadID returns the id of the running thread (-1 outside an execution).
//
//go:norace
func ThreadID() int {
	if s := cur.Load(); s != nil && s.cur != nil {
		return s.cur.id
	}
	return -1
}

// ---- channels ----

//go:norace
func chanPtr(v reflect.Value) uintptr { return v.Pointer() }

//go:norace
func (s *Sched) isClosed(v reflect.Value) bool {
	p := chanPtr(v)
	for _, c := range s.closed {
		if chanPtr(c) == p {
			return true
		}
	}
	return false
}

//go:norace
func sendReady(s *Sched, v reflect.Value) bool {
	if !v.IsValid() || v.IsNil() {
		return false
	}
	return s.isClosed(v) || v.Len() < v.Cap()
}

//go:norace
func recvReady(s *Sched, v reflect.Value) bool {
	if !v.IsValid() || v.IsNil() {
		return false
	}
	return s.isClosed(v) || v.Len() > 0
}

// Send is called immediately before a native `ch <- v`; it returns when the native send cannot block.
//
//go:norace
func Send(ch interface{}) {
	s := get()
	if s == nil {
		return
	}
	v := reflect.ValueOf(ch)
	if v.IsValid() && !v.IsNil() && v.Cap() == 0 && !s.isClosed(v) {
		s.EngineErr = "unsupported: send on an unbuffered channel at " + callerString()
	}
	s.point("send", chanPred{s, v, true}.ok)
}

// Recv is called immediately before a native `<-ch`.
//
//go:norace
func Recv(ch interface{}) {
	s := get()
	if s == nil {
		return
	}
	v := reflect.ValueOf(ch)
	s.point("recv", chanPred{s, v, false}.ok)
}

// Close replaces the builtin close.
//
//go:norace
func Close(ch interface{}) {
	v := reflect.ValueOf(ch)
	s := get()
	if s == nil {
		v.Close()
		return
	}
	s.point("close", nil)
	if !s.isClosed(v) {
		s.closed = append(s.closed, v)
	}
	v.Close() // panics like the builtin on a closed or nil channel
}

// Case describes one communication clause of a select.
type Case struct {
	Send bool
	Ch   interface{}
}

//go:norace
func RecvCase(ch interface{}) Case { return Case{false, ch} }

//go:norace
func SendCase(ch interface{}) Case { return Case{true, ch} }

// Select decides which clause of a select runs: the index of a ready case, or -1 for default.
// The native operation of the returned case is then guaranteed not to block.
//
//go:norace
func Select(hasDefault bool, cases ...Case) int {
	s := get()
	if s == nil {
		panic("vsched.Select outside a controlled execution is not supported (free-running mode)")
	}
	vals := make([]reflect.Value, len(cases))
	for i, c := range cases {
		vals[i] = reflect.ValueOf(c.Ch)
	}
	ready := func() []int {
		var r []int
		for i, c := range cases {
			if c.Send && sendReady(s, vals[i]) || !c.Send && recvReady(s, vals[i]) {
				r = append(r, i)
			}
		}
		return r
	}
	s.point("select", func() bool { return hasDefault || len(ready()) > 0 })
	r := ready()
	if len(r) == 0 {
		return -1
	}
	if len(r) == 1 {
		return r[0]
	}
	return r[s.choose(len(r), false, "select", 0, "select")]
}

//go:norace
func callerString() string {
	var pcs [1]uintptr
	runtime.Callers(3, pcs[:])
	return pcString(pcs[0])
}

// ---- sync shim (the rewriter maps import "sync" to this package) ----

// Mutex is a drop-in replacement for sync.Mutex.
type Mutex struct {
	real gosync.Mutex
	held bool
	hb   int32 // address handed to the race detector as this lock's synchronisation variable
	Name string
}

//go:norace
func (m *Mutex) Lock() {
	s := get()
	if s == nil {
		m.real.Lock()
		return
	}
	s.point("lock", m.free)
	m.held = true
	raceAcquire(unsafe.Pointer(&m.hb))
}

//go:norace
func (m *Mutex) TryLock() bool {
	s := get()
	if s == nil {
		return m.real.TryLock()
	}
	s.point("trylock", nil)
	if m.held {
		return false
	}
	m.held = true
	raceAcquire(unsafe.Pointer(&m.hb))
	return true
}

//go:norace
func (m *Mutex) Unlock() {
	s := cur.Load()
	if s == nil {
		m.real.Unlock()
		return
	}
	if atomic.LoadInt32(&s.aborting) != 0 {
		m.held = false
		return
	}
	if !m.held {
		panic("sync: unlock of unlocked mutex")
	}
	raceRelease(unsafe.Pointer(&m.hb))
	m.held = false
	if UnlockYields {
		// a point right after the release: code that runs between an Unlock and the next
		// synchronisation (publish-then-initialise windows) becomes interleavable
		s.point("unlocked", nil)
	}
}

// UnlockYields makes every Mutex.Unlock a scheduling point (after the release).
var UnlockYields = true

// RWMutex: writers and readers modelled exactly.
type RWMutex struct {
	real    gosync.RWMutex
	writer  bool
	readers int
	waiting int // writers blocked in Lock
	hb      int32
}

//go:norace
func (m *RWMutex) Lock() {
	s := get()
	if s == nil {
		m.real.Lock()
		return
	}
	// as in sync.RWMutex, a blocked Lock excludes new readers (which is what makes a recursive
	// read lock deadlock-prone): the waiting writer is visible to RLock
	m.waiting++
	s.point("wlock", m.wfree)
	m.waiting--
	m.writer = true
	raceAcquire(unsafe.Pointer(&m.hb))
}

//go:norace
func (m *RWMutex) Unlock() {
	if s := cur.Load(); s == nil {
		m.real.Unlock()
		return
	}
	raceRelease(unsafe.Pointer(&m.hb))
	m.writer = false
}

//go:norace
func (m *RWMutex) RLock() {
	s := get()
	if s == nil {
		m.real.RLock()
		return
	}
	s.point("rlock", m.rfree)
	m.readers++
	raceAcquire(unsafe.Pointer(&m.hb))
}

//go:norace
func (m *RWMutex) RUnlock() {
	if s := cur.Load(); s == nil {
		m.real.RUnlock()
		return
	}
	raceReleaseMerge(unsafe.Pointer(&m.hb))
	m.readers--
}

// WaitGroup is a drop-in replacement for sync.WaitGroup.
type WaitGroup struct {
	real gosync.WaitGroup
	n    int
	hb   int32
}

//go:norace
func (w *WaitGroup) Add(d int) {
	if s := cur.Load(); s == nil {
		w.real.Add(d)
		return
	}
	if d < 0 {
		raceReleaseMerge(unsafe.Pointer(&w.hb))
	}
	w.n += d
}

//go:norace
func (w *WaitGroup) Done() { w.Add(-1) }

//go:norace
func (w *WaitGroup) Wait() {
	s := get()
	if s == nil {
		w.real.Wait()
		return
	}
	s.point("wg.wait", w.zero)
	raceAcquire(unsafe.Pointer(&w.hb))
}

// Cond is a drop-in replacement for sync.Cond. Under the scheduler Signal wakes every waiter
// (callers of Wait must re-check their condition in a loop anyway), so every wake-up order the
// real primitive allows is explored and a few it does not are added: an over-approximation that
// cannot hide a behaviour of the real code.
type Cond struct {
	L    Locker
	real *gosync.Cond
	gen  uint64
	hb   int32
}

func NewCond(l Locker) *Cond { return &Cond{L: l, real: gosync.NewCond(l)} }

type condWait struct {
	c *Cond
	g uint64
}

//go:norace
func (w condWait) ok() bool { return w.c.gen != w.g }

//go:norace
func (c *Cond) Wait() {
	s := get()
	if s == nil {
		c.real.Wait()
		return
	}
	w := condWait{c, c.gen}
	c.L.Unlock()
	s.point("cond.wait", w.ok)
	raceAcquire(unsafe.Pointer(&c.hb))
	c.L.Lock()
}

//go:norace
func (c *Cond) Signal() { c.Broadcast() }

//go:norace
func (c *Cond) Broadcast() {
	if s := cur.Load(); s == nil {
		c.real.Broadcast()
		return
	}
	raceRelease(unsafe.Pointer(&c.hb))
	c.gen++
}

type Once = gosync.Once
type Pool = gosync.Pool
type Map = gosync.Map
type Locker = gosync.Locker

// ---- timers ----

// Timer replaces time.Timer: it fires only when the harness says so.
type Timer struct {
	C      chan time.Time
	active bool
	Label  string
	real   *time.Timer
	fn     func() // AfterFunc: run in a new thread when the timer fires
}

// After replaces time.After: the channel of a virtual timer.
func After(d time.Duration) <-chan time.Time { return NewTimer(d).C }

// AfterFunc replaces time.AfterFunc: f runs in its own thread when the harness fires the timer.
//
//go:norace
func AfterFunc(d time.Duration, f func()) *Timer {
	s := get()
	if s == nil {
		return &Timer{C: make(chan time.Time, 1), real: time.AfterFunc(d, f)}
	}
	t := &Timer{C: make(chan time.Time, 1), active: true, fn: f}
	s.timers = append(s.timers, t)
	return t
}

//go:norace
func NewTimer(d time.Duration) *Timer {
	s := get()
	if s == nil {
		rt := time.NewTimer(d)
		t := &Timer{C: make(chan time.Time, 1), real: rt}
		go func() {
			v, ok := <-rt.C
			if ok {
				t.C <- v
			}
		}()
		return t
	}
	t := &Timer{C: make(chan time.Time, 1), active: true}
	s.timers = append(s.timers, t)
	return t
}

//go:norace
func (t *Timer) Stop() bool {
	if t.real != nil {
		return t.real.Stop()
	}
	was := t.active
	t.active = false
	return was
}

//go:norace
func (t *Timer) Reset(d time.Duration) bool {
	if t.real != nil {
		return t.real.Reset(d)
	}
	was := t.active
	t.active = true
	return was
}

// FireTimers fires every active virtual timer (harness environment event); returns how many fired.
//
//go:norace
func FireTimers() int {
	s := get()
	if s == nil {
		return 0
	}
	n := 0
	for _, t := range s.timers {
		if t.active {
			t.active = false
			if t.fn != nil {
				Go("time.AfterFunc", t.fn)
				n++
				continue
			}
			select {
			case t.C <- time.Time{}:
				n++
			default:
			}
		}
	}
	return n
}

// ActiveTimers reports the number of armed virtual timers.
//
//go:norace
func ActiveTimers() int {
	s := cur.Load()
	if s == nil {
		return 0
	}
	n := 0
	for _, t := range s.timers {
		if t.active {
			n++
		}
	}
	return n
}

// Controlled is what rewritten select statements ask: true inside a controlled execution, false
// in free-running mode; during teardown it unwinds the goroutine instead of returning.
//
//go:norace
func Controlled() bool { return get() != nil }

// signal / await hand the baton over. In race builds the hand-off must be invisible to the race
// detector (a channel or atomic hand-off would be a happens-before edge between consecutive
// threads and hide every race): the parked goroutine spins on a plain word in uninstrumented
// code and yields to the Go scheduler in between.
//
//go:norace
func signal(t *thread) {
	if RaceEnabled {
		t.run = 1
		return
	}
	select {
	case t.wake <- struct{}{}:
	default:
	}
}

//go:norace
func await(t *thread) {
	if RaceEnabled {
		for t.run == 0 {
			runtime.Gosched()
		}
		t.run = 0
		return
	}
	<-t.wake
}

// Predicates are method values of uninstrumented methods rather than closures: a closure that is
// stored and called later is compiled as an ordinary (race-instrumented) function even inside a
// //go:norace function, and its reads of shim state would be reported by the race detector.
type chanPred struct {
	s    *Sched
	v    reflect.Value
	send bool
}

//go:norace
func (p chanPred) ok() bool {
	if p.send {
		return sendReady(p.s, p.v)
	}
	return recvReady(p.s, p.v)
}

//go:norace
func (m *Mutex) free() bool { return !m.held }

//go:norace
func (m *RWMutex) wfree() bool { return !m.writer && m.readers == 0 }

// a reader is held back by a writer that is really blocked (there are readers in); a writer at its
// Lock call with the lock free is simply enabled
//
//go:norace
func (m *RWMutex) rfree() bool { return !m.writer && (m.waiting == 0 || m.readers == 0) }

//go:norace
func (w *WaitGroup) zero() bool { return w.n <= 0 }

// Keys returns the keys of m, sorted when the key type has a natural order (strings, integers);
// rewritten `for k, v := range x.mapField` loops iterate over it so that the iteration order is the
// same in every execution. Keys of other kinds (pointers, interfaces) keep Go's native order.
func Keys[K comparable, V any](m map[K]V) []K {
	keys := make([]K, 0, len(m))
	for k := range m {
		keys = append(keys, k)
	}
	if len(keys) < 2 {
		return keys
	}
	switch reflect.TypeOf(keys[0]).Kind() {
	case reflect.Ptr:
		// pointers have no natural order that is stable across executions: use the order in which the
		// keys were inserted into instrumented maps (the rewriter announces insertions with Note)
		seqs := make([]int, len(keys))
		known := true
		for i, k := range keys {
			seqs[i] = noteSeq(k)
			if seqs[i] < 0 {
				known = false
			}
		}
		if known {
			idx := make([]int, len(keys))
			for i := range idx {
				idx[i] = i
			}
			sort.Slice(idx, func(a, b int) bool { return seqs[idx[a]] < seqs[idx[b]] })
			out := make([]K, len(keys))
			for i, j := range idx {
				out[i] = keys[j]
			}
			return out
		}
	case reflect.String:
		sort.Slice(keys, func(i, j int) bool { return reflect.ValueOf(keys[i]).String() < reflect.ValueOf(keys[j]).String() })
	case reflect.Int, reflect.Int8, reflect.Int16, reflect.Int32, reflect.Int64:
		sort.Slice(keys, func(i, j int) bool { return reflect.ValueOf(keys[i]).Int() < reflect.ValueOf(keys[j]).Int() })
	case reflect.Uint, reflect.Uint8, reflect.Uint16, reflect.Uint32, reflect.Uint64, reflect.Uintptr:
		sort.Slice(keys, func(i, j int) bool { return reflect.ValueOf(keys[i]).Uint() < reflect.ValueOf(keys[j]).Uint() })
	}
	return keys
}

// Note records the insertion of a pointer key into an instrumented map (rewritten `x.f[k] = v`
// statements call it first), so that Keys can iterate in insertion order.
//
//go:norace
func Note(k interface{}) {
	s := cur.Load()
	if s == nil {
		return
	}
	if s.noted == nil {
		s.noted = map[interface{}]int{}
	}
	if _, ok := s.noted[k]; !ok {
		s.noted[k] = len(s.noted)
	}
}

//go:norace
func noteSeq(k interface{}) int {
	s := cur.Load()
	if s == nil || s.noted == nil {
		return -1
	}
	if n, ok := s.noted[k]; ok {
		return n
	}
	return -1
}
