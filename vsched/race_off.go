//go:build !race

package vsched

import "unsafe"

const RaceEnabled = false

func raceAcquire(p unsafe.Pointer)      {}
func raceRelease(p unsafe.Pointer)      {}
func raceReleaseMerge(p unsafe.Pointer) {}
