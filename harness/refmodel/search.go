// Package refmodel holds the plain-Go reference models the checks compare the real code with.
package refmodel

import (
	"strings"
	"sync"
	"time"

	imap "github.com/emersion/go-imap/v2"
)

// Msg is a synthetic message for the reference SEARCH matcher.
type Msg struct {
	Seq, UID uint32
	Internal time.Time
	Sent     *time.Time
	Size     int64
	Flags    []string            // any case
	Header   map[string][]string // lower-case key
	Body     string
	Text     string // headers + body as searched by TEXT
	ModSeq   uint64

	lowOnce  sync.Once
	lowBody  string
	lowText  string
	lowFlags []string
}

// low caches the lower-cased searchable fields (Match is called billions of times).
func (m *Msg) low() {
	m.lowOnce.Do(func() {
		m.lowBody = strings.ToLower(m.Body)
		m.lowText = strings.ToLower(m.Text)
		for _, f := range m.Flags {
			m.lowFlags = append(m.lowFlags, strings.ToLower(f))
		}
	})
}

func day(t time.Time) int {
	y, m, d := t.Date()
	return y*10000 + int(m)*100 + d
}

func (m *Msg) hasFlag(f imap.Flag) bool {
	m.low()
	lf := strings.ToLower(string(f))
	for _, x := range m.lowFlags {
		if x == lf {
			return true
		}
	}
	return false
}

// Match is written from RFC 9051 §6.4.4 over the struct fields (zero = unset).
func Match(c *imap.SearchCriteria, m *Msg) bool {
	for _, s := range c.SeqNum {
		if !s.Contains(m.Seq) {
			return false
		}
	}
	for _, s := range c.UID {
		if !s.Contains(imap.UID(m.UID)) {
			return false
		}
	}
	if !c.Since.IsZero() && day(m.Internal) < day(c.Since) {
		return false
	}
	if !c.Before.IsZero() && day(m.Internal) >= day(c.Before) {
		return false
	}
	if !c.SentSince.IsZero() && (m.Sent == nil || day(*m.Sent) < day(c.SentSince)) {
		return false
	}
	if !c.SentBefore.IsZero() && (m.Sent == nil || day(*m.Sent) >= day(c.SentBefore)) {
		return false
	}
	for _, h := range c.Header {
		vals, ok := m.Header[strings.ToLower(h.Key)]
		if !ok {
			return false
		}
		if h.Value == "" {
			continue
		}
		found := false
		for _, v := range vals {
			if strings.Contains(strings.ToLower(v), strings.ToLower(h.Value)) {
				found = true
			}
		}
		if !found {
			return false
		}
	}
	for _, s := range c.Body {
		if m.low(); !strings.Contains(m.lowBody, strings.ToLower(s)) {
			return false
		}
	}
	for _, s := range c.Text {
		if m.low(); !strings.Contains(m.lowText, strings.ToLower(s)) {
			return false
		}
	}
	for _, f := range c.Flag {
		if !m.hasFlag(f) {
			return false
		}
	}
	for _, f := range c.NotFlag {
		if m.hasFlag(f) {
			return false
		}
	}
	if c.Larger != 0 && !(m.Size > c.Larger) {
		return false
	}
	if c.Smaller != 0 && !(m.Size < c.Smaller) {
		return false
	}
	if c.ModSeq != nil && !(m.ModSeq >= c.ModSeq.ModSeq) {
		return false
	}
	for i := range c.Not {
		if Match(&c.Not[i], m) {
			return false
		}
	}
	for i := range c.Or {
		if !Match(&c.Or[i][0], m) && !Match(&c.Or[i][1], m) {
			return false
		}
	}
	return true
}

// CloneCriteria deep-copies a criteria tree.
func CloneCriteria(c *imap.SearchCriteria) *imap.SearchCriteria {
	out := *c
	out.SeqNum = nil
	for _, s := range c.SeqNum {
		out.SeqNum = append(out.SeqNum, append(imap.SeqSet{}, s...))
	}
	out.UID = nil
	for _, s := range c.UID {
		if imap.IsSearchRes(s) {
			out.UID = append(out.UID, s)
		} else {
			out.UID = append(out.UID, append(imap.UIDSet{}, s...))
		}
	}
	out.Header = append([]imap.SearchCriteriaHeaderField(nil), c.Header...)
	out.Body = append([]string(nil), c.Body...)
	out.Text = append([]string(nil), c.Text...)
	out.Flag = append([]imap.Flag(nil), c.Flag...)
	out.NotFlag = append([]imap.Flag(nil), c.NotFlag...)
	out.Not = nil
	for i := range c.Not {
		out.Not = append(out.Not, *CloneCriteria(&c.Not[i]))
	}
	out.Or = nil
	for i := range c.Or {
		out.Or = append(out.Or, [2]imap.SearchCriteria{*CloneCriteria(&c.Or[i][0]), *CloneCriteria(&c.Or[i][1])})
	}
	if c.ModSeq != nil {
		ms := *c.ModSeq
		out.ModSeq = &ms
	}
	return &out
}

// Day returns a UTC midnight n days after the fixed base date.
func Day(n int) time.Time {
	return time.Date(2024, time.March, 10, 0, 0, 0, 0, time.UTC).AddDate(0, 0, n)
}

// Universe is a message universe that distinguishes every criteria field.
func Universe() []*Msg {
	var out []*Msg
	flagSets := [][]string{nil, {"\\Seen"}, {"\\Seen", "kw"}, {"\\Recent"}, {"\\Recent", "\\Seen", "\\Answered", "\\Deleted", "\\Draft", "\\Flagged"}}
	type hb struct {
		hdr  map[string][]string
		body string
	}
	hdrs := []map[string][]string{
		{"subject": {"Hello World"}, "from": {"alice@example.org"}},
		{"subject": {"other"}, "x-spam": {""}, "to": {"bob@example.org"}, "cc": {"carol"}, "bcc": {"dave"}},
	}
	bodies := []string{"the quick brown fox", "lazy dog hello"}
	var hbs []hb
	for _, h := range hdrs {
		for _, b := range bodies {
			hbs = append(hbs, hb{h, b})
		}
	}
	for _, seq := range []uint32{1, 3, 5} {
		for _, uid := range []uint32{2, 9} {
			for _, iday := range []int{-1, 0, 1} {
				for _, sday := range []int{-1, 0, 1, 99} {
					for _, size := range []int64{10, 100, 1000} {
						for _, fl := range flagSets {
							for hi, h := range hbs {
								for _, ms := range []uint64{10, 100, 1000} {
									if ms == 100 && (hi != 0 || len(fl) != 0) {
										continue // thinning: the middle mod-sequence only on one slice
									}
									m := &Msg{Seq: seq, UID: uid, Internal: Day(iday).Add(13 * time.Hour), Size: size, Flags: fl, Header: h.hdr, Body: h.body, ModSeq: ms}
									if sday != 99 {
										t := Day(sday).Add(7 * time.Hour)
										m.Sent = &t
									}
									var sb strings.Builder
									for k, vs := range h.hdr {
										for _, v := range vs {
											sb.WriteString(k + ": " + v + "\r\n")
										}
									}
									m.Text = sb.String() + "\r\n" + h.body
									out = append(out, m)
								}
							}
						}
					}
				}
			}
		}
	}
	return out
}
