package vx

import (
	"bufio"
	"encoding/json"
	"fmt"
	"os"
	"os/exec"
	"runtime"
	"strconv"
	"strings"
	"sync"
)

// ItemResult is what a worker reports for one work item (one scenario instance).
type ItemResult struct {
	Index      int
	Name       string
	Executions int64
	Points     int64
	MaxChoices int
	Outcomes   map[string]int64
	Verdicts   map[string]int64
	Exhaustive bool
	BoundDone  int // largest deviation bound completed
	Horizon    int64
	EngineErr  string
	Failures   []FailureRec
	Extra      map[string]int64
}

type FailureRec struct {
	Key     string
	Item    int
	Name    string
	Choices []int
	Detail  string
	Blocked []string
	Panics  []string
}

// Sharded distributes items 0..n-1 over worker subprocesses (one controlled execution at a time
// per process; GOMAXPROCS=1 makes the baton hand-off a cheap goroutine switch). In a worker
// process it never returns.
func Sharded(n int, runItem func(i int) ItemResult) []ItemResult {
	if os.Getenv("VX_WORKER") != "" {
		in := bufio.NewScanner(os.Stdin)
		out := bufio.NewWriter(os.Stdout)
		for in.Scan() {
			i, err := strconv.Atoi(strings.TrimSpace(in.Text()))
			if err != nil {
				break
			}
			r := runItem(i)
			r.Index = i
			b, _ := json.Marshal(r)
			out.Write(b)
			out.WriteByte('\n')
			out.Flush()
			if r.EngineErr != "" {
				os.Exit(0) // a natively blocked or spinning goroutine may linger: do not reuse this process
			}
		}
		os.Exit(0)
	}
	workers := runtime.NumCPU()
	if v := os.Getenv("VX_WORKERS"); v != "" {
		workers, _ = strconv.Atoi(v)
	}
	if workers > n {
		workers = n
	}
	if workers < 1 {
		workers = 1
	}
	results := make([]ItemResult, n)
	var mu sync.Mutex
	var engineErr string
	next := 0
	take := func() int {
		mu.Lock()
		defer mu.Unlock()
		if next >= n || engineErr != "" {
			return -1
		}
		next++
		return next - 1
	}
	var wg sync.WaitGroup
	for w := 0; w < workers; w++ {
		wg.Add(1)
		go func(w int) {
			defer wg.Done()
			cmd := exec.Command(os.Args[0], os.Args[1:]...)
			cmd.Env = append(os.Environ(), "VX_WORKER=1", "GOMAXPROCS=1")
			stdin, _ := cmd.StdinPipe()
			stdout, _ := cmd.StdoutPipe()
			cmd.Stderr = os.Stderr
			if err := cmd.Start(); err != nil {
				mu.Lock()
				engineErr = err.Error()
				mu.Unlock()
				return
			}
			sc := bufio.NewScanner(stdout)
			sc.Buffer(make([]byte, 1<<20), 1<<28)
			for {
				i := take()
				if i < 0 {
					break
				}
				fmt.Fprintf(stdin, "%d\n", i)
				if !sc.Scan() {
					mu.Lock()
					engineErr = fmt.Sprintf("worker %d died on item %d", w, i)
					mu.Unlock()
					break
				}
				var r ItemResult
				if err := json.Unmarshal(sc.Bytes(), &r); err != nil {
					mu.Lock()
					engineErr = fmt.Sprintf("worker %d bad output on item %d: %v", w, i, err)
					mu.Unlock()
					break
				}
				results[i] = r
				if r.EngineErr != "" {
					mu.Lock()
					engineErr = r.EngineErr
					mu.Unlock()
					break
				}
			}
			stdin.Close()
			cmd.Wait()
		}(w)
	}
	wg.Wait()
	if engineErr != "" {
		results = append(results, ItemResult{Index: -1, EngineErr: engineErr})
	}
	return results
}

// ExploreItem runs iterative deviation bounding 0..maxBound on one scenario and packs the result.
func ExploreItem(sc *Scenario, maxBound int, cfg Config) ItemResult {
	r := ItemResult{Name: sc.Name, Outcomes: map[string]int64{}, Verdicts: map[string]int64{}, Exhaustive: true, BoundDone: -1}
	// Each bound re-explores the smaller ones' executions; only the last completed bound's
	// counts are kept for outcomes, all executions are counted as work done.
	for b := 0; b <= maxBound; b++ {
		c := cfg
		c.Bound = b
		if cfg.MaxExec > 0 {
			c.MaxExec = cfg.MaxExec - r.Executions
			if c.MaxExec <= 0 {
				r.Exhaustive = false
				break
			}
		}
		st := Explore(sc, c)
		r.Executions += st.Executions
		r.Points += st.Points
		r.Horizon += st.HorizonHits
		if st.MaxChoices > r.MaxChoices {
			r.MaxChoices = st.MaxChoices
		}
		if st.EngineErr != "" {
			r.EngineErr = st.EngineErr
			return r
		}
		for _, f := range st.Failures {
			dup := false
			for _, g := range r.Failures {
				if g.Key == f.Key {
					dup = true
				}
			}
			if !dup {
				r.Failures = append(r.Failures, FailureRec{Key: f.Key, Name: sc.Name, Choices: f.Choices, Detail: f.Detail, Blocked: f.Result.Blocked, Panics: f.Result.Panics})
			}
		}
		if !st.Exhaustive {
			r.Exhaustive = false
			break
		}
		r.BoundDone = b
		r.Outcomes, r.Verdicts = st.Outcomes, st.Verdicts
		if len(r.Failures) > 0 {
			break // the first counterexample has the fewest deviations
		}
	}
	return r
}
