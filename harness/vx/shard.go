package vx

import (
	"bufio"
	"encoding/json"
	"fmt"
	"os"
	"os/exec"
	"runtime"
	"sort"
	"strconv"
	"strings"
	"sync"
)

// ItemResult is what a worker reports for one work item (one scenario instance).
type ItemResult struct {
	Index      int
	Name       string
	Executions int64
	Points     int64
	MaxChoices int
	Outcomes   map[string]int64
	Verdicts   map[string]int64
	Exhaustive bool
	BoundDone  int // largest deviation bound completed
	Horizon    int64
	EngineErr  string
	Failures   []FailureRec
	Extra      map[string]int64
}

type FailureRec struct {
	Key     string
	Item    int
	Name    string
	Choices []int
	Detail  string
	Blocked []string
	Panics  []string
}

// Sharded distributes items 0..n-1 over worker subprocesses (one controlled execution at a time
// per process; GOMAXPROCS=1 makes the baton hand-off a cheap goroutine switch). In a worker
// process it never returns.
func Sharded(n int, runItem func(i int) ItemResult) []ItemResult {
	res, _ := ShardedBin("", "", n, runItem)
	return res
}

// ShardedBin is Sharded with an explicit worker binary (e.g. the -race build of the same check)
// and a worker group name: a worker only serves the group named in VX_WORKER. The second result
// is the concatenated stderr of the workers (race detector reports).
func ShardedBin(bin, group string, n int, runItem func(i int) ItemResult) ([]ItemResult, string) {
	if group == "" {
		group = "1"
	}
	if os.Getenv("VX_WORKER") == group {
		in := bufio.NewScanner(os.Stdin)
		out := bufio.NewWriter(os.Stdout)
		for in.Scan() {
			i, err := strconv.Atoi(strings.TrimSpace(in.Text()))
			if err != nil {
				break
			}
			if group != "1" {
				fmt.Fprintf(os.Stderr, "VX-ITEM %d\n", i)
			}
			r := runItem(i)
			r.Index = i
			b, _ := json.Marshal(r)
			out.Write(b)
			out.WriteByte('\n')
			out.Flush()
			if r.EngineErr != "" {
				os.Exit(0) // a natively blocked or spinning goroutine may linger: do not reuse this process
			}
		}
		os.Exit(0)
	}
	if os.Getenv("VX_WORKER") != "" {
		// a worker of another group passing by (main runs the groups in sequence)
		return nil, ""
	}
	workers := runtime.NumCPU()
	if v := os.Getenv("VX_WORKERS"); v != "" {
		workers, _ = strconv.Atoi(v)
	}
	if workers > n {
		workers = n
	}
	if workers < 1 {
		workers = 1
	}
	results := make([]ItemResult, n)
	var mu sync.Mutex
	var engineErr string
	var stderrAll strings.Builder
	next := 0
	take := func() int {
		mu.Lock()
		defer mu.Unlock()
		if next >= n || engineErr != "" {
			return -1
		}
		next++
		return next - 1
	}
	var wg sync.WaitGroup
	for w := 0; w < workers; w++ {
		wg.Add(1)
		go func(w int) {
			defer wg.Done()
			exe := os.Args[0]
			if bin != "" {
				exe = bin
			}
			cmd := exec.Command(exe, os.Args[1:]...)
			cmd.Env = append(os.Environ(), "VX_WORKER="+group, "GOMAXPROCS=1", "GORACE=halt_on_error=0")
			stdin, _ := cmd.StdinPipe()
			stdout, _ := cmd.StdoutPipe()
			var errBuf strings.Builder
			cmd.Stderr = &errBuf
			defer func() {
				mu.Lock()
				stderrAll.WriteString(errBuf.String())
				mu.Unlock()
			}()
			if err := cmd.Start(); err != nil {
				mu.Lock()
				engineErr = err.Error()
				mu.Unlock()
				return
			}
			sc := bufio.NewScanner(stdout)
			sc.Buffer(make([]byte, 1<<20), 1<<28)
			for {
				i := take()
				if i < 0 {
					break
				}
				fmt.Fprintf(stdin, "%d\n", i)
				if !sc.Scan() {
					mu.Lock()
					engineErr = fmt.Sprintf("worker %d died on item %d", w, i)
					mu.Unlock()
					break
				}
				var r ItemResult
				if err := json.Unmarshal(sc.Bytes(), &r); err != nil {
					mu.Lock()
					engineErr = fmt.Sprintf("worker %d bad output on item %d: %v", w, i, err)
					mu.Unlock()
					break
				}
				results[i] = r
				if r.EngineErr != "" {
					mu.Lock()
					engineErr = r.EngineErr
					mu.Unlock()
					break
				}
			}
			stdin.Close()
			cmd.Wait()
		}(w)
	}
	wg.Wait()
	if engineErr != "" {
		results = append(results, ItemResult{Index: -1, EngineErr: engineErr})
	}
	if bin == "" {
		os.Stderr.WriteString(stderrAll.String())
	}
	return results, stderrAll.String()
}

// ExploreItem runs iterative deviation bounding 0..maxBound on one scenario and packs the result.
func ExploreItem(sc *Scenario, maxBound int, cfg Config) ItemResult {
	r := ItemResult{Name: sc.Name, Outcomes: map[string]int64{}, Verdicts: map[string]int64{}, Exhaustive: true, BoundDone: -1}
	// Each bound re-explores the smaller ones' executions; only the last completed bound's
	// counts are kept for outcomes, all executions are counted as work done.
	for b := 0; b <= maxBound; b++ {
		c := cfg
		c.Bound = b
		if cfg.MaxExec > 0 {
			c.MaxExec = cfg.MaxExec - r.Executions
			if c.MaxExec <= 0 {
				r.Exhaustive = false
				break
			}
		}
		st := Explore(sc, c)
		r.Executions += st.Executions
		r.Points += st.Points
		r.Horizon += st.HorizonHits
		if st.MaxChoices > r.MaxChoices {
			r.MaxChoices = st.MaxChoices
		}
		if st.EngineErr != "" {
			r.EngineErr = st.EngineErr
			return r
		}
		for _, f := range st.Failures {
			dup := false
			for _, g := range r.Failures {
				if g.Key == f.Key {
					dup = true
				}
			}
			if !dup {
				r.Failures = append(r.Failures, FailureRec{Key: f.Key, Name: sc.Name, Choices: f.Choices, Detail: f.Detail, Blocked: f.Result.Blocked, Panics: f.Result.Panics})
			}
		}
		if !st.Exhaustive {
			r.Exhaustive = false
			break
		}
		r.BoundDone = b
		r.Outcomes, r.Verdicts = st.Outcomes, st.Verdicts
		if len(r.Failures) > 0 {
			break // the first counterexample has the fewest deviations
		}
	}
	return r
}

// RaceReport is one data race reported by the race detector in a worker.
type RaceReport struct {
	Item  int
	Key   string // the first non-runtime function of each of the two stacks, sorted
	Text  string
	Inner bool // both sides are inside the given package prefixes
}

// ParseRaceReports extracts the race detector's reports from the workers' stderr. pkgs are the
// import-path substrings that count as "code under test"; reports with a side whose first
// non-runtime frame is elsewhere (harness code) are returned with Inner=false.
func ParseRaceReports(stderr string, pkgs []string) []RaceReport {
	var out []RaceReport
	item := -1
	lines := strings.Split(stderr, "\n")
	for i := 0; i < len(lines); i++ {
		l := lines[i]
		if strings.HasPrefix(l, "VX-ITEM ") {
			item, _ = strconv.Atoi(strings.TrimSpace(l[8:]))
			continue
		}
		if !strings.HasPrefix(l, "WARNING: DATA RACE") {
			continue
		}
		var text []string
		var sides []string
		j := i + 1
		for ; j < len(lines) && !strings.HasPrefix(lines[j], "=================="); j++ {
			text = append(text, lines[j])
			t := lines[j]
			if strings.Contains(t, " by goroutine ") && (strings.HasPrefix(t, "Read at") || strings.HasPrefix(t, "Write at") || strings.HasPrefix(t, "Previous read at") || strings.HasPrefix(t, "Previous write at") || strings.HasPrefix(t, "Atomic") || strings.HasPrefix(t, "Previous atomic")) {
				// first non-runtime frame below
				fn := "?"
				for k := j + 1; k < len(lines) && strings.TrimSpace(lines[k]) != ""; k += 2 {
					f := strings.TrimSpace(lines[k])
					if strings.HasPrefix(f, "runtime.") || strings.HasPrefix(f, "internal/") {
						continue
					}
					fn = strings.TrimSuffix(f, "()")
					break
				}
				sides = append(sides, fn)
			}
		}
		sort.Strings(sides)
		inner := len(sides) == 2
		for _, sd := range sides {
			ok := false
			for _, p := range pkgs {
				if strings.Contains(sd, p) {
					ok = true
				}
			}
			if !ok {
				inner = false
			}
		}
		for k := range sides {
			if idx := strings.LastIndex(sides[k], "/"); idx >= 0 {
				sides[k] = sides[k][idx+1:]
			}
		}
		if len(text) > 60 {
			text = text[:60]
		}
		out = append(out, RaceReport{Item: item, Key: strings.Join(sides, "|"), Text: strings.Join(text, "\n"), Inner: inner})
		i = j
	}
	return out
}
