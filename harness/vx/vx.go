// Package vx is the explorer on top of vsched: depth-first search over the choice tree with
// iterative deviation bounding (a preemption or a non-default environment answer costs one
// deviation), re-executing from a fresh instance and replaying the choice prefix.
package vx

import (
	"fmt"
	"time"

	"github.com/emersion/go-imap/v2/internal/vsched"
)

type Config struct {
	Bound    int       // max deviations per execution
	Horizon  int       // scheduling points per execution
	MaxExec  int64     // execution cap (0 = none); hitting it ends exploration with Exhaustive=false
	Deadline time.Time // wall-clock budget (zero = none); hitting it ends exploration with Exhaustive=false
	// Delay: delay bounding (Emmi, Qadeer, Rakamaric 2011) — every departure from the default
	// deterministic scheduler (running thread first, then lowest id) costs one deviation, also
	// when the running thread blocked. Without it (preemption bounding) switches at blocking
	// points are free.
	Delay bool
}

type Stats struct {
	Executions  int64
	Points      int64 // scheduling/choice points seen (transitions)
	MaxChoices  int
	Outcomes    map[string]int64
	Verdicts    map[string]int64
	Exhaustive  bool
	HorizonHits int64
	EngineErr   string
	Failures    []Failure
}

type Failure struct {
	Key     string
	Choices []int
	Detail  string
	Result  *vsched.Result
}

// Body runs as thread 0; the value it stores through the returned pointer is the observation.
type Scenario struct {
	Name  string
	Body  func() interface{}                                             // returns the observation when the main thread ends
	Check func(res *vsched.Result, obs interface{}) (key, detail string) // "" = fine
	Sig   func(res *vsched.Result, obs interface{}) string               // outcome signature (for distinct-outcome counting)
}

func altCost(c vsched.Choice, delay bool) int {
	switch c.Kind {
	case "sched":
		if c.RunningEnabled || delay {
			return 1
		}
		return 0
	case "select":
		return 0
	default:
		return c.Cost
	}
}

// RunOnce executes the scenario along the given choices.
func RunOnce(sc *Scenario, choices []int, horizon int, log bool) (*vsched.Result, interface{}) {
	var obs interface{}
	done := false
	res := vsched.Run(choices, horizon, log, func() {
		obs = sc.Body()
		done = true
	})
	if !done {
		// main thread did not finish (deadlock/horizon/panic): observation is whatever was set
	}
	return res, obs
}

// Explore runs the DFS.
func Explore(sc *Scenario, cfg Config) *Stats {
	st := &Stats{Outcomes: map[string]int64{}, Verdicts: map[string]int64{}, Exhaustive: true}
	if cfg.Horizon == 0 {
		cfg.Horizon = 20000
	}
	var rec func(prefix []int)
	stop := false
	first := true
	rec = func(prefix []int) {
		if stop {
			return
		}
		if cfg.MaxExec > 0 && st.Executions >= cfg.MaxExec || !cfg.Deadline.IsZero() && time.Now().After(cfg.Deadline) {
			st.Exhaustive = false
			stop = true
			return
		}
		res, obs := RunOnce(sc, prefix, cfg.Horizon, first) // the first execution keeps its log (see below)
		st.Executions++
		st.Points += int64(res.Steps)
		if res.EngineErr != "" {
			st.EngineErr = fmt.Sprintf("scenario %s choices %v: %s", sc.Name, prefix, res.EngineErr)
			stop = true
			return
		}
		if first {
			// determinism obligation: the first execution, run twice, must be identical
			first = false
			res2, obs2 := RunOnce(sc, prefix, cfg.Horizon, true)
			failing := false
			if k1, _ := sc.Check(res, obs); k1 != "" {
				if k2, _ := sc.Check(res2, obs2); k2 == k1 {
					// both runs fail in the same way: each is a real execution of the real code, so the
					// failure stands even if some nondeterminism (typically Go's map iteration order on a
					// path only the failure reaches) makes the two runs differ in length; it is recorded
					// below and the scenario's remaining schedules are not explored
					failing = true
					if len(res.Trace) != len(res2.Trace) {
						stop = true
						st.Exhaustive = false
					}
				}
			}
			if !failing && (sig(sc, res, obs) != sig(sc, res2, obs2) || len(res.Trace) != len(res2.Trace)) {
				where := ""
				for i := 0; i < len(res.Log) || i < len(res2.Log); i++ {
					a, b := "<end>", "<end>"
					if i < len(res.Log) {
						a = res.Log[i]
					}
					if i < len(res2.Log) {
						b = res2.Log[i]
					}
					if a != b {
						where = fmt.Sprintf("; logs differ at line %d: %q vs %q", i, a, b)
						if i > 0 {
							where += fmt.Sprintf(" (after %q)", res.Log[i-1])
						}
						break
					}
				}
				st.EngineErr = fmt.Sprintf("scenario %s: nondeterminism not captured (same choices, different outcome: %q vs %q, %d vs %d choice points)%s", sc.Name, sig(sc, res, obs), sig(sc, res2, obs2), len(res.Trace), len(res2.Trace), where)
				stop = true
				return
			}
		}
		if len(res.Trace) > st.MaxChoices {
			st.MaxChoices = len(res.Trace)
		}
		st.Verdicts[res.Verdict]++
		if res.Verdict == "horizon" {
			st.HorizonHits++
		}
		st.Outcomes[sig(sc, res, obs)]++
		if key, detail := sc.Check(res, obs); key != "" {
			dup := false
			for _, f := range st.Failures {
				if f.Key == key {
					dup = true
				}
			}
			if !dup && len(st.Failures) < 20 {
				choices := make([]int, len(res.Trace))
				for i, c := range res.Trace {
					choices[i] = c.Chosen
				}
				st.Failures = append(st.Failures, Failure{Key: key, Choices: choices, Detail: detail, Result: res})
			}
		}
		// deviations already spent along this execution
		cost := 0
		costs := make([]int, len(res.Trace)+1)
		for i, c := range res.Trace {
			costs[i] = cost
			if c.Chosen != 0 {
				cost += altCost(c, cfg.Delay)
			}
		}
		for i := len(prefix); i < len(res.Trace); i++ {
			p := res.Trace[i]
			if costs[i]+altCost(p, cfg.Delay) > cfg.Bound {
				continue
			}
			for alt := 1; alt < p.N; alt++ {
				np := make([]int, i+1)
				for k := 0; k < i; k++ {
					np[k] = res.Trace[k].Chosen
				}
				np[i] = alt
				rec(np)
				if stop {
					return
				}
			}
		}
	}
	rec(nil)
	return st
}

func sig(sc *Scenario, res *vsched.Result, obs interface{}) string {
	if sc.Sig != nil {
		return res.Verdict + "|" + sc.Sig(res, obs)
	}
	return res.Verdict + "|" + fmt.Sprint(obs)
}
