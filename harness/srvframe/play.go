package srvframe

import (
	"fmt"
	"reflect"
	"strings"

	"github.com/emersion/go-imap/v2/verif/srvkit"
)

// Point is one place where the protocol makes the client wait and the server decide.
type Point struct {
	Cmd      int
	Kind     string // "sync-literal", "authenticate", "idle"
	Lit      *Lit
	Plus     bool // the server answered with a continuation request
	Tagged   bool // the server answered with the command's tagged completion
	Batch    int
	SentMore bool // the client went on sending the payload / continuation line
	Loose    bool // the framing was already undefined when this point was reached
}

// Batch is the output collected at one quiescence point.
type Batch struct {
	After    string // what was sent last: "setup", "command-end", "sync-literal-header", "authenticate-line", "idle-line", "stream-end", "eof"
	Cmd      int    // command in flight (-1 for setup)
	Resps    []srvkit.Resp
	Raw      []byte
	PlusOK   bool // a continuation request is legal as the last response of this batch
	CallsEnd int  // number of backend calls recorded when the batch was collected
}

// Result is everything observed while playing one stream.
type Result struct {
	S          *Stream
	Out        []byte
	SetupLen   int // bytes of Out produced by greeting + state set-up
	Batches    []Batch
	Points     []Point
	Expected   []string // tags of the complete framed commands, in order
	Loose      int      // from this index of Expected on the framing is not defined (client ignored a refusal); -1: never
	Incomplete bool     // the client stopped inside the last command
	ClosedAt   int      // index of the command during which the server was first seen closed (-1: only after EOF)
	SentCmds   int      // commands sent completely
	Calls      []srvkit.Call
	CallCmd    []int // command index during which the call was recorded (per-command mode), -1 setup
	SetupCalls int
	End        End
	EngineErr  string
}

func tagOf(r srvkit.Resp) string { return r.Tag }

// Play runs the stream on a fresh connection.
func (w *Worker) Play(st *Stream) *Result {
	res := &Result{S: st, Loose: -1, ClosedAt: -1}
	c := w.Dial(st.Caps, nil)
	defer func() {
		// the pipe can hold 100 MiB
		c.P.ReleaseOutput()
	}()
	if c.Sess == nil {
		res.EngineErr = "no session after dial"
		res.End = c.Finish(false)
		return res
	}
	// state set-up
	setup := []string{}
	if st.Start >= StAuth {
		setup = append(setup, "i1 LOGIN su sp\r\n")
	}
	if st.Start >= StSelected {
		setup = append(setup, "i2 SELECT sbox\r\n")
	}
	for _, l := range setup {
		out := c.Send([]byte(l))
		rs, rest, err := srvkit.ParseResponses(out)
		t := srvkit.Tagged(rs)
		if err != nil || len(rest) > 0 || len(t) != 1 || !strings.HasPrefix(t[0].Text, "OK") || c.Closed || c.Hang != "" {
			res.EngineErr = fmt.Sprintf("set-up command %q failed: %q", l, out)
			res.End = c.Finish(false)
			return res
		}
	}
	res.SetupLen = len(c.Out)
	res.SetupCalls = len(c.Sess.Snapshot())

	var pending []byte
	curCmd := 0
	flush := func(after string, plusOK bool) *Batch {
		out := c.Send(pending)
		pending = nil
		rs, _, _ := srvkit.ParseResponses(out)
		b := Batch{After: after, Cmd: curCmd, Resps: rs, Raw: out, PlusOK: plusOK, CallsEnd: len(c.Sess.Snapshot())}
		res.Batches = append(res.Batches, b)
		if c.Closed && res.ClosedAt < 0 {
			res.ClosedAt = curCmd
		}
		return &res.Batches[len(res.Batches)-1]
	}
	// answer classifies the last batch at a wait point of command tag
	answer := func(b *Batch, tag string) (plus, tagged bool) {
		// a continuation request counts when nothing but untagged data follows it (the idle
		// goroutine's updates come after "+ idling")
		for _, r := range b.Resps {
			switch r.Tag {
			case "+":
				plus = true
			case "*":
			default:
				plus = false
				if r.Tag == tag {
					tagged = true
				}
			}
		}
		return
	}
	stopped := false
cmds:
	for ci := range st.Cmds {
		cmd := &st.Cmds[ci]
		curCmd = ci
		if c.Closed || c.Hang != "" {
			break
		}
		switch cmd.Kind {
		case KPlain:
			for k := 0; k < len(cmd.Chunks); k++ {
				ch := cmd.Chunks[k]
				if ch.Lit == nil {
					pending = append(pending, ch.Text...)
					continue
				}
				l := ch.Lit
				pending = append(pending, l.Header()...)
				if l.Sync {
					b := flush("sync-literal-header", true)
					plus, tagged := answer(b, cmd.Tag)
					pt := Point{Cmd: ci, Kind: "sync-literal", Lit: l, Plus: plus, Tagged: tagged, Batch: len(res.Batches) - 1, Loose: res.Loose >= 0}
					if c.Closed || c.Hang != "" {
						res.Points = append(res.Points, pt)
						if tagged {
							res.Expected = append(res.Expected, cmd.Tag)
						}
						break cmds
					}
					if !plus {
						// refused (tagged) or not answered at all: the command is over as far as a
						// conforming client is concerned
						res.Expected = append(res.Expected, cmd.Tag)
						if st.Anyway {
							pt.SentMore = true
							if res.Loose < 0 {
								res.Loose = len(res.Expected)
							}
							pending = append(pending, l.Bytes()...)
							for _, rest := range cmd.Chunks[k+1:] {
								if rest.Lit != nil {
									pending = append(pending, rest.Lit.Header()...)
									pending = append(pending, rest.Lit.Bytes()...)
								} else {
									pending = append(pending, rest.Text...)
								}
							}
							if !st.Pipelined {
								flush("ignored-refusal", false)
							}
						} else if !tagged && res.Loose < 0 {
							// neither "+" nor a tagged completion: the server left the client
							// hanging; what the next bytes mean is then undefined
							res.Loose = len(res.Expected) - 1
						}
						res.Points = append(res.Points, pt)
						res.SentCmds++
						continue cmds
					}
					pt.SentMore = true
					res.Points = append(res.Points, pt)
				}
				pending = append(pending, l.Bytes()...)
				if l.Stop {
					flush("client-stops-inside-literal", false)
					res.Incomplete = true
					stopped = true
					break cmds
				}
			}
			res.Expected = append(res.Expected, cmd.Tag)
			res.SentCmds++
			if !st.Pipelined {
				flush("command-end", false)
			}
		case KAuth, KIdle:
			for _, ch := range cmd.Chunks {
				pending = append(pending, ch.Text...)
			}
			kind, after := "authenticate", "authenticate-line"
			if cmd.Kind == KIdle {
				kind, after = "idle", "idle-line"
				c.Sess.IdleUpdates = int32(cmd.IdleUpdates)
			}
			b := flush(after, true)
			plus, tagged := answer(b, cmd.Tag)
			pt := Point{Cmd: ci, Kind: kind, Plus: plus, Tagged: tagged, Batch: len(res.Batches) - 1, Loose: res.Loose >= 0}
			res.Expected = append(res.Expected, cmd.Tag)
			if c.Closed || c.Hang != "" {
				if !tagged {
					res.Expected = res.Expected[:len(res.Expected)-1]
				}
				res.Points = append(res.Points, pt)
				break cmds
			}
			if plus || st.Anyway {
				if cmd.Cont != "" {
					pt.SentMore = true
					pending = append(pending, cmd.Cont...)
					if !plus && res.Loose < 0 {
						res.Loose = len(res.Expected)
					}
					if !st.Pipelined {
						what := "continuation-line"
						if !plus {
							what = "ignored-refusal"
						}
						flush(what, false)
					}
				} else if plus {
					// the command asks for more but the scripted client has nothing: it stops
					res.Points = append(res.Points, pt)
					res.Expected = res.Expected[:len(res.Expected)-1]
					res.Incomplete = true
					stopped = true
					break cmds
				}
			} else if !tagged && res.Loose < 0 {
				res.Loose = len(res.Expected) - 1
			}
			res.Points = append(res.Points, pt)
			res.SentCmds++
		}
	}
	_ = stopped
	if len(pending) > 0 && !c.Closed && c.Hang == "" {
		curCmd = len(st.Cmds) - 1
		flush("stream-end", false)
	}
	if !c.Closed && c.Hang == "" {
		// everything was delivered and the server is waiting for more: now the client goes away
		curCmd = len(st.Cmds)
	}
	res.End = c.Finish(false)
	if n := len(c.Out); n > 0 {
		last := 0
		for _, b := range res.Batches {
			last += len(b.Raw)
		}
		if res.SetupLen+last < n {
			raw := c.Out[res.SetupLen+last:]
			rs, _, _ := srvkit.ParseResponses(raw)
			res.Batches = append(res.Batches, Batch{After: "eof", Cmd: len(st.Cmds), Resps: rs, Raw: raw, CallsEnd: len(c.Sess.Snapshot())})
		}
	}
	res.Out = c.Out
	res.Calls = c.Sess.Snapshot()
	// attribute calls to commands (exact in per-command mode)
	res.CallCmd = make([]int, len(res.Calls))
	for i := range res.Calls {
		res.CallCmd[i] = -1
		if i < res.SetupCalls {
			continue
		}
		for _, b := range res.Batches {
			if i < b.CallsEnd {
				res.CallCmd[i] = b.Cmd
				break
			}
		}
		if res.CallCmd[i] < 0 {
			res.CallCmd[i] = len(st.Cmds)
		}
	}
	return res
}

// Strings returns every string reachable from the arguments of a recorded call.
func Strings(c srvkit.Call) []string {
	var out []string
	var walk func(v reflect.Value, depth int)
	walk = func(v reflect.Value, depth int) {
		if depth > 8 || !v.IsValid() {
			return
		}
		switch v.Kind() {
		case reflect.String:
			out = append(out, v.String())
		case reflect.Ptr, reflect.Interface:
			if !v.IsNil() {
				walk(v.Elem(), depth+1)
			}
		case reflect.Slice, reflect.Array:
			for i := 0; i < v.Len(); i++ {
				walk(v.Index(i), depth+1)
			}
		case reflect.Struct:
			if v.Type().String() == "time.Time" {
				return
			}
			for i := 0; i < v.NumField(); i++ {
				if v.Type().Field(i).PkgPath != "" {
					continue
				}
				walk(v.Field(i), depth+1)
			}
		case reflect.Map:
			for _, k := range v.MapKeys() {
				walk(k, depth+1)
				walk(v.MapIndex(k), depth+1)
			}
		}
	}
	for _, a := range c.Args {
		walk(reflect.ValueOf(a), 0)
	}
	return out
}
