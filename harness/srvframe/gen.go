package srvframe

import (
	"fmt"
	"strings"
)

// The C04 stream family: command templates x argument encodings x literal sizes x payload
// classes x anomalies. Variant lists are generated per position in the stream (markers and tags
// embed the position so that every smuggled text is unique within a stream).

type slot struct {
	role     string // user pass mailbox ref pattern search hdr flag
	method   string
	atomOK   bool
	quotedOK bool
	litOK    bool
	after    string // text between this argument and the next one (or the end of the line)
}

type template struct {
	name   string
	pre    string
	slots  []slot
	method string
	states int
	msg    int // 0: no message literal; 1: APPEND m <msg>; 2: APPEND m UTF8 (~<msg>)
	// the backend does not behave like the plain recording stub (it refuses, or it does not read
	// the whole literal): framing oracles only, no "answered OK and delivered intact" expectation
	oddBackend bool
}

const (
	inFresh = 1 << StFresh
	inAuth  = 1<<StAuth | 1<<StSelected
	inSel   = 1 << StSelected
	inAll   = inFresh | inAuth
)

func templates() []template {
	str := func(role, method, after string) slot {
		return slot{role: role, method: method, atomOK: true, quotedOK: true, litOK: true, after: after}
	}
	return []template{
		{name: "LOGIN", pre: "LOGIN ", slots: []slot{str("user", "Login", " "), str("pass", "Login", "\r\n")}, method: "Login", states: inFresh},
		{name: "SELECT", pre: "SELECT ", slots: []slot{str("mailbox", "Select", "\r\n")}, method: "Select", states: inAuth},
		{name: "CREATE", pre: "CREATE ", slots: []slot{str("mailbox", "Create", "\r\n")}, method: "Create", states: inAuth},
		{name: "RENAME", pre: "RENAME ", slots: []slot{str("mailbox", "Rename", " "), str("mailbox", "Rename", "\r\n")}, method: "Rename", states: inAuth},
		{name: "STATUS", pre: "STATUS ", slots: []slot{str("mailbox", "Status", " (MESSAGES)\r\n")}, method: "Status", states: inAuth},
		{name: "LIST", pre: "LIST ", slots: []slot{str("ref", "List", " "), str("pattern", "List", "\r\n")}, method: "List", states: inAuth},
		{name: "APPEND", pre: "APPEND ", slots: []slot{str("mailbox", "Append", " ")}, method: "Append", states: inAuth, msg: 1},
		{name: "APPEND-flags-date", pre: "APPEND abox (\\Seen) \"17-Jul-1996 02:44:25 -0700\" ", method: "Append", states: inAuth, msg: 1},
		{name: "APPEND-utf8", pre: "APPEND abox UTF8 (", method: "Append", states: inAuth, msg: 2},
		// backend answers to APPEND (the mailbox name selects the answer, see Sess.Append): refused
		// with none of / 3 octets of the message read, accepted with 2 octets read
		{name: "APPEND-refused-unread", pre: "APPEND " + MboxRefuseUnread + " ", method: "Append", states: inAuth, msg: 1, oddBackend: true},
		{name: "APPEND-refused-partly-read", pre: "APPEND " + MboxRefusePartly + " ", method: "Append", states: inAuth, msg: 1, oddBackend: true},
		{name: "APPEND-accepted-partly-read", pre: "APPEND " + MboxLazy + " (\\Seen) ", method: "Append", states: inAuth, msg: 1, oddBackend: true},
		{name: "SEARCH-BODY", pre: "SEARCH BODY ", slots: []slot{str("search", "Search", "\r\n")}, method: "Search", states: inSel},
		{name: "FETCH-HEADER.FIELDS", pre: "FETCH 1 BODY[HEADER.FIELDS (", slots: []slot{str("hdr", "Fetch", ")]\r\n")}, method: "Fetch", states: inSel},
		{name: "STORE-FLAGS", pre: "STORE 1 FLAGS (", slots: []slot{{role: "flag", method: "Store", atomOK: true, after: ")\r\n"}}, method: "Store", states: inSel},
	}
}

// ArgVar is one way of sending a string argument.
type ArgVar struct {
	Enc     string // atom quoted lit
	Sync    bool
	Size    int64
	Class   string // plain cmdlike restline endscr cr
	Anomaly string // "", short, junk
	Lit8    bool
}

func (a ArgVar) String() string {
	if a.Enc != "lit" {
		return a.Enc
	}
	k := "{%d+}"
	if a.Sync {
		k = "{%d}"
	}
	s := fmt.Sprintf(k, a.Size) + a.Class
	if a.Lit8 {
		s = "~" + s
	}
	if a.Anomaly != "" {
		s += "/" + a.Anomaly
	}
	return s
}

func argVars(last bool, appendMsg bool) []ArgVar {
	var vs []ArgVar
	if !appendMsg {
		vs = append(vs, ArgVar{Enc: "atom"}, ArgVar{Enc: "quoted"})
	}
	for _, sync := range []bool{false, true} {
		vs = append(vs, ArgVar{Enc: "lit", Sync: sync, Size: 0, Class: "plain"})
		vs = append(vs, ArgVar{Enc: "lit", Sync: sync, Size: 1, Class: "plain"})
		vs = append(vs, ArgVar{Enc: "lit", Sync: sync, Size: 1, Class: "cr"})
		for _, n := range []int64{4096, 4097} {
			for _, cl := range []string{"plain", "cmdlike", "restline", "endscr"} {
				vs = append(vs, ArgVar{Enc: "lit", Sync: sync, Size: n, Class: cl})
			}
		}
		// announced > actual: the client stops sending
		vs = append(vs, ArgVar{Enc: "lit", Sync: sync, Size: 1, Class: "plain", Anomaly: "short"})
		vs = append(vs, ArgVar{Enc: "lit", Sync: sync, Size: 4096, Class: "cmdlike", Anomaly: "short"})
		vs = append(vs, ArgVar{Enc: "lit", Sync: sync, Size: 4097, Class: "cmdlike", Anomaly: "short"})
		// sizes whose low 32 bits are small (number64 in the grammar, int64 in the decoder: a
		// narrower comparison anywhere on the way would see 0 / 1 / 4096)
		vs = append(vs, ArgVar{Enc: "lit", Sync: sync, Size: 1 << 32, Class: "cmdlike", Anomaly: "short"})
		vs = append(vs, ArgVar{Enc: "lit", Sync: sync, Size: 1<<32 + 1, Class: "cmdlike", Anomaly: "short"})
		vs = append(vs, ArgVar{Enc: "lit", Sync: sync, Size: 1<<33 + 4096, Class: "cmdlike", Anomaly: "short"})
		// the largest sizes the grammar's number64 can carry: anything sized from the announcement
		// before it is vetted overflows or exhausts memory
		vs = append(vs, ArgVar{Enc: "lit", Sync: sync, Size: 1 << 62, Class: "cmdlike", Anomaly: "short"})
		vs = append(vs, ArgVar{Enc: "lit", Sync: sync, Size: 1<<63 - 1, Class: "cmdlike", Anomaly: "short"})
		if last {
			// actual > announced: junk between the literal and the end of the line
			vs = append(vs, ArgVar{Enc: "lit", Sync: sync, Size: 1, Class: "plain", Anomaly: "junk"})
			vs = append(vs, ArgVar{Enc: "lit", Sync: sync, Size: 4096, Class: "plain", Anomaly: "junk"})
			vs = append(vs, ArgVar{Enc: "lit", Sync: sync, Size: 4097, Class: "cmdlike", Anomaly: "junk"})
		}
		if appendMsg {
			vs = append(vs, ArgVar{Enc: "lit", Sync: sync, Size: AppendLimit, Class: "plain", Anomaly: "short"})
			vs = append(vs, ArgVar{Enc: "lit", Sync: sync, Size: AppendLimit + 1, Class: "cmdlike", Anomaly: "short"})
			vs = append(vs, ArgVar{Enc: "lit", Sync: sync, Size: 4096, Class: "plain", Lit8: true})
			vs = append(vs, ArgVar{Enc: "lit", Sync: sync, Size: 4097, Class: "cmdlike", Lit8: true})
		}
	}
	return vs
}

// Variant is one command instance generator-side.
type Variant struct {
	Cmd   Cmd
	Core  bool // member of the follow-up set used for pairs
	Core2 bool // member of the small set used for triples
	Stops bool // the client stops inside this command: only usable as the last command
	Big   bool // moves >= 100 MiB: run alone, serially
}

func atomValue(role string, ci, si int) string {
	return fmt.Sprintf("Av%d%d%s", ci, si, role[:1])
}

// restOfLine is what would complete the command if the literal header were not there: this
// argument and all later ones as atoms, up to and including the CRLF.
func restOfLine(t *template, ci, si int, marker string) string {
	var sb strings.Builder
	for k := si; k < len(t.slots); k++ {
		sb.WriteString(marker + t.slots[k].role[:1])
		sb.WriteString(t.slots[k].after)
	}
	switch t.msg {
	case 1:
		sb.WriteString("{3+}\r\n" + marker[:2] + "x\r\n")
	case 2:
		sb.WriteString("~{3+}\r\n" + marker[:2] + "x)\r\n")
	}
	return sb.String()
}

func mkLit(a ArgVar, marker, ctx, method, rest string) *Lit {
	l := &Lit{Sync: a.Sync, Lit8: a.Lit8, Announce: a.Size, Ctx: ctx, Method: method, Class: a.Class}
	n := a.Size
	actual := n
	if a.Anomaly == "short" {
		l.Stop = true
		switch {
		case n <= 1:
			actual = 0
		case n > 1<<20:
			actual = 0
			if a.Class == "cmdlike" {
				actual = 64
			}
		default:
			actual = 64
		}
		l.Class += "/client-stops"
	}
	switch {
	case actual == 0:
	case actual == 1:
		if a.Class == "cr" {
			l.Head = "\r"
		} else {
			l.Head = "a"
		}
	default:
		l.Marker = marker
		var head, tail string
		switch a.Class {
		case "plain":
			head = marker
		case "cmdlike":
			head = marker + "a NOOP\r\n" + marker + "b NOOP\r\n" + marker + "c NOOP\r\n"
			if actual >= 128 {
				tail = "\r\n" + marker + "d NOOP\r\n"
			}
		case "restline":
			head = rest + marker + "b NOOP\r\n" + marker + "c NOOP\r\n"
			tail = "\r\n" + marker + "d NOOP\r\n"
		case "endscr":
			head = marker
			tail = "\r"
		}
		l.Head, l.Tail = head, tail
		l.Fill = actual - int64(len(head)) - int64(len(tail))
		if l.Fill < 0 {
			panic("payload does not fit: " + a.String())
		}
	}
	return l
}

func benignArg(s slot, a ArgVar) bool {
	switch a.Enc {
	case "atom":
		return s.atomOK
	case "quoted":
		return s.quotedOK
	}
	if !s.litOK || a.Anomaly != "" || a.Size > BufferedLimit || a.Lit8 {
		return false
	}
	switch s.role {
	case "user", "pass", "search", "hdr":
		return true // any octets
	}
	return a.Class == "plain"
}

// build assembles one command of template t at stream position ci.
func build(t *template, ci int, choice []ArgVar, msg *ArgVar, junkTail bool) Variant {
	tag := fmt.Sprintf("s%d", ci)
	var v Variant
	c := Cmd{Tag: tag, Kind: KPlain}
	var text strings.Builder
	flushText := func() {
		if text.Len() > 0 {
			c.Chunks = append(c.Chunks, Chunk{Text: text.String()})
			text.Reset()
		}
	}
	text.WriteString(tag + " " + t.pre)
	benign := !junkTail
	var values []string
	needLP := false
	var names []string
	jk := fmt.Sprintf("Jk%d", ci)
	junk := " " + jk + " NOOP"
	for si, s := range t.slots {
		a := choice[si]
		names = append(names, a.String())
		if !benignArg(s, a) {
			benign = false
		}
		switch a.Enc {
		case "atom":
			val := atomValue(s.role, ci, si)
			text.WriteString(val)
			values = append(values, val)
		case "quoted":
			val := atomValue(s.role, ci, si)
			text.WriteString("\"" + val + "\"")
			values = append(values, val)
		case "lit":
			flushText()
			marker := fmt.Sprintf("Mk%d%d", ci, si)
			l := mkLit(a, marker, "buffered", s.method, restOfLine(t, ci, si, marker))
			c.Chunks = append(c.Chunks, Chunk{Lit: l})
			if l.Stop {
				v.Stops = true
			}
			if val, ok := l.Value(); ok && val != "" {
				values = append(values, val)
			}
			if a.Anomaly == "junk" {
				text.WriteString(junk)
				c.Junk = append(c.Junk, jk)
			}
			if s.role == "flag" {
				// the grammar has no literal here: the command is rejected at the "{"
				if a.Sync {
					c.Class = "sync-literal-in-rejected-command-line"
				} else {
					c.Class = "nonsync-literal-in-rejected-command-line"
				}
			}
		}
		if v.Stops {
			break
		}
		text.WriteString(s.after)
	}
	if t.msg != 0 && !v.Stops {
		a := *msg
		names = append(names, "msg="+a.String())
		flushText()
		marker := fmt.Sprintf("Mk%d9", ci)
		rest := "\r\n"
		if t.msg == 2 {
			rest = ")\r\n"
		}
		if t.msg == 2 {
			a.Lit8 = true
		}
		l := mkLit(a, marker, "append", "Append", rest)
		c.Chunks = append(c.Chunks, Chunk{Lit: l})
		if l.Stop {
			v.Stops = true
		}
		if a.Anomaly != "" || a.Size > AppendLimit {
			benign = false
		}
		if a.Lit8 && t.msg == 1 {
			// literal8 in APPEND needs the BINARY extension, which the server does not advertise:
			// the command is rejected at the "~"
			benign = false
			if a.Sync {
				c.Class = "sync-literal-in-rejected-command-line"
			} else {
				c.Class = "nonsync-literal-in-rejected-command-line"
			}
		}
		if !a.Sync && a.Size > BufferedLimit {
			needLP = true
		}
		if val, ok := l.Value(); ok && val != "" && len(val) > 1 {
			values = append(values, val)
		}
		if a.Size >= AppendLimit && !l.Stop {
			v.Big = true
		}
		if !v.Stops {
			if a.Anomaly == "junk" {
				text.WriteString(junk)
				c.Junk = append(c.Junk, jk)
			}
			if t.msg == 2 {
				text.WriteString(")")
			}
			text.WriteString("\r\n")
		}
	}
	if junkTail && !v.Stops {
		// replace the final CRLF by " <junk>CRLF"
		s := text.String()
		s = strings.TrimSuffix(s, "\r\n") + junk + "\r\n"
		text.Reset()
		text.WriteString(s)
		c.Junk = append(c.Junk, jk)
		c.Class = "junk-tail"
		names = append(names, "junk-tail")
	}
	for _, ch := range c.Chunks {
		if ch.Lit != nil && len(c.Junk) > 0 && c.Class == "" {
			c.Class = "junk-after-literal"
		}
	}
	flushText()
	c.Name = t.name + "(" + strings.Join(names, ",") + ")"
	if benign && !v.Stops && !t.oddBackend {
		c.Benign = &Expect{Method: t.method, Values: values, States: t.states, NeedLiteralPlus: needLP}
	}
	v.Cmd = c
	return v
}

func b64PLAIN() string { return "AHUAcA==" } // "\0u\0p"

// Variants lists every command instance for stream position ci.
func Variants(ci int) []Variant {
	var out []Variant
	ts := templates()
	smallMsg := ArgVar{Enc: "lit", Sync: false, Size: 12, Class: "plain"}
	for ti := range ts {
		t := &ts[ti]
		base := make([]ArgVar, len(t.slots))
		for i := range base {
			base[i] = ArgVar{Enc: "atom"}
		}
		mk := func(choice []ArgVar, msg *ArgVar, junk bool) *Variant {
			v := build(t, ci, choice, msg, junk)
			out = append(out, v)
			return &out[len(out)-1]
		}
		var m *ArgVar
		if t.msg != 0 {
			m = &smallMsg
		}
		b := mk(base, m, false)
		b.Core = true
		if ti%4 == 0 {
			b.Core2 = true
		}
		jt := mk(base, m, true)
		jt.Core = t.name == "APPEND" || t.name == "LOGIN" || t.name == "SEARCH-BODY"
		for si := range t.slots {
			for _, a := range argVars(si == len(t.slots)-1 && t.msg == 0 && t.slots[si].after == "\r\n", false) {
				if a.Enc == "atom" {
					continue
				}
				ch := append([]ArgVar{}, base...)
				ch[si] = a
				v := mk(ch, m, false)
				// follow-up set: the dangerous shapes of two templates
				if (t.name == "LOGIN" && si == 0) || t.name == "SELECT" {
					switch a.String() {
					case "{4097+}cmdlike", "{4097}plain", "{4096+}plain", "{1}plain":
						v.Core = true
						if t.name == "LOGIN" && (a.String() == "{4097+}cmdlike" || a.String() == "{4096+}plain") {
							v.Core2 = true
						}
					}
				}
				if t.name == "SEARCH-BODY" && (a.String() == "{4096}cmdlike" || a.String() == "{4097+}restline") {
					v.Core = true
				}
				if t.name == "STORE-FLAGS" && a.String() == "{4096+}cmdlike" {
					v.Core = true
				}
			}
		}
		if len(t.slots) == 2 {
			combos := [][2]string{
				{"{4096+}plain", "{4096+}plain"},
				{"{1}plain", "{4097+}cmdlike"},
				{"{4097+}cmdlike", "{4097}plain"},
				{"{4096}plain", "{4096}cmdlike"},
				{"quoted", "{4097+}restline"},
			}
			all := argVars(true, false)
			find := func(s string) ArgVar {
				for _, a := range all {
					if a.String() == s {
						return a
					}
				}
				panic("no arg variant " + s)
			}
			for _, cb := range combos {
				mk([]ArgVar{find(cb[0]), find(cb[1])}, m, false)
			}
		}
		if t.msg != 0 {
			for _, a := range argVars(true, true) {
				a := a
				v := mk(base, &a, false)
				if t.oddBackend && (a.String() == "{4097+}cmdlike" || a.String() == "{4096}cmdlike") {
					v.Core = true
				}
				if t.name == "APPEND" {
					switch a.String() {
					case "{4097+}cmdlike", "{1}plain", "{1+}plain/junk", "{4096+}cmdlike":
						v.Core = true
						if a.String() == "{4097+}cmdlike" || a.String() == "{1+}plain/junk" {
							v.Core2 = true
						}
					}
				}
			}
		}
	}
	// AUTHENTICATE PLAIN
	tag := fmt.Sprintf("s%d", ci)
	jk := fmt.Sprintf("Jk%d", ci)
	auth := func(name, line, cont string, benign bool, class string, junk bool) *Variant {
		c := Cmd{Tag: tag, Kind: KAuth, Name: "AUTHENTICATE(" + name + ")", Chunks: []Chunk{{Text: tag + " " + line}}, Cont: cont, Class: class}
		if benign {
			c.Benign = &Expect{Method: "Login", Values: []string{"u", "p"}, States: inFresh}
		}
		if junk {
			c.Junk = []string{jk}
		}
		out = append(out, Variant{Cmd: c})
		return &out[len(out)-1]
	}
	v := auth("no-initial-response", "AUTHENTICATE PLAIN\r\n", b64PLAIN()+"\r\n", true, "", false)
	v.Core, v.Core2 = true, true
	auth("initial-response", "AUTHENTICATE PLAIN "+b64PLAIN()+"\r\n", "", true, "", false).Core = true
	auth("cancel", "AUTHENTICATE PLAIN\r\n", "*\r\n", false, "", false).Core = true
	auth("over-long-line", "AUTHENTICATE PLAIN\r\n", strings.Repeat("A", 4096)+jk+" NOOP\r\n", false, "over-long-continuation-line", true).Core = true
	auth("not-base64", "AUTHENTICATE PLAIN\r\n", "!!"+jk+" NOOP\r\n", false, "garbage-continuation-line", true)
	auth("empty-line", "AUTHENTICATE PLAIN\r\n", "\r\n", false, "", false)
	// IDLE
	for k := 0; k <= 2; k++ {
		for _, term := range []struct {
			name, line, class string
			junk, ok          bool
		}{
			{"DONE", "DONE\r\n", "", false, true},
			{"command-like-garbage", jk + " NOOP\r\n", "garbage-instead-of-DONE", true, false},
			{"over-long-garbage", strings.Repeat("D", 4096) + jk + " NOOP\r\n", "over-long-continuation-line", true, false},
			{"lower-case-done", "done\r\n", "", false, false},
		} {
			c := Cmd{Tag: tag, Kind: KIdle, Name: fmt.Sprintf("IDLE(%d updates,%s)", k, term.name), Chunks: []Chunk{{Text: tag + " IDLE\r\n"}}, Cont: term.line, IdleUpdates: k, Class: term.class}
			if term.junk {
				c.Junk = []string{jk}
			}
			if term.ok {
				c.Benign = &Expect{Method: "Idle", States: inAuth}
			}
			vv := Variant{Cmd: c}
			if k == 1 && (term.name == "DONE" || term.name == "command-like-garbage") {
				vv.Core = true
				vv.Core2 = term.name == "command-like-garbage"
			}
			out = append(out, vv)
		}
	}
	// NOOP, unknown command
	out = append(out, Variant{Core: true, Cmd: Cmd{Tag: tag, Name: "NOOP", Chunks: []Chunk{{Text: tag + " NOOP\r\n"}}, Benign: &Expect{States: inAll}}})
	out = append(out, Variant{Cmd: Cmd{Tag: tag, Name: "NOOP(junk-tail)", Class: "junk-tail", Junk: []string{jk}, Chunks: []Chunk{{Text: tag + " NOOP " + jk + " NOOP\r\n"}}}})
	out = append(out, Variant{Core: true, Cmd: Cmd{Tag: tag, Name: "UNKNOWN", Chunks: []Chunk{{Text: tag + " XYZZY\r\n"}}}})
	out = append(out, Variant{Cmd: Cmd{Tag: tag, Name: "UNKNOWN(junk-tail)", Class: "junk-tail", Junk: []string{jk}, Chunks: []Chunk{{Text: tag + " XYZZY " + jk + " NOOP\r\n"}}}})
	// (appended last: the positions of the variants above are used for samples and follow-up sets)
	out = append(out, rejectedLineVariants(ci)...)
	return out
}

// rejectedLineVariants: command lines the server rejects BEFORE it reaches the end of the line
// (unknown command, NOOP with surplus arguments, STORE with a syntax error in the flag list), so
// that the rest of the line is thrown away unparsed. What follows the line then depends on one
// thing only: whether the line ENDS in a non-synchronising literal header "{n+}" (RFC 7888: the
// n octets after the CRLF belong to the rejected command and must be skipped too) or not (the
// next octets are the next command). The alphabet exercises every branch of a recogniser of that
// suffix: the discarded text additionally contains an earlier "{" (inside a quoted string, in
// atom position), an earlier "}", an earlier "+}", earlier literal-looking groups "{3}" / "{3+}",
// two literals in one rejected line; and the mirror cases in which the line does NOT end in a
// literal header although it contains pieces of one ("9+}" without "{", "{x+}", "{+}", "{-9+}",
// "{9+}" not at the end of the line).
func rejectedLineVariants(ci int) []Variant {
	tag := fmt.Sprintf("s%d", ci)
	jk := fmt.Sprintf("Jk%d", ci)
	prefixes := []struct{ name, text string }{
		{"UNKNOWN", "XFROB "}, // rejected at the command name
		{"NOOP", "NOOP "},     // rejected where CRLF was expected
		{"STORE-syntax-error", "STORE 1 FLAGS (\\Seen "}, // rejected inside the flag list
	}
	// text between the rejected point and the literal header that ends the line
	shapes := []struct{ name, text string }{
		{"no-brace", jk + " "},
		{"quoted-open-brace", "\"{\" "},
		{"quoted-literal-lookalike", "\"folder{1}\" "},
		{"atom-open-brace", "a{b "},
		{"close-brace", "a}b "},
		{"plus-close-brace", "x+} "},
		{"sync-lookalike-group", "{3} "},
		{"nonsync-lookalike-group", "{3+} "},
	}
	// the line does not end in a literal header: what follows is the next command
	lookalikes := []struct{ name, text string }{
		{"size-plus-close-without-open", jk + " 9+}"},
		{"non-numeric-size", jk + " {x+}"},
		{"empty-size", jk + " {+}"},
		{"negative-size", jk + " {-9+}"},
		{"nonsync-header-not-at-end", "{9+} " + jk},
	}
	var out []Variant
	n := 0
	lit := func() *Lit {
		marker := fmt.Sprintf("Mr%d%d", ci, n)
		n++
		head := marker + "a NOOP\r\n" + marker + "b NOOP\r\n"
		return &Lit{Announce: int64(len(head)), Head: head, Ctx: "buffered", Marker: marker, Class: "cmdlike"}
	}
	for _, p := range prefixes {
		for _, sh := range shapes {
			c := Cmd{Tag: tag, Kind: KPlain, Class: "nonsync-literal-in-rejected-command-line",
				Name:   fmt.Sprintf("%s(rejected-line,%s,{n+}cmdlike)", p.name, sh.name),
				Chunks: []Chunk{{Text: tag + " " + p.text + sh.text}, {Lit: lit()}, {Text: "\r\n"}}}
			if sh.name == "no-brace" {
				c.Junk = []string{jk}
			}
			v := Variant{Cmd: c}
			// follow-up set: an earlier "{" after the plainest rejection
			v.Core = p.name == "NOOP" && sh.name == "quoted-open-brace"
			out = append(out, v)
		}
		if p.name != "STORE-syntax-error" {
			// two literals in one rejected line, each header preceded by an earlier brace
			c := Cmd{Tag: tag, Kind: KPlain, Class: "nonsync-literal-in-rejected-command-line",
				Name:   fmt.Sprintf("%s(rejected-line,two-literals-with-earlier-braces)", p.name),
				Chunks: []Chunk{{Text: tag + " " + p.text + "\"{\" "}, {Lit: lit()}, {Text: " a{b {3} "}, {Lit: lit()}, {Text: "\r\n"}}}
			out = append(out, Variant{Cmd: c})
		}
		for _, la := range lookalikes {
			c := Cmd{Tag: tag, Kind: KPlain, Class: "literal-lookalike-at-end-of-rejected-command-line", Junk: []string{jk},
				Name:   fmt.Sprintf("%s(rejected-line,%s)", p.name, la.name),
				Chunks: []Chunk{{Text: tag + " " + p.text + la.text + "\r\n"}}}
			out = append(out, Variant{Cmd: c})
		}
	}
	return out
}

// Sentinel is the trailing "zz NOOP".
func Sentinel() Cmd {
	return Cmd{Tag: "zz", Name: "NOOP-sentinel", Chunks: []Chunk{{Text: "zz NOOP\r\n"}}, Benign: &Expect{States: inAll}}
}

// HasWaitPoint: the stream contains a point where the client has to wait for the server (only
// then does the "sends anyway" behaviour differ).
func HasWaitPoint(cmds []Cmd) bool {
	for _, c := range cmds {
		if c.Kind != KPlain {
			return true
		}
		for _, ch := range c.Chunks {
			if ch.Lit != nil && ch.Lit.Sync {
				return true
			}
		}
	}
	return false
}

// BigStreams are the two cases that really send an over-limit APPEND payload (100 MiB + 1).
func BigStreams() []Stream {
	ts := templates()
	var t *template
	for i := range ts {
		if ts[i].name == "APPEND" {
			t = &ts[i]
		}
	}
	a := ArgVar{Enc: "lit", Sync: false, Size: AppendLimit + 1, Class: "cmdlike"}
	var out []Stream
	for _, caps := range []int{CapsRev1, CapsLiteralPlus} {
		v := build(t, 0, []ArgVar{{Enc: "atom"}}, &a, false)
		out = append(out, Stream{Caps: caps, Start: StAuth, Cmds: []Cmd{v.Cmd, Sentinel()}})
	}
	return out
}
