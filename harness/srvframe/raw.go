package srvframe

import (
	"fmt"
	"regexp"
	"strings"
	"time"

	imap "github.com/emersion/go-imap/v2"
	"github.com/emersion/go-imap/v2/imapserver"
	"github.com/emersion/go-imap/v2/verif/srvkit"
)

// RawCase is a client byte stream given as explicit segments (one server Read each, quiescence
// in between), an end-of-connection fault and a backend script. C06 uses it for mutated command
// lines, raw garbage and the crash-point enumeration.
type RawCase struct {
	Caps        int
	Setup       []string // commands that are required to succeed before the case proper starts
	Segs        []string
	Fault       string // "eof" (clean end of stream) or "reset" (read error)
	FailWriteAt int    // server write call index from which every write fails; -1: never
	IdleUpdates int    // updates the idle goroutine writes before waiting for stop
	IdleLate    int    // updates it writes after stop was closed
	Responsive  bool   // the backend writes FETCH/LIST/STORE/EXPUNGE data
	SessionErr  string // "" | "bye" | "error": NewSession fails
	LoginFails  bool
	Name        string
}

// Obs is what a raw case showed.
type Obs struct {
	Out       []byte
	Calls     []srvkit.Call
	End       End
	EngineErr string
	NoSession bool
	SentSegs  int
	Writes    int // server write calls
}

// Responsive makes the stub answer with data through the real writer API (well-behaved: literal
// sizes are exact, extended body structures are always supplied).
func Responsive(s *srvkit.Stub) {
	body := "Subject: hi\r\nFrom: a@b\r\n\r\nhello world\r\n"
	s.OnFetch = func(w *imapserver.FetchWriter, numSet imap.NumSet, o *imap.FetchOptions) error {
		m := w.CreateMessage(1)
		if o.UID {
			m.WriteUID(7)
		}
		if o.Flags {
			m.WriteFlags([]imap.Flag{imap.FlagSeen, "kw"})
		}
		if o.InternalDate {
			m.WriteInternalDate(time.Date(2024, 2, 3, 4, 5, 6, 0, time.UTC))
		}
		if o.RFC822Size {
			m.WriteRFC822Size(int64(len(body)))
		}
		if o.Envelope {
			m.WriteEnvelope(&imap.Envelope{Subject: "hi", From: []imap.Address{{Name: "A", Mailbox: "a", Host: "b"}}, MessageID: "<1@b>"})
		}
		if o.BodyStructure != nil {
			m.WriteBodyStructure(&imap.BodyStructureSinglePart{Type: "text", Subtype: "plain", Params: map[string]string{"charset": "us-ascii"}, Encoding: "7bit", Size: 13,
				Text: &imap.BodyStructureText{NumLines: 1}, Extended: &imap.BodyStructureSinglePartExt{}})
		}
		for _, bs := range o.BodySection {
			data := body
			if p := bs.Partial; p != nil {
				// a careful backend: clamp without overflowing
				if p.Offset < 0 || p.Offset > int64(len(data)) {
					data = ""
				} else {
					data = data[p.Offset:]
					if p.Size >= 0 && p.Size < int64(len(data)) {
						data = data[:p.Size]
					}
				}
			}
			wc := m.WriteBodySection(bs, int64(len(data)))
			wc.Write([]byte(data))
			wc.Close()
		}
		for _, bs := range o.BinarySection {
			wc := m.WriteBinarySection(bs, 5)
			wc.Write([]byte("hello"))
			wc.Close()
		}
		for _, bs := range o.BinarySectionSize {
			m.WriteBinarySectionSize(&imap.FetchItemBinarySection{Part: bs.Part}, 5)
		}
		return m.Close()
	}
	s.OnList = func(w *imapserver.ListWriter, ref string, patterns []string, o *imap.ListOptions) error {
		n := uint32(3)
		d := &imap.ListData{Attrs: []imap.MailboxAttr{imap.MailboxAttrHasNoChildren}, Delim: '/', Mailbox: "INBOX"}
		if o != nil && o.ReturnStatus != nil {
			sz := int64(9)
			d.Status = &imap.StatusData{Mailbox: "INBOX", NumMessages: &n, UIDNext: 4, UIDValidity: 1, NumUnseen: &n, NumDeleted: &n, Size: &sz, AppendLimit: &n, DeletedStorage: &sz}
		}
		if err := w.WriteList(d); err != nil {
			return err
		}
		return w.WriteList(&imap.ListData{Delim: '/', Mailbox: "Entwürfe/x y", ChildInfo: &imap.ListDataChildInfo{Subscribed: true}})
	}
	s.OnStore = func(w *imapserver.FetchWriter, numSet imap.NumSet, f *imap.StoreFlags, o *imap.StoreOptions) error {
		if f.Silent {
			return nil
		}
		m := w.CreateMessage(1)
		m.WriteFlags(f.Flags)
		return m.Close()
	}
	s.OnExpunge = func(w *imapserver.ExpungeWriter, uids *imap.UIDSet) error {
		return w.WriteExpunge(1)
	}
	s.OnPoll = func(w *imapserver.UpdateWriter, allowExpunge bool) error { return nil }
}

// RunRaw plays one raw case on a fresh connection.
func (w *Worker) RunRaw(rc *RawCase) *Obs {
	obs := &Obs{}
	ss := w.Server(rc.Caps)
	w.mu.Lock()
	switch rc.SessionErr {
	case "bye":
		w.NewSessionErr = &imap.Error{Type: imap.StatusResponseTypeBye, Text: "go away"}
	case "error":
		w.NewSessionErr = fmt.Errorf("backend down")
	default:
		w.NewSessionErr = nil
	}
	w.mu.Unlock()
	ss.Prepare = func(s *srvkit.Stub) {
		if rc.Responsive {
			Responsive(s)
		}
		if rc.LoginFails {
			s.OnLogin = func(u, p string) error {
				if u == "bad" {
					return imapserver.ErrAuthFailed
				}
				return nil
			}
		}
	}
	c := w.Dial(rc.Caps, func(p *srvkit.Pipe) { p.FailWriteAt = rc.FailWriteAt })
	w.mu.Lock()
	w.NewSessionErr = nil
	w.mu.Unlock()
	ss.Prepare = nil
	defer c.P.ReleaseOutput()
	if c.Sess == nil {
		obs.NoSession = true
	} else {
		c.Sess.IdleUpdates = int32(rc.IdleUpdates)
		c.Sess.IdleLate = int32(rc.IdleLate)
	}
	for _, l := range rc.Setup {
		out := c.Send([]byte(l))
		if rc.FailWriteAt >= 0 || rc.SessionErr != "" {
			continue
		}
		rs, rest, err := srvkit.ParseResponses(out)
		t := srvkit.Tagged(rs)
		if err != nil || len(rest) > 0 || len(t) != 1 || !strings.HasPrefix(t[0].Text, "OK") || c.Closed || c.Hang != "" {
			obs.EngineErr = fmt.Sprintf("set-up command %q failed: %q", l, out)
			obs.End = c.Finish(false)
			return obs
		}
	}
	for _, seg := range rc.Segs {
		if c.Closed || c.Hang != "" {
			break
		}
		c.Send([]byte(seg))
		obs.SentSegs++
	}
	obs.End = c.Finish(rc.Fault == "reset")
	_, obs.Writes = c.P.Stats()
	obs.Out = c.Out
	if c.Sess != nil {
		obs.Calls = c.Sess.Snapshot()
	}
	return obs
}

var digits = regexp.MustCompile(`[0-9]+`)
var hexaddr = regexp.MustCompile(`0x[0-9a-f]+`)

// PanicKey condenses a "panic handling command" log line to a stable key: the panic value with
// numbers blanked plus the innermost go-imap frame.
func PanicKey(line string) string {
	first := line
	if i := strings.IndexByte(line, '\n'); i >= 0 {
		first = line[:i]
	}
	first = strings.TrimPrefix(first, "panic handling command: ")
	first = strings.TrimPrefix(first, "panic idling: ")
	first = hexaddr.ReplaceAllString(first, "X")
	first = digits.ReplaceAllString(first, "N")
	if len(first) > 80 {
		first = first[:80]
	}
	frame := ""
	for _, l := range strings.Split(line, "\n") {
		l = strings.TrimSpace(l)
		if strings.HasPrefix(l, "github.com/emersion/go-imap/v2/") && !strings.Contains(l, "(*Conn).serve.func") && !strings.Contains(l, "verif/") {
			f := strings.TrimPrefix(l, "github.com/emersion/go-imap/v2/")
			if i := strings.IndexByte(f, '('); i > 0 && !strings.HasPrefix(f[i:], "(*") {
				f = f[:i]
			} else if i := strings.LastIndexByte(f, '('); i > 0 {
				f = f[:i]
			}
			frame = f
			break
		}
	}
	return strings.ReplaceAll(first, " ", "-") + "@" + frame
}

// Survival applies the part of the C06 oracle that only needs the end-of-connection
// observations: no panic, goroutines gone, session closed exactly once.
func Survival(end End, noSession bool) []Finding {
	var fs []Finding
	for _, l := range end.Logs {
		if strings.Contains(l, "panic") {
			fs = append(fs, Finding{Key: "server-panic:" + PanicKey(l), Msg: clip(l, 1500)})
		}
	}
	if end.Hang != "" {
		k := "server-goroutine-does-not-finish"
		if strings.Contains(end.Hang, "Idle") {
			k = "idle-goroutine-does-not-finish"
		} else if strings.Contains(end.Hang, "Server.conns") {
			k = "connection-still-tracked-does-not-finish"
		}
		fs = append(fs, Finding{Key: k, Msg: end.Hang})
		return fs
	}
	if noSession {
		return fs
	}
	if end.CloseCount != 1 {
		fs = append(fs, Finding{Key: fmt.Sprintf("session-closed-%d-times", end.CloseCount), Msg: fmt.Sprintf("Session.Close was called %d times by the time the connection was gone (want exactly 1)", end.CloseCount)})
	}
	return fs
}

// Limits applies the buffering clauses of C06 to the backend calls of a played stream.
func Limits(res *Result) []Finding {
	var fs []Finding
	st := res.S
	for _, p := range res.Points {
		if p.Kind == "sync-literal" && p.Plus && p.Lit.Oversized() {
			fs = append(fs, Finding{Key: "continuation-for-oversized-literal:" + p.Lit.Ctx, Cmd: p.Cmd, Msg: "server sent \"+\" for " + whatIs(p.Lit)})
		}
	}
	var big []*Lit
	for ci := range st.Cmds {
		for _, ch := range st.Cmds[ci].Chunks {
			if l := ch.Lit; l != nil && l.Ctx == "buffered" && l.Announce > BufferedLimit && l.Marker != "" {
				big = append(big, l)
			}
		}
	}
	for i, call := range res.Calls {
		if i < res.SetupCalls {
			continue
		}
		if call.Method == "Append" && len(call.Args) > 1 {
			if n, ok := call.Args[1].(int64); ok && n > AppendLimit {
				fs = append(fs, Finding{Key: "append-over-limit-reaches-backend", Cmd: res.CallCmd[i], Msg: fmt.Sprintf("Session.Append called with a %d byte literal", n)})
			}
		}
		for ai, a := range call.Args {
			if call.Method == "Append" && ai >= 3 {
				continue // the streamed message itself
			}
			for _, s := range Strings(srvkit.Call{Args: []interface{}{a}}) {
				if len(s) <= BufferedLimit {
					continue
				}
				for _, l := range big {
					if strings.Contains(s, l.Marker) {
						fs = append(fs, Finding{Key: "oversized-literal-buffered", Cmd: res.CallCmd[i], Msg: fmt.Sprintf("%s received a %d byte string argument that came from %s", call.Method, len(s), whatIs(l))})
					}
				}
			}
		}
	}
	return fs
}
