package srvframe

import (
	"fmt"
	"strings"

	"github.com/emersion/go-imap/v2/verif/srvkit"
)

// Finding is one oracle failure.
type Finding struct {
	Key string
	Msg string
	Cmd int // culprit command index
}

// ClassOf names the framing peculiarity of a command (used in violation keys, so that one defect
// gives one key whatever template or payload triggered it).
func ClassOf(cmd *Cmd, caps int) string {
	if strings.HasSuffix(cmd.Class, "-in-rejected-command-line") {
		// the command is rejected for its syntax before any size is looked at
		return cmd.Class
	}
	best := ""
	order := []string{"", "literal", "short-literal", "oversized-sync-literal", "nonsync-append-literal-over-4096-without-LITERAL+", "nonsync-append-literal-over-append-limit", "refused-nonsync-literal"}
	rank := func(s string) int {
		for i, o := range order {
			if o == s {
				return i
			}
		}
		return 0
	}
	for _, ch := range cmd.Chunks {
		l := ch.Lit
		if l == nil {
			continue
		}
		c := "literal"
		switch {
		case l.Ctx == "buffered" && !l.Sync && l.Announce > BufferedLimit:
			c = "refused-nonsync-literal"
		case l.Ctx == "append" && !l.Sync && l.Announce > AppendLimit:
			c = "nonsync-append-literal-over-append-limit"
		case l.Ctx == "append" && !l.Sync && l.Announce > BufferedLimit && caps != CapsLiteralPlus:
			c = "nonsync-append-literal-over-4096-without-LITERAL+"
		case l.Sync && l.Oversized():
			c = "oversized-sync-literal"
		case l.Stop:
			c = "short-literal"
		}
		if rank(c) > rank(best) {
			best = c
		}
	}
	// a peculiarity set by the generator wins unless the command carries a literal the server has
	// to refuse for its size (then that is the more specific description)
	if cmd.Class != "" && rank(best) < rank("oversized-sync-literal") {
		return cmd.Class
	}
	return best
}

func mkKey(symptom, class string, cmd *Cmd) string {
	isAppend := cmd != nil && strings.HasPrefix(cmd.Name, "APPEND")
	switch class {
	case "refused-nonsync-literal", "nonsync-append-literal-over-append-limit", "nonsync-append-literal-over-4096-without-LITERAL+", "nonsync-literal-in-rejected-command-line":
		// one defect each, whatever the symptom (marker executed as a command, marker in a backend
		// call, foreign tagged responses)
		if symptom == "literal-smuggling" || symptom == "unexpected-tagged-response" {
			return "literal-smuggling:" + class + "-parsed"
		}
	case "over-long-continuation-line":
		if symptom == "literal-smuggling" || symptom == "unexpected-tagged-response" {
			return "over-long-continuation-line:tail-executed-as-command"
		}
	case "junk-after-literal", "junk-tail":
		if symptom == "no-tagged-response" && isAppend {
			return "append-junk-tail-no-tagged-response"
		}
	}
	if class == "" {
		class = "ordinary-command"
	}
	return symptom + ":" + class
}

// stateAfter tracks the connection state as far as the harness can be sure of it.
func stateAfter(state int, known bool, cmd *Cmd, caps int) (int, bool) {
	n := cmd.Name
	changes := strings.HasPrefix(n, "LOGIN") || strings.HasPrefix(n, "AUTHENTICATE") || strings.HasPrefix(n, "SELECT")
	if !changes {
		if strings.HasPrefix(n, "UNKNOWN") && state == StFresh {
			return state, false // BYE
		}
		return state, known
	}
	if !known {
		return state, false
	}
	if cmd.Benign != nil && cmd.Benign.States&(1<<uint(state)) != 0 && (!cmd.Benign.NeedLiteralPlus || caps == CapsLiteralPlus) {
		if strings.HasPrefix(n, "SELECT") {
			return StSelected, true
		}
		return StAuth, true
	}
	// a LOGIN/SELECT that is not plainly valid: in its valid state it may or may not succeed;
	// in another state it is refused after parsing
	if cmd.Benign != nil && cmd.Benign.States&(1<<uint(state)) == 0 {
		return state, true
	}
	if cmd.Benign == nil {
		// valid state for the template?
		valid := (strings.HasPrefix(n, "SELECT") && state >= StAuth) || (!strings.HasPrefix(n, "SELECT") && state == StFresh)
		if !valid {
			return state, true
		}
	}
	return state, false
}

// Judge applies the C04 oracle to one played stream.
func Judge(res *Result) []Finding {
	st := res.S
	var fs []Finding
	add := func(symptom string, ci int, format string, a ...interface{}) {
		var cmd *Cmd
		class := ""
		if ci >= 0 && ci < len(st.Cmds) {
			cmd = &st.Cmds[ci]
			class = ClassOf(cmd, st.Caps)
		}
		fs = append(fs, Finding{Key: mkKey(symptom, class, cmd), Msg: fmt.Sprintf(format, a...), Cmd: ci})
	}
	// culprit for sequence-level symptoms: the command where the sequences diverge if it has a
	// peculiarity, else the nearest earlier command with one, else the nearest later one
	culprit := func(at int) int {
		odd := func(i int) bool {
			c := ClassOf(&st.Cmds[i], st.Caps)
			return c != "" && c != "literal"
		}
		if at < 0 || at >= len(st.Cmds) {
			at = len(st.Cmds) - 1
		}
		for i := at; i >= 0; i-- {
			if odd(i) {
				return i
			}
		}
		for i := at + 1; i < len(st.Cmds); i++ {
			if odd(i) {
				return i
			}
		}
		for i := at; i >= 0; i-- {
			if ClassOf(&st.Cmds[i], st.Caps) != "" {
				return i
			}
		}
		return at
	}
	cmdOfTag := func(tag string) int {
		for i := range st.Cmds {
			if st.Cmds[i].Tag == tag {
				return i
			}
		}
		return -1
	}

	// (a) whole well-formed responses only
	body := res.Out[res.SetupLen:]
	resps, rest, perr := srvkit.ParseResponses(body)
	if perr != nil || len(rest) > 0 {
		add("malformed-output", culprit(0), "output is not a sequence of whole responses: err=%v rest=%q", perr, clip(string(rest), 120))
	}

	// tagged completions in the output
	var T []string
	status := map[string]string{}
	for _, r := range resps {
		if r.Tag != "*" && r.Tag != "+" {
			T = append(T, r.Tag)
			w := r.Words()
			if len(w) > 0 {
				status[r.Tag] = strings.ToUpper(w[0])
			}
		}
	}
	// Expected has one entry per command sent, in order, so an index into it is a command index:
	// commands from looseCmd on were sent into a framing the client itself broke (or the server
	// left undefined by not answering)
	looseCmd := len(st.Cmds)
	if res.Loose >= 0 {
		looseCmd = res.Loose
	}

	// (c) smuggled markers
	type owner struct {
		lit *Lit
		cmd int
	}
	markers := map[string]owner{}
	exempt := map[*Lit]bool{}
	exemptJunk := map[int]bool{}
	for _, p := range res.Points {
		if !p.Plus && p.SentMore {
			// the client ignored the missing "+": what it sent is, by the protocol, new command text
			exemptJunk[p.Cmd] = true
			for _, ch := range st.Cmds[p.Cmd].Chunks {
				if ch.Lit != nil {
					exempt[ch.Lit] = true
				}
			}
		}
	}
	for ci := range st.Cmds {
		for _, ch := range st.Cmds[ci].Chunks {
			if ch.Lit != nil && ch.Lit.Marker != "" {
				markers[ch.Lit.Marker] = owner{ch.Lit, ci}
			}
		}
		for _, j := range st.Cmds[ci].Junk {
			markers[j] = owner{nil, ci}
		}
	}
	isExempt := func(o owner) bool {
		if o.cmd >= looseCmd {
			return true
		}
		if o.lit != nil {
			return exempt[o.lit]
		}
		return exemptJunk[o.cmd]
	}
	var mnames []string
	for m := range markers {
		mnames = append(mnames, m)
	}
	sortStrings(mnames)
	smuggled := map[string]bool{}
	for _, r := range resps {
		if r.Tag == "*" || r.Tag == "+" {
			continue
		}
		for _, m := range mnames {
			o := markers[m]
			if strings.Contains(r.Tag, m) && !smuggled[m] && !isExempt(o) {
				smuggled[m] = true
				add("literal-smuggling", o.cmd, "text %q that is not a command (%s) was executed as a command: the output contains the tagged response %q", clip(r.Tag, 40), whatIs(o.lit), clip(clip(r.Tag, 40)+" "+r.Text, 100))
			}
		}
	}
	for i, call := range res.Calls {
		if i < res.SetupCalls {
			continue
		}
		for _, s := range Strings(call) {
			for _, m := range mnames {
				o := markers[m]
				if !strings.Contains(s, m) || smuggled[m] || isExempt(o) {
					continue
				}
				if o.lit == nil {
					smuggled[m] = true
					add("literal-smuggling", o.cmd, "junk text reached the backend: %s(... %q ...)", call.Method, clip(s, 80))
					continue
				}
				l := o.lit
				ok := false
				if call.Method == l.Method {
					if v, full := l.Value(); full && s == v {
						ok = true
					} else if l.Ctx == "append" && l.Announce <= 1<<20 {
						sent := l.Bytes()
						if int64(len(sent)) > l.Announce {
							sent = sent[:l.Announce]
						}
						ok = strings.HasPrefix(string(sent), s)
					}
				}
				if !ok {
					smuggled[m] = true
					add("literal-smuggling", o.cmd, "octets of a literal announced for %s reached the backend as something else: %s(... %q ...) (literal: %s)", l.Method, call.Method, clip(s, 80), whatIs(l))
				}
			}
		}
	}
	hasSmuggled := func(tag string) bool {
		for m := range smuggled {
			if strings.Contains(tag, m) {
				return true
			}
		}
		return false
	}

	// (b) tagged completions = complete framed commands, in order, one each
	E := res.Expected
	limit := len(E)
	if res.Loose >= 0 && res.Loose < limit {
		limit = res.Loose
	}
	closedEarly := res.ClosedAt >= 0
	seqOK := true
	// tags already reported as executed smuggled text are not reported again as foreign tags
	var Tc []string
	for _, t := range T {
		if !hasSmuggled(t) {
			Tc = append(Tc, t)
		} else {
			seqOK = false
		}
	}
	for i := 0; i < len(Tc) && i < limit; i++ {
		if Tc[i] == E[i] {
			continue
		}
		seqOK = false
		later := false
		for j := i + 1; j < len(E); j++ {
			if E[j] == Tc[i] {
				later = true
			}
		}
		if res.Incomplete && res.SentCmds < len(st.Cmds) && Tc[i] == st.Cmds[res.SentCmds].Tag {
			// a completion for the abandoned last command: so E[i] is missing
			later = true
		}
		ci := cmdOfTag(E[i])
		if later {
			add("no-tagged-response", culprit(ci), "complete command %q got no tagged completion (the next completion is %q): got %v, complete commands %v", E[i], clip(Tc[i], 40), clipAll(T, 40), E)
		} else {
			add("unexpected-tagged-response", culprit(ci), "tagged completion #%d carries tag %q, the complete commands are %v (got %v)", i, clip(Tc[i], 40), E, clipAll(T, 40))
		}
		break
	}
	if seqOK && res.Loose < 0 && len(Tc) > len(E) {
		extra := Tc[len(E):]
		ok := false
		if res.Incomplete && len(extra) == 1 && res.SentCmds < len(st.Cmds) {
			// an error completion for the command the client abandoned half-way is harmless
			last := st.Cmds[res.SentCmds]
			if extra[0] == last.Tag && status[last.Tag] != "OK" {
				ok = true
			}
		}
		if !ok {
			seqOK = false
			add("unexpected-tagged-response", culprit(len(st.Cmds)-1), "more tagged completions than complete commands: got %v, complete commands %v", clipAll(T, 40), E)
		}
	}
	if seqOK && len(Tc) < limit && !closedEarly && res.End.Hang == "" {
		seqOK = false
		ci := cmdOfTag(E[len(Tc)])
		add("no-tagged-response", culprit(ci), "complete command %q got no tagged completion and the server did not close the connection: got %v, complete commands %v", E[len(Tc)], clipAll(T, 40), E)
	}

	// (d) continuation requests
	for bi, b := range res.Batches {
		if b.Cmd >= looseCmd {
			continue
		}
		for i, r := range b.Resps {
			if r.Tag != "+" {
				continue
			}
			legal := b.PlusOK
			for _, later := range b.Resps[i+1:] {
				// after a continuation request the server waits; only the idle goroutine's untagged
				// updates may follow
				if later.Tag != "*" || b.After != "idle-line" {
					legal = false
				}
			}
			if !legal {
				// keyed by where it appeared (in pipelined mode the batch spans several commands)
				fs = append(fs, Finding{Key: "unexpected-continuation-request:after-" + b.After, Cmd: b.Cmd, Msg: fmt.Sprintf("continuation request %q after %s (batch %d): nothing the client sent asks for one, or the server does not wait after it", clip(r.Text, 40), b.After, bi)})
			}
		}
	}
	for _, p := range res.Points {
		if p.Loose {
			continue
		}
		closedHere := res.ClosedAt >= 0 && res.ClosedAt <= p.Cmd
		switch p.Kind {
		case "sync-literal":
			if p.Plus && p.Lit.Oversized() {
				add("continuation-for-oversized-literal", p.Cmd, "server sent \"+\" for %s", whatIs(p.Lit))
			}
			if !p.Plus && !p.Tagged && !closedHere && res.End.Hang == "" {
				add("sync-literal-unanswered", p.Cmd, "after the header of %s the server sent neither \"+\" nor a tagged completion; it waits, and so does a conforming client", whatIs(p.Lit))
			}
		default:
			if !p.Plus && !p.Tagged && !closedHere && res.End.Hang == "" {
				add("command-unanswered", p.Cmd, "%s got neither \"+\" nor a tagged completion", p.Kind)
			}
		}
	}

	// valid commands: answered OK, delivered intact
	state, known := st.Start, true
	for ci := range st.Cmds {
		cmd := &st.Cmds[ci]
		if ci >= res.SentCmds || ci >= looseCmd {
			break
		}
		if b := cmd.Benign; b != nil && known && b.States&(1<<uint(state)) != 0 && (!b.NeedLiteralPlus || st.Caps == CapsLiteralPlus) && seqOK && !closedEarly {
			if status[cmd.Tag] != "OK" {
				add("valid-command-rejected", ci, "command %s is valid in state %s but was answered %q", cmd.Name, StateName[state], status[cmd.Tag])
			} else if !st.Pipelined && b.Method != "" {
				found := false
				for i, call := range res.Calls {
					if res.CallCmd[i] != ci || call.Method != b.Method {
						continue
					}
					ss := Strings(call)
					all := true
					for _, v := range b.Values {
						has := false
						for _, s := range ss {
							if s == v {
								has = true
							}
						}
						if !has {
							all = false
						}
					}
					if all {
						found = true
					}
				}
				if !found {
					add("argument-not-delivered-intact", ci, "command %s answered OK but no %s call carries the announced values %v; calls: %s", cmd.Name, b.Method, clipAll(b.Values, 40), clip(fmt.Sprint(callsOf(res, ci)), 300))
				}
			}
		}
		state, known = stateAfter(state, known, cmd, st.Caps)
	}
	// once the framing has gone wrong at one command, what happens to later commands is a
	// consequence: report the earliest culprit only (each defect also occurs alone elsewhere)
	if len(fs) > 1 {
		first := len(st.Cmds)
		for _, f := range fs {
			if f.Cmd >= 0 && f.Cmd < first {
				first = f.Cmd
			}
		}
		var keep []Finding
		for _, f := range fs {
			if f.Cmd == first || f.Cmd < 0 {
				keep = append(keep, f)
			}
		}
		fs = keep
	}
	return fs
}

func callsOf(res *Result, ci int) []string {
	var out []string
	for i, c := range res.Calls {
		if res.CallCmd[i] == ci {
			out = append(out, fmt.Sprintf("%s%v", c.Method, clipAll(Strings(c), 40)))
		}
	}
	return out
}

func whatIs(l *Lit) string {
	if l == nil {
		return "junk after the end of a command's arguments"
	}
	k := "non-synchronising"
	if l.Sync {
		k = "synchronising"
	}
	return fmt.Sprintf("%s literal {%d} in %s context, payload class %s, %d octets sent", k, l.Announce, l.Ctx, l.Class, l.ActualLen())
}

func clip(s string, n int) string {
	if len(s) > n {
		return s[:n] + fmt.Sprintf("…(+%d)", len(s)-n)
	}
	return s
}

func clipAll(ss []string, n int) []string {
	out := make([]string, len(ss))
	for i, s := range ss {
		out[i] = clip(s, n)
	}
	return out
}

// Transcript renders a played stream for humans (payload filler elided).
func Transcript(res *Result) []string {
	var out []string
	elide := func(b []byte) string {
		s := string(b)
		for {
			i := strings.Index(s, strings.Repeat("a", 64))
			if i < 0 {
				break
			}
			j := i
			for j < len(s) && s[j] == 'a' {
				j++
			}
			s = s[:i] + fmt.Sprintf("<'a' x %d>", j-i) + s[j:]
		}
		return clip(s, 600)
	}
	out = append(out, "S(setup): "+elide(res.Out[:res.SetupLen]))
	for _, b := range res.Batches {
		out = append(out, fmt.Sprintf("-- after %s (command #%d):", b.After, b.Cmd))
		out = append(out, "S: "+elide(b.Raw))
	}
	for i, c := range res.Calls {
		if i < res.SetupCalls {
			continue
		}
		out = append(out, fmt.Sprintf("backend: %s%q", c.Method, clipAll(Strings(c), 60)))
	}
	for _, l := range res.End.Logs {
		out = append(out, "log: "+clip(l, 200))
	}
	return out
}

// Wire renders what the client sends for a stream when every wait point is answered with "+".
func Wire(st *Stream) string {
	var sb strings.Builder
	for _, c := range st.Cmds {
		for _, ch := range c.Chunks {
			if ch.Lit != nil {
				sb.WriteString(ch.Lit.Header())
				b := ch.Lit.Bytes()
				if len(b) > 200 {
					sb.WriteString(string(b[:120]) + fmt.Sprintf("<…%d octets…>", len(b)-160) + string(b[len(b)-40:]))
				} else {
					sb.Write(b)
				}
			} else {
				sb.WriteString(ch.Text)
			}
		}
		sb.WriteString(c.Cont)
	}
	return sb.String()
}

func sortStrings(s []string) {
	for i := range s {
		for j := i + 1; j < len(s); j++ {
			if s[j] < s[i] {
				s[i], s[j] = s[j], s[i]
			}
		}
	}
}
