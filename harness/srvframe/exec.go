// Package srvframe is shared by C04 (server command framing) and C06 (server survives arbitrary
// input and disconnects): a description of client byte streams at the level of IMAP framing
// (command lines, synchronising / non-synchronising literals, AUTHENTICATE and IDLE exchanges),
// a driver that plays such a stream against a real imapserver.Conn over srvkit.Pipe and records
// what the framing *must* be (which commands are complete, where a continuation request is
// legal), and the end-of-connection bookkeeping (the connection's goroutines are gone, the
// session was closed exactly once, the Server forgot the connection).
package srvframe

import (
	"bytes"
	"fmt"
	"io"
	"reflect"
	"runtime"
	"strings"
	"sync"
	"sync/atomic"
	"time"
	"unsafe"

	imap "github.com/emersion/go-imap/v2"
	"github.com/emersion/go-imap/v2/imapserver"
	"github.com/emersion/go-imap/v2/verif/srvkit"
)

// AppendLimit mirrors imapserver's (unexported) appendLimit: the property statement names it
// ("an APPEND larger than the append limit is refused before its payload is read").
const AppendLimit = 100 * 1024 * 1024

// BufferedLimit is the 4096-byte cap of literals that are buffered in memory.
const BufferedLimit = 4096

// ---------------------------------------------------------------------------------------------
// stream description
// ---------------------------------------------------------------------------------------------

// Lit is one literal inside a command.
type Lit struct {
	Sync     bool   // {n} (client must wait for "+") or {n+}
	Lit8     bool   // "~{" prefix
	Announce int64  // the size in the header
	Head     string // payload = Head + Fill x 'a' + Tail   (what is really sent after the header)
	Fill     int64
	Tail     string
	Stop     bool   // announced > actual: after the payload the client stops sending for good
	Ctx      string // "buffered" (string argument) or "append" (streamed message)
	Marker   string // unique marker occurring in the payload ("" if the payload is too short)
	Method   string // backend method whose argument this literal is announced for
	Class    string // payload class, for samples/keys
}

func (l *Lit) Header() string {
	p := ""
	if l.Lit8 {
		p = "~"
	}
	if l.Sync {
		return fmt.Sprintf("%s{%d}\r\n", p, l.Announce)
	}
	return fmt.Sprintf("%s{%d+}\r\n", p, l.Announce)
}

func (l *Lit) ActualLen() int64 { return int64(len(l.Head)) + l.Fill + int64(len(l.Tail)) }

func (l *Lit) Bytes() []byte {
	b := make([]byte, 0, l.ActualLen())
	b = append(b, l.Head...)
	for i := int64(0); i < l.Fill; i++ {
		b = append(b, 'a')
	}
	return append(b, l.Tail...)
}

// Value is the string the literal stands for: its first Announce octets (ok=false when fewer
// were sent).
func (l *Lit) Value() (string, bool) {
	if l.ActualLen() < l.Announce {
		return "", false
	}
	if l.Announce > 1<<20 {
		return "", false // never materialised as a string by the oracle
	}
	return string(l.Bytes()[:l.Announce]), true
}

// Oversized: a correct server must not accept this literal (statement of C04/C06: buffered
// literals are capped at 4096 bytes, APPEND at the append limit).
func (l *Lit) Oversized() bool {
	if l.Ctx == "append" {
		return l.Announce > AppendLimit
	}
	return l.Announce > BufferedLimit
}

type Chunk struct {
	Text string `json:",omitempty"`
	Lit  *Lit   `json:",omitempty"`
}

const (
	KPlain = iota // a command line with optional literals
	KAuth         // AUTHENTICATE: first line, then (if the server asks) one SASL response line
	KIdle         // IDLE: first line, then (if the server says "+ idling") one terminating line
)

// Expect describes a command that is valid as sent: it must be answered OK and reach the
// backend method with every listed string among the call's arguments.
type Expect struct {
	Method string
	Values []string
	States int // bit i set: valid when the connection starts the command in state i
	// NeedLiteralPlus: only valid when the server advertises LITERAL+ (non-synchronising
	// literal above 4096 bytes).
	NeedLiteralPlus bool
}

type Cmd struct {
	Tag         string
	Kind        int
	Name        string   // template and variant, for samples
	Class       string   // anomaly class of this command, used in violation keys ("" = ordinary)
	Chunks      []Chunk  // first line (KAuth/KIdle) or whole command (KPlain)
	Cont        string   `json:",omitempty"` // KAuth/KIdle: second line including CRLF
	IdleUpdates int      `json:",omitempty"` // updates the backend writes while idling
	Junk        []string `json:",omitempty"` // markers in non-literal junk: must never show up anywhere
	Benign      *Expect  `json:",omitempty"`
}

const (
	StFresh = iota
	StAuth
	StSelected
)

var StateName = []string{"fresh", "after-LOGIN", "after-SELECT"}

const (
	CapsRev1 = iota // IMAP4rev1 only (implies LITERAL-)
	CapsLiteralPlus
	CapsRev2
)

var CapsName = []string{"IMAP4rev1", "IMAP4rev1+LITERAL+", "IMAP4rev1+IMAP4rev2"}

func CapSet(i int) imap.CapSet {
	switch i {
	case CapsLiteralPlus:
		return imap.CapSet{imap.CapIMAP4rev1: {}, imap.CapLiteralPlus: {}}
	case CapsRev2:
		return imap.CapSet{imap.CapIMAP4rev1: {}, imap.CapIMAP4rev2: {}}
	}
	return imap.CapSet{imap.CapIMAP4rev1: {}}
}

// Stream is one client byte stream together with the way the client behaves at the points where
// the protocol makes it wait.
type Stream struct {
	Caps      int
	Start     int
	Cmds      []Cmd
	Anyway    bool // the client sends literal payloads / continuation lines even without "+"
	Pipelined bool // everything between two forced synchronisation points goes out as one segment
}

func (s *Stream) Describe() string {
	var parts []string
	for _, c := range s.Cmds {
		parts = append(parts, c.Name)
	}
	mode := "per-command"
	if s.Pipelined {
		mode = "pipelined"
	}
	if s.Anyway {
		mode += ",sends-anyway"
	}
	return fmt.Sprintf("[%s | %s | %s] %s", CapsName[s.Caps], StateName[s.Start], mode, strings.Join(parts, " ; "))
}

// ---------------------------------------------------------------------------------------------
// session wrapper: closed signal, idle bookkeeping
// ---------------------------------------------------------------------------------------------

// Sess wraps the recording stub: Close is signalled, Idle writes a scripted number of updates,
// reports when it is done writing (so that the driver's quiescence is exact although the idle
// goroutine runs concurrently with the command goroutine) and when it has returned.
type Sess struct {
	*srvkit.Stub
	closedCh     chan struct{}
	closeOnce    sync.Once
	IdleUpdates  int32 // updates written before waiting for stop
	IdleLate     int32 // updates written after stop was closed
	idleStarted  int32
	idleReady    int32
	idleReturned int32
}

func (s *Sess) Close() error {
	err := s.Stub.Close()
	s.closeOnce.Do(func() { close(s.closedCh) })
	return err
}

func (s *Sess) Idle(w *imapserver.UpdateWriter, stop <-chan struct{}) error {
	atomic.AddInt32(&s.idleStarted, 1)
	defer func() {
		atomic.AddInt32(&s.idleReturned, 1)
		if s.Stub.Pipe != nil {
			s.Stub.Pipe.Notify()
		}
	}()
	if err := s.Stub.Record("Idle"); err != nil {
		atomic.AddInt32(&s.idleReady, 1)
		if s.Stub.Pipe != nil {
			s.Stub.Pipe.Notify()
		}
		return err
	}
	var werr error
	for i := int32(0); i < atomic.LoadInt32(&s.IdleUpdates); i++ {
		if err := w.WriteNumMessages(uint32(10 + i)); err != nil && werr == nil {
			werr = err
		}
	}
	atomic.AddInt32(&s.idleReady, 1)
	if s.Stub.Pipe != nil {
		s.Stub.Pipe.Notify()
	}
	<-stop
	for i := int32(0); i < atomic.LoadInt32(&s.IdleLate); i++ {
		w.WriteNumMessages(uint32(20 + i))
	}
	return werr
}

// Mailbox names that select a backend answer to APPEND other than "read everything, accept".
const (
	MboxRefuseUnread = "refuse0"
	MboxRefusePartly = "refuse3"
	MboxLazy         = "lazy2"
)

func (s *Sess) Append(mailbox string, r imap.LiteralReader, o *imap.AppendOptions) (*imap.AppendData, error) {
	switch mailbox {
	case MboxRefuseUnread, MboxRefusePartly, MboxLazy:
		want := map[string]int{MboxRefuseUnread: 0, MboxRefusePartly: 3, MboxLazy: 2}[mailbox]
		buf := make([]byte, want)
		n, _ := io.ReadFull(r, buf)
		s.Stub.Record("Append", mailbox, r.Size(), *o, string(buf[:n]), "backend stops reading here")
		if mailbox == MboxLazy {
			return &imap.AppendData{UID: 7, UIDValidity: 1}, nil
		}
		return nil, &imap.Error{Type: imap.StatusResponseTypeNo, Code: imap.ResponseCodeTryCreate, Text: "no such mailbox"}
	}
	if r.Size() <= 1<<20 {
		return s.Stub.Append(mailbox, r, o)
	}
	var n int64
	buf := make([]byte, 1<<16)
	var rerr error
	for {
		k, err := r.Read(buf)
		n += int64(k)
		if err != nil {
			if err.Error() != "EOF" {
				rerr = err
			}
			break
		}
	}
	if err := s.Stub.Record("Append", mailbox, r.Size(), *o, fmt.Sprintf("<%d bytes read>", n), fmt.Sprint(rerr)); err != nil {
		return nil, err
	}
	return &imap.AppendData{UID: 7, UIDValidity: 1}, nil
}

func (s *Sess) IdleCounts() (started, ready, returned int32) {
	return atomic.LoadInt32(&s.idleStarted), atomic.LoadInt32(&s.idleReady), atomic.LoadInt32(&s.idleReturned)
}

// ---------------------------------------------------------------------------------------------
// worker: one StubServer per capability set
// ---------------------------------------------------------------------------------------------

type Worker struct {
	Watchdog time.Duration // engine watchdog for every wait
	srv      [3]*srvkit.StubServer
	mu       sync.Mutex
	cur      *Sess
	// NewSessionErr, when set, makes the next session creation fail with this error.
	NewSessionErr error
	prepIdle      func(*Sess)
}

func NewWorker(watchdog time.Duration) *Worker {
	return &Worker{Watchdog: watchdog}
}

func (w *Worker) Server(caps int) *srvkit.StubServer {
	if w.srv[caps] != nil {
		return w.srv[caps]
	}
	ss := srvkit.NewStubServer(imapserver.Options{InsecureAuth: true, Caps: CapSet(caps)})
	ss.Greeting = func(s *srvkit.Stub) (*imapserver.GreetingData, error) {
		w.mu.Lock()
		defer w.mu.Unlock()
		if w.NewSessionErr != nil {
			return nil, w.NewSessionErr
		}
		return nil, nil
	}
	ss.Wrap = func(s *srvkit.Stub) imapserver.Session {
		sess := &Sess{Stub: s, closedCh: make(chan struct{})}
		w.mu.Lock()
		w.cur = sess
		w.mu.Unlock()
		return sess
	}
	w.srv[caps] = ss
	return ss
}

func (w *Worker) Close() {
	for _, s := range w.srv {
		if s != nil {
			s.Close()
		}
	}
}

// ConnCount returns len(server.conns) read under server.mutex (the fields are unexported; the
// harness looks at them through reflection — an observer, nothing is modified).
func ConnCount(srv *imapserver.Server) (int, error) {
	v := reflect.ValueOf(srv).Elem()
	mf := v.FieldByName("mutex")
	cf := v.FieldByName("conns")
	if !mf.IsValid() || !cf.IsValid() || cf.Kind() != reflect.Map || mf.Type() != reflect.TypeOf(sync.Mutex{}) {
		return 0, fmt.Errorf("imapserver.Server no longer has mutex/conns fields of the expected shape")
	}
	mu := (*sync.Mutex)(unsafe.Pointer(mf.UnsafeAddr()))
	mu.Lock()
	n := cf.Len()
	mu.Unlock()
	return n, nil
}

// ---------------------------------------------------------------------------------------------
// connection under test
// ---------------------------------------------------------------------------------------------

// Conn is one connection driven by the harness.
type Conn struct {
	W        *Worker
	SS       *srvkit.StubServer
	P        *srvkit.Pipe
	Sess     *Sess // nil if session creation failed
	Out      []byte
	idleSeen int // "+ idling" lines in Out
	Closed   bool
	Hang     string // non-empty: a watchdog expired (where)
}

// Dial opens a connection and waits for the greeting. prep may set fault plans on the pipe.
func (w *Worker) Dial(caps int, prep func(p *srvkit.Pipe)) *Conn {
	learnIdlingLine()
	ss := w.Server(caps)
	w.mu.Lock()
	w.cur = nil
	w.mu.Unlock()
	c := &Conn{W: w, SS: ss}
	c.P = ss.Ln.DialWith(prep)
	c.Quiesce()
	w.mu.Lock()
	c.Sess = w.cur
	w.cur = nil
	w.mu.Unlock()
	return c
}

// idlingLine is the server's continuation line for IDLE (with the CRLF that precedes it): the
// driver counts it in the output to know that an idle goroutine is owed. Its text is the server's
// choice, so it is learnt once per process from a plain IDLE on a fresh connection.
var (
	idlingLine     = []byte("\r\n+ idling\r\n")
	idlingLineOnce sync.Once
)

func learnIdlingLine() {
	idlingLineOnce.Do(func() {
		ss := srvkit.NewStubServer(imapserver.Options{InsecureAuth: true, Caps: CapSet(CapsRev1)})
		defer ss.Close()
		d, _, err := ss.Connect()
		if err != nil {
			return
		}
		defer d.Close()
		if _, closed, err := d.Do("cal1 LOGIN u p\r\n"); err != nil || closed {
			return
		}
		resps, closed, err := d.Do("cal2 IDLE\r\n")
		if err != nil || closed {
			return
		}
		for _, r := range resps {
			if r.Tag == "+" {
				idlingLine = append([]byte("\r\n"), r.Raw...)
			}
		}
		d.Do("DONE\r\n")
	})
}

// Quiesce waits until the server goroutine is parked in Read with nothing to read and every
// idle goroutine that the output says was started has finished writing its scripted updates.
func (c *Conn) Quiesce() []byte {
	if c.Hang != "" {
		return nil
	}
	extra := func(pending []byte) bool {
		s := c.Sess
		if s == nil {
			// the session is not known before the greeting was seen
			c.W.mu.Lock()
			s = c.W.cur
			c.W.mu.Unlock()
			if s == nil {
				return true
			}
		}
		_, ready, _ := s.IdleCounts()
		if c.countIdling(pending) <= int(ready) {
			return true
		}
		// "+ idling" was written but no idle goroutine reported yet: wait for it, unless the command
		// has already been completed (a server that says "+ idling" and then refuses the command
		// never starts one)
		return c.idleCommandOver(pending)
	}
	out, closed, err := c.P.QuiesceWithin(c.W.Watchdog, extra)
	if err != nil {
		c.Hang = "server goroutine neither parked in Read nor finished"
		return nil
	}
	// account consumed "+ idling" lines
	c.idleSeen = c.countIdling(out)
	c.Out = append(c.Out, out...)
	if closed {
		c.Closed = true
	}
	return out
}

// idleCommandOver: after the last "+ idling" line the output already contains a tagged response.
func (c *Conn) idleCommandOver(pending []byte) bool {
	all := append(append([]byte{}, c.Out...), pending...)
	i := bytes.LastIndex(all, idlingLine)
	if i < 0 {
		return true
	}
	rest := all[i+len(idlingLine):]
	for len(rest) > 0 {
		j := bytes.Index(rest, []byte("\r\n"))
		if j < 0 {
			break
		}
		line := rest[:j]
		rest = rest[j+2:]
		if !bytes.HasPrefix(line, []byte("* ")) && !bytes.HasPrefix(line, []byte("+ ")) {
			return true
		}
	}
	return false
}

func (c *Conn) countIdling(pending []byte) int {
	// lines are counted in Out+pending; the boundary needs the last bytes of Out
	n := c.idleSeen
	tail := c.Out
	if len(tail) > len(idlingLine) {
		tail = tail[len(tail)-len(idlingLine):]
	}
	joined := append(append([]byte{}, tail...), pending...)
	// occurrences that end inside pending
	off := 0
	for {
		i := bytes.Index(joined[off:], idlingLine)
		if i < 0 {
			break
		}
		end := off + i + len(idlingLine)
		if end > len(tail) {
			n++
		}
		off += i + 2
	}
	return n
}

// Send delivers one segment and waits for quiescence; it returns the new output.
func (c *Conn) Send(b []byte) []byte {
	if len(b) > 0 {
		if len(b) > 1<<20 {
			c.P.SendOwned(b)
		} else {
			c.P.Send(b)
		}
	}
	return c.Quiesce()
}

// End describes how a connection ended.
type End struct {
	Hang        string // a wait hit the watchdog: what was being waited for
	EngineErr   string
	CloseCount  int // Session.Close calls (-1: no session was created)
	IdleStarted int
	IdleDone    int
	ConnsLeft   int
	Logs        []string
}

// Finish closes the client side (clean EOF, or a read error when reset is true) unless the
// server already closed, then waits — by events, the watchdog only guards the engine — until the
// server closed its side, the session was closed, every Idle call returned and the Server no
// longer lists a connection.
func (c *Conn) Finish(reset bool) End {
	var e End
	if c.Hang == "" {
		if reset {
			c.P.Reset()
		} else {
			c.P.CloseWrite()
		}
		out, closed, err := c.P.QuiesceWithin(c.W.Watchdog, func([]byte) bool { return false })
		c.Out = append(c.Out, out...)
		if err != nil || !closed {
			c.Hang = "server does not close the connection after the client side is gone"
		} else {
			c.Closed = true
		}
	}
	deadline := time.Now().Add(c.W.Watchdog)
	if c.Hang == "" {
		// the deferred functions of serve run in the order session.Close, delete(conns), conn.Close;
		// conn.Close was observed (or Bye closed early): wait for the entry to disappear. Once it
		// is gone Session.Close has been called if it is ever going to be.
		for spin := 0; ; spin++ {
			n, err := ConnCount(c.SS.Srv)
			if err != nil {
				e.EngineErr = err.Error()
				break
			}
			e.ConnsLeft = n
			if n == 0 {
				break
			}
			if time.Now().After(deadline) {
				c.Hang = "connection still listed in Server.conns after its socket was closed (serve goroutine not finished, or the entry is never removed)"
				break
			}
			if spin < 200 {
				runtime.Gosched()
			} else {
				time.Sleep(50 * time.Microsecond)
			}
		}
	}
	if c.Sess != nil {
		if c.Hang == "" {
			for {
				st, _, ret := c.Sess.IdleCounts()
				if st == ret {
					break
				}
				if time.Now().After(deadline) {
					c.Hang = "Session.Idle goroutine still running after the connection ended (stop channel never closed)"
					break
				}
				time.Sleep(50 * time.Microsecond)
			}
		}
		st, _, ret := c.Sess.IdleCounts()
		e.IdleStarted, e.IdleDone = int(st), int(ret)
		e.CloseCount = c.Sess.CloseCount()
	} else {
		e.CloseCount = -1
	}
	if e.Hang == "" {
		e.Hang = c.Hang
	}
	e.Logs = c.SS.Log.Drain()
	return e
}
