// C05 — server connection state machine: the backend is reached only in permitted states.
//
// Explicit-state search (engine E4) over the REAL imapserver connection: every transition is a
// fresh connection to a real imapserver.Server with a recording stub session, the history is
// replayed and one more event applied; a plain-Go reference model of RFC 9051 §3 (state diagram),
// §6 (which command is valid in which state) and the library's documented policy (LOGIN /
// AUTHENTICATE only over TLS unless Options.InsecureAuth; unknown command before authentication
// => BYE + close; LOGOUT => BYE, nothing further processed) predicts, for every event, the tagged
// response class, the backend calls, BYE/close, the capability list and the successor state.
//
// Two searches: (A) breadth-first with deduplication on the model state, to closure, in every
// configuration x session variant; (B) every history up to a depth WITHOUT deduplication (so that
// hidden implementation state merged away by (A) is still visited), plus a table that checks that
// the observable behaviour of every event is a function of the model state (the soundness
// condition of (A)'s merging).
package main

import (
	"crypto/tls"
	"encoding/json"
	"errors"
	"fmt"
	"io"
	"net"
	"os"
	"runtime"
	"runtime/debug"
	"runtime/pprof"
	"sort"
	"strconv"
	"strings"
	"sync"
	"sync/atomic"
	"time"

	imap "github.com/emersion/go-imap/v2"
	"github.com/emersion/go-imap/v2/imapserver"
	"github.com/emersion/go-imap/v2/verif/srvkit"
	"github.com/emersion/go-imap/v2/verif/vk"
)

var run *vk.Run

// ------------------------------------------------------------------------------------------
// reference model
// ------------------------------------------------------------------------------------------

const (
	stNA  = iota // not authenticated
	stAU         // authenticated
	stSE         // selected
	stOUT        // logout: connection ended, nothing further is processed
)

var stName = []string{"not-authenticated", "authenticated", "selected", "logout"}

// mstate is the reference-model state of one connection.
type mstate struct {
	St      int
	TLS     bool   // transport is TLS (implicit or after STARTTLS)
	Enabled string // sorted, comma-joined upper-case capability names announced in * ENABLED
	BSel    bool   // the backend has a mailbox selected (Select succeeded, no Unselect/Unauthenticate since)
}

func (s mstate) key() string {
	return fmt.Sprintf("%s/tls=%v/enabled=%s/backend-selected=%v", stName[s.St], s.TLS, s.Enabled, s.BSel)
}

const (
	tlsImplicit = iota // the listener hands out tls.Server connections
	tlsNoCfg           // plaintext, Options.TLSConfig == nil
	tlsCfg             // plaintext, Options.TLSConfig set: STARTTLS possible
)

var tlsModeName = []string{"implicit-tls", "plaintext", "plaintext+starttls"}

type config struct {
	TLSMode  int
	Insecure bool
	PreAuth  bool
}

func (c config) name() string {
	g := "greeting-ok"
	if c.PreAuth {
		g = "greeting-preauth"
	}
	return fmt.Sprintf("%s/insecureauth=%v/%s", tlsModeName[c.TLSMode], c.Insecure, g)
}

// variant: which optional session interfaces exist (and the consistent capability set).
type variant struct {
	Name                   string
	Move, NS, Unauth, SASL bool
	caps                   func() imap.CapSet
	wrap                   func(*srvkit.Stub) imapserver.Session
}

var variants = []*variant{
	{Name: "rev1-basic", caps: func() imap.CapSet { return nil },
		wrap: func(s *srvkit.Stub) imapserver.Session { return srvkit.StubBasic{S: s} }},
	{Name: "rev1-move-namespace-unauthenticate", Move: true, NS: true, Unauth: true,
		caps: func() imap.CapSet {
			return imap.CapSet{imap.CapIMAP4rev1: {}, imap.CapMove: {}, imap.CapNamespace: {}, imap.CapUnauthenticate: {}}
		},
		wrap: func(s *srvkit.Stub) imapserver.Session { return srvkit.StubUnauth{Stub: s} }},
	{Name: "rev1+rev2", Move: true, NS: true,
		caps: func() imap.CapSet { return srvkit.Rev2Caps() },
		wrap: func(s *srvkit.Stub) imapserver.Session { return s }},
	{Name: "rev1-sasl", SASL: true, caps: func() imap.CapSet { return nil },
		wrap: func(s *srvkit.Stub) imapserver.Session { return srvkit.StubSASL{StubBasic: srvkit.StubBasic{S: s}} }},
}

type cfgVar struct {
	cfg  config
	v    *variant
	idx  int
	name string
}

func (cv *cfgVar) initial() mstate {
	s := mstate{St: stNA, TLS: cv.cfg.TLSMode == tlsImplicit}
	if cv.cfg.PreAuth {
		s.St = stAU
	}
	return s
}

func (cv *cfgVar) canAuth(s mstate) bool { return s.St == stNA && (s.TLS || cv.cfg.Insecure) }
func (cv *cfgVar) canStartTLS(s mstate) bool {
	return cv.cfg.TLSMode != tlsNoCfg && !s.TLS && s.St == stNA
}

// describe is the part of the model state that goes into violation keys (configuration
// independent, so that one defect yields one key).
func (cv *cfgVar) describe(s mstate, tlsRelevant bool) string {
	if s.St == stNA && tlsRelevant {
		return fmt.Sprintf("%s[canAuth=%v,canStartTLS=%v]", stName[s.St], cv.canAuth(s), cv.canStartTLS(s))
	}
	if s.St == stNA {
		return fmt.Sprintf("%s[canAuth=%v]", stName[s.St], cv.canAuth(s))
	}
	return stName[s.St]
}

// command classes of the model
const (
	cNoop = iota
	cCheck
	cCapability
	cLogout
	cUnknown
	cBroken
	cStartTLS
	cLogin
	cAuthIR
	cAuthCont
	cAuthCancel
	cAuthBadIR
	cAuthBadCont
	cAuthBogus
	cUnauth
	cEnable
	cSelect
	cClose
	cUnselect
	cSimple // one backend method, required level, optional interface
)

type event struct {
	Name   string // unique, includes the backend outcome
	Base   string // command name without outcome (used in keys when the outcome is irrelevant)
	Class  int
	Lines  []string // Lines[0] follows the tag; Lines[i>0] are sent only after a continuation request
	Fail   []string // stub methods scripted to fail with NO
	Method string   // cSimple: the backend method
	Level  int      // cSimple: stAU (authenticated or selected) or stSE
	Need   string   // cSimple: "", "move", "namespace"
}

func (e *event) fails(m string) bool {
	for _, f := range e.Fail {
		if f == m {
			return true
		}
	}
	return false
}

const plainB64 = "AHVzZXIAcGFzcw==" // \0user\0pass

func buildEvents() []*event {
	var evs []*event
	add := func(e event) {
		if e.Base == "" {
			e.Base = e.Name
		}
		evs = append(evs, &e)
	}
	withFail := func(e event, methods ...string) {
		base := e.Name
		e.Base = base
		add(e)
		for _, m := range methods {
			f := e
			f.Name = base + "/fail:" + m
			f.Fail = []string{m}
			add(f)
		}
	}
	simple := func(name, line, method string, level int, need string, more ...string) {
		withFail(event{Name: name, Class: cSimple, Lines: append([]string{line}, more...), Method: method, Level: level, Need: need}, method)
	}
	add(event{Name: "NOOP", Class: cNoop, Lines: []string{"NOOP\r\n"}})
	add(event{Name: "CHECK", Class: cCheck, Lines: []string{"CHECK\r\n"}})
	add(event{Name: "CAPABILITY", Class: cCapability, Lines: []string{"CAPABILITY\r\n"}})
	add(event{Name: "STARTTLS", Class: cStartTLS, Lines: []string{"STARTTLS\r\n"}})
	withFail(event{Name: "LOGIN", Class: cLogin, Lines: []string{"LOGIN user pass\r\n"}}, "Login")
	withFail(event{Name: "AUTHENTICATE-PLAIN-initial-response", Class: cAuthIR, Lines: []string{"AUTHENTICATE PLAIN " + plainB64 + "\r\n"}}, "Login")
	withFail(event{Name: "AUTHENTICATE-PLAIN-continuation", Class: cAuthCont, Lines: []string{"AUTHENTICATE PLAIN\r\n", plainB64 + "\r\n"}}, "Login")
	add(event{Name: "AUTHENTICATE-PLAIN-cancelled", Class: cAuthCancel, Lines: []string{"AUTHENTICATE PLAIN\r\n", "*\r\n"}})
	add(event{Name: "AUTHENTICATE-PLAIN-malformed-initial-response", Class: cAuthBadIR, Lines: []string{"AUTHENTICATE PLAIN !!!!\r\n"}})
	add(event{Name: "AUTHENTICATE-PLAIN-malformed-continuation", Class: cAuthBadCont, Lines: []string{"AUTHENTICATE PLAIN\r\n", "!!!!\r\n"}})
	add(event{Name: "AUTHENTICATE-unsupported-mechanism", Class: cAuthBogus, Lines: []string{"AUTHENTICATE XBOGUS\r\n"}})
	withFail(event{Name: "UNAUTHENTICATE", Class: cUnauth, Lines: []string{"UNAUTHENTICATE\r\n"}}, "Unauthenticate")
	add(event{Name: "ENABLE", Class: cEnable, Lines: []string{"ENABLE IMAP4rev2\r\n"}})
	withFail(event{Name: "SELECT", Class: cSelect, Lines: []string{"SELECT box\r\n"}}, "Select", "Unselect")
	withFail(event{Name: "EXAMINE", Class: cSelect, Lines: []string{"EXAMINE box\r\n"}}, "Select")
	simple("CREATE", "CREATE box\r\n", "Create", stAU, "")
	simple("DELETE", "DELETE box\r\n", "Delete", stAU, "")
	simple("RENAME", "RENAME box box2\r\n", "Rename", stAU, "")
	simple("SUBSCRIBE", "SUBSCRIBE box\r\n", "Subscribe", stAU, "")
	simple("UNSUBSCRIBE", "UNSUBSCRIBE box\r\n", "Unsubscribe", stAU, "")
	simple("LIST", "LIST \"\" *\r\n", "List", stAU, "")
	simple("LSUB", "LSUB \"\" *\r\n", "List", stAU, "")
	simple("STATUS", "STATUS box (MESSAGES UIDNEXT)\r\n", "Status", stAU, "")
	simple("NAMESPACE", "NAMESPACE\r\n", "Namespace", stAU, "namespace")
	simple("APPEND-nonsync-literal", "APPEND box {5+}\r\nhello\r\n", "Append", stAU, "")
	simple("APPEND-sync-literal", "APPEND box {5}\r\n", "Append", stAU, "", "hello\r\n")
	simple("IDLE-DONE", "IDLE\r\n", "Idle", stAU, "", "DONE\r\n")
	withFail(event{Name: "CLOSE", Class: cClose, Lines: []string{"CLOSE\r\n"}}, "Expunge", "Unselect")
	withFail(event{Name: "UNSELECT", Class: cUnselect, Lines: []string{"UNSELECT\r\n"}}, "Unselect")
	simple("FETCH", "FETCH 1 FLAGS\r\n", "Fetch", stSE, "")
	simple("UID-FETCH", "UID FETCH 1 FLAGS\r\n", "Fetch", stSE, "")
	simple("STORE", "STORE 1 +FLAGS (\\Seen)\r\n", "Store", stSE, "")
	simple("UID-STORE", "UID STORE 1 +FLAGS (\\Seen)\r\n", "Store", stSE, "")
	simple("SEARCH", "SEARCH ALL\r\n", "Search", stSE, "")
	simple("UID-SEARCH", "UID SEARCH ALL\r\n", "Search", stSE, "")
	simple("COPY", "COPY 1 box2\r\n", "Copy", stSE, "")
	simple("UID-COPY", "UID COPY 1 box2\r\n", "Copy", stSE, "")
	simple("MOVE", "MOVE 1 box2\r\n", "Move", stSE, "move")
	simple("UID-MOVE", "UID MOVE 1 box2\r\n", "Move", stSE, "move")
	simple("EXPUNGE", "EXPUNGE\r\n", "Expunge", stSE, "")
	simple("UID-EXPUNGE", "UID EXPUNGE 1\r\n", "Expunge", stSE, "")
	add(event{Name: "LOGOUT", Class: cLogout, Lines: []string{"LOGOUT\r\n"}})
	add(event{Name: "unknown-command", Class: cUnknown, Lines: []string{"XBOGUS\r\n"}})
	add(event{Name: "unknown-UID-command", Class: cUnknown, Lines: []string{"UID XBOGUS 1\r\n"}})
	// "UID" in front of a command that has no UID form is not a command either
	add(event{Name: "unknown-UID-NOOP", Class: cUnknown, Lines: []string{"UID NOOP\r\n"}})
	add(event{Name: "unknown-UID-LOGIN", Class: cUnknown, Lines: []string{"UID LOGIN user pass\r\n"}})
	add(event{Name: "unknown-UID-SELECT", Class: cUnknown, Lines: []string{"UID SELECT box\r\n"}})
	add(event{Name: "broken-SELECT-no-mailbox", Class: cBroken, Lines: []string{"SELECT\r\n"}})
	add(event{Name: "broken-LOGIN-no-password", Class: cBroken, Lines: []string{"LOGIN user\r\n"}})
	add(event{Name: "broken-LOGOUT-with-argument", Class: cBroken, Lines: []string{"LOGOUT now\r\n"}})
	add(event{Name: "broken-FETCH-no-items", Class: cBroken, Lines: []string{"FETCH 1\r\n"}})
	return evs
}

var events = buildEvents()
var eventIdx = func() map[string]int {
	m := map[string]int{}
	for i, e := range events {
		if _, dup := m[e.Name]; dup {
			panic("duplicate event " + e.Name)
		}
		m[e.Name] = i
	}
	return m
}()

// pred is what the reference model says about one event in one state.
type pred struct {
	Silent    bool       // the connection has ended: no response, no backend call
	Permitted bool       // the command is valid here (backend may be consulted / state may change)
	Classes   []string   // acceptable tagged response classes
	Calls     [][]string // acceptable backend call sequences (Poll is judged separately)
	Bye       bool       // an untagged BYE is sent and the server closes the connection
	NoCont    bool       // a continuation request would solicit credentials on a channel where they must not be accepted
	StartTLS  bool       // on OK, a TLS handshake follows
	CapsLine  bool       // an untagged CAPABILITY response is required
	OnOK      mstate
	OnReject  mstate
}

var (
	clsOK     = []string{"OK"}
	clsNO     = []string{"NO"}
	clsBAD    = []string{"BAD"}
	clsReject = []string{"BAD", "NO"}
	clsAny    = []string{"OK", "BAD", "NO"}
	noCalls   = [][]string{{}}
)

func one(c ...string) [][]string { return [][]string{c} }

// predict: RFC 9051 §3 + §6 + library policy. Kept boring on purpose.
func predict(cv *cfgVar, s mstate, e *event) pred {
	if s.St == stOUT {
		return pred{Silent: true, OnOK: s, OnReject: s}
	}
	authed := s.St == stAU || s.St == stSE
	reject := pred{Classes: clsReject, Calls: noCalls, OnOK: s, OnReject: s}
	ok := pred{Permitted: true, Classes: clsOK, Calls: noCalls, OnOK: s, OnReject: s}
	// outcome of a command that consults the backend operations ops in order; the first failing
	// one ends the command with NO. after(i) is the state once ops[0..i] have succeeded.
	backend := func(ops []string, stateAfterFailure func(i int) mstate, final mstate) pred {
		p := pred{Permitted: true, OnOK: final, OnReject: s}
		var called []string
		for i, op := range ops {
			called = append(called, op)
			if e.fails(op) {
				p.Classes = clsNO
				p.Calls = one(called...)
				if stateAfterFailure != nil {
					p.OnReject = stateAfterFailure(i)
				}
				return p
			}
		}
		p.Classes = clsOK
		p.Calls = one(called...)
		return p
	}
	switch e.Class {
	case cNoop:
		return ok
	case cCheck:
		// RFC 9051 removed CHECK (RFC 3501: selected state only); a server may treat it as NOOP.
		p := ok
		p.Classes = clsAny
		return p
	case cCapability:
		p := ok
		p.CapsLine = true
		return p
	case cLogout:
		p := ok
		p.Bye = true
		p.OnOK = mstate{St: stOUT, TLS: s.TLS}
		return p
	case cUnknown:
		p := pred{Classes: clsBAD, Calls: noCalls, OnOK: s, OnReject: s}
		if s.St == stNA {
			p.Bye = true
			p.OnReject = mstate{St: stOUT, TLS: s.TLS}
		}
		return p
	case cBroken:
		return pred{Classes: clsBAD, Calls: noCalls, OnOK: s, OnReject: s}
	case cStartTLS:
		if !cv.canStartTLS(s) {
			return reject
		}
		p := ok
		p.StartTLS = true
		p.OnOK.TLS = true
		return p
	case cLogin, cAuthIR, cAuthCont:
		if !cv.canAuth(s) {
			p := reject
			p.NoCont = true
			return p
		}
		ops := []string{"Login"}
		if cv.v.SASL && e.Class != cLogin {
			ops = []string{"Authenticate", "Login"}
		}
		fin := s
		fin.St = stAU
		return backend(ops, nil, fin)
	case cAuthCancel, cAuthBadCont, cAuthBadIR, cAuthBogus:
		if !cv.canAuth(s) {
			p := reject
			p.NoCont = true
			return p
		}
		p := pred{Permitted: true, Classes: clsBAD, Calls: noCalls, OnOK: s, OnReject: s}
		if e.Class == cAuthBogus {
			p.Classes = clsReject // RFC 9051 §6.2.2: NO for an unsupported mechanism; BAD tolerated
		}
		if cv.v.SASL && e.Class != cAuthBadIR {
			p.Calls = [][]string{{"Authenticate"}}
		}
		return p
	case cUnauth:
		if !cv.v.Unauth || !authed {
			return reject
		}
		fin := mstate{St: stNA, TLS: s.TLS}
		p := backend([]string{"Unauthenticate"}, nil, fin)
		if s.St == stSE && !e.fails("Unauthenticate") {
			// RFC 8437: the mailbox is closed as by UNSELECT; whether the library asks the backend
			// to Unselect first or leaves that to Unauthenticate is not prescribed.
			p.Calls = append(p.Calls, []string{"Unselect", "Unauthenticate"})
		}
		return p
	case cEnable:
		if s.St == stNA {
			return reject
		}
		p := ok // OnOK.Enabled is filled in from the * ENABLED response
		if s.St == stSE {
			p.Classes = clsAny // RFC 9051 §6.3.1: servers need not check that no mailbox is selected
		}
		return p
	case cSelect:
		if !authed {
			return reject
		}
		fin := s
		fin.St, fin.BSel = stSE, true
		if s.St == stAU {
			return backend([]string{"Select"}, nil, fin)
		}
		// re-SELECT: the current mailbox is deselected first; a failed SELECT leaves none selected
		return backend([]string{"Unselect", "Select"}, func(i int) mstate {
			if i == 0 {
				return s // the backend refused to deselect: it still has the mailbox
			}
			a := s
			a.St, a.BSel = stAU, false
			return a
		}, fin)
	case cClose:
		if s.St != stSE {
			return reject
		}
		fin := s
		fin.St, fin.BSel = stAU, false
		p := backend([]string{"Expunge", "Unselect"}, nil, fin)
		if !e.fails("Expunge") {
			// not expunging (e.g. read-only mailbox) is legitimate
			q := backend([]string{"Unselect"}, nil, fin)
			p.Calls = append(p.Calls, q.Calls...)
		}
		return p
	case cUnselect:
		if s.St != stSE {
			return reject
		}
		fin := s
		fin.St, fin.BSel = stAU, false
		return backend([]string{"Unselect"}, nil, fin)
	case cSimple:
		if e.Level == stSE && s.St != stSE || e.Level == stAU && !authed {
			return reject
		}
		if e.Need == "move" && !cv.v.Move || e.Need == "namespace" && !cv.v.NS {
			return reject
		}
		return backend([]string{e.Method}, nil, s)
	}
	panic("predict: unknown class")
}

var assumptions = []string{
	"a command that is not valid in the current state (RFC 9051 §6), or LOGIN/AUTHENTICATE on a channel where authentication is not allowed, or STARTTLS when it is not available, may be rejected with either BAD or NO (the RFC leaves the class open); the model demands only: rejected, no backend call, state unchanged",
	"commands the dispatcher knows but whose extension is not configured (MOVE, NAMESPACE, UNAUTHENTICATE without session support) count as known commands: before authentication they must be rejected, a BYE is not demanded (and not accepted, since BYE+close is demanded exactly for LOGOUT and unknown commands before authentication)",
	"a backend operation failing with NO ends the command with a tagged NO and leaves the connection state unchanged, except SELECT/EXAMINE: a failing Select leaves no mailbox selected (authenticated state, Unselect called exactly once when a mailbox was selected). Backend failure of Unselect/Expunge inside CLOSE/UNSELECT/re-SELECT is outside RFC 9051 (those commands have no NO result); the model demands that connection and backend stay consistent: still selected",
	"ENABLE in selected state may be accepted or rejected (RFC 9051 §6.3.1); CHECK (removed by RFC 9051) may be accepted as NOOP or rejected; the set of enabled capabilities is taken from the server's * ENABLED response (whether a capability may be enabled at all is not part of this property)",
	"CLOSE may or may not ask the backend to expunge; UNAUTHENTICATE in selected state may or may not be preceded by an Unselect call",
	"a continuation request for a literal may be sent before the state check rejects the command (APPEND); a continuation request for AUTHENTICATE on a channel where authentication is not allowed is a violation (it solicits credentials in clear text)",
	"Poll is not counted as a command operation; it may be called only while the model state after the command is authenticated or selected",
	"malformed base64 in AUTHENTICATE (initial response or continuation) and a cancelled exchange must be answered BAD (RFC 9051 §6.2.2: MUST); an unsupported mechanism NO or BAD",
	"capability lists are judged in the greeting, in CAPABILITY responses and in the CAPABILITY response code of LOGIN/AUTHENTICATE completions: LOGINDISABLED iff not-authenticated and neither TLS nor InsecureAuth; AUTH=PLAIN (and any AUTH=) iff not-authenticated and (TLS or InsecureAuth); STARTTLS iff TLSConfig set, TLS not active, not-authenticated",
	"the driver is a well-behaved client: it sends the next line of a multi-line command only after a continuation request, one command at a time (pipelining and malformed framing belong to C04/C06/C17)",
}

// ------------------------------------------------------------------------------------------
// driving the real server
// ------------------------------------------------------------------------------------------

type server struct {
	ss  *srvkit.StubServer
	mu  sync.Mutex
	cur *srvkit.Stub
	cli *tls.Config // nil: srvkit's client configuration (full TLS 1.3 handshakes)
}

// fastTLS: TLS 1.2 with session resumption (abbreviated handshakes without public-key
// operations) for the bulk enumerations; the server code under test only asks whether the
// connection is a *tls.Conn. The breadth-first search and the depth-2 enumeration use the
// default full TLS 1.3 handshake.
var fastTLS bool

// tlsClient performs the client handshake over the pipe (QuietRead: a handshake against a
// peer that does not answer fails instead of hanging).
func (srv *server) tlsClient(p *srvkit.Pipe) (*tls.Conn, error) {
	if srv.cli == nil {
		return p.TLSClient()
	}
	raw := p.ClientConn()
	raw.QuietRead = true
	c := tls.Client(raw, srv.cli)
	if err := c.Handshake(); err != nil {
		return nil, err
	}
	return c, nil
}

func newServer(cv *cfgVar) *server {
	sc, cc := srvkit.TLSConfigs()
	var cli *tls.Config
	if fastTLS {
		sc = sc.Clone()
		sc.MaxVersion = tls.VersionTLS12
		cli = cc.Clone()
		cli.MaxVersion = tls.VersionTLS12
		cli.ClientSessionCache = tls.NewLRUClientSessionCache(4)
	}
	opts := imapserver.Options{InsecureAuth: cv.cfg.Insecure, Caps: cv.v.caps()}
	if cv.cfg.TLSMode != tlsNoCfg {
		opts.TLSConfig = sc
	}
	srv := &server{cli: cli}
	srv.ss = srvkit.NewStubServer(opts)
	if cv.cfg.TLSMode == tlsImplicit {
		srv.ss.Ln.Wrap = func(c net.Conn) net.Conn { return tls.Server(c, sc) }
	}
	srv.ss.Prepare = func(s *srvkit.Stub) {
		s.OnPoll = func(w *imapserver.UpdateWriter, allowExpunge bool) error {
			s.Record("Poll")
			return nil
		}
		srv.mu.Lock()
		srv.cur = s
		srv.mu.Unlock()
	}
	srv.ss.Wrap = cv.v.wrap
	if cv.cfg.PreAuth {
		srv.ss.Greeting = func(*srvkit.Stub) (*imapserver.GreetingData, error) {
			return &imapserver.GreetingData{PreAuth: true}, nil
		}
	}
	return srv
}

// link is the client end of one connection: plaintext over the pipe, or TLS on top of it.
type link struct {
	p   *srvkit.Pipe
	tc  *tls.Conn
	buf []byte
}

// exchange sends one segment and returns everything the server says until it is quiescent.
func (l *link) exchange(raw string) (out []byte, closed bool, err error) {
	if l.tc == nil {
		if raw != "" {
			l.p.SendString(raw)
		}
		return l.p.Quiesce()
	}
	if raw != "" {
		if _, werr := l.tc.Write([]byte(raw)); werr != nil {
			// the server has closed: nothing can be processed
			return nil, true, nil
		}
	}
	return l.readAvailable()
}

// readAvailable is srvkit.ReadAvailable with a reused buffer (that one allocates 64 KiB per call,
// which dominates the cost of millions of short exchanges).
func (l *link) readAvailable() (out []byte, closed bool, err error) {
	if l.buf == nil {
		l.buf = make([]byte, 16384)
	}
	for {
		n, e := l.tc.Read(l.buf)
		out = append(out, l.buf[:n]...)
		if e != nil {
			var ne net.Error
			if errors.As(e, &ne) && ne.Timeout() {
				return out, false, nil
			}
			if e == io.EOF || errors.Is(e, net.ErrClosed) || errors.Is(e, io.ErrUnexpectedEOF) {
				return out, true, nil
			}
			return out, true, e
		}
	}
}

type stepDump struct {
	Step      int      `json:"step"`
	Event     string   `json:"event"`
	Probe     bool     `json:"probe,omitempty"`
	Sent      []string `json:"sent"`
	Responses []string `json:"responses"`
	Calls     []string `json:"backend_calls"`
	Closed    bool     `json:"server_closed"`
	Before    string   `json:"model_state_before"`
	Expected  string   `json:"model_expects"`
	After     string   `json:"model_state_after"`
	Problem   string   `json:"problem,omitempty"`
}

type result struct {
	key     string // violation key, "" when the run conforms
	msg     string
	softKey string   // a rejection of the wrong class (NO instead of BAD or vice versa): reported, but
	softMsg string   // state and backend are as predicted, so the history is still extended
	states  []mstate // model state after the greeting and after each history event
	dumps   []stepDump
	evSigs  []string // behaviour signature of each history event
	prbSig  string   // behaviour signature of the probe phase
	engine  string   // machinery failure (never a verdict)
	nCalls  int
	nReject int
	nTLS    int
}

type execCtx struct {
	srv      *server
	cv       *cfgVar
	l        *link
	stub     *srvkit.Stub
	s        mstate
	keep     bool
	res      *result
	step     int
	lastEv   string // last history event and the state it was applied in (for probe attribution)
	lastDesc string
	closed   bool
	calls    int // calls consumed so far
}

func (x *execCtx) fail(ev *event, p *pred, probe bool, kind, reason string) {
	if x.res.key != "" {
		return
	}
	name := ev.Name
	if !p.Permitted {
		name = ev.Base
	}
	if probe {
		x.res.key = fmt.Sprintf("state-after:%s in %s: probe %s: %s %s", x.lastEv, x.lastDesc, name, kind, reason)
	} else {
		x.res.key = fmt.Sprintf("%s:%s in %s: %s", kind, name, x.cv.describe(x.s, ev.Class == cStartTLS || strings.Contains(reason, "STARTTLS")), reason)
	}
	x.res.msg = fmt.Sprintf("step %d (%s): %s %s", x.step, ev.Name, kind, reason)
}

func classOf(r srvkit.Resp) string {
	w := r.Words()
	if len(w) == 0 {
		return ""
	}
	return strings.ToUpper(w[0])
}

// capsIn extracts a capability list from "* CAPABILITY a b" or from a "[CAPABILITY a b]" code.
func capsIn(r srvkit.Resp) ([]string, bool) {
	if r.Tag == "*" && r.Kind() == "CAPABILITY" {
		return r.Words()[1:], true
	}
	t := r.Text
	i := strings.Index(t, "[CAPABILITY")
	if i < 0 {
		return nil, false
	}
	j := strings.IndexByte(t[i:], ']')
	if j < 0 {
		return nil, false
	}
	return strings.Fields(t[i+len("[CAPABILITY") : i+j]), true
}

func (x *execCtx) capsProblem(s mstate, caps []string) string {
	has := map[string]bool{}
	anyAuth := false
	for _, c := range caps {
		u := strings.ToUpper(c)
		has[u] = true
		if strings.HasPrefix(u, "AUTH=") {
			anyAuth = true
		}
	}
	canAuth := x.cv.canAuth(s)
	if want := s.St == stNA && !canAuth; has["LOGINDISABLED"] != want {
		return fmt.Sprintf("LOGINDISABLED advertised=%v want=%v", has["LOGINDISABLED"], want)
	}
	if has["AUTH=PLAIN"] != canAuth || anyAuth != canAuth {
		return fmt.Sprintf("AUTH=PLAIN advertised=%v (any AUTH= %v) want=%v", has["AUTH=PLAIN"], anyAuth, canAuth)
	}
	if want := x.cv.canStartTLS(s); has["STARTTLS"] != want {
		return fmt.Sprintf("STARTTLS advertised=%v want=%v", has["STARTTLS"], want)
	}
	if !has["IMAP4REV1"] && !has["IMAP4REV2"] {
		return "neither IMAP4rev1 nor IMAP4rev2 advertised"
	}
	return ""
}

func fmtResps(rs []srvkit.Resp) []string {
	var o []string
	for _, r := range rs {
		o = append(o, strings.TrimRight(string(r.Raw), "\r\n"))
	}
	return o
}

func sameCalls(a, b []string) bool {
	if len(a) != len(b) {
		return false
	}
	for i := range a {
		if a[i] != b[i] {
			return false
		}
	}
	return true
}

// do applies one event to the live connection and judges it. It returns false when the history
// cannot be continued (violation that desynchronises the dialogue, or machinery failure).
func (x *execCtx) do(ev *event, probe bool) bool {
	x.step++
	p := predict(x.cv, x.s, ev)
	tag := fmt.Sprintf("k%dk", x.step)
	var fm map[string]error
	if len(ev.Fail) > 0 && !probe {
		fm = map[string]error{}
		for _, m := range ev.Fail {
			fm[m] = &imap.Error{Type: imap.StatusResponseTypeNo, Text: "scripted failure of " + m}
		}
	}
	x.stub.Fail = fm // the server goroutine is parked in Read: ordered by the pipe's mutex

	var all []srvkit.Resp
	var sent []string
	conts := 0
	abort := false
	for i := 0; i < len(ev.Lines); i++ {
		raw := ev.Lines[i]
		if i == 0 {
			raw = tag + " " + raw
		}
		sent = append(sent, raw)
		out, closed, err := x.l.exchange(raw)
		if err != nil {
			if err == srvkit.ErrWatchdog {
				x.res.engine = fmt.Sprintf("watchdog: server neither answered nor parked after %q", raw)
			} else {
				x.res.engine = fmt.Sprintf("transport error after %q: %v", raw, err)
			}
			return false
		}
		resps, rest, perr := srvkit.ParseResponses(out)
		all = append(all, resps...)
		if perr != nil || len(rest) > 0 {
			x.fail(ev, &p, probe, "malformed-output", fmt.Sprintf("%q", out))
			abort = true
			break
		}
		if closed {
			x.closed = true
			break
		}
		if len(resps) > 0 && resps[len(resps)-1].Tag == "+" && len(srvkit.Tagged(resps)) == 0 {
			conts++
			if i+1 == len(ev.Lines) {
				x.fail(ev, &p, probe, "unexpected-continuation-request", "the server waits for more input than the command has")
				abort = true
			}
			continue
		}
		break
	}

	calls := x.stub.Snapshot()
	var names []string
	polls := 0
	for _, c := range calls[x.calls:] {
		if c.Method == "Poll" {
			polls++
		} else {
			names = append(names, c.Method)
		}
	}
	x.calls = len(calls)
	tagged := srvkit.Tagged(all)
	bye := false
	for _, r := range all {
		if r.Tag == "*" && r.Kind() == "BYE" {
			bye = true
		}
	}
	class := ""
	if len(tagged) > 0 {
		class = classOf(tagged[0])
	}
	next := x.s
	dump := func() {
		if x.keep {
			d := stepDump{Step: x.step, Event: ev.Name, Probe: probe, Sent: sent, Responses: fmtResps(all), Calls: append([]string{}, names...), Closed: x.closed, Before: x.s.key(), After: next.key()}
			if polls > 0 {
				d.Calls = append(d.Calls, fmt.Sprintf("(Poll x%d)", polls))
			}
			if p.Silent {
				d.Expected = "connection has ended: no response, no backend call"
			} else {
				d.Expected = fmt.Sprintf("permitted=%v tagged=%v calls=%v bye+close=%v", p.Permitted, p.Classes, p.Calls, p.Bye)
			}
			if x.res.key != "" && x.res.msg != "" && strings.HasPrefix(x.res.msg, fmt.Sprintf("step %d ", x.step)) {
				d.Problem = x.res.msg
			} else if x.res.softMsg != "" && strings.HasPrefix(x.res.softMsg, fmt.Sprintf("step %d ", x.step)) {
				d.Problem = x.res.softMsg
			}
			x.res.dumps = append(x.res.dumps, d)
		}
	}

	if abort {
		dump()
		return false
	}

	// (1) backend reached only where permitted
	if p.Silent {
		if len(all) > 0 || len(names) > 0 || polls > 0 {
			x.fail(ev, &p, probe, "processed-after-connection-end", fmt.Sprintf("responses=%d backend=%v", len(all), names))
		}
		dump()
		return x.res.key == ""
	}
	if !p.Permitted && len(names) > 0 {
		x.fail(ev, &p, probe, "backend-reached-in-forbidden-state", strings.Join(names, ","))
	}
	if p.NoCont && conts > 0 {
		x.fail(ev, &p, probe, "credentials-solicited-where-authentication-is-not-allowed", "continuation request sent")
	}
	// (2) exactly one tagged response of the predicted class
	if len(tagged) != 1 || tagged[0].Tag != tag {
		var tg []string
		for _, t := range tagged {
			tg = append(tg, strings.Replace(t.Tag, tag, "<tag>", 1)+" "+classOf(t))
		}
		x.fail(ev, &p, probe, "tagged-response-count", fmt.Sprintf("got %v want exactly one", tg))
		dump()
		return false
	}
	okClass := false
	for _, c := range p.Classes {
		if c == class {
			okClass = true
		}
	}
	if !okClass {
		soft := class == "NO" || class == "BAD"
		for _, c := range p.Classes {
			if c == "OK" {
				soft = false
			}
		}
		if soft && x.res.key == "" {
			// both are rejections: same successor state, so only the class is wrong
			if x.res.softKey == "" {
				save := *x.res
				x.fail(ev, &p, probe, "tagged-response", fmt.Sprintf("got %s want %s", class, strings.Join(p.Classes, "|")))
				x.res.softKey, x.res.softMsg = x.res.key, x.res.msg
				x.res.key, x.res.msg = save.key, save.msg
			}
		} else {
			x.fail(ev, &p, probe, "tagged-response", fmt.Sprintf("got %s want %s", class, strings.Join(p.Classes, "|")))
		}
	}
	if p.Permitted {
		okCalls := false
		for _, alt := range p.Calls {
			if sameCalls(alt, names) {
				okCalls = true
			}
		}
		if !okCalls {
			x.fail(ev, &p, probe, "backend-calls", fmt.Sprintf("got %v want %v", names, p.Calls))
		}
	}
	if bye != p.Bye || x.closed != p.Bye {
		x.fail(ev, &p, probe, "bye-close", fmt.Sprintf("bye=%v closed=%v want bye=%v closed=%v", bye, x.closed, p.Bye, p.Bye))
	}
	if class == "OK" {
		next = p.OnOK
	} else {
		next = p.OnReject
	}
	if ev.Class == cEnable && class == "OK" {
		set := map[string]bool{}
		for _, c := range strings.Split(x.s.Enabled, ",") {
			if c != "" {
				set[c] = true
			}
		}
		for _, r := range all {
			if r.Tag == "*" && r.Kind() == "ENABLED" {
				for _, c := range r.Words()[1:] {
					set[strings.ToUpper(c)] = true
				}
			}
		}
		var l []string
		for c := range set {
			l = append(l, c)
		}
		sort.Strings(l)
		next.Enabled = strings.Join(l, ",")
	}
	if polls > 0 && next.St != stAU && next.St != stSE {
		x.fail(ev, &p, probe, "backend-reached-in-forbidden-state", "Poll")
	}
	// (4) capability lists
	sawCapsLine := false
	for _, r := range all {
		if caps, ok := capsIn(r); ok {
			if r.Tag == "*" {
				sawCapsLine = true
			}
			if pr := x.capsProblem(next, caps); pr != "" {
				x.fail(ev, &p, probe, "capabilities", pr)
			}
		}
	}
	if p.CapsLine && !sawCapsLine && class == "OK" {
		x.fail(ev, &p, probe, "capabilities", "no untagged CAPABILITY response")
	}
	// STARTTLS: the handshake must really happen
	if p.StartTLS && class == "OK" && x.res.key == "" {
		tc, err := x.srv.tlsClient(x.l.p)
		if err != nil {
			x.fail(ev, &p, probe, "starttls-handshake", "failed after tagged OK")
			dump()
			return false
		}
		x.l.tc = tc
		x.res.nTLS++
		// anything the server says right after the handshake belongs to no command
		out, closed, err := x.l.exchange("")
		if err != nil || closed || len(out) > 0 {
			x.fail(ev, &p, probe, "starttls-handshake", fmt.Sprintf("unsolicited data or close after handshake: %q closed=%v", out, closed))
			dump()
			return false
		}
	} else if ev.Class == cStartTLS && class == "OK" {
		// OK where the model forbids STARTTLS: already reported; the dialogue cannot continue
		dump()
		return false
	}
	if !probe {
		x.res.nCalls += len(names)
		if !p.Permitted {
			x.res.nReject++
		}
	}
	if x.res.key == "" {
		// behaviour signature (tag-free), used to check that behaviour is a function of the model state
		var sb strings.Builder
		for _, r := range all {
			sb.WriteString(strings.ReplaceAll(r.Tag+" "+r.Text, tag, "T"))
			sb.WriteByte('\n')
		}
		sb.WriteString(strings.Join(names, ","))
		fmt.Fprintf(&sb, "|polls=%d|closed=%v|->%s", polls, x.closed, next.key())
		if probe {
			x.res.prbSig += ev.Name + ":" + sb.String() + "\n"
		} else {
			x.res.evSigs = append(x.res.evSigs, sb.String())
		}
	}
	dump()
	x.s = next
	return x.res.key == ""
}

type worker struct {
	servers map[int]*server
	late    []*srvkit.Stub
	buf     []byte
}

func newWorker() *worker { return &worker{servers: map[int]*server{}, buf: make([]byte, 16384)} }

func (w *worker) close() {
	w.lateCheck(0)
	for _, s := range w.servers {
		s.ss.Close()
	}
}

// lateCheck: Close must have been called exactly once — re-examined long after the connection
// ended (a second Close could only come later).
func (w *worker) lateCheck(keepLast int) {
	for len(w.late) > keepLast {
		st := w.late[0]
		w.late = w.late[1:]
		if n := st.CloseCount(); n != 1 {
			run.Violation(fmt.Sprintf("session-close-count:%d", n), map[string]interface{}{"message": "Session.Close call count observed well after the connection ended", "count": n})
		}
	}
}

var probeShallow = []string{"CAPABILITY", "STATUS", "SEARCH"}

// exec replays hist on a fresh connection of cv's server, judging every step, then probes the
// final state and ends the connection.
func (w *worker) exec(cv *cfgVar, hist []int, keep bool) *result {
	srv := w.servers[cv.idx]
	if srv == nil {
		srv = newServer(cv)
		w.servers[cv.idx] = srv
	}
	res := &result{}
	x := &execCtx{srv: srv, cv: cv, keep: keep, res: res, lastEv: "greeting", lastDesc: "initial state"}
	x.s = cv.initial()
	p := srv.ss.Ln.Dial()
	x.l = &link{p: p, buf: w.buf}
	if cv.cfg.TLSMode == tlsImplicit {
		tc, err := srv.tlsClient(p)
		if err != nil {
			res.engine = fmt.Sprintf("implicit TLS handshake failed: %v", err)
			return res
		}
		x.l.tc = tc
	}
	out, closed, err := x.l.exchange("")
	if err != nil {
		res.engine = fmt.Sprintf("greeting: %v", err)
		return res
	}
	srv.mu.Lock()
	x.stub = srv.cur
	srv.cur = nil
	srv.mu.Unlock()
	if x.stub == nil {
		res.engine = "no session was created"
		return res
	}
	greet, rest, perr := srvkit.ParseResponses(out)
	gev := &event{Name: "greeting", Base: "greeting"}
	gp := &pred{Permitted: true}
	wantKind := "OK"
	if cv.cfg.PreAuth {
		wantKind = "PREAUTH"
	}
	if perr != nil || len(rest) > 0 || len(greet) != 1 || greet[0].Tag != "*" || greet[0].Kind() != wantKind || closed {
		x.fail(gev, gp, false, "greeting", fmt.Sprintf("got %q closed=%v want one untagged %s", out, closed, wantKind))
	} else if caps, ok := capsIn(greet[0]); ok {
		if pr := x.capsProblem(x.s, caps); pr != "" {
			x.fail(gev, gp, false, "capabilities", pr)
		}
	}
	if keep {
		res.dumps = append(res.dumps, stepDump{Step: 0, Event: "greeting", Responses: fmtResps(greet), Before: x.s.key(), After: x.s.key(), Expected: "untagged " + wantKind, Problem: res.msg})
	}
	res.states = append(res.states, x.s)
	alive := res.key == ""
	for _, ei := range hist {
		if !alive {
			break
		}
		ev := events[ei]
		pre := x.s
		alive = x.do(ev, false)
		x.lastEv, x.lastDesc = ev.Name, cv.describe(pre, ev.Class == cStartTLS)
		if p := predict(cv, pre, ev); !p.Permitted {
			x.lastEv = ev.Base
		}
		res.states = append(res.states, x.s)
	}
	// (3) the state is observed behaviourally: CAPABILITY, a command valid from authenticated on, a
	// command valid only in selected state; then as deep into the state diagram as the
	// configuration allows (LOGIN, SELECT, SEARCH) — judged like any other event.
	if alive {
		plan := append([]string{}, probeShallow...)
		if x.s.St == stOUT {
			plan = plan[:1]
		}
		s := x.s
		if s.St == stNA && cv.canAuth(s) {
			plan = append(plan, "LOGIN")
			s.St = stAU
		}
		if s.St == stAU {
			plan = append(plan, "SELECT", "SEARCH", "FETCH")
		}
		for _, name := range plan {
			if !x.do(events[eventIdx[name]], true) {
				break
			}
		}
	}
	// (5) end of connection: the session is closed exactly once
	if res.engine == "" {
		if !x.closed {
			if x.l.tc != nil {
				x.l.tc.Close()
			} else {
				p.CloseWrite()
			}
		}
		if !p.WaitClosed(60 * time.Second) {
			res.engine = "server did not close the connection within 60 s after the client closed its side"
			return res
		}
		start := time.Now()
		for i := 0; x.stub.CloseCount() < 1; i++ {
			if i < 2000 {
				runtime.Gosched()
			} else {
				time.Sleep(100 * time.Microsecond)
			}
			if time.Since(start) > 60*time.Second {
				res.engine = "Session.Close not observed 60 s after the server closed the connection"
				return res
			}
		}
		if n := x.stub.CloseCount(); n != 1 && res.key == "" {
			res.key = fmt.Sprintf("session-close-count:%d", n)
			res.msg = "Session.Close called more than once"
		}
		w.late = append(w.late, x.stub)
		w.lateCheck(64)
		for _, l := range srv.ss.Log.Drain() {
			if strings.Contains(l, "panic") && res.key == "" {
				first := l
				if i := strings.IndexByte(first, '\n'); i > 0 {
					first = first[:i]
				}
				res.key = "server-panic:" + first
				res.msg = l
			}
		}
	}
	return res
}

// ------------------------------------------------------------------------------------------
// reporting
// ------------------------------------------------------------------------------------------

func histNames(h []int) []string {
	o := make([]string, len(h))
	for i, e := range h {
		o[i] = events[e].Name
	}
	return o
}

var unstable int64

// report confirms a violation by re-executing its history (5 executions in total must agree) and
// stores it with the full step-by-step trace.
func (w *worker) report(cv *cfgVar, hist []int, first *result) {
	var last *result
	for i := 0; i < 4; i++ {
		last = w.exec(cv, hist, true)
		if last.engine != "" {
			run.EngineError("while confirming %v in %s: %s", histNames(hist), cv.name, last.engine)
		}
		if last.verdict() != first.verdict() {
			atomic.AddInt64(&unstable, 1)
			fmt.Fprintf(os.Stderr, "UNSTABLE: %s %v: %q then %q\n", cv.name, histNames(hist), first.verdict(), last.verdict())
			return
		}
	}
	msg := last.msg
	if last.key == "" {
		msg = last.softMsg
	}
	run.Violation(first.verdict(), map[string]interface{}{
		"config": cv.cfg, "config_name": cv.cfg.name(), "variant": cv.v.Name, "history": histNames(hist),
		"message": msg, "steps": last.dumps,
	})
}

// verdict: the key under which a run is reported ("" = conforms).
func (r *result) verdict() string {
	if r.key != "" {
		return r.key
	}
	return r.softKey
}

var softSeen sync.Map // soft key -> reported once; later occurrences are not re-confirmed

type sigEntry struct {
	sig  string
	hist []int
	at   int
}

var sigTable sync.Map // cv|state|event -> *sigEntry
var sigCount int64

// recordSigs checks that the behaviour of every event (and of the probe phase) is a function of
// (configuration, variant, model state): the soundness condition for merging histories by model
// state in the breadth-first search.
func (w *worker) recordSigs(cv *cfgVar, hist []int, res *result) {
	if res.key != "" {
		return
	}
	check := func(k, sig string, at int) {
		e := &sigEntry{sig: sig, hist: hist, at: at}
		if old, loaded := sigTable.LoadOrStore(k, e); loaded {
			o := old.(*sigEntry)
			if o.sig != sig {
				name := "probes"
				if at >= 0 {
					name = events[hist[at]].Name
				}
				st := res.states[len(res.states)-1]
				if at >= 0 {
					st = res.states[at]
				}
				run.Violation(fmt.Sprintf("behaviour-not-a-function-of-model-state:%s in %s", name, cv.describe(st, false)), map[string]interface{}{
					"config": cv.cfg, "config_name": cv.cfg.name(), "variant": cv.v.Name, "history": histNames(hist), "other_history": histNames(o.hist),
					"model_state": st.key(), "behaviour": sig, "other_behaviour": o.sig,
					"message": "two histories reach the same model state but the implementation then behaves differently (hidden implementation state)",
				})
			}
		} else {
			atomic.AddInt64(&sigCount, 1)
		}
	}
	for i := range res.evSigs {
		if i < len(hist) {
			check(cv.name+"|"+res.states[i].key()+"|"+events[hist[i]].Name, res.evSigs[i], i)
		}
	}
	if len(res.evSigs) == len(hist) && res.prbSig != "" {
		check(cv.name+"|"+res.states[len(hist)].key()+"|probes", res.prbSig, -1)
	}
}

var (
	cntExec, cntCalls, cntReject, cntTLS int64
)

// runOne executes one history and handles its verdict. It returns the result (key=="" if it
// conforms).
func (w *worker) runOne(cv *cfgVar, hist []int) *result {
	res := w.exec(cv, hist, false)
	atomic.AddInt64(&cntExec, 1)
	if res.engine != "" {
		run.EngineError("%s %v: %s", cv.name, histNames(hist), res.engine)
	}
	atomic.AddInt64(&cntCalls, int64(res.nCalls))
	atomic.AddInt64(&cntReject, int64(res.nReject))
	atomic.AddInt64(&cntTLS, int64(res.nTLS))
	if res.key != "" {
		w.report(cv, hist, res)
		return res
	}
	if res.softKey != "" {
		if _, dup := softSeen.LoadOrStore(res.softKey, true); !dup {
			w.report(cv, hist, res)
		}
		return res // key == "": the history is extended, the state is as the model says
	}
	w.recordSigs(cv, hist, res)
	return res
}

// After this many distinct counterexamples the search stops (the run is then not exhaustive).
const maxViolations = 12

var stoppedEarly int64

var badCV sync.Map     // cv -> true: the initial state does not conform
var badPrefix sync.Map // cv|e1 -> true: the depth-1 history does not conform; its extensions are skipped

func pool(n int, f func(w *worker, i int)) {
	nw := runtime.GOMAXPROCS(0)
	if nw > 32 {
		nw = 32
	}
	var next int64 = -1
	var wg sync.WaitGroup
	for k := 0; k < nw; k++ {
		wg.Add(1)
		go func() {
			defer wg.Done()
			w := newWorker()
			defer w.close()
			for {
				i := int(atomic.AddInt64(&next, 1))
				if i >= n {
					return
				}
				if run.NumViolations() >= maxViolations {
					atomic.StoreInt64(&stoppedEarly, 1)
					return
				}
				f(w, i)
			}
		}()
	}
	wg.Wait()
}

// ------------------------------------------------------------------------------------------
// searches
// ------------------------------------------------------------------------------------------

type node struct {
	cv   *cfgVar
	hist []int
	st   mstate
}

// bfs: breadth-first to closure with deduplication on the model state.
func bfs(cvs []*cfgVar) (states, trans int64, maxDepth int, perCV map[string]int) {
	seen := map[string]bool{}
	perCV = map[string]int{}
	var frontier []node
	for _, cv := range cvs {
		s := cv.initial()
		seen[cv.name+"|"+s.key()] = true
		perCV[cv.name]++
		frontier = append(frontier, node{cv, nil, s})
		states++
	}
	// the empty history is a run of its own (greeting + probes); nothing is explored below a
	// non-conforming initial state (every extension would repeat the same counterexample)
	rootRes := make([]*result, len(frontier))
	pool(len(frontier), func(w *worker, i int) { rootRes[i] = w.runOne(frontier[i].cv, nil) })
	var okRoots []node
	for i, r := range rootRes {
		if r == nil || r.key != "" {
			badCV.Store(frontier[i].cv.name, true)
			continue
		}
		okRoots = append(okRoots, frontier[i])
	}
	frontier = okRoots
	for depth := 1; len(frontier) > 0; depth++ {
		ne := len(events)
		results := make([]*result, len(frontier)*ne)
		pool(len(results), func(w *worker, i int) {
			n := frontier[i/ne]
			h := append(append([]int{}, n.hist...), i%ne)
			results[i] = w.runOne(n.cv, h)
		})
		var next []node
		for i, r := range results {
			n := frontier[i/ne]
			if r == nil {
				continue // search stopped early
			}
			trans++
			if r.key != "" {
				if len(n.hist) == 0 {
					badPrefix.Store(fmt.Sprintf("%s|%d", n.cv.name, i%ne), true)
				}
				continue // counterexample: no expansion below a non-conforming transition
			}
			s := r.states[len(r.states)-1]
			k := n.cv.name + "|" + s.key()
			if !seen[k] {
				seen[k] = true
				perCV[n.cv.name]++
				states++
				next = append(next, node{n.cv, append(append([]int{}, n.hist...), i%ne), s})
				maxDepth = depth
			}
		}
		frontier = next
	}
	return
}

// exhaustive: every history up to depth, no deduplication. A history is extended only if it
// conforms (its extensions would repeat the same counterexample). With extra, every history h of
// length depth-1 is additionally the root of one more breadth-first level WITH deduplication: for
// each model state first reached by some h+e1 (and different from h's own state) every h+e1+e2 is
// run (depth+1 histories whose first depth-1 events are free of any merging).
func exhaustive(cvs []*cfgVar, depth int, extra bool) (histories, deeper int64) {
	ne := len(events)
	pool(len(cvs)*ne*ne, func(w *worker, i int) {
		cv := cvs[i/(ne*ne)]
		e1, e2 := (i/ne)%ne, i%ne
		bk := fmt.Sprintf("%s|%d", cv.name, e1)
		if _, bad := badPrefix.Load(bk); bad {
			return
		}
		if _, bad := badCV.Load(cv.name); bad {
			return
		}
		if e2 == 0 {
			atomic.AddInt64(&histories, 1)
			if w.runOne(cv, []int{e1}).key != "" {
				badPrefix.Store(bk, true)
				return
			}
		}
		var rec func(h []int) *result
		rec = func(h []int) *result {
			atomic.AddInt64(&histories, 1)
			res := w.runOne(cv, h)
			if res.key != "" || len(h) >= depth {
				return res
			}
			seen := map[string]bool{res.states[len(h)].key(): true}
			for e := 0; e < ne; e++ {
				hh := append(append([]int{}, h...), e)
				kid := rec(hh)
				if !extra || len(hh) != depth || kid.key != "" {
					continue
				}
				k := kid.states[len(hh)].key()
				if seen[k] {
					continue
				}
				seen[k] = true
				for f := 0; f < ne; f++ {
					atomic.AddInt64(&deeper, 1)
					w.runOne(cv, append(append([]int{}, hh...), f))
				}
			}
			return res
		}
		rec([]int{e1, e2})
	})
	return
}

func allCfgVars() []*cfgVar {
	var out []*cfgVar
	for _, mode := range []int{tlsImplicit, tlsNoCfg, tlsCfg} {
		for _, ins := range []bool{true, false} {
			for _, pre := range []bool{false, true} {
				for _, v := range variants {
					cv := &cfgVar{cfg: config{mode, ins, pre}, v: v, idx: len(out)}
					cv.name = cv.cfg.name() + "/" + v.Name
					out = append(out, cv)
				}
			}
		}
	}
	return out
}

func isDefault(c config) bool {
	return !c.PreAuth && (c.TLSMode == tlsNoCfg && c.Insecure || c.TLSMode == tlsImplicit && !c.Insecure)
}

func replay(cvs []*cfgVar) {
	b, err := os.ReadFile(run.Replay)
	if err != nil {
		run.EngineError("replay: %v", err)
	}
	var f struct {
		Key    string
		Detail struct {
			Config       config
			Variant      string
			History      []string
			OtherHistory []string `json:"other_history"`
		}
	}
	if err := json.Unmarshal(b, &f); err != nil {
		run.EngineError("replay: %v", err)
	}
	var cv *cfgVar
	for _, c := range cvs {
		if c.cfg == f.Detail.Config && c.v.Name == f.Detail.Variant {
			cv = c
		}
	}
	if cv == nil && len(f.Detail.History) == 0 {
		fmt.Printf("replay of %s\nstored key: %s\nthis artefact carries no history (it was recorded by the late Session.Close re-check):\n%s\n", run.Replay, f.Key, b)
		run.Finish()
	}
	if cv == nil {
		run.EngineError("replay: unknown configuration/variant in %s", run.Replay)
	}
	w := newWorker()
	for n, names := range [][]string{f.Detail.History, f.Detail.OtherHistory} {
		if n == 1 && len(names) == 0 {
			break
		}
		var hist []int
		for _, nm := range names {
			i, ok := eventIdx[nm]
			if !ok {
				run.EngineError("replay: unknown event %q", nm)
			}
			hist = append(hist, i)
		}
		fmt.Printf("replay of %s\nstored key: %s\nconfiguration: %s  variant: %s\nhistory: %v\n", run.Replay, f.Key, cv.cfg.name(), cv.v.Name, names)
		res := w.exec(cv, hist, true)
		for _, d := range res.dumps {
			kind := "event"
			if d.Probe {
				kind = "probe"
			}
			fmt.Printf("--- step %d %s %s\n    model state before: %s\n    model expects:      %s\n", d.Step, kind, d.Event, d.Before, d.Expected)
			for _, s := range d.Sent {
				fmt.Printf("    C: %s\n", vk.Q(s))
			}
			for _, s := range d.Responses {
				fmt.Printf("    S: %s\n", s)
			}
			fmt.Printf("    backend calls: %v   server closed: %v\n    model state after:  %s\n", d.Calls, d.Closed, d.After)
			if d.Problem != "" {
				fmt.Printf("    PROBLEM: %s\n", d.Problem)
			}
		}
		if res.engine != "" {
			fmt.Printf("engine problem: %s\n", res.engine)
		}
		if res.verdict() != "" {
			msg := res.msg
			if res.key == "" {
				msg = res.softMsg
			}
			fmt.Printf("verdict: VIOLATION key=%s\n         %s\n", res.verdict(), msg)
			run.Violation(res.verdict(), map[string]interface{}{"config": cv.cfg, "config_name": cv.cfg.name(), "variant": cv.v.Name, "history": names, "message": msg, "steps": res.dumps})
		} else {
			fmt.Printf("verdict: this history conforms to the model (Session.Close count = 1)\n")
		}
	}
	w.close()
	run.Finish()
}

func main() {
	run = vk.Start("C05", "model_checking")
	debug.SetGCPercent(200)
	if g := os.Getenv("C05_GOGC"); g != "" {
		n, _ := strconv.Atoi(g)
		debug.SetGCPercent(n)
	}
	for _, a := range assumptions {
		run.Assume(a)
	}
	cvs := allCfgVars()
	if run.Replay != "" {
		replay(cvs)
	}
	// development aids (never set by ./check): restrict the configurations / write a CPU profile
	devOnly := os.Getenv("C05_ONLY")
	if devOnly != "" {
		var f []*cfgVar
		for _, cv := range cvs {
			if strings.Contains(cv.name, devOnly) {
				f = append(f, cv)
			}
		}
		cvs = f
	}
	if pf := os.Getenv("C05_CPUPROFILE"); pf != "" {
		fh, _ := os.Create(pf)
		pprof.StartCPUProfile(fh)
		defer pprof.StopCPUProfile()
	}
	t0 := time.Now()

	// (A) breadth-first with deduplication, every configuration x variant
	states, trans, maxDepth, perCV := bfs(cvs)
	tA := time.Since(t0)
	minS, maxS := 1<<30, 0
	for _, n := range perCV {
		if n < minS {
			minS = n
		}
		if n > maxS {
			maxS = n
		}
	}
	fmt.Printf("C05 A: BFS with model-state deduplication: %d configurations x %d variants, %d events, %d states (%d..%d per configuration), %d transitions, closed at depth %d, %.1fs\n",
		12, len(variants), len(events), states, minS, maxS, trans, maxDepth, tA.Seconds())

	// (B) no deduplication
	var hist2, hist3, hist4 int64
	var d3set, d4set []*cfgVar
	main1 := variants[1]
	for _, cv := range cvs {
		def := isDefault(cv.cfg)
		switch {
		case run.Thorough() && def && cv.v == main1:
			d4set = append(d4set, cv)
		case run.Thorough() && (def || cv.v == main1):
			d3set = append(d3set, cv)
		case !run.Thorough() && def && cv.v == main1:
			d3set = append(d3set, cv)
		}
	}
	t1 := time.Now()
	hist2, _ = exhaustive(cvs, 2, false)
	fmt.Printf("C05 B: every history of depth <= 2 without deduplication in %d configuration x variant pairs: %d histories, %.1fs\n", len(cvs), hist2, time.Since(t1).Seconds())
	var d3names, d4names []string
	fastTLS = os.Getenv("C05_FULL_TLS") == ""
	if os.Getenv("C05_NO_D3") == "" {
		t2 := time.Now()
		hist3, _ = exhaustive(d3set, 3, false)
		for _, cv := range d3set {
			d3names = append(d3names, cv.name)
		}
		fmt.Printf("C05 B: every history of depth <= 3 without deduplication in %d configuration x variant pairs: %d histories, %.1fs\n", len(d3set), hist3, time.Since(t2).Seconds())
		if len(d4set) > 0 {
			t3 := time.Now()
			h3, h4 := exhaustive(d4set, 3, true)
			hist3 += h3
			hist4 = h4
			for _, cv := range d4set {
				d3names = append(d3names, cv.name)
				d4names = append(d4names, cv.name)
			}
			fmt.Printf("C05 B: every history of depth <= 3 without deduplication in %d more pairs: %d histories; continued one level deeper with deduplication per depth-2 root: %d histories of depth 4, %.1fs\n", len(d4set), h3, h4, time.Since(t3).Seconds())
		}
	}

	if atomic.LoadInt64(&unstable) > 0 {
		run.EngineError("%d counterexamples did not reproduce identically (harness nondeterminism)", unstable)
	}
	run.States = states
	run.Trans = trans
	run.Traces = atomic.LoadInt64(&cntExec)
	run.AddEvals(atomic.LoadInt64(&cntExec))
	run.NontrivialN(atomic.LoadInt64(&sigCount))
	run.Set("configurations", int64(12))
	run.Set("session_variants", int64(len(variants)))
	run.Set("events", int64(len(events)))
	run.Set("bfs_max_depth", int64(maxDepth))
	run.Set("bfs_states_per_configuration_min_max", []int{minS, maxS})
	run.Set("undeduplicated_histories_depth_le_2", hist2)
	run.Set("undeduplicated_histories_depth_le_3", hist3)
	run.Set("undeduplicated_depth3_pairs", d3names)
	run.Set("depth4_histories_two_free_events_then_deduplicated", hist4)
	run.Set("depth4_pairs", d4names)
	run.Set("executions_on_real_server", atomic.LoadInt64(&cntExec))
	run.Set("backend_calls_judged", atomic.LoadInt64(&cntCalls))
	run.Set("commands_rejected_by_state", atomic.LoadInt64(&cntReject))
	run.Set("starttls_handshakes_completed", atomic.LoadInt64(&cntTLS))
	run.Set("distinct_state_event_behaviours", atomic.LoadInt64(&sigCount))
	if run.NumViolations() == 0 && (cntCalls == 0 || cntReject == 0 || cntTLS == 0) {
		run.EngineError("vacuous run: backend calls %d, rejected commands %d, STARTTLS handshakes %d", cntCalls, cntReject, cntTLS)
	}
	run.Sample("history", map[string]interface{}{"config": "plaintext/insecureauth=true/greeting-ok", "history": []string{"LOGIN", "SELECT", "SELECT/fail:Select"}, "expect": "tagged NO, backend calls [Unselect Select], state authenticated: probes STATUS OK, SEARCH rejected"})
	run.Sample("history", map[string]interface{}{"config": "plaintext+starttls/insecureauth=false/greeting-ok", "history": []string{"LOGIN", "STARTTLS", "LOGIN"}, "expect": "first LOGIN rejected without backend call (LOGINDISABLED advertised), real TLS handshake, second LOGIN reaches Login"})
	var evNames []string
	for _, e := range events {
		evNames = append(evNames, e.Name)
	}
	run.Set("event_alphabet", evNames)
	run.Rule = fmt.Sprintf("A: breadth-first search to closure over the connection state machine of the real server (fresh connection per transition: replay history + one event), deduplicated on the reference-model state {not-authenticated, authenticated, selected, logout} x TLS active x enabled capabilities x backend mailbox selected, in 12 configurations {implicit TLS, plaintext, plaintext+STARTTLS} x InsecureAuth x {OK, PREAUTH greeting} x %d session variants, %d events (every dispatcher command, UID and non-UID, each backend outcome); B: every history of depth <= 2 in all of them and depth <= 3 in %d pairs without deduplication (thorough: in %d of these pairs additionally depth 4, the last level deduplicated per depth-2 root). Every step is judged against the model (backend calls, tagged class, BYE/close, capability list), every final state is probed (CAPABILITY, STATUS, SEARCH, then LOGIN/SELECT/SEARCH/FETCH as far as the state allows), Session.Close exactly once; behaviour must be a function of the model state. non-trivial = distinct (configuration, variant, model state, event) behaviours exercised", len(variants), len(events), len(d3names), len(d4names))
	run.Exhaustive = atomic.LoadInt64(&stoppedEarly) == 0 && devOnly == ""
	if atomic.LoadInt64(&stoppedEarly) != 0 {
		fmt.Printf("C05: search stopped after %d distinct counterexamples; not exhaustive\n", run.NumViolations())
	}
	pprof.StopCPUProfile()
	fmt.Printf("C05 totals: %d executions on the real server, %d backend calls judged, %d state-rejected commands, %d STARTTLS handshakes, %d distinct (state,event) behaviours, %.1fs\n",
		cntExec, cntCalls, cntReject, cntTLS, sigCount, time.Since(t0).Seconds())
	run.Finish()
}
