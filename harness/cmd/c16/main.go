// C16 — modified UTF-7: exhaustive enumeration of encoder inputs (valid UTF-8 over a rune
// alphabet) and decoder inputs (byte strings over a base64/shift alphabet + UTF-16 unit
// families), against an independent RFC 3501 §5.1.3 reference codec, and under every
// (source chunk, destination size) driving of the streaming Transformer.
package main

import (
	"bufio"
	"bytes"
	"encoding/json"
	"fmt"
	"os"
	"strings"
	"unicode/utf16"
	"unicode/utf8"

	"github.com/emersion/go-imap/v2/internal/imapwire"
	"github.com/emersion/go-imap/v2/internal/utf7"
	"github.com/emersion/go-imap/v2/verif/vk"
	"golang.org/x/text/transform"
)

var run *vk.Run

const b64chars = "ABCDEFGHIJKLMNOPQRSTUVWXYZabcdefghijklmnopqrstuvwxyz0123456789+,"

// ---------- independent reference codec ----------

func refEncode(s string) string {
	var out strings.Builder
	var pending []uint16
	flush := func() {
		if len(pending) == 0 {
			return
		}
		var bits []byte
		for _, u := range pending {
			bits = append(bits, byte(u>>8), byte(u))
		}
		out.WriteByte('&')
		// modified base64, no padding
		var acc uint32
		n := 0
		for _, b := range bits {
			acc = acc<<8 | uint32(b)
			n += 8
			for n >= 6 {
				out.WriteByte(b64chars[(acc>>(uint(n)-6))&63])
				n -= 6
			}
		}
		if n > 0 {
			out.WriteByte(b64chars[(acc<<(6-uint(n)))&63])
		}
		out.WriteByte('-')
		pending = nil
	}
	for _, r := range s {
		if r >= 0x20 && r <= 0x7e {
			flush()
			if r == '&' {
				out.WriteString("&-")
			} else {
				out.WriteByte(byte(r))
			}
			continue
		}
		if r >= 0x10000 {
			r1, r2 := utf16.EncodeRune(r)
			pending = append(pending, uint16(r1), uint16(r2))
		} else {
			pending = append(pending, uint16(r))
		}
	}
	flush()
	return out.String()
}

type verdict int

const (
	accept verdict = iota
	reject
	dontcare
)

// refDecode classifies an input per the statement: reject = a form the decoder is specified to
// reject; accept = well-formed; dontcare = RFC 3501 is silent (only safety is checked).
func refDecode(in string) (string, verdict, string) {
	var out []rune
	dc := false
	prevShift := false // the previous token was a base64 shift
	i := 0
	for i < len(in) {
		c := in[i]
		if c < 0x20 || c > 0x7e {
			return "", reject, "byte outside printable ASCII"
		}
		if c != '&' {
			out = append(out, rune(c))
			prevShift = false
			i++
			continue
		}
		j := i + 1
		for j < len(in) && in[j] != '-' {
			j++
		}
		if j == len(in) {
			// unterminated; but a non-printable byte inside would also be a reason — either way reject
			return "", reject, "unterminated shift"
		}
		body := in[i+1 : j]
		i = j + 1
		if body == "" {
			if prevShift {
				dc = true // "&-" directly after a shift: RFC silent
			}
			out = append(out, '&')
			prevShift = false
			continue
		}
		if prevShift {
			return "", reject, "back-to-back shifts"
		}
		prevShift = true
		var acc uint32
		n := 0
		var bytesOut []byte
		for k := 0; k < len(body); k++ {
			idx := strings.IndexByte(b64chars, body[k])
			if idx < 0 {
				if body[k] < 0x20 || body[k] > 0x7e {
					return "", reject, "byte outside printable ASCII"
				}
				if body[k] == '=' {
					return "", reject, "padding"
				}
				return "", reject, "non-base64 character in shift"
			}
			acc = acc<<6 | uint32(idx)
			n += 6
			if n >= 8 {
				bytesOut = append(bytesOut, byte(acc>>(uint(n)-8)))
				n -= 8
			}
		}
		if acc&(1<<uint(n)-1) != 0 {
			dc = true // non-zero trailing bits: RFC silent
		}
		if len(body)%4 == 1 {
			dc = true // 6 dangling bits cannot come from any encoder; RFC silent on the verdict
		}
		if len(bytesOut) == 0 {
			if dc {
				return "", dontcare, "no complete unit"
			}
			return "", reject, "empty"
		}
		if len(bytesOut)%2 == 1 {
			return "", reject, "odd UTF-16 length"
		}
		for k := 0; k < len(bytesOut); k += 2 {
			u := rune(bytesOut[k])<<8 | rune(bytesOut[k+1])
			switch {
			case u >= 0xd800 && u < 0xdc00:
				if k+2 >= len(bytesOut) {
					return "", reject, "lone high surrogate"
				}
				u2 := rune(bytesOut[k+2])<<8 | rune(bytesOut[k+3])
				if u2 < 0xdc00 || u2 > 0xdfff {
					return "", reject, "lone high surrogate"
				}
				out = append(out, 0x10000+(u-0xd800)<<10+(u2-0xdc00))
				k += 2
			case u >= 0xdc00 && u <= 0xdfff:
				return "", reject, "lone low surrogate"
			case u >= 0x20 && u <= 0x7e:
				return "", reject, "printable ASCII hidden in base64"
			default:
				out = append(out, u)
			}
		}
	}
	if dc {
		return string(out), dontcare, "rfc silent"
	}
	return string(out), accept, ""
}

// ---------- transformer driving ----------

// drive follows the transform.Transformer contract literally.
func drive(t transform.Transformer, input []byte, srcChunk, dstSize int) (out []byte, err error, contract string) {
	t.Reset()
	pos := 0
	feed := func(src []byte) []byte {
		n := srcChunk
		if pos+n > len(input) {
			n = len(input) - pos
		}
		src = append(src, input[pos:pos+n]...)
		pos += n
		return src
	}
	src := feed(nil)
	dst := make([]byte, dstSize)
	for iter := 0; iter < 10000; iter++ {
		atEOF := pos == len(input)
		nDst, nSrc, e := t.Transform(dst, src, atEOF)
		if nDst < 0 || nDst > len(dst) || nSrc < 0 || nSrc > len(src) {
			return out, e, fmt.Sprintf("nDst=%d nSrc=%d out of range", nDst, nSrc)
		}
		out = append(out, dst[:nDst]...)
		src = append([]byte{}, src[nSrc:]...)
		switch e {
		case nil:
			if len(src) != 0 {
				return out, nil, "nil error with unconsumed source"
			}
			if atEOF {
				return out, nil, ""
			}
			src = feed(src)
		case transform.ErrShortSrc:
			if atEOF {
				return out, e, "ErrShortSrc at EOF"
			}
			src = feed(src)
		case transform.ErrShortDst:
			if nDst == 0 {
				dst = make([]byte, len(dst)*2)
			}
		default:
			return out, e, ""
		}
	}
	return out, nil, "no progress after 10000 calls"
}

var srcChunks = []int{1, 2, 3, 5}
var dstSizes = []int{1, 2, 3, 4, 6, 8, 64}

func safeDecode(in string) (out string, err error, pan interface{}) {
	defer func() {
		if r := recover(); r != nil {
			pan = r
		}
	}()
	out, err = utf7.Encoding.NewDecoder().String(in)
	return
}

func safeEncode(in string) (out string, err error, pan interface{}) {
	defer func() {
		if r := recover(); r != nil {
			pan = r
		}
	}()
	out, err = utf7.Encoding.NewEncoder().String(in)
	return
}

func checkEncode(s string, chunked bool) {
	run.AddEvals(1)
	viol := func(key, msg string) {
		run.Violation(key, map[string]interface{}{"dir": "encode", "input": vk.Q(s), "problem": msg})
	}
	enc, err, pan := safeEncode(s)
	if pan != nil {
		viol("encoder-panic", fmt.Sprint(pan))
		return
	}
	if err != nil {
		viol("encoder-error-on-valid-utf8", err.Error())
		return
	}
	for i := 0; i < len(enc); i++ {
		if enc[i] < 0x20 || enc[i] > 0x7e {
			viol("encoder-output-not-printable-ascii", vk.Q(enc))
			break
		}
	}
	want := refEncode(s)
	if enc != want {
		viol("encoder-differs-from-rfc-reference", fmt.Sprintf("got %q want %q", enc, want))
	}
	if enc != s {
		// counts non-trivial evaluations (an input reached by both the product and a family is counted
		// twice): no per-input set, which at the thorough bound is gigabytes
		run.NontrivialN(1)
	}
	back, err, pan := safeDecode(enc)
	if pan != nil {
		viol("decoder-panic", fmt.Sprint(pan))
	} else if err != nil || back != s {
		viol("roundtrip-lost", fmt.Sprintf("encoded %q decoded %q err=%v", enc, back, err))
	}
	if chunked {
		for _, sc := range srcChunks {
			for _, ds := range dstSizes {
				run.AddEvals(1)
				out, e, contract := driveSafe(utf7.Encoding.NewEncoder().Transformer, []byte(s), sc, ds)
				if contract != "" {
					viol("encoder-chunked-contract:"+contract, fmt.Sprintf("src=%d dst=%d", sc, ds))
				} else if e != nil || string(out) != enc {
					viol("encoder-chunked-differs", fmt.Sprintf("src=%d dst=%d got %q err=%v want %q", sc, ds, out, e, enc))
				}
			}
		}
	}
	// through the wire codec (mailbox names), with and without 8-bit quoted strings enabled (the
	// decoder has no such mode: names are modified UTF-7 on the wire either way)
	for _, q8 := range []bool{false, true} {
		run.AddEvals(1)
		var buf bytes.Buffer
		bw := bufio.NewWriter(&buf)
		e := imapwire.NewEncoder(bw, imapwire.ConnSideServer)
		e.QuotedUTF8 = q8
		e.Mailbox(s).SP().Atom("END")
		if err := e.CRLF(); err != nil {
			viol("wire-mailbox-encode-error", err.Error())
			return
		}
		d := imapwire.NewDecoder(bufio.NewReader(&buf), imapwire.ConnSideClient)
		var got, end string
		if !d.ExpectMailbox(&got) || !d.ExpectSP() || !d.ExpectAtom(&end) || end != "END" || !d.ExpectCRLF() {
			viol("wire-mailbox-decode-error", fmt.Sprintf("QuotedUTF8=%v: %v", q8, d.Err()))
		} else if got != s && !(strings.EqualFold(s, "INBOX") && got == "INBOX") {
			viol("wire-mailbox-roundtrip", fmt.Sprintf("QuotedUTF8=%v: got %q", q8, got))
		}
	}
}

func driveSafe(t transform.Transformer, input []byte, sc, ds int) (out []byte, err error, contract string) {
	defer func() {
		if r := recover(); r != nil {
			contract = "panic: " + fmt.Sprint(r)
		}
	}()
	return drive(t, input, sc, ds)
}

func checkDecode(in string, chunked bool) {
	run.AddEvals(1)
	viol := func(key, msg string) {
		run.Violation(key, map[string]interface{}{"dir": "decode", "input": vk.Q(in), "problem": msg})
	}
	out, err, pan := safeDecode(in)
	if pan != nil {
		viol("decoder-panic", fmt.Sprint(pan))
		return
	}
	if err == nil && !utf8.ValidString(out) {
		viol("decoder-output-invalid-utf8", vk.Q(out))
	}
	want, v, why := refDecode(in)
	switch v {
	case accept:
		if err != nil {
			viol("decoder-rejects-wellformed", err.Error())
		} else if out != want {
			viol("decoder-wrong-output", fmt.Sprintf("got %q want %q", out, want))
		}
		if strings.Contains(in, "&") {
			run.NontrivialN(1)
		}
	case reject:
		if err == nil {
			viol("decoder-accepts-malformed:"+strings.ReplaceAll(why, " ", "-"), fmt.Sprintf("decoded to %q", out))
		}
		run.NontrivialN(1)
	}
	if chunked {
		for _, sc := range srcChunks {
			for _, ds := range dstSizes {
				run.AddEvals(1)
				o, e, contract := driveSafe(utf7.Encoding.NewDecoder().Transformer, []byte(in), sc, ds)
				if contract != "" {
					viol("decoder-chunked-contract:"+contract, fmt.Sprintf("src=%d dst=%d", sc, ds))
					continue
				}
				if (e == nil) != (err == nil) {
					viol("decoder-chunked-verdict-differs", fmt.Sprintf("src=%d dst=%d chunked err=%v one-shot err=%v", sc, ds, e, err))
				} else if e == nil && string(o) != out {
					viol("decoder-chunked-output-differs", fmt.Sprintf("src=%d dst=%d got %q want %q", sc, ds, o, out))
				}
			}
		}
	}
}

// sameInstance: one transformer instance across several inputs with Reset between them
func sameInstanceCheck(inputs []string) {
	dt := utf7.Encoding.NewDecoder().Transformer
	for _, in := range inputs {
		_, err1, _ := safeDecode(in)
		for _, sc := range []int{1, 3} {
			_, e, contract := driveSafe(dt, []byte(in), sc, 2)
			run.AddEvals(1)
			if contract == "" && (e == nil) != (err1 == nil) {
				run.Violation("decoder-state-leaks-across-reset", map[string]interface{}{"input": vk.Q(in), "err": fmt.Sprint(e), "oneshot": fmt.Sprint(err1)})
			}
		}
	}
}

func main() {
	run = vk.Start("C16", "exploration")
	if run.Replay != "" {
		b, _ := os.ReadFile(run.Replay)
		var f struct {
			Detail struct {
				Dir, Input string
			}
		}
		json.Unmarshal(b, &f)
		var in string
		fmt.Sscanf(f.Detail.Input, "%q", &in)
		fmt.Printf("replaying %s of %q\n", f.Detail.Dir, in)
		if f.Detail.Dir == "encode" {
			checkEncode(in, true)
		} else {
			checkDecode(in, true)
			o, e, _ := safeDecode(in)
			w, v, why := refDecode(in)
			fmt.Printf("decoder: %q err=%v ; reference: %q verdict=%d %s\n", o, e, w, v, why)
		}
		run.Finish()
	}
	encLen, decLen, chunkLen := 5, 5, 4
	if run.Thorough() {
		encLen, decLen, chunkLen = 6, 7, 5
	}
	R := []string{"a", "&", "-", ",", "/", "~", "\u0001", "\u007f", "\u00e9", "\u20ac", "\ufffd", "\ud7ff", "\ue000", "\U0001f600", "\U0010ffff"}
	B := []string{"a", "&", "-", ",", "A", "Q", "g", "k", "/", "+", "=", " ", "\r", "\n", "\x7f", "\x80"}

	vk.StringsSharded(R, encLen, func(s string) {
		checkEncode(s, utf8.RuneCountInString(s) <= chunkLen)
	})
	vk.StringsSharded(B, decLen, func(s string) {
		checkDecode(s, len(s) <= chunkLen)
	})
	// INBOX case variants and neighbours through the wire
	for _, s := range []string{"INBOX", "inbox", "InBoX", "INBOX/x", "xINBOX", "INBOX&", "INBOXé"} {
		checkEncode(s, true)
	}

	// UTF-16 unit families rendered to base64 with every length residue
	units := []uint16{0x0020, 0x007e, 0x001f, 0x0041, 0x00e9, 0xd800, 0xdc00, 0xdbff, 0xdfff, 0xfffd, 0x0000, 0x007f, 0xffff, 0x20ac, 0x0026}
	var fam []string
	var rec func(prefix []uint16, left int)
	render := func(us []uint16) {
		var bits []byte
		for _, u := range us {
			bits = append(bits, byte(u>>8), byte(u))
		}
		for cut := 0; cut <= 1 && cut < len(bits); cut++ { // whole units, and one byte short (odd length)
			b := bits[:len(bits)-cut]
			var sb strings.Builder
			var acc uint32
			n := 0
			for _, x := range b {
				acc = acc<<8 | uint32(x)
				n += 8
				for n >= 6 {
					sb.WriteByte(b64chars[(acc>>(uint(n)-6))&63])
					n -= 6
				}
			}
			if n > 0 {
				sb.WriteByte(b64chars[(acc<<(6-uint(n)))&63])
			}
			body := sb.String()
			variants := []string{body, body + "A", body + "=", body + "==", body[:len(body)-1]}
			for _, v := range variants {
				if v == "" {
					continue
				}
				fam = append(fam, "&"+v+"-", "x&"+v+"-y", "&"+v+"-&"+v+"-", "&"+v+"-&-", "&"+v)
			}
		}
	}
	rec = func(prefix []uint16, left int) {
		if len(prefix) > 0 {
			render(prefix)
		}
		if left == 0 {
			return
		}
		for _, u := range units {
			rec(append(append([]uint16{}, prefix...), u), left-1)
		}
	}
	rec(nil, 3)
	vk.Parallel(len(fam), func(i int) { checkDecode(fam[i], len(fam[i]) <= 12) })
	run.Set("utf16_family_inputs", int64(len(fam)))
	sameInstanceCheck([]string{"&AOk-", "&AOk", "&AOk-&AOk-", "a&AOk-", "&AOk-a", "&", "&-", "\x80", "&AOk-&-"})

	run.Sample("encode", map[string]string{"input": "a&é😀", "encoded": refEncode("a&é😀")})
	run.Sample("decode", map[string]string{"input": "&AOk-&AOk-", "expected": "reject: back-to-back shifts"})
	run.Sample("chunking", map[string]interface{}{"src_chunks": srcChunks, "dst_sizes": dstSizes, "max_len": chunkLen})
	run.Set("encoder_rune_alphabet", R)
	run.Set("decoder_byte_alphabet", []string{"a", "&", "-", ",", "A", "Q", "g", "k", "/", "+", "=", "SP", "CR", "LF", "0x7f", "0x80"})
	run.Set("encoder_max_runes", int64(encLen))
	run.Set("decoder_max_bytes", int64(decLen))
	run.Rule = "encoder: every valid UTF-8 string up to the rune bound over a 15-rune alphabet (ASCII, '&', '-', controls, 2/3/4-byte code points, U+FFFD, surrogate neighbours); decoder: every byte string up to the byte bound over a 16-symbol base64/shift alphabet plus every 1-3 unit UTF-16 sequence over 15 units (incl. the printable range boundaries 0x1f,0x20,0x7e,0x7f) rendered with every padding/length residue; each short input additionally driven through the Transformer under every (src chunk, dst size) in {1,2,3,5}x{1,2,3,4,6,8,64}. Oracle: independent RFC 3501 reference codec. non-trivial = distinct inputs whose encoding is not the identity / that contain a shift or are rejected"
	run.Exhaustive = true
	run.Assume("inputs on which RFC 3501 is silent (non-zero trailing bits, '&-' right after a shift, a dangling 6-bit group) are only checked for safety (no panic, valid UTF-8, chunking-independent verdict)")
	run.Finish()
}
