// C08 — on-the-wire mailbox view consistency across sessions.
//
// Explicit-state breadth-first search (engine E4) over histories of IMAP commands issued ONE AT A
// TIME by 2..4 sessions of one user that share two mailboxes on a REAL imapserver.Server backed by
// the REAL imapmemserver. A state is the history that reaches it: every transition builds a fresh
// server and fresh connections, replays the history and applies one more command. States are
// merged on the canonical reference-model state.
//
// Three independent parts judge every response line of the new command:
//   - wireObs: what a client can know from the wire alone (announced count, UID per slot);
//   - the reference model: mailboxes as lists of (uid, \Deleted), per session the messages its
//     announced view denotes, the messages not announced yet and the notifications owed to it;
//   - a fresh probe connection (SELECT m + UID FETCH 1:* (UID FLAGS)) that must agree with the
//     reference model after every step.
package main

import (
	"bytes"
	"crypto/sha256"
	"encoding/json"
	"flag"
	"fmt"
	"io"
	"os"
	"runtime"
	"runtime/debug"
	"runtime/pprof"
	"sort"
	"strconv"
	"strings"
	"sync"
	"sync/atomic"
	"time"

	imap "github.com/emersion/go-imap/v2"
	"github.com/emersion/go-imap/v2/imapserver"
	"github.com/emersion/go-imap/v2/imapserver/imapmemserver"
	"github.com/emersion/go-imap/v2/verif/srvkit"
	"github.com/emersion/go-imap/v2/verif/vk"
)

var run *vk.Run
var stopProfile = func() {}

// ---------------------------------------------------------------------------------------------
// commands
// ---------------------------------------------------------------------------------------------

const (
	kAppend     = "APPEND"
	kSelect     = "SELECT"
	kClose      = "CLOSE"
	kStoreAdd   = "STORE+"
	kStoreDel   = "STORE-"
	kUIDStore   = "UID STORE+"
	kExpunge    = "EXPUNGE"
	kUIDExpunge = "UID EXPUNGE"
	kCopy       = "COPY"
	kMove       = "MOVE"
	kUIDMove    = "UID MOVE"
	kFetch      = "FETCH"
	kUIDFetch   = "UID FETCH"
	kFetchBody  = "FETCH-BODY" // FETCH i (UID BODY[]): not PEEK, so the server sets \Seen and owes every session a flag update
	kSearchAll  = "SEARCH ALL"
	kSearchDel  = "SEARCH DELETED"
	kUIDSearch  = "UID SEARCH"
	kSearchMM   = "SEARCH RETURN (MIN MAX COUNT) ALL" // sequence numbers in an ESEARCH response
	kNoop       = "NOOP"
	kIdle       = "IDLE"
	kDone       = "DONE"
)

var mbName = [2]string{"A", "B"}

// op is one command of one session. Set is a sequence set ("1", "3", "*", "1:*", "1:2") or, for
// the UID commands, a UID.
type op struct {
	S     int    `json:"s"`
	K     string `json:"k"`
	MB    int    `json:"mb,omitempty"` // APPEND/SELECT: the mailbox; COPY/MOVE: the destination
	Set   string `json:"set,omitempty"`
	Setup bool   `json:"setup,omitempty"`
}

const appendDate = `"01-Jan-2024 10:00:00 +0000"`
const appendBody = "A: b\r\n\r\n"

// wire renders the command as the bytes sent to the server (one segment).
func (o op) wire(tag string) string {
	switch o.K {
	case kAppend:
		return fmt.Sprintf("%s APPEND %s %s {%d+}\r\n%s\r\n", tag, mbName[o.MB], appendDate, len(appendBody), appendBody)
	case kSelect:
		return fmt.Sprintf("%s SELECT %s\r\n", tag, mbName[o.MB])
	case kClose, kExpunge, kNoop, kIdle:
		return fmt.Sprintf("%s %s\r\n", tag, o.K)
	case kDone:
		return "DONE\r\n"
	case kStoreAdd:
		return fmt.Sprintf("%s STORE %s +FLAGS (\\Deleted)\r\n", tag, o.Set)
	case kStoreDel:
		return fmt.Sprintf("%s STORE %s -FLAGS (\\Deleted)\r\n", tag, o.Set)
	case kUIDStore:
		return fmt.Sprintf("%s UID STORE %s +FLAGS (\\Deleted)\r\n", tag, o.Set)
	case kUIDExpunge:
		return fmt.Sprintf("%s UID EXPUNGE %s\r\n", tag, o.Set)
	case kCopy, kMove, kUIDMove:
		return fmt.Sprintf("%s %s %s %s\r\n", tag, o.K, o.Set, mbName[o.MB])
	case kFetch, kUIDFetch:
		return fmt.Sprintf("%s %s %s FLAGS\r\n", tag, o.K, o.Set)
	case kFetchBody:
		return fmt.Sprintf("%s FETCH %s (UID BODY[])\r\n", tag, o.Set)
	case kSearchAll, kSearchDel, kSearchMM:
		return fmt.Sprintf("%s %s\r\n", tag, o.K)
	case kUIDSearch:
		return fmt.Sprintf("%s UID SEARCH ALL\r\n", tag)
	}
	panic("unknown op " + o.K)
}

func (o op) String() string {
	w := o.wire("t")
	if o.K == kAppend {
		w = fmt.Sprintf("t APPEND %s {%d+}", mbName[o.MB], len(appendBody))
	}
	w = strings.TrimPrefix(strings.TrimRight(w, "\r\n"), "t ")
	if o.Setup {
		return fmt.Sprintf("s%d:[setup] %s", o.S, w)
	}
	return fmt.Sprintf("s%d: %s", o.S, w)
}

// class is the command name used in violation keys.
func (o op) class() string {
	k := strings.TrimRight(o.K, "+-")
	switch o.K {
	case kSearchAll, kSearchDel, kSearchMM:
		k = "SEARCH"
	}
	return strings.ToLower(strings.ReplaceAll(k, " ", "-"))
}

// noExpunge: commands during which RFC 9051 §7.5.1 (and the property) forbid EXPUNGE responses.
func (o op) noExpunge() bool {
	switch o.K {
	case kFetch, kFetchBody, kStoreAdd, kStoreDel, kSearchAll, kSearchDel, kSearchMM:
		return true
	}
	return false
}

func histString(h []op) string {
	l := make([]string, len(h))
	for i, o := range h {
		l[i] = o.String()
	}
	return strings.Join(l, " ; ")
}

// ---------------------------------------------------------------------------------------------
// reference model + wire observer state
// ---------------------------------------------------------------------------------------------

type msg struct {
	UID uint32
	Del bool
}

// pev is a notification the reference model knows a session is owed: E = message appended,
// X = message removed, F = flags of a message changed by somebody else.
type pev struct {
	K   byte
	UID uint32
	Del bool
}

type sess struct {
	Sel  int // -1: no mailbox selected
	Idle bool

	// wire observer (from the response stream alone)
	Count int      // announced message count
	Slots []uint32 // UID the client has learnt for each sequence number (0 = not learnt)

	// reference model
	View  []uint32 // the message each announced sequence number denotes (0 = phantom)
	Unann []uint32 // messages appended to the selected mailbox and not announced yet, in order
	Pend  []pev    // notifications owed, in the order their causes happened
}

type state struct {
	MB   [2][]msg
	Next [2]uint32
	S    []sess
}

func newState(k int) *state {
	st := &state{Next: [2]uint32{1, 1}, S: make([]sess, k)}
	for i := range st.S {
		st.S[i].Sel = -1
	}
	return st
}

func (st *state) clone() *state {
	c := &state{Next: st.Next, S: make([]sess, len(st.S))}
	for m := 0; m < 2; m++ {
		c.MB[m] = append([]msg(nil), st.MB[m]...)
	}
	for i, s := range st.S {
		c.S[i] = sess{Sel: s.Sel, Idle: s.Idle, Count: s.Count,
			Slots: append([]uint32(nil), s.Slots...), View: append([]uint32(nil), s.View...),
			Unann: append([]uint32(nil), s.Unann...), Pend: append([]pev(nil), s.Pend...)}
	}
	return c
}

func (st *state) live(m int, uid uint32) bool {
	for _, x := range st.MB[m] {
		if x.UID == uid {
			return true
		}
	}
	return false
}

func uidsOf(l []msg) []uint32 {
	r := make([]uint32, len(l))
	for i, x := range l {
		r[i] = x.UID
	}
	return r
}

func eqU(a, b []uint32) bool {
	if len(a) != len(b) {
		return false
	}
	for i := range a {
		if a[i] != b[i] {
			return false
		}
	}
	return true
}

func eqMsgs(a, b []msg) bool {
	if len(a) != len(b) {
		return false
	}
	for i := range a {
		if a[i] != b[i] {
			return false
		}
	}
	return true
}

func hasU(l []uint32, u uint32) bool {
	for _, x := range l {
		if x == u {
			return true
		}
	}
	return false
}

func (s *sess) dropPend(k byte, uid uint32) bool {
	for i, e := range s.Pend {
		if e.K == k && e.UID == uid {
			s.Pend = append(s.Pend[:i:i], s.Pend[i+1:]...)
			return true
		}
	}
	return false
}

func (s *sess) countPend(k byte) int {
	n := 0
	for _, e := range s.Pend {
		if e.K == k {
			n++
		}
	}
	return n
}

func (s *sess) unselect() {
	s.Sel, s.Idle, s.Count = -1, false, 0
	s.Slots, s.View, s.Unann, s.Pend = nil, nil, nil, nil
}

// resolveSeq returns the live messages (UIDs, mailbox order) that the sequence set denotes for
// session s: a number n denotes the n-th message of the view announced to that session. star is
// the value substituted for "*".
func (st *state) resolveSeq(si int, set string, star int) []uint32 {
	s := &st.S[si]
	num := func(x string) int {
		if x == "*" {
			return star
		}
		n, _ := strconv.Atoi(x)
		return n
	}
	lo, hi := 0, 0
	if i := strings.IndexByte(set, ':'); i >= 0 {
		lo, hi = num(set[:i]), num(set[i+1:])
	} else {
		lo = num(set)
		hi = lo
	}
	if lo > hi {
		lo, hi = hi, lo
	}
	var out []uint32
	for _, x := range st.MB[s.Sel] {
		for i, v := range s.View {
			if v == x.UID && v != 0 && i+1 >= lo && i+1 <= hi {
				out = append(out, v)
			}
		}
	}
	return out
}

// targets returns the candidate target sets of a command: index 0 resolves "*" as RFC 9051 says
// (largest sequence number in use in the session), index 1 against the server-side count (what
// imapmemserver does, DESIGN §5 #15). The property does not speak about which one is right, so
// the model accepts either (the probe decides).
func (st *state) targets(o op) [2][]uint32 {
	s := &st.S[o.S]
	switch o.K {
	case kUIDStore, kUIDExpunge, kUIDMove:
		u64, _ := strconv.ParseUint(o.Set, 10, 32)
		var t []uint32
		if st.live(s.Sel, uint32(u64)) {
			t = []uint32{uint32(u64)}
		}
		return [2][]uint32{t, t}
	case kUIDFetch:
		t := uidsOf(st.MB[s.Sel])
		return [2][]uint32{t, t}
	case kStoreAdd, kStoreDel, kCopy, kMove, kFetch, kFetchBody:
		return [2][]uint32{st.resolveSeq(o.S, o.Set, len(s.View)), st.resolveSeq(o.S, o.Set, len(st.MB[s.Sel]))}
	}
	return [2][]uint32{}
}

func (st *state) setDel(m int, si int, tg []uint32, del bool) {
	for i := range st.MB[m] {
		x := &st.MB[m][i]
		if !hasU(tg, x.UID) {
			continue
		}
		x.Del = del
		for j := range st.S {
			if j != si && st.S[j].Sel == m {
				st.S[j].Pend = append(st.S[j].Pend, pev{'F', x.UID, del})
			}
		}
	}
}

// markSeen is the effect of a non-PEEK body fetch by session si on the messages tg (all of them
// announced to si, live): \Seen is set (not modelled: the model's flag state is \Deleted alone) and
// EVERY session that has the mailbox selected, the fetching one included, is owed one flag
// notification per message (imapmemserver queues it with source nil). The fetching session gets
// its own at the end of the command unless a removed message is still owed to it (FETCH must not
// send EXPUNGE, so everything queued behind it is held back too).
func (st *state) markSeen(m int, tg []uint32) {
	for _, x := range st.MB[m] {
		if !hasU(tg, x.UID) {
			continue
		}
		for j := range st.S {
			if st.S[j].Sel == m {
				st.S[j].Pend = append(st.S[j].Pend, pev{'F', x.UID, x.Del})
			}
		}
	}
}

func (st *state) appendMsg(m int, del bool) uint32 {
	uid := st.Next[m]
	st.Next[m]++
	st.MB[m] = append(st.MB[m], msg{uid, del})
	for j := range st.S {
		if st.S[j].Sel == m {
			st.S[j].Unann = append(st.S[j].Unann, uid)
			st.S[j].Pend = append(st.S[j].Pend, pev{'E', uid, false})
		}
	}
	return uid
}

// remove deletes the messages for which dead() holds; every session that has the mailbox selected
// is owed one notification per message (highest position first, like a server must order them).
func (st *state) remove(m int, dead func(x msg) bool) int {
	var keep []msg
	n := 0
	for i := len(st.MB[m]) - 1; i >= 0; i-- {
		x := st.MB[m][i]
		if !dead(x) {
			continue
		}
		n++
		for j := range st.S {
			if st.S[j].Sel == m {
				st.S[j].Pend = append(st.S[j].Pend, pev{'X', x.UID, false})
			}
		}
	}
	for _, x := range st.MB[m] {
		if !dead(x) {
			keep = append(keep, x)
		}
	}
	st.MB[m] = keep
	return n
}

func (st *state) delOf(m int, uid uint32) bool {
	for _, x := range st.MB[m] {
		if x.UID == uid {
			return x.Del
		}
	}
	return false
}

// ---------------------------------------------------------------------------------------------
// the world: one real server, k client connections, probes
// ---------------------------------------------------------------------------------------------

type world struct {
	h *srvkit.Harness
	c []*srvkit.Pipe
	// carry: what an idling session's connection had produced beyond the continuation request when
	// the IDLE step was read. The idle goroutine writes of its own accord (a server may flush what is
	// pending when IDLE starts), so how much of it is there at that moment is a matter of timing;
	// everything written between "+" and the completion of DONE is judged together at DONE, in order.
	carry map[*srvkit.Pipe][]byte
}

func newWorld(k int) *world {
	mem := imapmemserver.New()
	u := imapmemserver.NewUser("u", "p")
	for _, n := range mbName {
		if err := u.Create(n, nil); err != nil {
			run.EngineError("create mailbox: %v", err)
		}
	}
	mem.AddUser(u)
	opts := imapserver.Options{
		InsecureAuth: true,
		Caps: imap.CapSet{imap.CapIMAP4rev1: {}, imap.CapMove: {}, imap.CapUIDPlus: {}, imap.CapLiteralPlus: {},
			imap.CapESearch: {}, imap.CapNamespace: {}},
		NewSession: func(*imapserver.Conn) (imapserver.Session, *imapserver.GreetingData, error) {
			s := mem.NewSession()
			if err := s.Login("u", "p"); err != nil {
				return nil, nil, err
			}
			return s, &imapserver.GreetingData{PreAuth: true}, nil
		},
	}
	w := &world{h: srvkit.NewHarness(opts)}
	for i := 0; i < k; i++ {
		w.c = append(w.c, w.dial())
	}
	return w
}

func (w *world) dial() *srvkit.Pipe {
	p := w.h.Ln.Dial()
	out, closed, err := p.Quiesce()
	if err != nil || closed || !strings.HasPrefix(string(out), "* PREAUTH ") {
		run.EngineError("greeting: %q closed=%v err=%v log=%v", out, closed, err, w.h.Log.Snapshot())
	}
	return p
}

func (w *world) close() { w.h.Close() }

// send sends one command and waits until the connection's server goroutine is parked in Read
// with nothing left to read (no clock involved).
func (w *world) send(si int, raw string) (out []byte, resps []srvkit.Resp, closed bool) {
	return w.sendOn(w.c[si], raw)
}

func (w *world) sendOn(p *srvkit.Pipe, raw string) (out []byte, resps []srvkit.Resp, closed bool) {
	p.SendString(raw)
	out, closed, err := p.Quiesce()
	if err != nil {
		run.EngineError("watchdog waiting for the answer to %q (got %q)", raw, out)
	}
	if c := w.carry[p]; len(c) > 0 {
		out = append(append([]byte{}, c...), out...)
		delete(w.carry, p)
	}
	if !closed && strings.HasSuffix(raw, " IDLE\r\n") && bytes.HasPrefix(out, []byte("+")) {
		if i := bytes.Index(out, []byte("\r\n")); i >= 0 && i+2 < len(out) {
			if w.carry == nil {
				w.carry = map[*srvkit.Pipe][]byte{}
			}
			w.carry[p] = append([]byte{}, out[i+2:]...)
			out = out[:i+2]
		}
	}
	resps, rest, perr := srvkit.ParseResponses(out)
	if perr != nil || (len(rest) > 0 && !closed) {
		run.EngineError("malformed server output for %q: %q rest=%q err=%v", raw, out, rest, perr)
	}
	return out, resps, closed
}

type probeResult struct {
	MB     [2][]msg
	Exists [2]int
	Raw    string
	Bad    string
}

// probe opens a fresh connection and reads both mailboxes with SELECT + UID FETCH 1:* (UID FLAGS).
func (w *world) probe() *probeResult {
	p := w.dial()
	pr := &probeResult{Exists: [2]int{-1, -1}}
	out, resps, closed := w.sendOn(p, "p0 SELECT A\r\np0f UID FETCH 1:* (UID FLAGS)\r\np1 SELECT B\r\np1f UID FETCH 1:* (UID FLAGS)\r\n")
	pr.Raw = string(out)
	if closed {
		pr.Bad = "probe connection closed"
		return pr
	}
	m, okN := 0, 0
	for _, r := range resps {
		switch {
		case r.Tag != "*":
			if strings.HasPrefix(strings.ToUpper(r.Text), "OK") {
				okN++
			}
			if r.Tag == "p0f" {
				m = 1
			}
		case r.Kind() == "EXISTS":
			n, _ := r.Num()
			pr.Exists[m] = int(n)
		case r.Kind() == "FETCH":
			n, _ := r.Num()
			uid, del, ok := parseFetch(r)
			if !ok || int(n) != len(pr.MB[m])+1 {
				pr.Bad = fmt.Sprintf("probe: unexpected FETCH line %q", r.Text)
			}
			pr.MB[m] = append(pr.MB[m], msg{uid, del})
		}
	}
	if okN != 4 {
		pr.Bad = fmt.Sprintf("probe: commands not completed OK: %q", out)
	}
	p.CloseWrite()
	return pr
}

var parenSpacer = strings.NewReplacer("(", " ( ", ")", " ) ")

// parseFetch extracts UID and \Deleted from "n FETCH (UID u FLAGS (...))".
func parseFetch(r srvkit.Resp) (uid uint32, del bool, ok bool) {
	t := r.Text
	i := strings.IndexByte(t, '(')
	if i < 0 || !strings.HasSuffix(t, ")") {
		return 0, false, false
	}
	body := strings.ToUpper(t[i+1 : len(t)-1])
	f := strings.Fields(parenSpacer.Replace(body))
	for j := 0; j+1 < len(f); j++ {
		if f[j] == "UID" {
			u, err := strconv.ParseUint(f[j+1], 10, 32)
			if err != nil {
				return 0, false, false
			}
			uid, ok = uint32(u), true
		}
		if f[j] == "\\DELETED" {
			del = true
		}
	}
	if len(f) > 0 && f[len(f)-1] == "\\DELETED" {
		del = true
	}
	return uid, del, ok
}

// ---------------------------------------------------------------------------------------------
// judging one step
// ---------------------------------------------------------------------------------------------

const (
	recPrune  = 0 // do not extend histories through this step
	recSkip   = 1 // the offending line was ignored; the state is still well defined
	recResync = 2 // the server flushed everything it owed: restart the session's view from the mailbox
)

type finding struct {
	Key string `json:"key"`
	Msg string `json:"msg"`
	Rec int    `json:"-"`
}

type stepStats struct {
	lines, exists, expunge, fetch, searchNums int64
	noExpWithPendingX                         int64
	staleCmd                                  int64
	idleLines                                 int64
	noopChecks, noopAfterUpdates              int64
	starAmbiguous                             int64
	nonOK                                     int64
	probes                                    int64
	heldBack                                  int64
	bodyFetches, bodyFetchStale               int64
	seenUpdatesOwn, seenUpdatesOthers         int64
}

func (a *stepStats) add(b *stepStats) {
	a.lines += b.lines
	a.exists += b.exists
	a.expunge += b.expunge
	a.fetch += b.fetch
	a.searchNums += b.searchNums
	a.noExpWithPendingX += b.noExpWithPendingX
	a.staleCmd += b.staleCmd
	a.idleLines += b.idleLines
	a.noopChecks += b.noopChecks
	a.noopAfterUpdates += b.noopAfterUpdates
	a.starAmbiguous += b.starAmbiguous
	a.nonOK += b.nonOK
	a.probes += b.probes
	a.heldBack += b.heldBack
	a.bodyFetches += b.bodyFetches
	a.bodyFetchStale += b.bodyFetchStale
	a.seenUpdatesOwn += b.seenUpdatesOwn
	a.seenUpdatesOthers += b.seenUpdatesOthers
}

// judge applies command o (already executed on the wire: resps, closed, probe) to st and checks
// every response line. st becomes the state after the step.
func judge(st *state, o op, resps []srvkit.Resp, closed bool, pr *probeResult, logLines []string, ss *stepStats) (fs []finding) {
	s := &st.S[o.S]
	cls := o.class()
	add := func(rec int, key, f string, a ...interface{}) {
		fs = append(fs, finding{Key: key, Msg: fmt.Sprintf(f, a...), Rec: rec})
	}
	if closed {
		add(recPrune, "connection-lost:"+cls, "the server closed the connection while handling %s; server log: %v", o, logLines)
		return fs
	}
	var tagged *srvkit.Resp
	cont := false
	for i := range resps {
		r := &resps[i]
		if r.Tag == "+" {
			cont = true
		} else if r.Tag != "*" {
			tagged = r
		}
	}
	ok := tagged != nil && strings.HasPrefix(strings.ToUpper(tagged.Text), "OK")
	if o.K == kIdle && cont && tagged == nil {
		s.Idle = true
		ok = true
	}
	if !ok {
		// Not completed OK (or no well-formed completion at all). The property does not promise that
		// commands succeed: the reference model assumes the command had no effect (the probe verifies
		// that), the lines that were sent are judged like any others, and the case is listed in the
		// evidence as an observation.
		ss.nonOK++
		var raw []string
		for _, r := range resps {
			raw = append(raw, strings.TrimRight(string(r.Raw), "\r\n"))
		}
		observe("not-completed-ok:"+cls, fmt.Sprintf("%s answered %q", o, raw))
	}
	if len(s.Pend) > 0 {
		ss.staleCmd++
	}
	if o.noExpunge() && s.countPend('X') > 0 {
		ss.noExpWithPendingX++
	}

	// ---- effect on the reference model ----
	own := map[uint32]bool{}
	eff := o.K
	if !ok {
		eff = ""
	}
	switch eff {
	case kAppend:
		st.appendMsg(o.MB, false)
	case kSelect:
		s.unselect()
		s.Sel = o.MB
		for _, x := range st.MB[o.MB] {
			s.Unann = append(s.Unann, x.UID)
			s.Pend = append(s.Pend, pev{'E', x.UID, false})
		}
	case kClose:
		m := s.Sel
		s.unselect()
		st.remove(m, func(x msg) bool { return x.Del })
	case kDone:
		s.Idle = false
	case kExpunge:
		st.remove(s.Sel, func(x msg) bool { return x.Del })
	case kUIDExpunge:
		tg := st.targets(o)[0]
		st.remove(s.Sel, func(x msg) bool { return x.Del && hasU(tg, x.UID) })
	case kStoreAdd, kStoreDel, kUIDStore:
		tgs := st.targets(o)
		tg := tgs[1]
		if !eqU(tgs[0], tgs[1]) {
			// stale view and "*": unconstrained by the property; take the reading the probe confirms
			ss.starAmbiguous++
			match := func(t []uint32) bool {
				c := st.clone()
				c.setDel(s.Sel, o.S, t, o.K != kStoreDel)
				return eqMsgs(c.MB[s.Sel], pr.MB[s.Sel])
			}
			if !match(tgs[1]) && match(tgs[0]) {
				tg = tgs[0]
			}
		}
		for _, u := range tg {
			own[u] = true
		}
		st.setDel(s.Sel, o.S, tg, o.K != kStoreDel)
	case kCopy, kMove, kUIDMove:
		tg := st.targets(o)[0]
		src := s.Sel
		for _, x := range append([]msg(nil), st.MB[src]...) {
			if hasU(tg, x.UID) {
				st.appendMsg(o.MB, x.Del)
			}
		}
		if o.K != kCopy {
			st.remove(src, func(x msg) bool { return hasU(tg, x.UID) })
		}
	case kFetch, kUIDFetch:
		for _, u := range st.targets(o)[1] {
			own[u] = true
		}
	case kFetchBody:
		// (a single sequence number: no "*", both readings agree)
		tg := st.targets(o)[0]
		for _, u := range tg {
			own[u] = true
		}
		st.markSeen(s.Sel, tg)
		if len(tg) > 0 {
			ss.bodyFetches++
			if s.countPend('X') > 0 {
				ss.bodyFetchStale++
			}
		}
	}
	s = &st.S[o.S]
	owedX := s.countPend('X')

	// Which FETCH lines answer the command itself and which are unilateral flag updates matters
	// only for the book-keeping of owed notifications (part of the merge key), never for a verdict:
	// a message addressed by the command gets one answer of its own if the session had been told of
	// it, or if it is (wrongly) reported under sequence number 0.
	ownLeft := map[uint32]int{}
	for u := range own {
		if hasU(s.View, u) {
			ownLeft[u] = 1
		}
	}
	for i := range resps {
		if r := &resps[i]; r.Tag == "*" && r.Kind() == "FETCH" {
			if n, _ := r.Num(); n == 0 {
				if u, _, okf := parseFetch(*r); okf && own[u] {
					ownLeft[u] = 1
				}
			}
		}
	}
	flagUpdate := func(uid uint32, del bool) bool {
		if ownLeft[uid] > 0 {
			ownLeft[uid]--
			return false
		}
		for j, e := range s.Pend {
			if e.K == 'F' && e.UID == uid && e.Del == del {
				s.Pend = append(s.Pend[:j:j], s.Pend[j+1:]...)
				return true
			}
		}
		for j, e := range s.Pend {
			if e.K == 'F' && e.UID == uid {
				s.Pend = append(s.Pend[:j:j], s.Pend[j+1:]...)
				return true
			}
		}
		return true
	}

	// ---- every response line ----
	expN, updates := 0, 0
	for i := range resps {
		r := &resps[i]
		if r.Tag != "*" {
			continue
		}
		ss.lines++
		kind := r.Kind()
		n64, hasNum := r.Num()
		n := int(n64)
		switch {
		case kind == "EXISTS" && hasNum:
			ss.exists++
			updates++
			if s.Sel < 0 {
				add(recPrune, "update-without-mailbox:"+cls, "%q sent while no mailbox is selected", r.Text)
				continue
			}
			if n < s.Count {
				add(recPrune, "exists-shrinks-count:"+cls, "%q announces fewer messages than the %d announced before (the count may shrink only through EXPUNGE)", r.Text, s.Count)
				continue
			}
			for s.Count < n {
				var uid uint32
				if len(s.Unann) > 0 {
					uid = s.Unann[0]
					s.Unann = s.Unann[1:]
					s.dropPend('E', uid)
				}
				s.View = append(s.View, uid)
				s.Slots = append(s.Slots, 0)
				s.Count++
			}
		case kind == "EXPUNGE" && hasNum:
			ss.expunge++
			expN++
			updates++
			if o.noExpunge() {
				add(recPrune, "expunge-during:"+cls, "%q sent while answering %s", r.Text, o)
			}
			if s.Sel < 0 {
				add(recPrune, "update-without-mailbox:"+cls, "%q sent while no mailbox is selected", r.Text)
				continue
			}
			if n == 0 {
				add(recPrune, "seq-zero-in-expunge:"+cls, "%q (announced count %d)", r.Text, s.Count)
				continue
			}
			if n > s.Count {
				add(recPrune, "seq-out-of-range:expunge:"+cls, "%q but only %d messages were announced", r.Text, s.Count)
				continue
			}
			uid := s.View[n-1]
			if uid != 0 && st.live(s.Sel, uid) {
				add(recPrune, "expunge-of-live-message:"+cls, "%q removes sequence number %d = UID %d, which is still in the mailbox (a removed message reported twice, or the wrong number)", r.Text, n, uid)
			}
			s.View = append(s.View[:n-1:n-1], s.View[n:]...)
			s.Slots = append(s.Slots[:n-1:n-1], s.Slots[n:]...)
			s.Count--
			s.dropPend('X', uid)
		case kind == "FETCH" && hasNum:
			ss.fetch++
			uid, del, okf := parseFetch(*r)
			if !okf {
				// a FETCH without UID cannot be paired; only the number is judged
				uid = 0
			}
			if n == 0 {
				k := "seq-zero-in-fetch:" + cls
				if hasU(s.Unann, uid) && (o.K == kUIDFetch || o.K == kUIDStore) {
					// one defect (DESIGN §5 #11): a UID command reaches a message whose EXISTS is
					// still queued for this session
					k = "seq-zero-in-fetch:uid-command-unannounced"
				}
				add(recSkip, k, "%q: sequence number 0 (UID %d, announced count %d, not yet announced UIDs %v)", r.Text, uid, s.Count, s.Unann)
				flagUpdate(uid, del)
				continue
			}
			if s.Sel < 0 || n > s.Count {
				add(recPrune, "seq-out-of-range:fetch:"+cls, "%q but only %d messages were announced", r.Text, s.Count)
				continue
			}
			if uid != 0 {
				if s.View[n-1] != uid {
					add(recPrune, "fetch-wrong-message:"+cls, "%q pairs sequence number %d with UID %d, but that number denotes UID %d in the view announced to this session %v", r.Text, n, uid, s.View[n-1], s.View)
				} else if s.Slots[n-1] != 0 && s.Slots[n-1] != uid {
					add(recPrune, "fetch-uid-conflict:"+cls, "%q: the client had learnt UID %d for sequence number %d", r.Text, s.Slots[n-1], n)
				}
				s.Slots[n-1] = uid
				if flagUpdate(uid, del) {
					updates++
					if strings.Contains(strings.ToUpper(r.Text), "\\SEEN") {
						if o.K == kFetchBody {
							ss.seenUpdatesOwn++
						} else {
							ss.seenUpdatesOthers++
						}
					}
				}
			}
		case kind == "SEARCH":
			if o.K == kUIDSearch {
				continue
			}
			for _, wd := range r.Words()[1:] {
				v, err := strconv.Atoi(wd)
				ss.searchNums++
				if err != nil || v == 0 {
					add(recPrune, "seq-zero-in-search:"+cls, "%q (announced count %d)", r.Text, s.Count)
				} else if v > s.Count {
					add(recPrune, "seq-out-of-range:search:"+cls, "%q contains %d but only %d messages were announced", r.Text, v, s.Count)
				}
			}
		case kind == "ESEARCH":
			if o.K != kSearchMM {
				continue
			}
			w := r.Words()
			for i := 0; i+1 < len(w); i++ {
				if w[i] != "MIN" && w[i] != "MAX" {
					continue
				}
				v, err := strconv.Atoi(w[i+1])
				ss.searchNums++
				if err != nil || v == 0 {
					add(recPrune, "seq-zero-in-search:"+cls, "%q (announced count %d)", r.Text, s.Count)
				} else if v > s.Count {
					add(recPrune, "seq-out-of-range:search:"+cls, "%q: %s %d but only %d messages were announced", r.Text, w[i], v, s.Count)
				}
			}
		case kind == "BYE":
			add(recPrune, "connection-lost:"+cls, "%q", r.Text)
		}
	}
	if o.K == kDone {
		ss.idleLines += int64(updates)
	}
	if o.noExpunge() && owedX > 0 && expN == 0 {
		ss.heldBack++
	}

	// ---- each removed message is reported exactly once ----
	if expN > owedX {
		if o.K == kMove || o.K == kUIDMove {
			// one defect, many symptoms: MOVE writes EXPUNGE responses itself after having queued the
			// same expunges for its own session, and the poll sends them again
			var sym []string
			for _, f := range fs {
				sym = append(sym, f.Key)
			}
			var raw []string
			for _, r := range resps {
				raw = append(raw, strings.TrimRight(string(r.Raw), "\r\n"))
			}
			fs = []finding{{Key: "move-double-expunge", Rec: recResync,
				Msg: fmt.Sprintf("%s removed %d message(s) this session knew of but was answered with %d EXPUNGE responses %q (symptoms: %v)", o, owedX, expN, raw, sym)}}
		} else {
			add(recPrune, "expunge-reported-more-than-once:"+cls, "%d EXPUNGE responses but only %d removed messages were owed to this session", expN, owedX)
		}
	}

	// ---- after NOOP the reconstructed list equals the mailbox ----
	if o.K == kNoop && s.Sel >= 0 {
		ss.noopChecks++
		if updates > 0 {
			ss.noopAfterUpdates++
		}
		want := uidsOf(st.MB[s.Sel])
		if !eqU(s.View, want) || s.Count != len(want) {
			k := "other"
			for _, v := range s.View {
				if v == 0 || !st.live(s.Sel, v) {
					k = "removed-message-never-reported"
				}
			}
			if k == "other" && len(s.View) < len(want) {
				k = "message-never-announced"
			}
			add(recPrune, "noop-view-mismatch:"+k, "after NOOP the session's announced view is %v (count %d) but the mailbox holds %v", s.View, s.Count, want)
		} else {
			for i, u := range s.Slots {
				if u != 0 && u != want[i] {
					add(recPrune, "noop-reconstructed-uid-mismatch", "the client's reconstructed list %v differs from the mailbox %v", s.Slots, want)
					break
				}
			}
		}
	}

	// ---- ground truth: the probe must agree with the reference model ----
	if pr != nil {
		ss.probes++
		if pr.Bad != "" {
			add(recPrune, "probe-failed:"+cls, "%s", pr.Bad)
		} else {
			for m := 0; m < 2; m++ {
				if !eqMsgs(st.MB[m], pr.MB[m]) || pr.Exists[m] != len(pr.MB[m]) {
					add(recPrune, "ground-truth-disagreement:"+cls, "mailbox %s after %s: reference model %v, probe connection %v (EXISTS %d)", mbName[m], o, st.MB[m], pr.MB[m], pr.Exists[m])
				}
			}
		}
	}

	// resync if that is all that happened
	for _, f := range fs {
		if f.Rec == recResync && s.Sel >= 0 {
			s.View = uidsOf(st.MB[s.Sel])
			s.Count = len(s.View)
			s.Slots = make([]uint32, s.Count)
			s.Unann, s.Pend = nil, nil
		}
	}
	return fs
}

var (
	obsMu  sync.Mutex
	obsN   = map[string]int64{}
	obsOne = map[string]string{}
)

// observe records something worth telling that is outside the property (never a verdict).
func observe(kind, sample string) {
	obsMu.Lock()
	obsN[kind]++
	if old, ok := obsOne[kind]; !ok || len(sample) < len(old) || (len(sample) == len(old) && sample < old) {
		obsOne[kind] = sample
	}
	obsMu.Unlock()
}

func prunes(fs []finding) bool {
	for _, f := range fs {
		if f.Rec == recPrune {
			return true
		}
	}
	return false
}

// ---------------------------------------------------------------------------------------------
// executing a history
// ---------------------------------------------------------------------------------------------

type config struct {
	K   int `json:"sessions"`
	Cap int `json:"mailbox_cap"`
}

// execute replays hist on a fresh server. Steps before checkFrom are only sent (their outcome
// was judged when the shorter history was explored; start is the state after them); the
// steps from checkFrom on are judged. vb, when set, receives a full transcript.
func execute(cfg config, hist []op, start *state, checkFrom int, vb io.Writer, ss *stepStats) (st *state, perStep [][]finding) {
	w := newWorld(cfg.K)
	defer w.close()
	if start == nil {
		if checkFrom != 0 {
			panic("execute: no start state")
		}
		st = newState(cfg.K)
	} else {
		st = start.clone()
	}
	perStep = make([][]finding, len(hist))
	for i := 0; i < len(hist); i++ {
		o := hist[i]
		if i < checkFrom {
			// Prefix: only sent. Consecutive commands of one session travel in one segment (the
			// server handles them in order and nobody else acts in between, so this is the same
			// history); IDLE and DONE are always sent on their own.
			raw := o.wire(fmt.Sprintf("a%d", i))
			for o.K != kIdle && o.K != kDone && i+1 < checkFrom && hist[i+1].S == o.S && hist[i+1].K != kIdle && hist[i+1].K != kDone {
				i++
				raw += hist[i].wire(fmt.Sprintf("a%d", i))
			}
			if _, _, closed := w.send(o.S, raw); closed {
				run.EngineError("connection closed while replaying the prefix of %s", histString(hist))
			}
			continue
		}
		out, resps, closed := w.send(o.S, o.wire(fmt.Sprintf("a%d", i)))
		var pr *probeResult
		if !closed {
			// (a connection that died in a panic may have left a mailbox locked: nothing to probe)
			pr = w.probe()
		}
		fs := judge(st, o, resps, closed, pr, w.h.Log.Snapshot(), ss)
		perStep[i] = fs
		if vb != nil {
			fmt.Fprintf(vb, "--- step %d  %s\n", i, o)
			fmt.Fprintf(vb, "C%d: %s\n", o.S, strings.ReplaceAll(strings.TrimRight(o.wire(fmt.Sprintf("a%d", i)), "\r\n"), "\r\n", "\\r\\n"))
			for _, l := range strings.Split(strings.TrimRight(string(out), "\r\n"), "\r\n") {
				fmt.Fprintf(vb, "S%d: %s\n", o.S, l)
			}
			for m := 0; m < 2 && pr != nil; m++ {
				fmt.Fprintf(vb, "    mailbox %s: model %v  probe %v\n", mbName[m], st.MB[m], pr.MB[m])
			}
			for j, s := range st.S {
				if s.Sel < 0 {
					fmt.Fprintf(vb, "    session %d: no mailbox selected\n", j)
					continue
				}
				fmt.Fprintf(vb, "    session %d: selected %s idle=%v | observer: announced count %d, UIDs learnt %v | model: view denotes %v, not announced yet %v, owed %s\n",
					j, mbName[s.Sel], s.Idle, s.Count, s.Slots, s.View, s.Unann, pendString(s.Pend))
			}
			for _, f := range fs {
				fmt.Fprintf(vb, "    VIOLATION %s: %s\n", f.Key, f.Msg)
			}
		}
		if prunes(fs) {
			break
		}
	}
	return st, perStep
}

func pendString(p []pev) string {
	var l []string
	for _, e := range p {
		switch e.K {
		case 'F':
			l = append(l, fmt.Sprintf("FLAGS(uid %d del=%v)", e.UID, e.Del))
		case 'E':
			l = append(l, fmt.Sprintf("EXISTS(uid %d)", e.UID))
		case 'X':
			l = append(l, fmt.Sprintf("EXPUNGE(uid %d)", e.UID))
		}
	}
	return "[" + strings.Join(l, " ") + "]"
}

// ---------------------------------------------------------------------------------------------
// enabled commands and canonical key
// ---------------------------------------------------------------------------------------------

func enabled(st *state, cfg config) []op {
	var ops []op
	for si := range st.S {
		s := &st.S[si]
		if s.Idle {
			ops = append(ops, op{S: si, K: kDone})
			continue
		}
		for m := 0; m < 2; m++ {
			if len(st.MB[m]) < cfg.Cap {
				ops = append(ops, op{S: si, K: kAppend, MB: m})
			}
		}
		for m := 0; m < 2; m++ {
			ops = append(ops, op{S: si, K: kSelect, MB: m})
		}
		if s.Sel < 0 {
			continue
		}
		other := 1 - s.Sel
		var nums []string
		for _, n := range []int{1, s.Count, s.Count + 1} {
			x := strconv.Itoa(n)
			if n >= 1 && !hasS(nums, x) {
				nums = append(nums, x)
			}
		}
		var uids []string
		cand := []uint32{}
		if len(s.View) > 0 {
			cand = append(cand, s.View[0], s.View[len(s.View)-1])
		}
		if l := st.MB[s.Sel]; len(l) > 0 {
			cand = append(cand, l[len(l)-1].UID)
		}
		for _, u := range cand {
			x := strconv.Itoa(int(u))
			if u != 0 && !hasS(uids, x) {
				uids = append(uids, x)
			}
		}
		room := func(o op) bool {
			return len(st.MB[o.MB])+len(st.targets(o)[0]) <= cfg.Cap
		}
		ops = append(ops, op{S: si, K: kClose})
		for _, n := range nums {
			ops = append(ops, op{S: si, K: kStoreAdd, Set: n})
		}
		ops = append(ops, op{S: si, K: kStoreAdd, Set: "*"})
		ops = append(ops, op{S: si, K: kStoreDel, Set: "1:*"})
		if l := st.MB[s.Sel]; len(l) > 0 {
			ops = append(ops, op{S: si, K: kUIDStore, Set: strconv.Itoa(int(l[len(l)-1].UID))})
		}
		ops = append(ops, op{S: si, K: kExpunge})
		for _, u := range uids {
			ops = append(ops, op{S: si, K: kUIDExpunge, Set: u})
		}
		for _, n := range nums {
			if o := (op{S: si, K: kCopy, Set: n, MB: other}); room(o) {
				ops = append(ops, o)
			}
		}
		for _, n := range nums {
			if o := (op{S: si, K: kMove, Set: n, MB: other}); room(o) {
				ops = append(ops, o)
			}
		}
		if o := (op{S: si, K: kMove, Set: "1:2", MB: other}); room(o) {
			ops = append(ops, o)
		}
		for _, u := range uids {
			if o := (op{S: si, K: kUIDMove, Set: u, MB: other}); room(o) {
				ops = append(ops, o)
			}
		}
		for _, n := range nums {
			ops = append(ops, op{S: si, K: kFetch, Set: n})
		}
		ops = append(ops, op{S: si, K: kFetch, Set: "1:*"})
		for _, n := range nums {
			ops = append(ops, op{S: si, K: kFetchBody, Set: n})
		}
		ops = append(ops, op{S: si, K: kUIDFetch, Set: "1:*"})
		ops = append(ops, op{S: si, K: kSearchAll}, op{S: si, K: kSearchDel}, op{S: si, K: kUIDSearch}, op{S: si, K: kSearchMM})
		ops = append(ops, op{S: si, K: kNoop}, op{S: si, K: kIdle})
	}
	return ops
}

func hasS(l []string, x string) bool {
	for _, y := range l {
		if x == y {
			return true
		}
	}
	return false
}

// canon is the dedup key: the reference-model state with UIDs renamed by rank per mailbox,
// sessions sorted, and the smaller of the two mailbox labelings.
func canon(st *state) string {
	best := ""
	for swap := 0; swap < 2; swap++ {
		var rank [2]map[uint32]int
		for m := 0; m < 2; m++ {
			set := map[uint32]bool{}
			for _, x := range st.MB[m] {
				set[x.UID] = true
			}
			for _, s := range st.S {
				if s.Sel != m {
					continue
				}
				for _, u := range s.View {
					set[u] = true
				}
				for _, e := range s.Pend {
					set[e.UID] = true
				}
			}
			delete(set, 0)
			l := make([]int, 0, len(set))
			for u := range set {
				l = append(l, int(u))
			}
			sort.Ints(l)
			rank[m] = map[uint32]int{0: 0}
			for i, u := range l {
				rank[m][uint32(u)] = i + 1
			}
		}
		var b strings.Builder
		for i := 0; i < 2; i++ {
			m := i ^ swap
			b.WriteString("M")
			for _, x := range st.MB[m] {
				fmt.Fprintf(&b, " %d", rank[m][x.UID])
				if x.Del {
					b.WriteByte('d')
				}
			}
			b.WriteByte('|')
		}
		ss := make([]string, len(st.S))
		for i, s := range st.S {
			if s.Sel < 0 {
				ss[i] = "-"
				continue
			}
			var sb strings.Builder
			fmt.Fprintf(&sb, "%d", s.Sel^swap)
			if s.Idle {
				sb.WriteByte('i')
			}
			sb.WriteString(" v")
			for _, u := range s.View {
				fmt.Fprintf(&sb, " %d", rank[s.Sel][u])
			}
			sb.WriteString(" p")
			for _, e := range s.Pend {
				fmt.Fprintf(&sb, " %c%d", e.K, rank[s.Sel][e.UID])
				if e.K == 'F' && e.Del {
					sb.WriteByte('d')
				}
			}
			ss[i] = sb.String()
		}
		sort.Strings(ss)
		b.WriteString(strings.Join(ss, "/"))
		if k := b.String(); best == "" || k < best {
			best = k
		}
	}
	return best
}

// ---------------------------------------------------------------------------------------------
// search
// ---------------------------------------------------------------------------------------------

type node struct {
	parent  *node
	op      op
	depth   int // commands after the root's set-up
	total   int // all commands
	st      *state
	resync  bool
	order   uint64
	rootIdx int
}

func (s *search) history(n *node) []op {
	var h []op
	for x := n; x != nil && x.parent != nil; x = x.parent {
		h = append(h, x.op)
	}
	for i, j := 0, len(h)-1; i < j; i, j = i+1, j-1 {
		h[i], h[j] = h[j], h[i]
	}
	return append(append([]op{}, s.roots[n.rootIdx]...), h...)
}

type hkey [16]byte

const nShards = 256

type shard struct {
	mu sync.Mutex
	m  map[hkey]*node
}

type cex struct {
	key    string
	hist   []op
	msg    string
	total  int
	order  uint64
	depth  int
	resync bool
}

type search struct {
	cfg     config
	shards  [nShards]shard
	cexMu   sync.Mutex
	cex     map[string]*cex
	stats   stepStats
	statsMu sync.Mutex
	trans   int64
	pruned  int64
	resyncs int64

	roots           [][]op
	maxDepth        int
	levels          []levelInfo
	depthReached    int
	frontierLeft    int
	unexpanded      int
	frontierEmpty   bool
	stoppedByBudget bool
	wall            float64
}

func newSearch(cfg config) *search {
	s := &search{cfg: cfg, cex: map[string]*cex{}}
	for i := range s.shards {
		s.shards[i].m = map[hkey]*node{}
	}
	return s
}

func hashKey(k string) hkey {
	h := sha256.Sum256([]byte(k))
	var r hkey
	copy(r[:], h[:16])
	return r
}

// offer inserts n under key k unless a node with a smaller (depth, order) is there. Returns
// whether n is now the representative.
func (s *search) offer(k string, n *node) bool {
	hk := hashKey(k)
	sh := &s.shards[hk[0]]
	sh.mu.Lock()
	defer sh.mu.Unlock()
	old, ok := sh.m[hk]
	if !ok {
		sh.m[hk] = n
		return true
	}
	if old.depth == n.depth && n.order < old.order {
		// same level, deterministic representative: copy into the existing node
		*old = *n
		return false
	}
	return false
}

func (s *search) record(fs []finding, hist []op, n *node) {
	s.cexMu.Lock()
	defer s.cexMu.Unlock()
	for _, f := range fs {
		c := &cex{key: f.Key, hist: hist, msg: f.Msg, total: len(hist), order: n.order, depth: n.depth, resync: n.resync}
		old, ok := s.cex[f.Key]
		if !ok || c.total < old.total || (c.total == old.total && (c.depth < old.depth || (c.depth == old.depth && c.order < old.order))) {
			s.cex[f.Key] = c
		}
	}
}

// expand executes every enabled command from node n.
func (s *search) expand(n *node, idx int, maxDepth int, ss *stepStats) {
	ops := enabled(n.st, s.cfg)
	hist := s.history(n)
	leaf := n.depth+1 >= maxDepth // the states reached from here are not expanded any more
	for j, o := range ops {
		if leaf && o.K == kFetchBody {
			// What a body fetch adds to FETCH i FLAGS is the flag notification it owes to every
			// session; the fetching session gets its own only when nothing is owed to it that would
			// shift a number, so the lines that can be wrong arrive with LATER commands. As the last
			// command of a history it is a FETCH like the others: left out (engine economy).
			continue
		}
		h := append(append([]op{}, hist...), o)
		st2, per := execute(s.cfg, h, n.st, len(h)-1, nil, ss)
		atomic.AddInt64(&s.trans, 1)
		fs := per[len(h)-1]
		c := &node{parent: n, op: o, depth: n.depth + 1, total: n.total + 1, st: st2, resync: n.resync, order: uint64(idx)<<8 | uint64(j), rootIdx: n.rootIdx}
		if len(fs) > 0 {
			s.record(fs, h, c)
			if prunes(fs) {
				atomic.AddInt64(&s.pruned, 1)
				continue
			}
			for _, f := range fs {
				if f.Rec == recResync {
					c.resync = true
					atomic.AddInt64(&s.resyncs, 1)
				}
			}
		}
		if c.depth <= maxDepth {
			s.offer(canon(st2), c)
		}
	}
}

type levelInfo struct {
	Depth       int     `json:"depth"`
	NewStates   int     `json:"new_states"`
	Transitions int64   `json:"transitions_so_far"`
	WallS       float64 `json:"wall_s"`
}

func (s *search) collectLevel(depth int) []*node {
	var l []*node
	for i := range s.shards {
		for _, n := range s.shards[i].m {
			if n.depth == depth {
				l = append(l, n)
			}
		}
	}
	sort.Slice(l, func(i, j int) bool {
		if l[i].order != l[j].order {
			return l[i].order < l[j].order
		}
		return l[i].rootIdx < l[j].rootIdx
	})
	return l
}

func (s *search) states() int64 {
	var n int64
	for i := range s.shards {
		n += int64(len(s.shards[i].m))
	}
	return n
}

// ---------------------------------------------------------------------------------------------
// main
// ---------------------------------------------------------------------------------------------

func roots(cfg config) [][]op {
	ap := func(m, n int) []op {
		var l []op
		for i := 0; i < n; i++ {
			l = append(l, op{S: 0, K: kAppend, MB: m, Setup: true})
		}
		return l
	}
	selAll := func() []op {
		var l []op
		for i := 0; i < cfg.K; i++ {
			l = append(l, op{S: i, K: kSelect, MB: 0, Setup: true})
		}
		return l
	}
	r := [][]op{
		{},
		append(ap(0, 2), selAll()...),
		append(append(ap(0, 3), ap(1, 1)...), selAll()...),
	}
	if cfg.Cap >= 4 {
		r = append(r, append(ap(0, 4), selAll()...))
	}
	return r
}

func main() {
	budget := flag.Int("budget", 0, "override the wall-clock budget (seconds) after which no further state is expanded")
	depthFlag := flag.Int("depth", 0, "override the depth bound")
	sessFlag := flag.Int("sessions", 0, "override the number of sessions")
	prof := flag.String("cpuprofile", "", "write a CPU profile")
	workersFlag := flag.Int("workers", 2*runtime.GOMAXPROCS(0), "worker goroutines (each with its own server per transition)")
	ballastFlag := flag.Int("ballast", 64, "MiB of ballast")
	gcFlag := flag.Int("gcpercent", 100, "GC percent (every transition builds a server: allocation heavy, tiny live heap)")
	run = vk.Start("C08", "model_checking")
	debug.SetGCPercent(*gcFlag)
	ballast := make([]byte, *ballastFlag<<20) // never touched: only makes GC cycles rarer while the live heap is small
	defer runtime.KeepAlive(ballast)
	if *prof != "" {
		f, _ := os.Create(*prof)
		pprof.StartCPUProfile(f)
		stopProfile = pprof.StopCPUProfile
	}
	if run.Replay != "" {
		replay()
		return
	}
	type plan struct {
		cfg      config
		maxDepth int
	}
	plans := []plan{{config{K: 2, Cap: 3}, 5}}
	wallBudget := 110 * time.Second
	if run.Thorough() {
		// the 4-session search first (small), then the large 3-session one
		plans = []plan{{config{K: 4, Cap: 3}, 4}, {config{K: 3, Cap: 4}, 5}}
		wallBudget = 18 * time.Minute
	}
	if *depthFlag > 0 || *sessFlag > 0 {
		pl := plans[len(plans)-1]
		if *depthFlag > 0 {
			pl.maxDepth = *depthFlag
		}
		if *sessFlag > 0 {
			pl.cfg.K = *sessFlag
		}
		plans = []plan{pl}
	}
	if *budget > 0 {
		wallBudget = time.Duration(*budget) * time.Second
	}
	start := time.Now()
	deadline := start.Add(wallBudget)

	var total stepStats
	var searches []*search
	var coverage []map[string]interface{}
	allEmpty := true
	for _, pl := range plans {
		s := newSearch(pl.cfg)
		s.run(pl.maxDepth, *workersFlag, deadline, start)
		total.add(&s.stats)
		searches = append(searches, s)
		coverage = append(coverage, s.coverage())
		allEmpty = allEmpty && s.frontierEmpty
		fmt.Printf("C08 sessions=%d mailbox_cap=%d depth=%d/%d states=%d transitions=%d frontier_left=%d frontier_emptied=%v pruned_after_violation=%d stopped_by_budget=%v wall=%.1fs\n",
			s.cfg.K, s.cfg.Cap, s.depthReached, s.maxDepth, s.states(), s.trans, s.frontierLeft, s.frontierEmpty, s.pruned, s.stoppedByBudget, s.wall)
	}

	// ---- the shortest counterexample per key, re-executed 5 times from scratch, every step judged ----
	type found struct {
		c   *cex
		cfg config
	}
	best := map[string]found{}
	for _, s := range searches {
		for k, c := range s.cex {
			if old, ok := best[k]; !ok || c.total < old.c.total {
				best[k] = found{c, s.cfg}
			}
		}
	}
	keys := make([]string, 0, len(best))
	for k := range best {
		keys = append(keys, k)
	}
	sort.Strings(keys)
	for _, k := range keys {
		c, cfg := best[k].c, best[k].cfg
		same := 0
		var transcript string
		for i := 0; i < 5; i++ {
			var sb strings.Builder
			var ss stepStats
			_, per := execute(cfg, c.hist, nil, 0, &sb, &ss)
			for _, f := range per[len(c.hist)-1] {
				if f.Key == k {
					same++
					transcript = sb.String()
					break
				}
			}
		}
		if same != 5 {
			run.EngineError("violation %s reproduced only %d/5 times on %s", k, same, histString(c.hist))
		}
		run.Violation(k, map[string]interface{}{
			"config":            cfg,
			"history":           c.hist,
			"readable":          histString(c.hist),
			"what":              c.msg,
			"transcript":        strings.Split(strings.TrimRight(transcript, "\n"), "\n"),
			"note_after_resync": c.resync,
		})
	}

	// ---- evidence ----
	if run.NumViolations() == 0 && (total.noExpWithPendingX == 0 || total.heldBack == 0 || total.staleCmd == 0 || total.expunge == 0 || total.noopAfterUpdates == 0 || total.idleLines == 0 ||
		total.bodyFetchStale == 0 || total.seenUpdatesOwn == 0 || total.seenUpdatesOthers == 0) {
		// (with violations the search is pruned and these counters mean nothing)
		run.EngineError("vacuous run: %+v", total)
	}
	var nt int64
	for _, s := range searches {
		run.States += s.states()
		run.Trans += s.trans
		for i := range s.shards {
			for _, n := range s.shards[i].m {
				for _, se := range n.st.S {
					if len(se.Pend) > 0 {
						nt++
						break
					}
				}
			}
		}
	}
	run.Traces = run.Trans
	run.AddEvals(run.Trans)
	run.NontrivialN(nt)
	run.Set("searches", coverage)
	run.Set("response_lines_judged", total.lines)
	run.Set("exists_lines", total.exists)
	run.Set("expunge_lines", total.expunge)
	run.Set("fetch_lines", total.fetch)
	run.Set("search_numbers_judged", total.searchNums)
	run.Set("noexpunge_commands_with_removed_message_owed", total.noExpWithPendingX)
	run.Set("noexpunge_commands_that_held_expunges_back", total.heldBack)
	run.Set("commands_on_stale_view", total.staleCmd)
	run.Set("updates_delivered_through_idle", total.idleLines)
	run.Set("noop_reconstruction_checks", total.noopChecks)
	run.Set("noop_checks_after_delivered_updates", total.noopAfterUpdates)
	run.Set("star_on_stale_view_two_readings", total.starAmbiguous)
	run.Set("body_fetches_setting_seen", total.bodyFetches)
	run.Set("body_fetches_setting_seen_with_removed_message_owed", total.bodyFetchStale)
	run.Set("seen_updates_delivered_to_the_fetching_session_at_once", total.seenUpdatesOwn)
	run.Set("seen_updates_delivered_later_or_to_other_sessions", total.seenUpdatesOthers)
	run.Set("probe_connections", total.probes)
	run.Set("commands_not_completed_ok", total.nonOK)
	obs := map[string]interface{}{}
	var obsKeys []string
	for k := range obsN {
		obsKeys = append(obsKeys, k)
	}
	sort.Strings(obsKeys)
	for _, k := range obsKeys {
		obs[k] = map[string]interface{}{"count": obsN[k], "shortest_sample": obsOne[k]}
		fmt.Printf("C08 observation (outside the property, not a verdict): %s x%d e.g. %s\n", k, obsN[k], obsOne[k])
	}
	run.Set("observations_outside_the_property", obs)
	run.Sample("history", "s0:[setup] APPEND A ; s0:[setup] APPEND A ; s0:[setup] SELECT A ; s1:[setup] SELECT A ; s1: STORE 1 +FLAGS (\\Deleted) ; s1: EXPUNGE ; s0: FETCH 2 FLAGS ; s0: NOOP")
	run.Rule = "breadth-first search over histories of {APPEND m, SELECT m, CLOSE, STORE i|* +FLAGS (\\Deleted), STORE 1:* -FLAGS (\\Deleted), UID STORE u, EXPUNGE, UID EXPUNGE u, COPY i m', MOVE i m', MOVE 1:2 m', UID MOVE u m', FETCH i|1:* FLAGS, FETCH i (UID BODY[]) (not PEEK: sets \\Seen, a flag notification is owed to every session of the mailbox including the fetching one; not issued as the last command of a history), UID FETCH 1:* FLAGS, SEARCH ALL|DELETED, SEARCH RETURN (MIN MAX COUNT) ALL, UID SEARCH ALL, NOOP, IDLE..DONE}, i in {1,last,last+1}, u in {first/last UID of the session's view, newest UID of the mailbox}, issued one at a time by the sessions on a real imapserver+imapmemserver, from several roots (empty mailboxes / 2, 3 (4) messages with every session selected); every transition = fresh server, fresh connections, replay, one more command, fresh probe connection; merged on the canonical reference-model state (mailboxes as (uid rank, \\Deleted) lists; per session: selected mailbox, idling, the messages its announced view denotes, the notifications owed to it in order; sessions sorted, mailbox names up to swap). non-trivial = distinct states in which some session is owed notifications"
	run.Exhaustive = allEmpty
	run.Assume("commands are issued one at a time (the property is about histories, not overlap); IDLE is the only command during which other sessions act, and the idling session's output is read when it sends DONE")
	run.Assume("EXISTS n announces the oldest not-yet-announced messages of the mailbox in arrival order, including messages removed before they were announced (their EXPUNGE must then follow)")
	run.Assume("which messages a sequence set with '*' denotes on a stale view is not constrained by the property (DESIGN §5 #15): both readings (largest number announced to the session / server-side count) are accepted, the probe decides which one the reference model follows")
	run.Assume("FETCH i (UID BODY[]) owes one flag notification per fetched message to every session that has the mailbox selected, the fetching one included (it receives it with the FETCH unless a removed message is still owed to it); the \\Seen flag itself is not part of the reference model's mailbox state (\\Deleted is), the notifications are judged for their sequence number and number/UID pairing like every FETCH line; the body fetch is not issued as the last command of a history (nothing could observe the notifications it causes)")
	run.Assume("FETCH and SEARCH results are judged only for the numbers they contain (range, pairing of number and UID against the announced view), not for completeness or flag values")
	run.Assume("a command that is not completed OK is not a violation (the property does not promise success): the model assumes it had no effect, the probe verifies that, its response lines are judged, and it is listed under observations_outside_the_property")
	run.Assume("after a violation the history is not extended, except: a FETCH line with sequence number 0 is ignored, and after MOVE's duplicated EXPUNGE responses the session's view is restarted from the mailbox (MOVE's final poll has flushed everything the server owed); counterexamples found after such a restart say so")
	run.Assume("visited states are remembered by the first 128 bits of the SHA-256 of the canonical key; the client's learnt UID list is not part of the key because every pairing is checked against the view when it is received")
	run.Assume("depth-bounded: the state space is infinite (flag updates owed to a session accumulate), so the frontier cannot empty; all histories up to the reported depth after each root's set-up are covered modulo merging")
	stopProfile()
	run.Finish()
}

// run explores breadth-first up to maxDepth commands after every root.
func (s *search) run(maxDepth, workers int, deadline, start time.Time) {
	t0 := time.Now()
	s.maxDepth = maxDepth
	s.roots = roots(s.cfg)
	// roots: the set-up commands are real commands, judged like any other
	for i, h := range s.roots {
		st, per := execute(s.cfg, h, nil, 0, nil, &s.stats)
		bad := false
		for j, fs := range per {
			if len(fs) > 0 {
				s.record(fs, h[:j+1], &node{rootIdx: i})
				bad = bad || prunes(fs)
			}
		}
		if bad {
			continue // a violation inside the set-up: reported, nothing is built on it
		}
		s.offer(canon(st), &node{st: st, rootIdx: i, order: uint64(i), total: len(h)})
	}
	for d := 0; d < maxDepth; d++ {
		fr := s.collectLevel(d)
		if len(fr) == 0 {
			break
		}
		for i, n := range fr {
			n.order = uint64(i) // dense, deterministic
		}
		var expanded int64
		vk.ParallelW(workers, len(fr), func(i int) {
			if time.Now().After(deadline) {
				return // engine budget, never a verdict: reported as stopped_by_wall_budget
			}
			var ss stepStats
			s.expand(fr[i], i, maxDepth, &ss)
			atomic.AddInt64(&expanded, 1)
			s.statsMu.Lock()
			s.stats.add(&ss)
			s.statsMu.Unlock()
		})
		nl := len(s.collectLevel(d + 1))
		s.levels = append(s.levels, levelInfo{Depth: d + 1, NewStates: nl, Transitions: atomic.LoadInt64(&s.trans), WallS: time.Since(start).Seconds()})
		fmt.Fprintf(os.Stderr, "C08 [%d sessions] depth %d: %d new states, %d transitions so far, %.1fs\n", s.cfg.K, d+1, nl, s.trans, time.Since(start).Seconds())
		if int(expanded) < len(fr) {
			s.stoppedByBudget = true
			s.unexpanded = len(fr) - int(expanded)
			s.frontierLeft = nl + s.unexpanded
			break
		}
		s.depthReached = d + 1
		s.frontierLeft = nl
		if nl == 0 {
			break
		}
	}
	s.frontierEmpty = s.frontierLeft == 0 && !s.stoppedByBudget
	s.wall = time.Since(t0).Seconds()
}

func (s *search) coverage() map[string]interface{} {
	var setups []string
	for _, h := range s.roots {
		setups = append(setups, histString(h))
	}
	return map[string]interface{}{
		"sessions": s.cfg.K, "mailboxes": 2, "mailbox_size_cap": s.cfg.Cap, "depth_bound": s.maxDepth,
		"root_setups": setups, "levels": s.levels, "depth_reached": s.depthReached,
		"states": s.states(), "transitions": s.trans,
		"frontier_emptied": s.frontierEmpty, "frontier_left_unexpanded": s.frontierLeft,
		"stopped_by_wall_budget": s.stoppedByBudget, "nodes_of_last_level_not_expanded": s.unexpanded,
		"transitions_pruned_after_violation": s.pruned, "transitions_continued_after_resync": s.resyncs,
		"wall_s": s.wall,
	}
}

// ---------------------------------------------------------------------------------------------
// replay
// ---------------------------------------------------------------------------------------------

func replay() {
	b, err := os.ReadFile(run.Replay)
	if err != nil {
		run.EngineError("%v", err)
	}
	var f struct {
		Key    string `json:"key"`
		Detail struct {
			Config  config `json:"config"`
			History []op   `json:"history"`
		} `json:"detail"`
	}
	if err := json.Unmarshal(b, &f); err != nil || len(f.Detail.History) == 0 {
		run.EngineError("replay file: %v", err)
	}
	cfg := f.Detail.Config
	fmt.Printf("replaying %s: %d sessions, %s\n", f.Key, cfg.K, histString(f.Detail.History))
	var ss stepStats
	var sb strings.Builder
	_, per := execute(cfg, f.Detail.History, nil, 0, &sb, &ss)
	fmt.Print(sb.String())
	for i, fs := range per {
		for _, x := range fs {
			run.Violation(x.Key, map[string]interface{}{"config": cfg, "history": f.Detail.History[:i+1], "readable": histString(f.Detail.History[:i+1]), "what": x.Msg,
				"transcript": strings.Split(strings.TrimRight(sb.String(), "\n"), "\n")})
		}
	}
	run.AddEvals(int64(len(f.Detail.History)))
	run.Finish()
}
