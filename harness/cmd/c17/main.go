// C17 — STARTTLS boundary: early plaintext is never treated as protected data.
//
// Bounded-exhaustive exploration on the real imapserver / imapclient code with real crypto/tls
// over the synchronous in-memory network of srvkit. Two halves:
//
//   - server: a raw client sends "a STARTTLS CRLF" ++ suffix in EVERY segmentation into <= N
//     writes (each segment is returned by exactly one Read of the server, which decides what the
//     server's bufio.Reader holds at the switch), followed by nothing or by a genuine TLS
//     ClientHello; plus a policy table (LOGIN / AUTHENTICATE / capabilities without TLS).
//   - client: imapclient.NewStartTLS against a scripted peer that appends plaintext responses
//     to the STARTTLS completion in every segmentation, and then sends plaintext, closes, sends
//     TLS-looking junk or really is a TLS server.
//
// Free-running: once the segment boundaries are fixed nothing the oracle looks at depends on
// goroutine scheduling. A 90 s per-case watchdog is an engine error (exit 2), never a verdict.
package main

import (
	"bufio"
	"bytes"
	"crypto/tls"
	"encoding/json"
	"fmt"
	"io"
	"os"
	"os/exec"
	"runtime"
	"runtime/pprof"
	"sort"
	"strconv"
	"strings"
	"sync"
	"sync/atomic"
	"time"

	"github.com/emersion/go-imap/v2/imapclient"
	"github.com/emersion/go-imap/v2/imapserver"
	"github.com/emersion/go-imap/v2/verif/srvkit"
	"github.com/emersion/go-imap/v2/verif/vk"
)

var run *vk.Run

var srvTLS, cliTLS = srvkit.TLSConfigs()

// ------------------------------------------------------------------------------------------
// small helpers
// ------------------------------------------------------------------------------------------

type finding struct {
	Key string
	Msg string
}

func q(b interface{}) string {
	switch v := b.(type) {
	case []byte:
		return vk.Q(string(v))
	case string:
		return vk.Q(v)
	}
	return fmt.Sprint(b)
}

func logf(w io.Writer, format string, a ...interface{}) {
	if w != nil {
		fmt.Fprintf(w, format+"\n", a...)
	}
}

func engine(format string, a ...interface{}) {
	run.EngineError(format, a...)
}

// guard arms the per-case engine watchdog.
func guard(what func() string) func() {
	t := time.AfterFunc(90*time.Second, func() {
		fmt.Fprintf(os.Stderr, "watchdog: case did not finish within 90 s: %s\n", what())
		pprof.Lookup("goroutine").WriteTo(os.Stderr, 1)
		engine("watchdog expired (engine error, not a verdict): %s", what())
	})
	return func() { t.Stop() }
}

// cutSets returns every set of at most k cut positions out of 1..n-1 (sizes ascending, then
// lexicographic), i.e. every way of delivering n bytes in at most k+1 non-empty writes.
var cutCache sync.Map

func cutSets(n, k int) [][]uint8 {
	key := [2]int{n, k}
	if v, ok := cutCache.Load(key); ok {
		return v.([][]uint8)
	}
	var out [][]uint8
	var cur []uint8
	var rec func(start, left int)
	for size := 0; size <= k; size++ {
		rec = func(start, left int) {
			if left == 0 {
				out = append(out, append([]uint8{}, cur...))
				return
			}
			for p := start; p <= n-left; p++ {
				cur = append(cur, uint8(p))
				rec(p+1, left-1)
				cur = cur[:len(cur)-1]
			}
		}
		if size <= n-1 || size == 0 {
			rec(1, size)
		}
	}
	cutCache.Store(key, out)
	return out
}

func toInts(c []uint8) []int {
	out := make([]int, len(c))
	for i, x := range c {
		out[i] = int(x)
	}
	return out
}

func split(s string, cuts []int) []string {
	var segs []string
	prev := 0
	for _, c := range cuts {
		segs = append(segs, s[prev:int(c)])
		prev = int(c)
	}
	segs = append(segs, s[prev:])
	return segs
}

// tlsRecordsOnly reports whether b is a sequence of complete, plausible TLS records (own check of
// the record header bytes; crypto/tls is not consulted).
func tlsRecordsOnly(b []byte) (records int, ok bool, why string) {
	for len(b) > 0 {
		if len(b) < 5 {
			return records, false, fmt.Sprintf("trailing bytes %s are not a TLS record header", q(b))
		}
		typ, maj, min := b[0], b[1], b[2]
		l := int(b[3])<<8 | int(b[4])
		if typ < 20 || typ > 23 || maj != 3 || min > 4 || l > 16384+2048 {
			end := len(b)
			if end > 48 {
				end = 48
			}
			return records, false, fmt.Sprintf("bytes %s are not a TLS record (type=%d version=%d.%d length=%d)", q(b[:end]), typ, maj, min, l)
		}
		if len(b) < 5+l {
			return records, false, fmt.Sprintf("truncated TLS record (type=%d, %d of %d payload bytes)", typ, len(b)-5, l)
		}
		b = b[5+l:]
		records++
	}
	return records, true, ""
}

// capsOf extracts a capability list from "* CAPABILITY a b" or from a "[CAPABILITY a b]" code.
func capsOf(r srvkit.Resp) ([]string, bool) {
	t := r.Text
	if r.Tag == "*" && strings.HasPrefix(strings.ToUpper(t), "CAPABILITY ") {
		return strings.Fields(t)[1:], true
	}
	if i := strings.Index(strings.ToUpper(t), "[CAPABILITY "); i >= 0 {
		j := strings.IndexByte(t[i:], ']')
		if j < 0 {
			return nil, false
		}
		return strings.Fields(t[i+1 : i+j])[1:], true
	}
	return nil, false
}

// judgeCaps applies the policy of the statement to one capability list seen on an
// UNENCRYPTED, not-authenticated connection.
func judgeCaps(where string, caps []string, tlsCfg, insecure bool) []finding {
	var fs []finding
	hasAuth, hasLD, hasST := "", false, false
	for _, c := range caps {
		u := strings.ToUpper(c)
		if strings.HasPrefix(u, "AUTH=") {
			hasAuth = c
		}
		if u == "LOGINDISABLED" {
			hasLD = true
		}
		if u == "STARTTLS" {
			hasST = true
		}
	}
	if !insecure {
		if hasAuth != "" {
			fs = append(fs, finding{"server:auth-advertised-without-tls", fmt.Sprintf("%s advertises %s on an unencrypted connection with InsecureAuth off: %v", where, hasAuth, caps)})
		}
		if !hasLD {
			fs = append(fs, finding{"server:logindisabled-missing-without-tls", fmt.Sprintf("%s does not advertise LOGINDISABLED on an unencrypted connection with InsecureAuth off: %v", where, caps)})
		}
	}
	if !tlsCfg && hasST {
		fs = append(fs, finding{"server:starttls-advertised-without-tlsconfig", fmt.Sprintf("%s advertises STARTTLS although Options.TLSConfig is nil: %v", where, caps)})
	}
	return fs
}

func callStrings(calls []srvkit.Call) []string {
	var out []string
	for _, c := range calls {
		out = append(out, fmt.Sprintf("%s%v", c.Method, c.Args))
	}
	return out
}

// ------------------------------------------------------------------------------------------
// server half
// ------------------------------------------------------------------------------------------

const startLine = "a STARTTLS\r\n"

type suffixSpec struct {
	Name    string
	Text    string
	Logins  int // LOGIN/AUTHENTICATE commands with credentials u/p that are complete in the suffix
	TLSOnly bool
}

var srvSuffixes = []suffixSpec{
	{"none", "", 0, false},
	{"noop", "b NOOP\r\n", 0, false},
	{"login", "b LOGIN u p\r\n", 1, false},
	{"capability", "b CAPABILITY\r\n", 0, false},
	{"logout", "b LOGOUT\r\n", 0, false},
	{"half-command", "b LOG", 0, false},
	{"two-commands", "b NOOP\r\nc LOGIN u p\r\n", 1, false},
	{"authenticate-ir", "b AUTHENTICATE PLAIN AHUAcA==\r\n", 1, false},
	{"fake-record-header+login", "\x16\x03\x01\x00\x05b LOGIN u p\r\n", 1, true},
}

type srvCase struct {
	Half     string `json:"half"`
	TLS      bool   `json:"tls_config"`
	Insecure bool   `json:"insecure_auth"`
	Suffix   string `json:"suffix"`
	Logins   int    `json:"suffix_logins"`
	Cuts     []int  `json:"cuts"`
	Mode     string `json:"mode"` // "none" nothing more | "hello" genuine ClientHello afterwards | "glue" ClientHello bytes pipelined in the segment that ends the STARTTLS line
	GlueK    int    `json:"glue_bytes,omitempty"`
	// policy cases
	Wrap   string   `json:"session,omitempty"`
	Prefix []string `json:"prefix,omitempty"`
	Probe  string   `json:"probe,omitempty"`
}

func (c *srvCase) describe() string {
	if c.Half == "policy" {
		return fmt.Sprintf("policy tls_config=%v insecure_auth=%v session=%s prefix=%q probe=%s", c.TLS, c.Insecure, c.Wrap, c.Prefix, c.Probe)
	}
	segs := split(startLine+c.Suffix, c.Cuts)
	return fmt.Sprintf("server tls_config=%v insecure_auth=%v mode=%s glue=%d writes=%q", c.TLS, c.Insecure, c.Mode, c.GlueK, segs)
}

type srvInfo struct {
	Buffered    int  // suffix bytes that sat in the server's bufio.Reader at the switch
	Handshake   bool // TLS handshake completed
	LoginInTLS  bool
	ClosedEarly bool
	Records     int
}

type worker struct {
	servers map[string]*srvkit.StubServer
}

func (ws *worker) server(tlsCfg, insecure bool, wrap string) *srvkit.StubServer {
	key := fmt.Sprintf("%v/%v/%s", tlsCfg, insecure, wrap)
	if ss, ok := ws.servers[key]; ok {
		return ss
	}
	opts := imapserver.Options{InsecureAuth: insecure}
	if tlsCfg {
		opts.TLSConfig = srvTLS
	}
	ss := srvkit.NewStubServer(opts)
	switch wrap {
	case "sasl":
		ss.Wrap = func(s *srvkit.Stub) imapserver.Session { return srvkit.StubSASL{StubBasic: srvkit.StubBasic{S: s}} }
	case "basic":
		ss.Wrap = func(s *srvkit.Stub) imapserver.Session { return srvkit.StubBasic{S: s} }
	}
	ws.servers[key] = ss
	return ss
}

func (ws *worker) close() {
	for _, ss := range ws.servers {
		ss.Close()
	}
}

// glueConn is the driver side for mode "glue": the first TLS write (the ClientHello) is glued
// (its first k bytes) to the last plaintext segment, so that genuine TLS bytes sit in the server's
// bufio.Reader at the switch; on the read side the plaintext completion line is stripped.
type glueConn struct {
	*srvkit.CliConn
	p        *srvkit.Pipe
	segs     []string
	k        int
	sent     bool
	stripped bool
	pend     []byte
	okLine   []byte
}

func (g *glueConn) Write(b []byte) (int, error) {
	if !g.sent {
		g.sent = true
		k := g.k
		if k < 0 || k > len(b) {
			k = len(b)
		}
		for i, s := range g.segs {
			if i == len(g.segs)-1 {
				g.p.Send(append([]byte(s), b[:k]...))
			} else {
				g.p.SendString(s)
			}
		}
		if k < len(b) {
			g.p.Send(b[k:])
		}
		return len(b), nil
	}
	return g.CliConn.Write(b)
}

func (g *glueConn) Read(b []byte) (int, error) {
	for !g.stripped {
		tmp := make([]byte, 4096)
		n, err := g.CliConn.Read(tmp)
		g.pend = append(g.pend, tmp[:n]...)
		if i := bytes.Index(g.pend, []byte("\r\n")); i >= 0 {
			g.okLine = append([]byte{}, g.pend[:i+2]...)
			g.pend = g.pend[i+2:]
			g.stripped = true
			break
		}
		if err != nil {
			return 0, err
		}
	}
	if len(g.pend) > 0 {
		n := copy(b, g.pend)
		g.pend = g.pend[n:]
		return n, nil
	}
	return g.CliConn.Read(b)
}

func runSrvCase(ws *worker, c *srvCase, w io.Writer) ([]finding, srvInfo) {
	stop := guard(c.describe)
	defer stop()
	var fs []finding
	var info srvInfo
	add := func(key, format string, a ...interface{}) {
		fs = append(fs, finding{key, fmt.Sprintf(format, a...)})
	}
	ss := ws.server(c.TLS, c.Insecure, "stub")
	defer ss.Log.Drain()
	d, greet, err := ss.Connect()
	if err != nil {
		engine("server connect: %v", err)
	}
	p := d.P
	greetLen := len(d.Out)
	logf(w, "S: %s", q(d.Out))
	if len(greet) == 1 {
		if caps, ok := capsOf(greet[0]); ok {
			fs = append(fs, judgeCaps("greeting", caps, c.TLS, c.Insecure)...)
		}
	}
	input := startLine + c.Suffix
	segs := split(input, c.Cuts)
	pos := 0
	for _, s := range segs {
		if pos < len(startLine) && pos+len(s) >= len(startLine) {
			info.Buffered = pos + len(s) - len(startLine)
		}
		pos += len(s)
	}

	var tc *tls.Conn
	var herr error
	attempted := false
	if c.Mode == "glue" {
		cc := p.ClientConn()
		cc.QuietRead = true
		g := &glueConn{CliConn: cc, p: p, segs: segs, k: c.GlueK}
		tc = tls.Client(g, cliTLS)
		herr = tc.Handshake()
		attempted = true
		logf(w, "C: writes %q with the first %d ClientHello bytes glued to the last one; S plaintext: %s; handshake error: %v", segs, c.GlueK, q(g.okLine), herr)
	} else {
		for _, s := range segs {
			p.SendString(s)
			logf(w, "C: %s", q(s))
		}
		out, closed, err := p.Quiesce()
		if err != nil {
			engine("quiesce: %v (%s)", err, c.describe())
		}
		logf(w, "S: %s closed=%v", q(out), closed)
		info.ClosedEarly = closed
		if c.TLS && c.Mode == "hello" {
			if closed {
				herr = fmt.Errorf("connection already closed by the server")
				logf(w, "C: (no ClientHello sent: %v)", herr)
			} else {
				attempted = true
				tc, herr = p.TLSClient()
				logf(w, "C: genuine TLS ClientHello; handshake error: %v", herr)
			}
		}
	}
	var tlsPlain []byte
	if c.TLS && attempted && herr == nil {
		info.Handshake = true
		if _, werr := tc.Write([]byte("c LOGIN tu tp\r\n")); werr != nil {
			logf(w, "C(TLS): write failed: %v", werr)
		}
		data, _, rerr := srvkit.ReadAvailable(tc)
		tlsPlain = data
		logf(w, "C(TLS): %s\nS(TLS): %s err=%v", q("c LOGIN tu tp\r\n"), q(data), rerr)
	}
	p.CloseWrite()
	if !p.WaitClosed(80 * time.Second) {
		engine("server did not close the connection after EOF (%s)", c.describe())
	}
	post := p.AllOutput()[greetLen:]
	calls := callStrings(d.Stub.Snapshot())
	logf(w, "raw server output after the greeting: %s\nbackend calls: %v", q(post), calls)

	if !c.TLS {
		// STARTTLS must be refused; the suffix is then ordinary pipelined plaintext, to which the
		// credentials policy applies.
		resps, rest, perr := srvkit.ParseResponses(post)
		if perr != nil || len(rest) > 0 {
			add("server:malformed-plaintext-output", "output %s does not parse: %v rest=%s", q(post), perr, q(rest))
			return fs, info
		}
		okTags := map[string]bool{}
		for _, r := range resps {
			if caps, ok := capsOf(r); ok && r.Tag == "*" {
				fs = append(fs, judgeCaps("CAPABILITY response", caps, false, c.Insecure)...)
			}
			if r.Tag != "*" && r.Tag != "+" && r.Kind() == "OK" {
				okTags[r.Tag] = true
			}
		}
		if okTags["a"] {
			add("server:starttls-accepted-without-tlsconfig", "STARTTLS answered OK although Options.TLSConfig is nil: %s", q(post))
		}
		logins := 0
		for _, cl := range calls {
			if strings.HasPrefix(cl, "Login") || strings.HasPrefix(cl, "Authenticate") {
				logins++
			}
		}
		if !c.Insecure && logins > 0 {
			add("server:login-accepted-without-tls", "backend received %v on an unencrypted connection with InsecureAuth off", calls)
		}
		if c.Insecure && logins != c.Logins {
			add("server:insecureauth-login-not-delivered", "InsecureAuth on: expected %d Login call(s), backend saw %v; output %s", c.Logins, calls, q(post))
		}
		return fs, info
	}

	// --- TLSConfig set ---
	i := bytes.Index(post, []byte("\r\n"))
	if i < 0 || !bytes.HasPrefix(post, []byte("a OK ")) {
		add("server:clean-starttls-fails", "STARTTLS on a fresh connection with TLSConfig set was not answered with a tagged OK: %s", q(post))
		return fs, info
	}
	rest := post[i+2:]
	n, ok, why := tlsRecordsOnly(rest)
	info.Records = n
	if !ok {
		add("server:plaintext-after-starttls-ok", "after the completion line %s the server wrote bytes that are not TLS records: %s", q(post[:i+2]), why)
	}
	// the only call the driver itself causes is Login[tu tp] inside TLS (after a completed
	// handshake); everything else can only stem from the plaintext suffix
	var foreign []string
	inTLS := 0
	for _, cl := range calls {
		if cl == "Login[tu tp]" && info.Handshake {
			inTLS++
		} else {
			foreign = append(foreign, cl)
		}
	}
	if len(foreign) > 0 || inTLS > 1 {
		add("server:backend-call-from-plaintext-suffix", "backend calls %v are attributable to the plaintext injected after the STARTTLS line (all calls: %v)", foreign, calls)
	}
	if c.Suffix == "" && info.Handshake && inTLS != 1 {
		add("server:clean-starttls-fails", "after a clean STARTTLS and LOGIN tu tp inside TLS the backend saw %v", calls)
	}
	if c.Suffix != "" && info.Handshake {
		add("server:handshake-succeeds-after-injected-plaintext", "the TLS handshake completed although %s was injected in plaintext after the STARTTLS line (those bytes were not consumed by the handshake); inside TLS the server then said %s", q(c.Suffix), q(tlsPlain))
	}
	if c.Suffix == "" && c.Mode != "none" {
		if !info.Handshake {
			key := "server:clean-starttls-fails"
			if c.Mode == "glue" {
				key = "server:pipelined-clienthello-not-handed-to-tls"
			}
			add(key, "handshake after a clean STARTTLS failed: %v", herr)
		} else {
			resps, rest2, perr := srvkit.ParseResponses(tlsPlain)
			okc := false
			for _, r := range resps {
				if r.Tag == "c" && r.Kind() == "OK" {
					okc = true
				}
			}
			if perr != nil || len(rest2) > 0 || !okc {
				add("server:clean-starttls-fails", "LOGIN inside TLS not accepted: %s (%v)", q(tlsPlain), perr)
			} else {
				info.LoginInTLS = true
			}
		}
	}
	return fs, info
}

// ---- policy table ----

var policyPrefixes = [][]string{
	{},
	{"n NOOP\r\n"},
	{"n CAPABILITY\r\n"},
	{"n LOGIN\r\n"},
	{"n STARTTLS extra\r\n"},
	{"n AUTHENTICATE\r\n"},
}

var policyProbes = []string{"capability", "login", "login-literal", "login-lowercase", "authenticate", "authenticate-ir", "authenticate-lowercase", "starttls"}

func runPolicyCase(ws *worker, c *srvCase, w io.Writer) []finding {
	stop := guard(c.describe)
	defer stop()
	var fs []finding
	add := func(key, format string, a ...interface{}) {
		fs = append(fs, finding{key, fmt.Sprintf(format, a...)})
	}
	ss := ws.server(c.TLS, c.Insecure, c.Wrap)
	defer ss.Log.Drain()
	d, greet, err := ss.Connect()
	if err != nil {
		engine("server connect: %v", err)
	}
	logf(w, "S: %s", q(d.Out))
	if len(greet) != 1 {
		engine("greeting is not one response: %s", q(d.Out))
	}
	gcaps, ok := capsOf(greet[0])
	if !ok {
		engine("greeting without capability code: %s", q(d.Out))
	}
	fs = append(fs, judgeCaps("greeting", gcaps, c.TLS, c.Insecure)...)
	do := func(raw string) ([]srvkit.Resp, bool) {
		resps, closed, err := d.Do(raw)
		logf(w, "C: %s\nS: %s closed=%v", q(raw), q(rawOf(resps)), closed)
		if err != nil {
			engine("policy exchange %s: %v", q(raw), err)
		}
		for _, r := range resps {
			if caps, ok := capsOf(r); ok && r.Tag == "*" {
				fs = append(fs, judgeCaps("CAPABILITY response", caps, c.TLS, c.Insecure)...)
			}
		}
		return resps, closed
	}
	for _, pl := range c.Prefix {
		do(pl)
	}
	tagged := func(resps []srvkit.Resp) string {
		for _, r := range resps {
			if r.Tag == "x" {
				return r.Kind()
			}
		}
		return ""
	}
	expectAuth := func(what string, resps []srvkit.Resp) {
		calls := callStrings(d.Stub.Snapshot())
		st := tagged(resps)
		reached := false
		for _, cl := range calls {
			if strings.HasPrefix(cl, "Login") || strings.HasPrefix(cl, "Authenticate") {
				reached = true
			}
		}
		if !c.Insecure {
			if st == "OK" || reached {
				add("server:"+what+"-accepted-without-tls", "%s on an unencrypted connection with InsecureAuth off: tagged %q, backend calls %v", what, st, calls)
			}
		} else {
			want := "Login[u p]"
			found := false
			for _, cl := range calls {
				if cl == want {
					found = true
				}
			}
			if st != "OK" || !found {
				add("server:insecureauth-"+what+"-refused", "%s with InsecureAuth on: tagged %q, backend calls %v", what, st, calls)
			}
		}
	}
	switch c.Probe {
	case "capability":
		resps, _ := do("x CAPABILITY\r\n")
		seen := false
		for _, r := range resps {
			if _, ok := capsOf(r); ok && r.Tag == "*" {
				seen = true
			}
		}
		if !seen {
			engine("no CAPABILITY response: %s", q(rawOf(resps)))
		}
	case "login":
		resps, _ := do("x LOGIN u p\r\n")
		expectAuth("login", resps)
	case "login-lowercase":
		resps, _ := do("x login u p\r\n")
		expectAuth("login", resps)
	case "login-literal":
		resps, _ := do("x LOGIN {1+}\r\nu {1+}\r\np\r\n")
		expectAuth("login", resps)
	case "authenticate", "authenticate-lowercase":
		line := "x AUTHENTICATE PLAIN\r\n"
		if c.Probe == "authenticate-lowercase" {
			line = "x authenticate plain\r\n"
		}
		resps, _ := do(line)
		if len(resps) == 1 && resps[0].Tag == "+" {
			resps, _ = do("AHUAcA==\r\n")
		}
		expectAuth("authenticate", resps)
	case "authenticate-ir":
		resps, _ := do("x AUTHENTICATE PLAIN AHUAcA==\r\n")
		expectAuth("authenticate", resps)
	case "starttls":
		if c.TLS {
			break
		}
		resps, _ := do("x STARTTLS\r\n")
		if tagged(resps) == "OK" {
			add("server:starttls-accepted-without-tlsconfig", "STARTTLS answered OK although Options.TLSConfig is nil")
		}
		// the connection must still be a working plaintext connection under the same policy
		resps, _ = do("y CAPABILITY\r\n")
		good := false
		for _, r := range resps {
			if r.Tag == "y" && r.Kind() == "OK" {
				good = true
			}
		}
		if !good {
			add("server:starttls-accepted-without-tlsconfig", "after the refused STARTTLS the server no longer answers in plaintext: %s", q(rawOf(resps)))
		}
	}
	d.P.CloseWrite()
	if !d.P.WaitClosed(80 * time.Second) {
		engine("server did not close the connection after EOF (%s)", c.describe())
	}
	return fs
}

func rawOf(resps []srvkit.Resp) []byte {
	var b []byte
	for _, r := range resps {
		b = append(b, r.Raw...)
	}
	return b
}

// ------------------------------------------------------------------------------------------
// client half
// ------------------------------------------------------------------------------------------

var greetings = map[string]string{
	"ok":      "* OK ready\r\n",
	"ok-caps": "* OK [CAPABILITY IMAP4rev1 STARTTLS] ready\r\n",
	"preauth": "* PREAUTH ready\r\n",
	"bye":     "* BYE no\r\n",
}

var okLines = map[string]string{
	"ok":      "T1 OK begin\r\n",
	"ok-code": "T1 OK [CAPABILITY IMAP4rev1 X-OKCODE] begin\r\n",
	"no":      "T1 NO no TLS today\r\n",
}

const earlyCaps = "* CAPABILITY IMAP4rev1 X-EARLY\r\n"

var cliSuffixes = []suffixSpec{
	{Name: "none", Text: ""},
	{Name: "capability", Text: "* CAPABILITY IMAP4rev1 X-INJECTED\r\n"},
	{Name: "exists", Text: "* 7 EXISTS\r\n"},
	{Name: "alert", Text: "* OK [ALERT] injected\r\n"},
	{Name: "tagged-ok", Text: "T2 OK done\r\n"},
	{Name: "half-response", Text: "* 7 EX"},
	{Name: "two-responses", Text: "* 7 EXISTS\r\n* CAPABILITY IMAP4rev1 X-INJECTED\r\n"},
}

// what a peer that never speaks TLS keeps sending in plaintext (then it closes)
const plainTail = "* CAPABILITY IMAP4rev1 X-INJECTED\r\n* 7 EXISTS\r\nT2 OK done\r\nT3 OK done\r\nT4 OK done\r\n"

// a syntactically valid TLS record (handshake, ServerHelloDone) that no TLS 1.2/1.3 client expects here
const tlsJunk = "\x16\x03\x03\x00\x04\x0e\x00\x00\x00"

type cliCase struct {
	Half     string `json:"half"`
	Greeting string `json:"greeting"`
	Pre      string `json:"before_ok"`
	OKLine   string `json:"ok_line"`
	Suffix   string `json:"suffix"`
	Cuts     []int  `json:"cuts"`
	After    string `json:"after"` // "plain" | "close" | "tlsjunk" | "tls"
}

func (c *cliCase) stream() string { return c.Pre + okLines[c.OKLine] + c.Suffix }

func (c *cliCase) describe() string {
	return fmt.Sprintf("client greeting=%s after=%s peer writes after 'T1 STARTTLS': %q", q(greetings[c.Greeting]), c.After, split(c.stream(), c.Cuts))
}

type cliInfo struct {
	Err              string
	Client           bool
	Caps             []string
	CapsNil          bool
	NoopErr          string
	Handler          []string
	PeerHS           bool
	PeerGotCmd       bool
	TLSCmds          []string
	Buffered         int
	ClientPlainAfter string
	PlainCapability  int
}

type peerReport struct {
	tag             string
	plainCapability int
	gotStartTLS     bool
	firstLine       string
	hsOK            bool
	hsErr           error
	tlsCmds         []string
}

// prefixConn hands bytes already read from the connection to the TLS layer first.
type prefixConn struct {
	*srvkit.CliConn
	pre []byte
}

func (c *prefixConn) Read(b []byte) (int, error) {
	if len(c.pre) > 0 {
		n := copy(b, c.pre)
		c.pre = c.pre[n:]
		return n, nil
	}
	return c.CliConn.Read(b)
}

func peer(p *srvkit.Pipe, c *cliCase, w io.Writer, done chan<- peerReport) {
	var rep peerReport
	defer func() { done <- rep }()
	cc := p.ClientConn()
	p.SendString(greetings[c.Greeting])
	// wait for the STARTTLS command line. (imapclient may, depending on goroutine timing, send
	// the CAPABILITY command triggered by a greeting without capabilities first; it is answered
	// in plaintext, and the tag of the STARTTLS command is whatever the client chose.)
	var got []byte
	tmp := make([]byte, 4096)
	tag := ""
	for tag == "" {
		for !bytes.Contains(got, []byte("\n")) {
			n, err := cc.Read(tmp)
			got = append(got, tmp[:n]...)
			if err != nil {
				rep.firstLine = string(got)
				p.CloseWrite()
				return
			}
		}
		i := bytes.IndexByte(got, '\n')
		line := string(got[:i+1])
		got = got[i+1:]
		rep.firstLine = line
		f := strings.Fields(line)
		switch {
		case len(f) == 2 && f[1] == "STARTTLS":
			tag = f[0]
		case len(f) == 2 && f[1] == "CAPABILITY":
			rep.plainCapability++
			p.SendString("* CAPABILITY IMAP4rev1 STARTTLS\r\n" + f[0] + " OK done\r\n")
		default:
			p.CloseWrite()
			return
		}
	}
	extra := got
	rep.gotStartTLS = true
	rep.tag = tag
	for _, s := range split(strings.Replace(c.stream(), "T1 ", tag+" ", 1), c.Cuts) {
		p.SendString(s)
	}
	switch c.After {
	case "close":
		p.CloseWrite()
	case "plain":
		p.SendString(plainTail)
		p.CloseWrite()
	case "tlsjunk":
		p.SendString(tlsJunk)
		p.CloseWrite()
	case "tls":
		ts := tls.Server(&prefixConn{CliConn: cc, pre: extra}, srvTLS)
		if err := ts.Handshake(); err != nil {
			rep.hsErr = err
			p.CloseWrite()
			return
		}
		rep.hsOK = true
		br := bufio.NewReader(ts)
		for {
			line, err := br.ReadString('\n')
			if err != nil {
				break
			}
			rep.tlsCmds = append(rep.tlsCmds, line)
			f := strings.Fields(line)
			if len(f) < 2 {
				break
			}
			var resp string
			switch strings.ToUpper(f[1]) {
			case "CAPABILITY":
				resp = "* CAPABILITY IMAP4rev1 X-INSIDE-TLS\r\n" + f[0] + " OK done\r\n"
			case "NOOP":
				resp = f[0] + " OK done\r\n"
			case "LOGOUT":
				resp = "* BYE bye\r\n" + f[0] + " OK done\r\n"
			default:
				resp = f[0] + " BAD unknown\r\n"
			}
			if _, err := ts.Write([]byte(resp)); err != nil {
				break
			}
		}
		p.CloseWrite()
	}
}

func runCliCase(c *cliCase, w io.Writer) ([]finding, cliInfo) {
	stop := guard(c.describe)
	defer stop()
	var info cliInfo
	p := srvkit.NewPipe()
	conn := p.ServerConn() // the imapclient end: each Read returns exactly one peer segment
	done := make(chan peerReport, 1)
	go peer(p, c, w, done)

	var mu sync.Mutex
	var handler []string
	opts := &imapclient.Options{
		TLSConfig: cliTLS,
		UnilateralDataHandler: &imapclient.UnilateralDataHandler{
			Expunge: func(n uint32) {
				mu.Lock()
				handler = append(handler, fmt.Sprintf("Expunge(%d)", n))
				mu.Unlock()
			},
			Mailbox: func(data *imapclient.UnilateralDataMailbox) {
				s := "Mailbox("
				if data.NumMessages != nil {
					s += fmt.Sprintf("NumMessages=%d", *data.NumMessages)
				}
				if data.Flags != nil {
					s += fmt.Sprintf(" Flags=%v", data.Flags)
				}
				if data.PermanentFlags != nil {
					s += fmt.Sprintf(" PermanentFlags=%v", data.PermanentFlags)
				}
				mu.Lock()
				handler = append(handler, s+")")
				mu.Unlock()
			},
		},
	}
	if w != nil && os.Getenv("C17_DEBUG") != "" {
		opts.DebugWriter = os.Stderr // wire dump as the client sees it (replay only)
	}
	client, err := imapclient.NewStartTLS(conn, opts)
	if err != nil {
		info.Err = err.Error()
	}
	if client != nil {
		info.Client = true
		caps := client.Caps()
		if caps == nil {
			info.CapsNil = true
		} else {
			for k := range caps {
				info.Caps = append(info.Caps, string(k))
			}
			sort.Strings(info.Caps)
		}
		if nerr := client.Noop().Wait(); nerr != nil {
			info.NoopErr = nerr.Error()
		}
		client.Close()
	} else {
		info.CapsNil = true
	}
	rep := <-done
	mu.Lock()
	info.Handler = append([]string{}, handler...)
	mu.Unlock()
	info.PeerHS = rep.hsOK
	info.PeerGotCmd = rep.gotStartTLS
	info.TLSCmds = rep.tlsCmds
	// how many post-boundary bytes sat in the client's bufio.Reader at the switch
	if c.Greeting != "bye" && c.OKLine != "no" {
		boundary := len(c.Pre) + len(okLines[c.OKLine])
		pos := 0
		for _, s := range split(c.stream(), c.Cuts) {
			if pos < boundary && pos+len(s) >= boundary {
				info.Buffered = pos + len(s) - boundary
			}
			pos += len(s)
		}
	}
	all := p.AllOutput()
	if i := bytes.Index(all, []byte(rep.tag+" STARTTLS\r\n")); i >= 0 && rep.gotStartTLS {
		if _, ok, why := tlsRecordsOnly(all[i+len(rep.tag)+11:]); !ok {
			info.ClientPlainAfter = why
		}
	}
	info.PlainCapability = rep.plainCapability
	logf(w, "peer: greeting %s; last plaintext client line %s; then writes %q; then %s", q(greetings[c.Greeting]), q(rep.firstLine), split(c.stream(), c.Cuts), c.After)
	logf(w, "peer: TLS handshake completed=%v err=%v; commands received inside TLS: %q", rep.hsOK, rep.hsErr, rep.tlsCmds)
	logf(w, "NewStartTLS: client=%v err=%q; Caps()=%v (nil=%v); Noop error=%q; unilateral handler calls=%v", info.Client, info.Err, info.Caps, info.CapsNil, info.NoopErr, info.Handler)
	return judgeClient(c, &info), info
}

func judgeClient(c *cliCase, o *cliInfo) []finding {
	var fs []finding
	add := func(key, format string, a ...interface{}) {
		fs = append(fs, finding{key, fmt.Sprintf(format, a...)})
	}
	has := func(name string) bool {
		for _, x := range o.Caps {
			if x == name {
				return true
			}
		}
		return false
	}
	okGreeting := c.Greeting == "ok" || c.Greeting == "ok-caps"
	switched := c.OKLine != "no"
	expectLive := okGreeting && switched && c.Suffix == "" && c.After == "tls"
	live := o.Client && (o.NoopErr == "" || has("X-INSIDE-TLS"))

	if c.Greeting == "preauth" && o.Client {
		add("client:preauth-accepted", "NewStartTLS returned a client (no error) although the greeting was PREAUTH")
	}
	for _, h := range o.Handler {
		if switched && strings.Contains(h, "NumMessages=7") {
			add("client:injected-mailbox-update-delivered", "the unilateral data handler was called with %s: '* 7 EXISTS' only ever appears in plaintext after the STARTTLS completion", h)
		}
	}
	if !o.CapsNil && switched {
		switch {
		case has("X-INJECTED"):
			add("client:injected-capability-adopted", "Caps() = %v contains X-INJECTED, which only ever appears in plaintext after the STARTTLS completion", o.Caps)
		case has("X-EARLY") || has("STARTTLS"):
			add("client:plaintext-capabilities-survive-starttls", "Caps() = %v still holds capabilities received in plaintext before the STARTTLS completion (greeting / untagged CAPABILITY); they must be discarded and re-requested inside TLS", o.Caps)
		case has("X-OKCODE"):
			add("client:starttls-ok-capability-code-survives", "Caps() = %v is the list carried in plaintext by the CAPABILITY response code of the STARTTLS completion; it was not discarded at the switch (commands seen by the TLS peer: %q)", o.Caps, o.TLSCmds)
		case !has("X-INSIDE-TLS"):
			add("client:capabilities-not-from-tls", "Caps() = %v was not obtained inside TLS", o.Caps)
		}
	}
	if !expectLive && live {
		switch {
		case !switched:
			add("client:starttls-refusal-ignored", "STARTTLS was refused (%s) but NewStartTLS returned a working client: Caps()=%v Noop error=%q", q(okLines[c.OKLine]), o.Caps, o.NoopErr)
		case !okGreeting:
			// PREAUTH is reported above; a BYE greeting is not part of the statement beyond "returns"
			if c.Greeting == "bye" {
				add("client:working-client-after-bye", "greeting BYE but NewStartTLS returned a working client")
			}
		case c.After == "tls":
			add("client:live-after-injected-plaintext", "%s was injected in plaintext after the STARTTLS completion, yet the TLS handshake completed and the client works (Caps()=%v, Noop error=%q): the injected bytes were not consumed by the TLS handshake", q(c.Suffix), o.Caps, o.NoopErr)
		default:
			add("client:command-completes-without-tls", "the peer never spoke TLS (%s), yet a command completed on the returned client (Caps()=%v, Noop error=%q)", c.After, o.Caps, o.NoopErr)
		}
	}
	if expectLive && !(o.Client && !o.CapsNil && o.NoopErr == "") {
		add("client:clean-starttls-fails", "clean STARTTLS against a genuine TLS peer did not yield a working client: err=%q Caps()=%v Noop error=%q peer handshake=%v", o.Err, o.Caps, o.NoopErr, o.PeerHS)
	}
	return fs
}

// ------------------------------------------------------------------------------------------
// enumeration
// ------------------------------------------------------------------------------------------

type family struct {
	srv  *srvCase
	cli  *cliCase
	cuts [][]uint8
	one  bool // a single case without segmentations (policy)
}

func (f *family) size() int {
	if f.one {
		return 1
	}
	return len(f.cuts)
}

type found struct {
	key    string
	msg    string
	size   int
	detail map[string]interface{}
	hits   int64
	rerun  func() []finding
}

var (
	foundMu sync.Mutex
	founds  = map[string]*found{}
)

func report(f finding, size int, detail map[string]interface{}, rerun func() []finding) {
	foundMu.Lock()
	defer foundMu.Unlock()
	cur := founds[f.Key]
	if cur == nil {
		cur = &found{key: f.Key, size: 1 << 30}
		founds[f.Key] = cur
	}
	cur.hits++
	if size < cur.size {
		cur.size, cur.msg, cur.detail, cur.rerun = size, f.Msg, detail, rerun
	}
}

func caseSizeSrv(c *srvCase) int {
	rank := map[string]int{"none": 0, "hello": 1, "glue": 2}[c.Mode]
	return len(c.Cuts)*1000 + len(c.Suffix)*4 + len(c.Prefix)*50 + rank
}

func caseSizeCli(c *cliCase) int {
	rank := map[string]int{"ok-caps": 0, "ok": 1, "preauth": 2, "bye": 3}[c.Greeting]
	return len(c.Cuts)*1000 + len(c.stream())*4 + rank
}

// racePassMain (the -race build of this check, run as a subprocess): honest STARTTLS upgrades of
// the real client against the TLS peer, free-running, so that the race detector sees the client's
// own goroutines (reader, capability refresh) around the switch of the connection. This is a
// supplementary pass: crypto/tls cannot run under the controlled scheduler, so the schedules are
// whatever the Go runtime does — reports are true positives, silence is not a proof.
func racePassMain(n int) {
	for i := 0; i < n; i++ {
		for _, g := range []string{"ok", "ok-caps"} {
			for _, okl := range []string{"ok", "ok-code"} {
				c := &cliCase{Half: "client", Greeting: g, OKLine: okl, After: "tls"}
				runCliCase(c, nil)
			}
		}
	}
}

// starttlsRacePass runs the -race build of this check (VERIF_RACE_BIN) over n rounds of honest
// upgrades and returns the distinct reports whose both sides are in the client.
func starttlsRacePass(n int) []RaceReport {
	bin := os.Getenv("VERIF_RACE_BIN")
	if bin == "" {
		fmt.Println("STARTTLS-RACE-ERROR no race build available")
		os.Exit(2)
	}
	cmd := exec.Command(bin, "--tier", "quick")
	cmd.Env = append(os.Environ(), fmt.Sprintf("C17_RACE_PASS=%d", n), "GORACE=halt_on_error=0", "C17_RACE_ONLY=")
	var stderr bytes.Buffer
	cmd.Stderr = &stderr
	cmd.Stdout = io.Discard
	done := make(chan error, 1)
	go func() { done <- cmd.Run() }()
	select {
	case <-done:
	case <-time.After(10 * time.Minute):
		cmd.Process.Kill()
		fmt.Println("STARTTLS-RACE-ERROR race pass did not finish within 10 minutes")
		os.Exit(2)
	}
	seen := map[string]bool{}
	var out []RaceReport
	for _, r := range ParseRaceReports(stderr.String(), []string{"imapclient", "imapwire"}) {
		if !r.Inner || seen[r.Key] {
			continue
		}
		seen[r.Key] = true
		out = append(out, r)
	}
	return out
}

func main() {
	if n := os.Getenv("C17_RACE_PASS"); n != "" {
		k, _ := strconv.Atoi(n)
		racePassMain(k)
		return
	}
	if os.Getenv("C17_RACE_ONLY") != "" {
		// called by C13's check (property "no data race"): only the free-running race pass over honest
		// upgrades, reports on stdout
		n := 150
		if strings.Contains(strings.Join(os.Args, " "), "thorough") {
			n = 1500
		}
		for _, r := range starttlsRacePass(n) {
			fmt.Printf("STARTTLS-RACE %s\t%s\n", r.Key, strings.ReplaceAll(r.Text, "\n", "\\n"))
		}
		fmt.Printf("STARTTLS-RACE-PASS upgrades=%d\n", n*4)
		return
	}
	run = vk.Start("C17", "exploration")
	if run.Replay != "" {
		replay()
		return
	}
	thorough := run.Thorough()
	kSrv, kCli := 2, 2
	if thorough {
		kSrv, kCli = 4, 3
	}
	var fams []*family

	// ---- server families ----
	for _, tlsCfg := range []bool{true, false} {
		for _, insecure := range []bool{false, true} {
			for _, sfx := range srvSuffixes {
				if sfx.TLSOnly && !tlsCfg {
					continue
				}
				modes := []string{"none", "hello"}
				if !tlsCfg {
					modes = []string{"none"}
				}
				n := len(startLine) + len(sfx.Text)
				k := kSrv
				if !thorough && n <= 26 {
					k = 3
				}
				for _, mode := range modes {
					fams = append(fams, &family{
						srv:  &srvCase{Half: "server", TLS: tlsCfg, Insecure: insecure, Suffix: sfx.Text, Logins: sfx.Logins, Mode: mode},
						cuts: cutSets(n, k),
					})
				}
			}
			if tlsCfg {
				// genuine TLS bytes pipelined behind the STARTTLS line (the positive side of the drain)
				for _, gk := range []int{1, 4, 5, 6, 64, -1} {
					fams = append(fams, &family{
						srv:  &srvCase{Half: "server", TLS: true, Insecure: insecure, Mode: "glue", GlueK: gk},
						cuts: cutSets(len(startLine), 2),
					})
				}
			}
			for _, wrap := range []string{"stub", "basic", "sasl"} {
				for _, pre := range policyPrefixes {
					for _, probe := range policyProbes {
						if probe == "starttls" && tlsCfg {
							continue
						}
						fams = append(fams, &family{one: true, srv: &srvCase{Half: "policy", TLS: tlsCfg, Insecure: insecure, Wrap: wrap, Prefix: pre, Probe: probe}})
					}
				}
			}
		}
	}
	// ---- client families ----
	addCli := func(greeting, pre, okLine string, sfx suffixSpec, after string, k int) {
		c := &cliCase{Half: "client", Greeting: greeting, Pre: pre, OKLine: okLine, Suffix: sfx.Text, After: after}
		fams = append(fams, &family{cli: c, cuts: cutSets(len(c.stream()), k)})
	}
	for _, g := range []string{"ok", "ok-caps", "preauth", "bye"} {
		k := kCli
		if g == "preauth" || g == "bye" {
			k = 1
		}
		for _, sfx := range cliSuffixes {
			for _, after := range []string{"plain", "close", "tlsjunk", "tls"} {
				kk := k
				if k == kCli && len(okLines["ok"])+len(sfx.Text) <= 26 {
					kk = k + 1
				}
				addCli(g, "", "ok", sfx, after, kk)
			}
		}
		for _, sfx := range cliSuffixes[:3] {
			if sfx.Name == "capability" {
				continue
			}
			for _, after := range []string{"tls", "close"} {
				addCli(g, earlyCaps, "ok", sfx, after, k)
				addCli(g, "", "ok-code", sfx, after, k)
			}
		}
		for _, sfx := range cliSuffixes[:2] {
			for _, after := range []string{"plain", "close"} {
				addCli(g, "", "no", sfx, after, 1)
			}
		}
	}

	// prefix sums
	offs := make([]int, len(fams)+1)
	for i, f := range fams {
		offs[i+1] = offs[i] + f.size()
	}
	total := offs[len(fams)]
	fmt.Printf("C17: %d families, %d cases (server: <= %d cuts%s; client: <= %d cuts, streams of <= 26 bytes one more; PREAUTH/BYE greetings and refused STARTTLS <= 1 cut)\n", len(fams), total, kSrv, map[bool]string{true: "", false: ", streams of <= 26 bytes one more"}[thorough], kCli)

	nw := runtime.GOMAXPROCS(0)
	pool := make(chan *worker, nw)
	for i := 0; i < nw; i++ {
		pool <- &worker{servers: map[string]*srvkit.StubServer{}}
	}
	var (
		srvCases, srvHello, srvHS, srvLogin, srvBuffered, srvGlueOK, srvClosedEarly, srvRecords int64
		polCases                                                                                int64
		cliCases, cliLive, cliErr, cliDead, cliBuffered, cliPeerHS, cliPlainAfter               int64
		cliHandlerLegit, cliRaced                                                               int64
	)
	outcomes := sync.Map{}
	vk.Parallel(total, func(idx int) {
		fi := sort.Search(len(fams), func(i int) bool { return offs[i+1] > idx })
		f := fams[fi]
		ci := idx - offs[fi]
		run.AddEvals(1)
		switch {
		case f.srv != nil && f.one:
			ws := <-pool
			c := *f.srv
			fs := runPolicyCase(ws, &c, nil)
			pool <- ws
			atomic.AddInt64(&polCases, 1)
			run.Nontrivial(fmt.Sprintf("policy/%v/%v/%s/%s", c.TLS, c.Insecure, c.Probe, strings.Join(c.Prefix, "")))
			for _, x := range fs {
				cc := c
				report(x, caseSizeSrv(&cc), map[string]interface{}{"what": x.Msg, "case": cc, "description": cc.describe()}, func() []finding {
					w := &worker{servers: map[string]*srvkit.StubServer{}}
					defer w.close()
					return runPolicyCase(w, &cc, nil)
				})
			}
		case f.srv != nil:
			ws := <-pool
			c := *f.srv
			c.Cuts = toInts(f.cuts[ci])
			fs, info := runSrvCase(ws, &c, nil)
			pool <- ws
			atomic.AddInt64(&srvCases, 1)
			if c.Mode != "none" {
				atomic.AddInt64(&srvHello, 1)
			}
			if info.Handshake {
				atomic.AddInt64(&srvHS, 1)
			}
			if info.LoginInTLS {
				atomic.AddInt64(&srvLogin, 1)
			}
			if info.Buffered > 0 && c.TLS {
				atomic.AddInt64(&srvBuffered, 1)
				run.NontrivialN(1)
			}
			if info.ClosedEarly {
				atomic.AddInt64(&srvClosedEarly, 1)
			}
			if c.Mode == "glue" && info.LoginInTLS {
				atomic.AddInt64(&srvGlueOK, 1)
			}
			atomic.AddInt64(&srvRecords, int64(info.Records))
			outcomes.LoadOrStore(fmt.Sprintf("server tls=%v mode=%s suffix=%v buffered=%v handshake=%v closed-before-hello=%v", c.TLS, c.Mode, c.Suffix != "", info.Buffered > 0, info.Handshake, info.ClosedEarly), struct{}{})
			for _, x := range fs {
				cc := c
				report(x, caseSizeSrv(&cc), map[string]interface{}{"what": x.Msg, "case": cc, "description": cc.describe()}, func() []finding {
					w := &worker{servers: map[string]*srvkit.StubServer{}}
					defer w.close()
					r, _ := runSrvCase(w, &cc, nil)
					return r
				})
			}
		default:
			c := *f.cli
			c.Cuts = toInts(f.cuts[ci])
			fs, info := runCliCase(&c, nil)
			atomic.AddInt64(&cliCases, 1)
			switch {
			case !info.Client:
				atomic.AddInt64(&cliErr, 1)
			case info.NoopErr == "":
				atomic.AddInt64(&cliLive, 1)
			default:
				atomic.AddInt64(&cliDead, 1)
			}
			if info.Buffered > 0 {
				atomic.AddInt64(&cliBuffered, 1)
				run.NontrivialN(1)
			}
			if info.PeerHS {
				atomic.AddInt64(&cliPeerHS, 1)
			}
			if info.ClientPlainAfter != "" {
				atomic.AddInt64(&cliPlainAfter, 1)
			}
			if len(info.Handler) > 0 {
				atomic.AddInt64(&cliHandlerLegit, 1)
			}
			if info.PlainCapability > 0 {
				atomic.AddInt64(&cliRaced, 1)
			}
			outcomes.LoadOrStore(fmt.Sprintf("client greeting=%s ok=%s pre=%v suffix=%v after=%s buffered=%v -> works=%v", c.Greeting, c.OKLine, c.Pre != "", c.Suffix != "", c.After, info.Buffered > 0, info.Client && info.NoopErr == ""), struct{}{})
			for _, x := range fs {
				cc := c
				report(x, caseSizeCli(&cc), map[string]interface{}{"what": x.Msg, "case": cc, "description": cc.describe()}, func() []finding {
					r, _ := runCliCase(&cc, nil)
					return r
				})
			}
		}
	})
	for i := 0; i < nw; i++ {
		(<-pool).close()
	}

	nOut := 0
	outcomes.Range(func(k, v interface{}) bool { nOut++; return true })

	fmt.Printf("server: %d segmentation cases (%d with injected bytes already buffered at the switch), %d with a ClientHello phase, %d connections closed by the server before a ClientHello could be sent, %d TLS handshakes completed, %d LOGINs accepted inside TLS (%d of them with the ClientHello pipelined behind the STARTTLS line), %d TLS records checked; %d policy cases\n",
		srvCases, srvBuffered, srvHello, srvClosedEarly, srvHS, srvLogin, srvGlueOK, srvRecords, polCases)
	fmt.Printf("client: %d cases (%d with post-boundary bytes buffered at the switch): refused in %d (timing-dependent split: NewStartTLS error %d, dead client %d), a working client in %d; peer-side TLS handshakes completed %d (timing-dependent: the peer may finish its side just before the client aborts); client wrote non-TLS bytes after STARTTLS in %d cases, CAPABILITY sent before STARTTLS by goroutine timing in %d cases (informational)\n",
		cliCases, cliBuffered, cliErr+cliDead, cliErr, cliDead, cliLive, cliPeerHS, cliPlainAfter, cliRaced)
	fmt.Printf("distinct outcome classes: %d\n", nOut)

	run.Set("families", int64(len(fams)))
	run.Set("server_segmentation_cases", srvCases)
	run.Set("server_cases_injected_bytes_buffered_at_switch", srvBuffered)
	run.Set("server_cases_with_clienthello_phase", srvHello)
	run.Set("server_closed_before_clienthello", srvClosedEarly)
	run.Set("server_tls_handshakes_completed", srvHS)
	run.Set("server_logins_inside_tls", srvLogin)
	run.Set("server_pipelined_clienthello_accepted", srvGlueOK)
	run.Set("server_tls_records_checked", srvRecords)
	run.Set("server_policy_cases", polCases)
	run.Set("client_cases", cliCases)
	run.Set("client_cases_bytes_buffered_at_switch", cliBuffered)
	run.Set("client_refused_error_or_dead_client", cliErr+cliDead)
	run.Set("client_newstarttls_error_timing_dependent_split", cliErr)
	run.Set("client_dead_client_returned_timing_dependent_split", cliDead)
	run.Set("client_working_client_returned", cliLive)
	run.Set("client_peer_tls_handshakes_completed", cliPeerHS)
	run.Set("client_plaintext_written_after_starttls_informational", cliPlainAfter)
	run.Set("client_cases_with_legitimate_handler_calls", cliHandlerLegit)
	run.Set("client_cases_capability_sent_before_starttls_by_timing", cliRaced)
	run.Set("outcome_classes", int64(nOut))
	run.Set("max_cuts_server", int64(kSrv))
	run.Set("max_cuts_client", int64(kCli))
	run.Sample("server", (&srvCase{Half: "server", TLS: true, Suffix: "b LOGIN u p\r\n", Cuts: []int{14}, Mode: "hello"}).describe())
	run.Sample("client", (&cliCase{Half: "client", Greeting: "ok", OKLine: "ok", Suffix: "* 7 EXISTS\r\n", Cuts: []int{15}, After: "tls"}).describe())

	// report: shortest input per key, re-executed 5 times
	keys := make([]string, 0, len(founds))
	for k := range founds {
		keys = append(keys, k)
	}
	sort.Strings(keys)
	for _, k := range keys {
		f := founds[k]
		rep := 0
		for i := 0; i < 5; i++ {
			for _, x := range f.rerun() {
				if x.Key == k {
					rep++
					break
				}
			}
		}
		f.detail["hits"] = f.hits
		f.detail["reproduced_of_5"] = rep
		fmt.Printf("violation key=%s hits=%d reproduced=%d/5 shortest: %s\n    %s\n", k, f.hits, rep, f.detail["description"], f.msg)
		run.Violation(k, f.detail)
	}

	// non-vacuity (only meaningful when nothing was found: a defect may well prevent every upgrade)
	if len(keys) == 0 {
		if srvLogin == 0 || srvHS == 0 {
			engine("non-vacuity: no server-side handshake + LOGIN inside TLS completed")
		}
		if cliLive == 0 {
			engine("non-vacuity: no client-side STARTTLS upgrade completed")
		}
		if srvBuffered == 0 || cliBuffered == 0 {
			engine("non-vacuity: no case with plaintext buffered at the switch")
		}
	}

	run.Exhaustive = true
	srvRule := fmt.Sprintf("<= %d writes", kSrv+1)
	if !thorough {
		srvRule += fmt.Sprintf(" (<= %d for streams of <= 26 bytes)", kSrv+2)
	}
	run.Rule = fmt.Sprintf("server: Options.TLSConfig {nil,set} x InsecureAuth {off,on} x %d suffixes appended to 'a STARTTLS CRLF' x every segmentation into %s x {nothing more, genuine TLS ClientHello then 'c LOGIN tu tp' inside TLS}; ClientHello pipelined behind the STARTTLS line (first 1/4/5/6/64/all bytes in the same segment) x every segmentation of the line into <= 3 writes; policy table: 4 configurations x 3 session kinds x %d prefixes x %d probes. client: greeting {OK, OK [CAPABILITY], PREAUTH, BYE} x STARTTLS completion {OK, OK [CAPABILITY..X-OKCODE], NO} x {nothing, '* CAPABILITY .. X-EARLY'} before it x %d suffixes after it x every segmentation into <= %d writes (one more for streams <= 26 bytes; PREAUTH/BYE/NO: <= 2 writes) x peer then {keeps sending plaintext IMAP and closes, closes, sends a TLS-looking junk record and closes, is a genuine TLS server answering CAPABILITY with X-INSIDE-TLS}. non-trivial = cases in which post-boundary bytes sat in the bufio.Reader at the switch",
		len(srvSuffixes), srvRule, len(policyPrefixes), len(policyProbes), len(cliSuffixes), kCli+1)
	run.Assume("NewStartTLS does not force the TLS handshake (it is performed lazily by the first read/write), so with a hostile peer it may return a client instead of an error depending on goroutine timing; a returned client on which Caps() is nil and NOOP fails is counted as the statement's 'error' outcome (the statement forbids interpreting the plaintext, not late failure)")
	run.Assume("inside TLS the driver logs in as tu/tp while the plaintext suffix uses u/p, so every backend call is attributable")
	run.Assume("'nothing after the OK line but TLS records' is judged on the raw bytes the server wrote to the in-memory socket, with an own record-header check (type 20..23, version 3.x, length <= 18432, complete)")
	run.Assume("capabilities that arrive in plaintext before the switch (greeting code, untagged CAPABILITY before the completion, CAPABILITY code of the STARTTLS completion itself) must not be what Caps() returns after the switch (RFC 9051 6.2.1: the client MUST discard cached capabilities)")
	run.Assume("a BYE greeting is only required to make NewStartTLS return; whether the client wrote plaintext after STARTTLS is recorded as an informational counter, not judged")
	run.Finish()
}

// ------------------------------------------------------------------------------------------
// replay
// ------------------------------------------------------------------------------------------

func replay() {
	b, err := os.ReadFile(run.Replay)
	if err != nil {
		engine("cannot read %s: %v", run.Replay, err)
	}
	var f struct {
		Key    string
		Detail struct {
			Case json.RawMessage
		}
	}
	if err := json.Unmarshal(b, &f); err != nil {
		engine("bad replay file: %v", err)
	}
	var head struct{ Half string }
	if err := json.Unmarshal(f.Detail.Case, &head); err != nil {
		engine("bad replay file (case): %v", err)
	}
	fmt.Printf("replaying key %s\n", f.Key)
	hits := 0
	const rounds = 5
	for i := 0; i < rounds; i++ {
		var w io.Writer
		if i == 0 {
			w = os.Stdout
		}
		var fs []finding
		switch head.Half {
		case "server", "policy":
			var c srvCase
			if err := json.Unmarshal(f.Detail.Case, &c); err != nil {
				engine("bad server case: %v", err)
			}
			if i == 0 {
				fmt.Println(c.describe())
			}
			ws := &worker{servers: map[string]*srvkit.StubServer{}}
			if head.Half == "policy" {
				fs = runPolicyCase(ws, &c, w)
			} else {
				fs, _ = runSrvCase(ws, &c, w)
			}
			ws.close()
		case "client":
			var c cliCase
			if err := json.Unmarshal(f.Detail.Case, &c); err != nil {
				engine("bad client case: %v", err)
			}
			if i == 0 {
				fmt.Println(c.describe())
			}
			fs, _ = runCliCase(&c, w)
		default:
			engine("unknown half %q", head.Half)
		}
		run.AddEvals(1)
		seen := false
		for _, x := range fs {
			if i == 0 {
				fmt.Printf("VIOLATION key=%s: %s\n", x.Key, x.Msg)
			}
			if x.Key == f.Key {
				seen = true
			}
			if i == 0 {
				run.Violation(x.Key, map[string]interface{}{"what": x.Msg, "case": f.Detail.Case})
			}
		}
		if seen {
			hits++
		}
		if i == 0 && len(fs) == 0 {
			fmt.Println("no violation on this tree")
		}
	}
	fmt.Printf("key %s reproduced in %d of %d executions\n", f.Key, hits, rounds)
	run.Finish()
}
