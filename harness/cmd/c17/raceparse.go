package main

// copy of vx.ParseRaceReports (package vx depends on the scheduler shim, which only exists in
// instrumented builds)

import (
	"sort"
	"strconv"
	"strings"
)

type RaceReport struct {
	Item  int
	Key   string // the first non-runtime function of each of the two stacks, sorted
	Text  string
	Inner bool // both sides are inside the given package prefixes
}

// ParseRaceReports extracts the race detector's reports from the workers' stderr. pkgs are the
// import-path substrings that count as "code under test"; reports with a side whose first
// non-runtime frame is elsewhere (harness code) are returned with Inner=false.
func ParseRaceReports(stderr string, pkgs []string) []RaceReport {
	var out []RaceReport
	item := -1
	lines := strings.Split(stderr, "\n")
	for i := 0; i < len(lines); i++ {
		l := lines[i]
		if strings.HasPrefix(l, "VX-ITEM ") {
			item, _ = strconv.Atoi(strings.TrimSpace(l[8:]))
			continue
		}
		if !strings.HasPrefix(l, "WARNING: DATA RACE") {
			continue
		}
		var text []string
		var sides []string
		j := i + 1
		for ; j < len(lines) && !strings.HasPrefix(lines[j], "=================="); j++ {
			text = append(text, lines[j])
			t := lines[j]
			if strings.Contains(t, " by goroutine ") && (strings.HasPrefix(t, "Read at") || strings.HasPrefix(t, "Write at") || strings.HasPrefix(t, "Previous read at") || strings.HasPrefix(t, "Previous write at") || strings.HasPrefix(t, "Atomic") || strings.HasPrefix(t, "Previous atomic")) {
				// first non-runtime frame below
				fn := "?"
				for k := j + 1; k < len(lines) && strings.TrimSpace(lines[k]) != ""; k += 2 {
					f := strings.TrimSpace(lines[k])
					if strings.HasPrefix(f, "runtime.") || strings.HasPrefix(f, "internal/") {
						continue
					}
					fn = strings.TrimSuffix(f, "()")
					break
				}
				sides = append(sides, fn)
			}
		}
		sort.Strings(sides)
		inner := len(sides) == 2
		for _, sd := range sides {
			ok := false
			for _, p := range pkgs {
				if strings.Contains(sd, p) {
					ok = true
				}
			}
			if !ok {
				inner = false
			}
		}
		for k := range sides {
			if idx := strings.LastIndex(sides[k], "/"); idx >= 0 {
				sides[k] = sides[k][idx+1:]
			}
		}
		if len(text) > 60 {
			text = text[:60]
		}
		out = append(out, RaceReport{Item: item, Key: strings.Join(sides, "|"), Text: strings.Join(text, "\n"), Inner: inner})
		i = j
	}
	return out
}
