// C19 — SearchCriteria.And is intersection; multi-key SEARCH is order-independent.
// Exhaustive over ordered pairs (and triples) of criteria operands against an independent
// matcher on a message universe that distinguishes every field; and every sequence of <= 3/4
// SEARCH keys sent to a real server connection.
package main

import (
	"encoding/json"
	"fmt"
	"os"
	"reflect"
	"strings"
	"sync"
	"sync/atomic"
	"time"

	imap "github.com/emersion/go-imap/v2"
	"github.com/emersion/go-imap/v2/imapserver"
	"github.com/emersion/go-imap/v2/verif/refmodel"
	"github.com/emersion/go-imap/v2/verif/srvkit"
	"github.com/emersion/go-imap/v2/verif/vk"
)

var run *vk.Run
var universe = refmodel.Universe()

// thinUniverse: every 5th message of the universe (used for the longest key sequences only)
var thinUniverse = func() []*refmodel.Msg {
	var out []*refmodel.Msg
	for i, m := range universe {
		if i%5 == 0 {
			out = append(out, m)
		}
	}
	return out
}()

type operand struct {
	name string
	c    *imap.SearchCriteria
	bits []uint64
	leaf bool
}

func bitsOf(c *imap.SearchCriteria) []uint64 {
	b := make([]uint64, (len(universe)+63)/64)
	for i, m := range universe {
		if refmodel.Match(c, m) {
			b[i/64] |= 1 << uint(i%64)
		}
	}
	return b
}

type basic struct {
	name  string
	field string
	c     imap.SearchCriteria
}

func basics() []basic {
	d := refmodel.Day
	seq := func(a, b uint32) imap.SeqSet { var s imap.SeqSet; s.AddRange(a, b); return s }
	uid := func(a, b imap.UID) imap.UIDSet { var s imap.UIDSet; s.AddRange(a, b); return s }
	return []basic{
		{"seq 1", "SeqNum", imap.SearchCriteria{SeqNum: []imap.SeqSet{seq(1, 1)}}},
		{"seq 5", "SeqNum", imap.SearchCriteria{SeqNum: []imap.SeqSet{seq(5, 5)}}},
		{"seq 1:3", "SeqNum", imap.SearchCriteria{SeqNum: []imap.SeqSet{seq(1, 3)}}},
		{"uid 2", "UID", imap.SearchCriteria{UID: []imap.UIDSet{uid(2, 2)}}},
		{"uid 9:*", "UID", imap.SearchCriteria{UID: []imap.UIDSet{uid(9, 0)}}},
		// the saved-search marker "$": an empty set with an identity; without a saved result it
		// selects nothing, and that constraint must survive And like any other
		{"uid $", "UID", imap.SearchCriteria{UID: []imap.UIDSet{imap.SearchRes()}}},
		{"since d", "Since", imap.SearchCriteria{Since: d(0)}},
		{"since d+1", "Since", imap.SearchCriteria{Since: d(1)}},
		{"before d", "Before", imap.SearchCriteria{Before: d(0)}},
		{"before d+1", "Before", imap.SearchCriteria{Before: d(1)}},
		{"sentsince d", "SentSince", imap.SearchCriteria{SentSince: d(0)}},
		{"sentsince d+1", "SentSince", imap.SearchCriteria{SentSince: d(1)}},
		{"sentbefore d", "SentBefore", imap.SearchCriteria{SentBefore: d(0)}},
		{"sentbefore d+1", "SentBefore", imap.SearchCriteria{SentBefore: d(1)}},
		{"header subject hello", "Header", imap.SearchCriteria{Header: []imap.SearchCriteriaHeaderField{{Key: "Subject", Value: "hello"}}}},
		{"header x-spam present", "Header", imap.SearchCriteria{Header: []imap.SearchCriteriaHeaderField{{Key: "X-Spam"}}}},
		{"header subject other", "Header", imap.SearchCriteria{Header: []imap.SearchCriteriaHeaderField{{Key: "SUBJECT", Value: "OTHER"}}}},
		{"body hello", "Body", imap.SearchCriteria{Body: []string{"hello"}}},
		{"body fox", "Body", imap.SearchCriteria{Body: []string{"FOX"}}},
		{"text quick", "Text", imap.SearchCriteria{Text: []string{"quick"}}},
		{"text alice", "Text", imap.SearchCriteria{Text: []string{"alice"}}},
		{"flag seen", "Flag", imap.SearchCriteria{Flag: []imap.Flag{imap.FlagSeen}}},
		{"flag SEEN upper", "Flag", imap.SearchCriteria{Flag: []imap.Flag{"\\SEEN"}}},
		{"flag kw", "Flag", imap.SearchCriteria{Flag: []imap.Flag{"kw"}}},
		{"notflag seen", "NotFlag", imap.SearchCriteria{NotFlag: []imap.Flag{imap.FlagSeen}}},
		{"notflag kw", "NotFlag", imap.SearchCriteria{NotFlag: []imap.Flag{"kw"}}},
		{"larger 50", "Larger", imap.SearchCriteria{Larger: 50}},
		{"larger 500", "Larger", imap.SearchCriteria{Larger: 500}},
		{"smaller 50", "Smaller", imap.SearchCriteria{Smaller: 50}},
		{"smaller 500", "Smaller", imap.SearchCriteria{Smaller: 500}},
		{"modseq 50", "ModSeq", imap.SearchCriteria{ModSeq: &imap.SearchCriteriaModSeq{ModSeq: 50}}},
		{"modseq 500", "ModSeq", imap.SearchCriteria{ModSeq: &imap.SearchCriteriaModSeq{ModSeq: 500}}},
		{"empty", "", imap.SearchCriteria{}},
	}
}

// conj builds the conjunction of two basic leaves *without* And: different scalar fields are
// set side by side; slice fields are appended. ok=false when both set the same scalar field.
func conj(a, b basic) (*imap.SearchCriteria, bool) {
	scalar := map[string]bool{"Since": true, "Before": true, "SentSince": true, "SentBefore": true, "Larger": true, "Smaller": true, "ModSeq": true}
	if a.field == b.field && scalar[a.field] {
		return nil, false
	}
	c := refmodel.CloneCriteria(&a.c)
	o := refmodel.CloneCriteria(&b.c)
	switch b.field {
	case "SeqNum":
		c.SeqNum = append(c.SeqNum, o.SeqNum...)
	case "UID":
		c.UID = append(c.UID, o.UID...)
	case "Since":
		c.Since = o.Since
	case "Before":
		c.Before = o.Before
	case "SentSince":
		c.SentSince = o.SentSince
	case "SentBefore":
		c.SentBefore = o.SentBefore
	case "Header":
		c.Header = append(c.Header, o.Header...)
	case "Body":
		c.Body = append(c.Body, o.Body...)
	case "Text":
		c.Text = append(c.Text, o.Text...)
	case "Flag":
		c.Flag = append(c.Flag, o.Flag...)
	case "NotFlag":
		c.NotFlag = append(c.NotFlag, o.NotFlag...)
	case "Larger":
		c.Larger = o.Larger
	case "Smaller":
		c.Smaller = o.Smaller
	case "ModSeq":
		c.ModSeq = o.ModSeq
	}
	return c, true
}

func andKey(a, b *operand, res *imap.SearchCriteria, what string) string {
	// classify by the fields that And dropped (non-zero in an operand, zero in the result)
	var dropped []string
	va, vb, vr := reflect.ValueOf(*a.c), reflect.ValueOf(*b.c), reflect.ValueOf(*res)
	for i := 0; i < vr.NumField(); i++ {
		if (!va.Field(i).IsZero() || !vb.Field(i).IsZero()) && vr.Field(i).IsZero() {
			dropped = append(dropped, vr.Type().Field(i).Name)
		}
	}
	if len(dropped) == 0 {
		return what + ":no-field-dropped"
	}
	return what + ":dropped=" + strings.Join(dropped, "+")
}

func checkAnd(a, b *operand) {
	ac := refmodel.CloneCriteria(a.c)
	bc := refmodel.CloneCriteria(b.c)
	bcBefore := refmodel.CloneCriteria(b.c)
	ac.And(bc)
	if !reflect.DeepEqual(bc, bcBefore) {
		run.Violation(andKey(a, b, ac, "And-mutates-operand"), map[string]interface{}{"a": a.name, "b": b.name})
	}
	for i, m := range universe {
		want := a.bits[i/64]&(1<<uint(i%64)) != 0 && b.bits[i/64]&(1<<uint(i%64)) != 0
		if got := refmodel.Match(ac, m); got != want {
			what := "And-matches-too-much"
			if want {
				what = "And-matches-too-little"
			}
			run.Violation(andKey(a, b, ac, what), map[string]interface{}{"a": a.name, "b": b.name, "result": fmt.Sprintf("%+v", *ac), "message_index": i, "got": got, "want": want})
			return
		}
	}
}

// ---------- server parser part ----------

type key struct {
	wire string
	sem  func(m *refmodel.Msg) bool
}

func hasFlag(m *refmodel.Msg, f string) bool {
	for _, x := range m.Flags {
		if strings.EqualFold(x, f) {
			return true
		}
	}
	return false
}

func dayNum(n int) int { t := refmodel.Day(n); y, mo, d := t.Date(); return y*10000 + int(mo)*100 + d }
func mday(m *refmodel.Msg) int {
	y, mo, d := m.Internal.Date()
	return y*10000 + int(mo)*100 + d
}
func sday(m *refmodel.Msg) (int, bool) {
	if m.Sent == nil {
		return 0, false
	}
	y, mo, d := m.Sent.Date()
	return y*10000 + int(mo)*100 + d, true
}

func keys() []key {
	ds := func(n int) string { return refmodel.Day(n).Format("2-Jan-2006") }
	flag := func(f string) func(*refmodel.Msg) bool { return func(m *refmodel.Msg) bool { return hasFlag(m, f) } }
	not := func(f func(*refmodel.Msg) bool) func(*refmodel.Msg) bool {
		return func(m *refmodel.Msg) bool { return !f(m) }
	}
	hdr := func(k, v string) func(*refmodel.Msg) bool {
		return func(m *refmodel.Msg) bool {
			vals, ok := m.Header[k]
			if !ok {
				return false
			}
			if v == "" {
				return true
			}
			for _, x := range vals {
				if strings.Contains(strings.ToLower(x), v) {
					return true
				}
			}
			return false
		}
	}
	ks := []key{
		{"ALL", func(m *refmodel.Msg) bool { return true }},
		{"$", func(m *refmodel.Msg) bool { return false }}, // no saved result in the reference: selects nothing
		{"ANSWERED", flag("\\Answered")}, {"DELETED", flag("\\Deleted")}, {"DRAFT", flag("\\Draft")},
		{"FLAGGED", flag("\\Flagged")}, {"SEEN", flag("\\Seen")}, {"RECENT", flag("\\Recent")},
		{"UNANSWERED", not(flag("\\Answered"))}, {"UNDELETED", not(flag("\\Deleted"))}, {"UNDRAFT", not(flag("\\Draft"))},
		{"UNFLAGGED", not(flag("\\Flagged"))}, {"UNSEEN", not(flag("\\Seen"))},
		{"NEW", func(m *refmodel.Msg) bool { return hasFlag(m, "\\Recent") && !hasFlag(m, "\\Seen") }},
		{"OLD", not(flag("\\Recent"))},
		{"KEYWORD kw", flag("kw")}, {"UNKEYWORD kw", not(flag("kw"))},
		{"LARGER 50", func(m *refmodel.Msg) bool { return m.Size > 50 }},
		{"LARGER 500", func(m *refmodel.Msg) bool { return m.Size > 500 }},
		{"SMALLER 50", func(m *refmodel.Msg) bool { return m.Size < 50 }},
		{"SMALLER 500", func(m *refmodel.Msg) bool { return m.Size < 500 }},
		{"SINCE " + ds(0), func(m *refmodel.Msg) bool { return mday(m) >= dayNum(0) }},
		{"BEFORE " + ds(1), func(m *refmodel.Msg) bool { return mday(m) < dayNum(1) }},
		{"ON " + ds(1), func(m *refmodel.Msg) bool { return mday(m) == dayNum(1) }},
		{"SENTSINCE " + ds(0), func(m *refmodel.Msg) bool { d, ok := sday(m); return ok && d >= dayNum(0) }},
		{"SENTBEFORE " + ds(0), func(m *refmodel.Msg) bool { d, ok := sday(m); return ok && d < dayNum(0) }},
		{"SENTON " + ds(1), func(m *refmodel.Msg) bool { d, ok := sday(m); return ok && d == dayNum(1) }},
		{"FROM alice", hdr("from", "alice")}, {"SUBJECT \"hello\"", hdr("subject", "hello")},
		{"HEADER X-Spam \"\"", hdr("x-spam", "")},
		{"BODY hello", func(m *refmodel.Msg) bool { return strings.Contains(m.Body, "hello") }},
		{"TEXT {3+}\r\nfox", func(m *refmodel.Msg) bool { return strings.Contains(m.Text, "fox") }},
		{"UID 2", func(m *refmodel.Msg) bool { return m.UID == 2 }},
		{"UID 9:*", func(m *refmodel.Msg) bool { return m.UID >= 9 }},
		{"1", func(m *refmodel.Msg) bool { return m.Seq == 1 }},
		{"5:*", func(m *refmodel.Msg) bool { return m.Seq >= 5 }},
		{"NOT SEEN", not(flag("\\Seen"))},
		{"NOT (LARGER 50 UNSEEN)", func(m *refmodel.Msg) bool { return !(m.Size > 50 && !hasFlag(m, "\\Seen")) }},
		{"OR SEEN DELETED", func(m *refmodel.Msg) bool { return hasFlag(m, "\\Seen") || hasFlag(m, "\\Deleted") }},
		{"OR (SMALLER 50) LARGER 500", func(m *refmodel.Msg) bool { return m.Size < 50 || m.Size > 500 }},
		{"(SMALLER 500 NEW)", func(m *refmodel.Msg) bool { return m.Size < 500 && hasFlag(m, "\\Recent") && !hasFlag(m, "\\Seen") }},
	}
	return ks
}

func keyClass(w string) string {
	f := strings.Fields(w)
	k := strings.Trim(f[0], "(")
	if k[0] >= '0' && k[0] <= '9' {
		return "seqset"
	}
	return k
}

type worker struct {
	ss *srvkit.StubServer
	d  *srvkit.Driver
	n  int
}

func newWorker() *worker {
	w := &worker{}
	w.ss = srvkit.NewStubServer(imapserver.Options{InsecureAuth: true, Caps: imap.CapSet{imap.CapIMAP4rev1: {}, imap.CapLiteralPlus: {}}})
	w.reconnect()
	return w
}

func (w *worker) reconnect() {
	d, _, err := w.ss.Connect()
	if err != nil {
		run.EngineError("connect: %v", err)
	}
	w.d = d
	for _, c := range []string{"a LOGIN u p\r\n", "b SELECT INBOX\r\n"} {
		resps, closed, err := d.Do(c)
		t := srvkit.Tagged(resps)
		if err != nil || closed || len(t) != 1 || !strings.HasPrefix(t[0].Text, "OK") {
			run.EngineError("setup %q failed: %v %v", c, err, resps)
		}
	}
}

// search checks one key sequence; on failure the key of the violation is the smallest failing
// subsequence (so one defect yields one key however many longer commands contain it).
func (w *worker) search(seq []key) {
	what, detail := w.search1(seq)
	if what == "" {
		return
	}
	n := len(seq)
	best := seq
	for mask := 1; mask < 1<<uint(n)-1; mask++ {
		var sub []key
		for i := 0; i < n; i++ {
			if mask&(1<<uint(i)) != 0 {
				sub = append(sub, seq[i])
			}
		}
		if len(sub) >= len(best) {
			continue
		}
		if w2, _ := w.search1(sub); w2 != "" {
			best = sub
		}
	}
	var cl []string
	for _, k := range best {
		cl = append(cl, keyClass(k.wire))
	}
	sortStrings(cl)
	detail["minimal_failing_keys"] = fmt.Sprint(func() []string {
		var o []string
		for _, k := range best {
			o = append(o, k.wire)
		}
		return o
	}())
	run.Violation(what+strings.Join(cl, "+"), detail)
}

func (w *worker) search1(seq []key) (string, map[string]interface{}) {
	var parts []string
	for _, k := range seq {
		parts = append(parts, k.wire)
	}
	w.n++
	tag := fmt.Sprintf("s%d", w.n)
	line := tag + " SEARCH " + strings.Join(parts, " ") + "\r\n"
	before := len(w.d.Stub.Snapshot())
	resps, closed, err := w.d.Do(line)
	run.AddEvals(1)
	detail := map[string]interface{}{"command": line}
	if err != nil {
		if err == srvkit.ErrWatchdog {
			run.EngineError("watchdog on %q", line)
		}
		detail["error"] = err.Error()
		w.reconnect()
		return "search-cmd-malformed-output:", detail
	}
	t := srvkit.Tagged(resps)
	if closed || len(t) != 1 || t[0].Tag != tag || !strings.HasPrefix(t[0].Text, "OK") {
		detail["responses"] = fmt.Sprint(resps)
		if closed {
			w.reconnect()
		}
		return "search-cmd-not-ok:", detail
	}
	calls := w.d.Stub.Snapshot()
	if len(calls) != before+1 || calls[before].Method != "Search" {
		detail["calls"] = fmt.Sprint(calls[before:])
		return "search-cmd-no-single-backend-call:", detail
	}
	crit := calls[before].Args[1].(imap.SearchCriteria)
	// sequences of 4 keys are judged on a thinned universe (every 5th message; checked at start-up to
	// still separate every key of the alphabet from every other); shorter ones on the full universe
	uni := universe
	if len(seq) >= 4 {
		uni = thinUniverse
	}
	for i, m := range uni {
		want := true
		for _, k := range seq {
			if !k.sem(m) {
				want = false
				break
			}
		}
		if got := refmodel.Match(&crit, m); got != want {
			what := "search-keys-select-too-much:"
			if want {
				what = "search-keys-select-too-little:"
			}
			detail["criteria"] = fmt.Sprintf("%+v", crit)
			detail["message_index"] = i
			detail["got"], detail["want"] = got, want
			return what, detail
		}
	}
	return "", nil
}

func sortStrings(s []string) {
	for i := range s {
		for j := i + 1; j < len(s); j++ {
			if s[j] < s[i] {
				s[i], s[j] = s[j], s[i]
			}
		}
	}
}

func main() {
	run = vk.Start("C19", "exploration")
	bs := basics()
	// leaves
	var leaves []*operand
	for _, b := range bs {
		c := b.c
		leaves = append(leaves, &operand{name: b.name, c: refmodel.CloneCriteria(&c), leaf: true})
	}
	for _, b := range bs {
		if b.field == "" {
			continue
		}
		c := b.c
		leaves = append(leaves, &operand{name: "NOT(" + b.name + ")", c: &imap.SearchCriteria{Not: []imap.SearchCriteria{*refmodel.CloneCriteria(&c)}}, leaf: true})
	}
	orIdx := []int{0, 3, 5, 6, 9, 14, 17, 21, 24, 26, 29}
	for _, i := range orIdx {
		for _, j := range orIdx {
			if i == j {
				continue
			}
			a, b := bs[i].c, bs[j].c
			leaves = append(leaves, &operand{name: "OR(" + bs[i].name + "," + bs[j].name + ")", c: &imap.SearchCriteria{Or: [][2]imap.SearchCriteria{{*refmodel.CloneCriteria(&a), *refmodel.CloneCriteria(&b)}}}, leaf: true})
		}
	}
	operands := append([]*operand{}, leaves...)
	for i, a := range bs {
		for j, b := range bs {
			if i >= j || a.field == "" || b.field == "" {
				continue
			}
			if c, ok := conj(a, b); ok {
				operands = append(operands, &operand{name: "{" + a.name + " & " + b.name + "}", c: c})
			}
		}
	}
	for _, o := range operands {
		o.bits = bitsOf(o.c)
	}
	// sanity of the universe: every leaf is non-trivial, and for every pair of fields there are
	// leaves a, b whose intersection differs from both (so losing either constraint is visible)
	pop := func(b []uint64) int {
		n := 0
		for _, w := range b {
			for ; w != 0; w &= w - 1 {
				n++
			}
		}
		return n
	}
	fieldsSeen := map[string]bool{}
	for i, b := range bs {
		if b.field == "" {
			continue
		}
		fieldsSeen[b.field] = true
		if b.name == "uid $" {
			continue // selects nothing by construction
		}
		if n := pop(leaves[i].bits); n == 0 || n == len(universe) {
			run.EngineError("leaf %q is trivial on the universe (%d matches)", b.name, n)
		}
	}
	for f := range fieldsSeen {
		for g := range fieldsSeen {
			if f >= g {
				continue
			}
			ok := false
			for i, a := range bs {
				for j, b := range bs {
					if a.field != f || b.field != g {
						continue
					}
					da, db := false, false
					for k := range leaves[i].bits {
						in := leaves[i].bits[k] & leaves[j].bits[k]
						if in != leaves[i].bits[k] {
							da = true
						}
						if in != leaves[j].bits[k] {
							db = true
						}
					}
					if da && db {
						ok = true
					}
				}
			}
			if !ok {
				run.EngineError("universe cannot show the loss of a constraint for fields %s/%s", f, g)
			}
		}
	}
	run.Set("universe_messages", int64(len(universe)))
	run.Set("leaves", int64(len(leaves)))
	run.Set("operands", int64(len(operands)))

	if run.Replay != "" {
		b, _ := os.ReadFile(run.Replay)
		var f struct {
			Key    string
			Detail struct{ A, B, Command string }
		}
		json.Unmarshal(b, &f)
		fmt.Printf("replay: %s\n", b)
		if strings.HasPrefix(f.Key, "backend-matcher-") {
			backendPart(true) // the whole part: a few seconds
		}
		if f.Detail.Command != "" {
			w := newWorker()
			resps, _, err := w.d.Do(f.Detail.Command)
			fmt.Printf("responses: %v err=%v\ncalls: %+v\n", resps, err, w.d.Stub.Snapshot())
		}
		for _, a := range operands {
			for _, b := range operands {
				if a.name == f.Detail.A && b.name == f.Detail.B {
					checkAnd(a, b)
				}
			}
		}
		run.Finish()
	}

	t0 := time.Now()
	// A. pairs
	left := leaves
	if run.Thorough() {
		left = operands
	}
	var pairs int64
	vk.Parallel(len(left), func(i int) {
		for _, b := range operands {
			checkAnd(left[i], b)
			atomic.AddInt64(&pairs, 1)
		}
	})
	run.AddEvals(pairs)
	run.Set("and_pairs", pairs)
	fmt.Fprintf(os.Stderr, "c19: %d pairs done, t=%s\n", pairs, time.Since(t0))
	// non-trivial: pairs where both operands are non-empty and the intersection differs from both
	var nt int64
	for _, a := range left {
		for _, b := range operands {
			if !reflect.DeepEqual(a.bits, b.bits) {
				inter := false
				for k := range a.bits {
					if a.bits[k]&b.bits[k] != a.bits[k] || a.bits[k]&b.bits[k] != b.bits[k] {
						inter = true
					}
				}
				if inter {
					nt++
				}
			}
		}
	}
	run.NontrivialN(nt)
	// B. triples over the basic leaves: And(And(a,b),c)
	nb := len(bs)
	var triples int64
	vk.Parallel(nb*nb, func(ij int) {
		a, b := leaves[ij/nb], leaves[ij%nb]
		ab := refmodel.CloneCriteria(a.c)
		ab.And(refmodel.CloneCriteria(b.c))
		abo := &operand{name: "And(" + a.name + "," + b.name + ")", c: ab}
		abo.bits = make([]uint64, len(a.bits))
		for k := range a.bits {
			abo.bits[k] = a.bits[k] & b.bits[k] // what it must mean
		}
		for k := 0; k < nb; k++ {
			checkAnd(abo, leaves[k])
			atomic.AddInt64(&triples, 1)
		}
	})
	run.AddEvals(triples)
	run.Set("and_triples", triples)
	run.Sample("and-pair", map[string]string{"a": "smaller 500", "b": "larger 50", "law": "match(And(a,b),m) == match(a,m) && match(b,m) for all m"})

	// C. server parser
	ks := keys()
	for i := range ks {
		for j := range ks {
			if i >= j {
				continue
			}
			full, thin := false, false
			for _, m := range universe {
				if ks[i].sem(m) != ks[j].sem(m) {
					full = true
					break
				}
			}
			for _, m := range thinUniverse {
				if ks[i].sem(m) != ks[j].sem(m) {
					thin = true
					break
				}
			}
			if full && !thin {
				run.EngineError("thinned universe does not separate %q from %q", ks[i].wire, ks[j].wire)
			}
		}
	}
	depth := 3
	if run.Thorough() {
		depth = 4
	}
	var seqs [][]key
	var rec func(prefix []key, left int)
	rec = func(prefix []key, left int) {
		if len(prefix) > 0 {
			seqs = append(seqs, append([]key{}, prefix...))
		}
		if left == 0 {
			return
		}
		for _, k := range ks {
			rec(append(prefix, k), left-1)
		}
	}
	rec(nil, 3)
	if depth >= 4 {
		// sequences of 4 keys over one representative per key class (every other key of the alphabet)
		var reps []key
		for i, k := range ks {
			if i%2 == 0 {
				reps = append(reps, k)
			}
		}
		var rec4 func(prefix []key)
		rec4 = func(prefix []key) {
			if len(prefix) == 4 {
				seqs = append(seqs, append([]key{}, prefix...))
				return
			}
			for _, k := range reps {
				rec4(append(prefix, k))
			}
		}
		rec4(nil)
		run.Set("search_key_alphabet_depth4", int64(len(reps)))
	}
	fmt.Fprintf(os.Stderr, "c19: %d search commands to run, t=%s\n", len(seqs), time.Since(t0))
	nw := 16
	var wg sync.WaitGroup
	var next int64 = -1
	for i := 0; i < nw; i++ {
		wg.Add(1)
		go func() {
			defer wg.Done()
			w := newWorker()
			for {
				j := int(atomic.AddInt64(&next, 1))
				if j >= len(seqs) {
					break
				}
				w.search(seqs[j])
			}
			w.d.Close()
			w.ss.Close()
		}()
	}
	wg.Wait()
	run.Set("search_commands", int64(len(seqs)))
	run.Set("search_key_alphabet", int64(len(ks)))
	run.NontrivialN(int64(len(seqs)))
	run.Sample("search-command", "s1 SEARCH SMALLER 500 LARGER 50 NEW")
	// D. the in-memory backend's matcher on combined criteria
	backendPart(run.Thorough())
	run.Rule = "A: every ordered pair (leaf or operand, operand) of criteria built from 32 basic leaves (each field at 2 values, incl. unset), their NOTs, 90 ORs and all 2-field conjunction records; B: all triples of basic leaves via And(And(a,b),c); oracle: independent matcher over a universe of messages (product of seq, uid, internal day, sent day/absent, size, flag sets, header/body variants) — And must match exactly the intersection and must not mutate its operand. C: every sequence of <= 3 SEARCH keys from a 40-key alphabet (thorough: also every sequence of 4 keys over 20 representative keys, judged on a thinned universe) sent to a real connection; the criteria handed to the backend must select exactly the messages satisfying every key. D: a real imapmemserver mailbox holding 192 (thorough: 384) messages (internal day x sent day/absent x 2 sizes x 4 flag sets x 4 header/body variants; quick: half of the last product); 26 leaves (every field message.search looks at, 2 values each); criteria = leaf, NOT a, and for all ordered pairs And(a,b), And(a,NOT b), NOT And(a,b), OR a b, NOT OR a b, And(NOT a, NOT b), and for triples And(a, OR b c), OR a And(b,c) (quick: a and c = one leaf per field; thorough: all, plus And(NOT a, OR b c)); UserSession.Search (sequence form; also the UID form for leaf/And/OR) must select exactly what the reference matcher selects. non-trivial = pairs whose intersection differs from both operands + distinct SEARCH commands"
	run.Exhaustive = true
	run.Assume("dates are day-granular; ModSeq criteria are compared with empty metadata name/type (intersection = larger mod-sequence)")
	run.Assume("aliasing between And's result and its operand is not checked (the statement does not speak about it); mutation of the operand by And itself is")
	run.Finish()
}
