package main

// Part D: the reference use of the semantics, message.search of the in-memory backend (an anchor
// of the property), on combined criteria. A real imapmemserver mailbox holds a message universe;
// every criteria built from the leaves below — And results, NOT and OR sub-trees, sub-trees under
// And — is handed to the real UserSession.Search and the selected set is compared with the
// reference matcher.

import (
	"bytes"
	"fmt"
	"os"
	"sort"
	"strings"
	"sync/atomic"
	"time"

	imap "github.com/emersion/go-imap/v2"
	"github.com/emersion/go-imap/v2/imapserver"
	"github.com/emersion/go-imap/v2/imapserver/imapmemserver"
	"github.com/emersion/go-imap/v2/verif/refmodel"
	"github.com/emersion/go-imap/v2/verif/vk"
)

type litReader struct {
	*bytes.Reader
	n int64
}

func (l litReader) Size() int64 { return l.n }

type backendMsg struct {
	raw   []byte
	flags []imap.Flag
	t     time.Time
	model *refmodel.Msg
}

// backendUniverse: internal day x sent day/absent x size class x flag set x header/body variant.
func backendUniverse(thorough bool) []backendMsg {
	var out []backendMsg
	flagSets := [][]imap.Flag{nil, {imap.FlagSeen}, {imap.FlagSeen, "kw"}, {imap.FlagDeleted, imap.FlagAnswered}}
	type hb struct {
		hdr  [][2]string
		body string
	}
	hbs := []hb{
		{[][2]string{{"Subject", "Hello World"}, {"From", "alice@example.org"}}, "the quick brown fox"},
		{[][2]string{{"Subject", "Hello World"}, {"From", "alice@example.org"}}, "lazy dog hello"},
		{[][2]string{{"Subject", "other"}, {"X-Spam", "yes"}, {"To", "bob@example.org"}}, "the quick brown fox"},
		{[][2]string{{"Subject", "other"}, {"X-Spam", "yes"}, {"To", "bob@example.org"}}, "lazy dog hello and a fox"},
	}
	for _, iday := range []int{-1, 0, 1} {
		for _, sday := range []int{-1, 0, 1, 99} {
			for _, pad := range []int{0, 1500} {
				for fi, fl := range flagSets {
					for hi, h := range hbs {
						if !thorough && (fi+hi)%2 != 0 {
							continue // quick tier: half of the flag set x header/body product (every value of each still occurs with every day/size)
						}
						var sb strings.Builder
						hm := map[string][]string{}
						hdr := append([][2]string{}, h.hdr...)
						var sent *time.Time
						if sday != 99 {
							t := refmodel.Day(sday).Add(7 * time.Hour)
							sent = &t
							hdr = append(hdr, [2]string{"Date", t.Format("Mon, 02 Jan 2006 15:04:05 -0700")})
						}
						for _, kv := range hdr {
							sb.WriteString(kv[0] + ": " + kv[1] + "\r\n")
							hm[strings.ToLower(kv[0])] = append(hm[strings.ToLower(kv[0])], kv[1])
						}
						body := h.body
						if pad > 0 {
							body += "\r\n" + strings.Repeat("z", pad)
						}
						raw := sb.String() + "\r\n" + body
						it := refmodel.Day(iday).Add(13 * time.Hour)
						var fs []string
						for _, f := range fl {
							fs = append(fs, string(f))
						}
						n := uint32(len(out) + 1)
						out = append(out, backendMsg{raw: []byte(raw), flags: fl, t: it, model: &refmodel.Msg{
							Seq: n, UID: n, Internal: it, Sent: sent, Size: int64(len(raw)), Flags: fs, Header: hm, Body: body, Text: raw,
						}})
					}
				}
			}
		}
	}
	return out
}

type bleaf struct {
	name, field string
	c           imap.SearchCriteria
}

func backendLeaves(n uint32) []bleaf {
	d := refmodel.Day
	seq := func(a, b uint32) imap.SeqSet { var s imap.SeqSet; s.AddRange(a, b); return s }
	uid := func(a, b imap.UID) imap.UIDSet { var s imap.UIDSet; s.AddRange(a, b); return s }
	return []bleaf{
		{"seq 1:half", "SeqNum", imap.SearchCriteria{SeqNum: []imap.SeqSet{seq(1, n/2)}}},
		{"seq odd-block", "SeqNum", imap.SearchCriteria{SeqNum: []imap.SeqSet{seq(n/4, 3*n/4)}}},
		{"uid 9:*", "UID", imap.SearchCriteria{UID: []imap.UIDSet{uid(9, 0)}}},
		{"uid 1:third", "UID", imap.SearchCriteria{UID: []imap.UIDSet{uid(1, imap.UID(n/3))}}},
		{"since d", "Since", imap.SearchCriteria{Since: d(0)}},
		{"since d+1", "Since", imap.SearchCriteria{Since: d(1)}},
		{"before d", "Before", imap.SearchCriteria{Before: d(0)}},
		{"before d+1", "Before", imap.SearchCriteria{Before: d(1)}},
		{"sentsince d", "SentSince", imap.SearchCriteria{SentSince: d(0)}},
		{"sentsince d+1", "SentSince", imap.SearchCriteria{SentSince: d(1)}},
		{"sentbefore d", "SentBefore", imap.SearchCriteria{SentBefore: d(0)}},
		{"sentbefore d+1", "SentBefore", imap.SearchCriteria{SentBefore: d(1)}},
		{"header subject hello", "Header", imap.SearchCriteria{Header: []imap.SearchCriteriaHeaderField{{Key: "Subject", Value: "hello"}}}},
		{"header x-spam present", "Header", imap.SearchCriteria{Header: []imap.SearchCriteriaHeaderField{{Key: "X-Spam"}}}},
		{"body hello", "Body", imap.SearchCriteria{Body: []string{"hello"}}},
		{"body fox", "Body", imap.SearchCriteria{Body: []string{"FOX"}}},
		{"text quick", "Text", imap.SearchCriteria{Text: []string{"quick"}}},
		{"text alice", "Text", imap.SearchCriteria{Text: []string{"alice"}}},
		{"flag seen", "Flag", imap.SearchCriteria{Flag: []imap.Flag{imap.FlagSeen}}},
		{"flag kw", "Flag", imap.SearchCriteria{Flag: []imap.Flag{"kw"}}},
		{"notflag seen", "NotFlag", imap.SearchCriteria{NotFlag: []imap.Flag{imap.FlagSeen}}},
		{"notflag deleted", "NotFlag", imap.SearchCriteria{NotFlag: []imap.Flag{imap.FlagDeleted}}},
		{"larger 10", "Larger", imap.SearchCriteria{Larger: 10}},
		{"larger 1000", "Larger", imap.SearchCriteria{Larger: 1000}},
		{"smaller 1000", "Smaller", imap.SearchCriteria{Smaller: 1000}},
		{"smaller 100000", "Smaller", imap.SearchCriteria{Smaller: 100000}},
	}
}

type bform struct {
	name   string
	fields []string
	c      *imap.SearchCriteria
}

type backendWorker struct {
	sess *imapmemserver.UserSession
}

func newBackendWorker(u []backendMsg) *backendWorker {
	user := imapmemserver.NewUser("u", "p")
	if err := user.Create("INBOX", nil); err != nil {
		run.EngineError("backend part: create: %v", err)
	}
	for _, m := range u {
		if _, err := user.Append("INBOX", litReader{bytes.NewReader(m.raw), int64(len(m.raw))}, &imap.AppendOptions{Flags: m.flags, Time: m.t}); err != nil {
			run.EngineError("backend part: append: %v", err)
		}
	}
	sess := imapmemserver.NewUserSession(user)
	if _, err := sess.Select("INBOX", nil); err != nil {
		run.EngineError("backend part: select: %v", err)
	}
	return &backendWorker{sess}
}

func (w *backendWorker) check(f bform, u []backendMsg) {
	var want []uint32
	for _, m := range u {
		if refmodel.Match(f.c, m.model) {
			want = append(want, m.model.Seq)
		}
	}
	kinds := []imapserver.NumKind{imapserver.NumKindSeq}
	if f.name == "leaf" || f.name == "and" || f.name == "or" {
		kinds = append(kinds, imapserver.NumKindUID) // the number kind only changes how the selected set is reported
	}
	for _, kind := range kinds {
		data, err := w.sess.Search(kind, refmodel.CloneCriteria(f.c), &imap.SearchOptions{})
		var got []uint32
		if err == nil && data != nil && data.All != nil {
			switch s := data.All.(type) {
			case imap.SeqSet:
				got, _ = s.Nums()
			case imap.UIDSet:
				us, _ := s.Nums()
				for _, x := range us {
					got = append(got, uint32(x))
				}
			}
		}
		if err != nil || fmt.Sprint(got) != fmt.Sprint(want) {
			fs := append([]string{}, f.fields...)
			sort.Strings(fs)
			what := "too-much"
			if len(got) < len(want) {
				what = "too-little"
			}
			run.Violation("backend-matcher-selects-"+what+":"+f.name+":"+strings.Join(fs, "+"), map[string]interface{}{
				"criteria": fmt.Sprintf("%+v", *f.c), "got": clipNums(got), "want": clipNums(want), "err": fmt.Sprint(err), "uid_search": kind == imapserver.NumKindUID})
			return
		}
	}
}

func clipNums(n []uint32) string {
	s := fmt.Sprint(n)
	if len(s) > 200 {
		s = s[:200] + "…"
	}
	return s
}

func backendPart(thorough bool) {
	u := backendUniverse(thorough)
	ls := backendLeaves(uint32(len(u)))
	cl := func(c imap.SearchCriteria) imap.SearchCriteria { return *refmodel.CloneCriteria(&c) }
	and := func(a, b imap.SearchCriteria) *imap.SearchCriteria {
		r := refmodel.CloneCriteria(&a)
		r.And(refmodel.CloneCriteria(&b))
		return r
	}
	var forms []bform
	for _, a := range ls {
		forms = append(forms, bform{"leaf", []string{a.field}, refmodel.CloneCriteria(&a.c)})
		forms = append(forms, bform{"not", []string{a.field}, &imap.SearchCriteria{Not: []imap.SearchCriteria{cl(a.c)}}})
	}
	for _, a := range ls {
		for _, b := range ls {
			fs := []string{a.field, b.field}
			forms = append(forms, bform{"and", fs, and(a.c, b.c)})
			forms = append(forms, bform{"and-not", fs, and(a.c, imap.SearchCriteria{Not: []imap.SearchCriteria{cl(b.c)}})})
			forms = append(forms, bform{"not-and", fs, &imap.SearchCriteria{Not: []imap.SearchCriteria{*and(a.c, b.c)}}})
			forms = append(forms, bform{"or", fs, &imap.SearchCriteria{Or: [][2]imap.SearchCriteria{{cl(a.c), cl(b.c)}}}})
			forms = append(forms, bform{"not-or", fs, &imap.SearchCriteria{Not: []imap.SearchCriteria{{Or: [][2]imap.SearchCriteria{{cl(a.c), cl(b.c)}}}}}})
			forms = append(forms, bform{"not-and-not", fs, and(imap.SearchCriteria{Not: []imap.SearchCriteria{cl(a.c)}}, imap.SearchCriteria{Not: []imap.SearchCriteria{cl(b.c)}})})
		}
	}
	// three leaves: a sub-tree next to a top-level key and next to another sub-tree (one
	// representative per field on the outside in the quick tier)
	outer := ls
	if !thorough {
		outer = nil
		seen := map[string]bool{}
		for _, a := range ls {
			if !seen[a.field] {
				seen[a.field] = true
				outer = append(outer, a)
			}
		}
	}
	for _, a := range outer {
		for _, b := range ls {
			for _, c := range outer {
				fs := []string{a.field, b.field, c.field}
				or := imap.SearchCriteria{Or: [][2]imap.SearchCriteria{{cl(b.c), cl(c.c)}}}
				forms = append(forms, bform{"and-or", fs, and(a.c, or)})
				forms = append(forms, bform{"or-and", fs, &imap.SearchCriteria{Or: [][2]imap.SearchCriteria{{cl(a.c), *and(b.c, c.c)}}}})
				if thorough {
					forms = append(forms, bform{"not-and-or", fs, and(imap.SearchCriteria{Not: []imap.SearchCriteria{cl(a.c)}}, or)})
				}
			}
		}
	}
	// non-vacuity of the universe: every leaf selects some but not all messages
	for _, a := range ls {
		n := 0
		for _, m := range u {
			if refmodel.Match(&a.c, m.model) {
				n++
			}
		}
		if a.name == "larger 10" || a.name == "smaller 100000" {
			continue // bounds that hold for every message: there to be combined with the tighter one
		}
		if n == 0 || n == len(u) {
			run.EngineError("backend part: leaf %q is trivial on the mailbox (%d of %d)", a.name, n, len(u))
		}
	}
	t0 := time.Now()
	workers := make([]*backendWorker, 16)
	var next int64 = -1
	vk.Parallel(len(workers), func(wi int) {
		workers[wi] = newBackendWorker(u)
		for {
			j := int(atomic.AddInt64(&next, 1))
			if j >= len(forms) {
				return
			}
			workers[wi].check(forms[j], u)
		}
	})
	run.AddEvals(int64(len(forms)))
	run.NontrivialN(int64(len(forms)))
	run.Set("backend_matcher_criteria", int64(len(forms)))
	run.Set("backend_matcher_messages", int64(len(u)))
	run.Set("backend_matcher_leaves", int64(len(ls)))
	run.Sample("backend-matcher", map[string]string{"criteria": "BODY hello NOT (BODY fox)", "law": "UserSession.Search selects exactly the messages the reference matcher accepts"})
	fmt.Fprintf(os.Stderr, "c19: backend matcher: %d criteria x %d messages, t=%s\n", len(forms), len(u), time.Since(t0))
}
