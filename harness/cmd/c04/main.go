// C04 — server command framing: literal payloads are never parsed as commands.
//
// Bounded-exhaustive exploration on the real imapserver.Conn: raw client byte streams (sequences
// of command templates x argument encodings x literal sizes x payload classes x anomalies x
// capability sets x starting states x client behaviours) are played over the in-memory pipe
// against a real server with the recording stub backend. The driver knows, by construction, what
// the IMAP framing of each stream is (which commands are complete, where the client must wait);
// the oracle compares that with the server's output as tokenised by the independent response
// tokenizer and with the backend calls: (a) whole well-formed responses only, (b) tagged
// completions == complete framed commands, in order, one each, until the server closes, (c) no
// marker planted inside a literal payload or in junk ever shows up as a tag or in a backend call
// other than as the announced literal value at the announced argument, (d) "+" only where a
// synchronising literal / AUTHENTICATE / IDLE is being accepted, (e) refused non-synchronising
// literals are discarded or the connection is closed.
package main

import (
	"encoding/json"
	"fmt"
	"os"
	"runtime"
	"sort"
	"strings"
	"sync"
	"sync/atomic"
	"time"

	"github.com/emersion/go-imap/v2/verif/srvframe"
	"github.com/emersion/go-imap/v2/verif/vk"
)

var run *vk.Run

type seq struct{ idx [3]int32; n int8 }

type found struct {
	key    string
	msg    string
	stream srvframe.Stream
	wire   int
	order  int64
	trans  []string
}

var (
	fmu      sync.Mutex
	best     = map[string]*found{}
	hits     = map[string]int64{}
	outcomes sync.Map
)

func record(f srvframe.Finding, res *srvframe.Result, order int64) {
	w := len(srvframe.Wire(res.S))
	fmu.Lock()
	defer fmu.Unlock()
	hits[f.Key]++
	b := best[f.Key]
	if b != nil && (b.wire < w || (b.wire == w && b.order <= order)) {
		return
	}
	best[f.Key] = &found{key: f.Key, msg: f.Msg, stream: *res.S, wire: w, order: order, trans: srvframe.Transcript(res)}
}

func detail(f *found) map[string]interface{} {
	return map[string]interface{}{
		"what":       f.msg,
		"case":       f.stream.Describe(),
		"client":     srvframe.Wire(&f.stream),
		"transcript": f.trans,
		"stream":     f.stream,
		"hits":       hits[f.key],
	}
}

var (
	nPlus, nRefused, nUnanswered, nNonSync, nClosedEarly, nBenignOK, nIdleUpd int64
)

func stats(res *srvframe.Result) {
	for _, p := range res.Points {
		switch {
		case p.Plus:
			atomic.AddInt64(&nPlus, 1)
		case p.Tagged:
			atomic.AddInt64(&nRefused, 1)
		default:
			atomic.AddInt64(&nUnanswered, 1)
		}
	}
	if res.ClosedAt >= 0 {
		atomic.AddInt64(&nClosedEarly, 1)
	}
	if res.End.IdleStarted > 0 {
		atomic.AddInt64(&nIdleUpd, 1)
	}
	for _, c := range res.S.Cmds {
		for _, ch := range c.Chunks {
			if ch.Lit != nil && !ch.Lit.Sync {
				atomic.AddInt64(&nNonSync, 1)
			}
		}
	}
}

func playAndJudge(w *srvframe.Worker, st *srvframe.Stream, order int64) (*srvframe.Result, []srvframe.Finding) {
	res := w.Play(st)
	run.AddEvals(1)
	if res.EngineErr != "" {
		run.EngineError("%s: %s", st.Describe(), res.EngineErr)
	}
	if res.End.EngineErr != "" {
		run.EngineError("%s", res.End.EngineErr)
	}
	if res.End.Hang != "" {
		// C04 has no liveness clause; a watchdog hit is an engine error here (C06 judges hangs)
		b, _ := json.Marshal(st)
		run.EngineError("watchdog: %s on %s\nstream: %s", res.End.Hang, st.Describe(), b)
	}
	for _, l := range res.End.Logs {
		if strings.Contains(l, "panic") {
			// not this property's business (C06), but never silently ignored
			run.Add("panic_log_lines_seen", 1)
		}
	}
	fs := srvframe.Judge(res)
	for _, f := range fs {
		record(f, res, order)
	}
	stats(res)
	// outcome signature for the non-vacuity counter
	var sig strings.Builder
	for _, b := range res.Batches {
		for _, r := range b.Resps {
			w := r.Words()
			k := ""
			if len(w) > 0 {
				k = w[0]
			}
			if r.Tag == "*" || r.Tag == "+" {
				sig.WriteString(r.Tag + k + ";")
			} else {
				sig.WriteString("T" + k + ";")
			}
		}
		sig.WriteString("|")
	}
	for _, f := range fs {
		sig.WriteString(f.Key)
	}
	outcomes.LoadOrStore(sig.String(), struct{}{})
	return res, fs
}

func main() {
	run = vk.Start("C04", "exploration")
	if run.Replay != "" {
		replay()
		return
	}
	var vars [3][]srvframe.Variant
	for i := range vars {
		vars[i] = srvframe.Variants(i)
	}
	full := len(vars[0])
	var core, core2 []int32
	for i, v := range vars[0] {
		if v.Core {
			core = append(core, int32(i))
		}
		if v.Core2 {
			core2 = append(core2, int32(i))
		}
	}
	var seqs []seq
	for i := 0; i < full; i++ {
		seqs = append(seqs, seq{idx: [3]int32{int32(i)}, n: 1})
	}
	nonStop := func(i int32) bool { return !vars[0][i].Stops }
	if run.Thorough() {
		for i := 0; i < full; i++ {
			if !nonStop(int32(i)) {
				continue
			}
			for j := 0; j < full; j++ {
				seqs = append(seqs, seq{idx: [3]int32{int32(i), int32(j)}, n: 2})
			}
		}
		for _, a := range core2 {
			for _, b := range core2 {
				for k := 0; k < full; k++ {
					seqs = append(seqs, seq{idx: [3]int32{a, b, int32(k)}, n: 3})
					if nonStop(int32(k)) {
						seqs = append(seqs, seq{idx: [3]int32{a, int32(k), b}, n: 3})
						seqs = append(seqs, seq{idx: [3]int32{int32(k), a, b}, n: 3})
					}
				}
			}
		}
	} else {
		inCore := map[int32]bool{}
		for _, c := range core {
			inCore[c] = true
		}
		for i := 0; i < full; i++ {
			if !nonStop(int32(i)) {
				continue
			}
			for _, j := range core {
				seqs = append(seqs, seq{idx: [3]int32{int32(i), j}, n: 2})
			}
		}
		for _, i := range core {
			for j := 0; j < full; j++ {
				if inCore[int32(j)] {
					continue // already listed
				}
				seqs = append(seqs, seq{idx: [3]int32{i, int32(j)}, n: 2})
			}
		}
	}
	devLimit := false
	if v := os.Getenv("C04_DEV_LIMIT"); v != "" {
		var n int
		fmt.Sscan(v, &n)
		if n < len(seqs) {
			seqs = seqs[:n]
			devLimit = true
		}
	}
	fmt.Printf("C04: %d command variants (%d follow-up, %d small follow-up), %d command sequences\n", full, len(core), len(core2), len(seqs))
	run.Set("command_variants", int64(full))
	run.Set("core_variants", int64(len(core)))
	run.Set("core2_variants", int64(len(core2)))
	run.Set("command_sequences", int64(len(seqs)))

	var streams, withLit int64
	var seqsDone, budgetHit int64
	t0 := time.Now()
	budget := 18 * time.Minute // thorough only; the quick tier is never cut
	nw := runtime.GOMAXPROCS(0)
	var next int64 = -1
	var wg sync.WaitGroup
	const chunk = 16
	for i := 0; i < nw; i++ {
		wg.Add(1)
		go func() {
			defer wg.Done()
			w := srvframe.NewWorker(60 * time.Second)
			defer w.Close()
			for {
				if run.Thorough() && time.Since(t0) > budget {
					atomic.StoreInt64(&budgetHit, 1)
					return
				}
				base := int(atomic.AddInt64(&next, 1)) * chunk
				if base >= len(seqs) {
					return
				}
				for si := base; si < base+chunk && si < len(seqs); si++ {
					sq := seqs[si]
					atomic.AddInt64(&seqsDone, 1)
					var cmds []srvframe.Cmd
					stops := false
					for k := 0; k < int(sq.n); k++ {
						v := vars[k][sq.idx[k]]
						cmds = append(cmds, v.Cmd)
						stops = v.Stops
					}
					if !stops {
						cmds = append(cmds, srvframe.Sentinel())
					}
					wait := srvframe.HasWaitPoint(cmds)
					hasLit := false
					for _, c := range cmds {
						for _, ch := range c.Chunks {
							if ch.Lit != nil {
								hasLit = true
							}
						}
					}
					var sub int64
					for caps := 0; caps < 3; caps++ {
						for start := 0; start < 3; start++ {
							for mode := 0; mode < 4; mode++ {
								pipelined, anyway := mode&1 != 0, mode&2 != 0
								if anyway && !wait {
									continue
								}
								if sq.n > 1 && pipelined && anyway {
									continue // the combination is explored on single commands only
								}
								if sq.n > 2 && pipelined {
									continue // triples: per-command segments only
								}
								st := &srvframe.Stream{Caps: caps, Start: start, Cmds: cmds, Pipelined: pipelined, Anyway: anyway}
								playAndJudge(w, st, int64(si)*64+sub)
								sub++
								atomic.AddInt64(&streams, 1)
								if hasLit {
									atomic.AddInt64(&withLit, 1)
								}
							}
						}
					}
				}
			}
		}()
	}
	wg.Wait()

	// the two cases that really push an over-limit APPEND payload through the connection
	bw := srvframe.NewWorker(120 * time.Second)
	for i, st := range srvframe.BigStreams() {
		st := st
		playAndJudge(bw, &st, int64(len(seqs))*64+int64(i))
		streams++
		withLit++
		runtime.GC()
	}
	bw.Close()
	run.Set("streams", streams)
	run.Set("over_limit_payloads_really_sent", int64(2))
	run.NontrivialN(withLit)
	run.Set("continuation_requests_seen", nPlus)
	run.Set("wait_points_refused_with_tagged_response", nRefused)
	run.Set("wait_points_unanswered", nUnanswered)
	run.Set("nonsync_literals_sent", nNonSync)
	run.Set("streams_where_server_closed_first", nClosedEarly)
	run.Set("streams_with_idle_goroutine", nIdleUpd)
	var no int64
	outcomes.Range(func(k, v interface{}) bool { no++; return true })
	run.Set("distinct_outcome_signatures", no)
	if nPlus == 0 || nRefused == 0 || nNonSync == 0 || nIdleUpd == 0 || nClosedEarly == 0 {
		run.EngineError("vacuous run: plus=%d refused=%d nonsync=%d idle=%d closed=%d", nPlus, nRefused, nNonSync, nIdleUpd, nClosedEarly)
	}

	// report: one violation per key with the shortest stream; each is replayed 3x first
	var keys []string
	for k := range best {
		keys = append(keys, k)
	}
	sort.Strings(keys)
	rw := srvframe.NewWorker(120 * time.Second)
	for _, k := range keys {
		f := best[k]
		for rep := 0; rep < 3; rep++ {
			st := f.stream
			res := rw.Play(&st)
			ok := false
			for _, g := range srvframe.Judge(res) {
				if g.Key == k {
					ok = true
				}
			}
			if !ok {
				run.EngineError("violation %s did not reproduce on replay %d of %s", k, rep, f.stream.Describe())
			}
		}
		run.Violation(k, detail(f))
		fmt.Printf("violation key=%s hits=%d shortest: %s\n    %s\n", k, hits[k], f.stream.Describe(), f.msg)
	}
	rw.Close()
	for _, i := range []int{0, 40, 300} {
		if i < full {
			st := srvframe.Stream{Caps: i % 3, Start: (i / 3) % 3, Cmds: []srvframe.Cmd{vars[0][i].Cmd, srvframe.Sentinel()}}
			run.Sample("stream", map[string]string{"case": st.Describe(), "client": vk.Q(srvframe.Wire(&st))})
		}
	}
	run.Rule = "streams = sequences of <=2 (quick: first or second command from the full variant set, the other from the follow-up set) / <=2 full x full and <=3 (thorough: two from the small follow-up set, one full) command variants + 'zz NOOP' sentinel, x 3 capability sets x 3 starting states x {per-command segments, pipelined} x {client waits for '+', client sends anyway} (pipelined+sends-anyway on single commands only; triples with per-command segments only). Variants: 15 templates (LOGIN, SELECT, CREATE, RENAME, STATUS, LIST, APPEND, APPEND flags+date, APPEND UTF8, APPEND whose backend refuses with none / with 3 octets of the message read, APPEND whose backend accepts with 2 octets read, SEARCH BODY, FETCH BODY[HEADER.FIELDS], STORE FLAGS), each string argument as atom / quoted / {n} / {n+} with n in {0,1,4096,4097} and, announced only, {2^32, 2^32+1, 2^33+4096, 2^62, 2^63-1} (APPEND message also 100 MiB and 100 MiB+1 announced; over-limit payload really sent in 2 cases), payload classes plain / command-like lines / rest-of-the-command-line + command lines / ends in CR, anomalies announced>actual (client stops) and junk between literal and CRLF, junk tail on every template; AUTHENTICATE PLAIN (no initial response, initial response, '*', 4096+ byte line, not base64, empty line); IDLE with 0-2 updates written by the idle goroutine and DONE / command-like garbage / over-long garbage / 'done'; NOOP; unknown command; rejected command lines (unknown command / NOOP with surplus arguments / STORE with a syntax error inside the flag list) whose discarded rest ends in a non-synchronising literal header {n+} with a marked command-like payload and contains before it nothing special / a quoted '{' / a quoted 'folder{1}' / a{b / a}b / x+} / {3} / {3+}, two such literals in one rejected line, and the mirror lines that do NOT end in a literal header ('9+}' without '{', {x+}, {+}, {-9+}, {9+} not at the end of the line) after which the next command must be answered. Alphabet derivation: the rejected-line shapes = the branches of the literal-suffix recogniser used by DiscardLine (ends in '+}', position of the LAST '{', size is a number, size >= 0); 2^32-class sizes = sizes are number64/int64 and a narrower comparison would see their low 32 bits; 4096/4097 = checkBufferedLiteral and acceptLiteral comparisons and the bufio buffer size (ReadLine isPrefix), appendLimit(+1) = handleAppend comparison, capability sets = the LiteralPlus test in acceptLiteral, starting states = checkState placement relative to literal acceptance in handleAppend, backend answers = the order of Session.Append's return, the drain of the unread literal and the error return in handleAppend. non-trivial = streams containing at least one literal"
	run.Exhaustive = !devLimit && budgetHit == 0
	run.Set("command_sequences_explored", seqsDone)
	if budgetHit != 0 {
		run.Assume(fmt.Sprintf("the %v wall-clock budget of the thorough tier stopped the exploration after %d of %d command sequences (in enumeration order: all single commands, then pairs, then triples); exhaustive=false", budget, seqsDone, len(seqs)))
	}
	run.Assume("the IDLE part runs free-running (not under the vsched controlled scheduler): the stub's Idle writes its updates and then signals the driver, which waits for that signal in addition to 'server goroutine parked in Read', so quiescence is exact and every run is deterministic; interleavings of the idle writer with the command goroutine are therefore not explored here")
	run.Assume("a client that ignores a refusal (sends a synchronising literal's payload or a continuation line without '+') has itself turned those bytes into command text: from that point on only well-formedness (a) and continuation-request legality (d) are judged")
	run.Assume("an error completion for a command the client abandoned half-way through a literal (then EOF) is tolerated; the statement only speaks about complete commands")
	run.Assume("valid commands (benign literal sizes, exact payloads, right state) are additionally required to be answered OK and to reach the backend with exactly the announced octets; this is how an accepted literal read one byte short or long is noticed")
	run.Finish()
}

func replay() {
	b, err := os.ReadFile(run.Replay)
	if err != nil {
		run.EngineError("cannot read %s: %v", run.Replay, err)
	}
	var f struct {
		Key    string
		Detail struct {
			Stream srvframe.Stream
		}
	}
	if err := json.Unmarshal(b, &f); err != nil {
		run.EngineError("bad replay file: %v", err)
	}
	st := f.Detail.Stream
	fmt.Printf("replaying %s\nkey: %s\nclient stream (if every wait point is answered with '+'):\n%s\n", st.Describe(), f.Key, vk.Q(srvframe.Wire(&st)))
	w := srvframe.NewWorker(120 * time.Second)
	res := w.Play(&st)
	run.AddEvals(1)
	for _, l := range srvframe.Transcript(res) {
		fmt.Println(vk.Q(l))
	}
	fmt.Printf("complete framed commands: %v  (framing undefined from index %d)\n", res.Expected, res.Loose)
	fs := srvframe.Judge(res)
	if len(fs) == 0 {
		fmt.Println("no violation on this tree")
	}
	for _, g := range fs {
		fmt.Printf("VIOLATION key=%s: %s\n", g.Key, g.Msg)
		run.Violation(g.Key, map[string]interface{}{"what": g.Msg, "stream": st})
	}
	w.Close()
	run.Finish()
}
