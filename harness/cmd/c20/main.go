// C20 — LIST wildcard matching: imapserver.MatchList against an anchored regular expression
// compiled from (reference, pattern, delimiter), for every name/pattern up to a length bound.
package main

import (
	"encoding/json"
	"fmt"
	"os"
	"regexp"
	"strings"
	"sync/atomic"

	"github.com/emersion/go-imap/v2/imapserver"
	"github.com/emersion/go-imap/v2/verif/vk"
)

var run *vk.Run

// effective resolves (reference, pattern) the way the package documents through its table test:
// a pattern starting with the delimiter is absolute (reference dropped, delimiter stripped);
// otherwise the reference, completed with the delimiter if missing, is a literal prefix.
func compile(delim rune, reference, pattern string) *regexp.Regexp {
	d := ""
	if delim != 0 {
		d = string(delim)
	}
	if d != "" && strings.HasPrefix(pattern, d) {
		reference = ""
		pattern = pattern[len(d):]
	}
	if reference != "" && d != "" && !strings.HasSuffix(reference, d) {
		reference += d
	}
	var sb strings.Builder
	sb.WriteString(`(?s)\A`)
	sb.WriteString(regexp.QuoteMeta(reference))
	for _, r := range pattern {
		switch r {
		case '*':
			sb.WriteString(`.*`)
		case '%':
			if d == "" {
				sb.WriteString(`.*`)
			} else {
				sb.WriteString(`[^` + regexp.QuoteMeta(d) + `]*`)
			}
		default:
			sb.WriteString(regexp.QuoteMeta(string(r)))
		}
	}
	sb.WriteString(`\z`)
	return regexp.MustCompile(sb.String())
}

func all(alpha []string, n int) []string {
	var out []string
	vk.Strings(alpha, n, func(s string) { out = append(out, s) })
	return out
}

type cas struct {
	Name      string `json:"name"`
	Delim     string `json:"delim"`
	Reference string `json:"reference"`
	Pattern   string `json:"pattern"`
	Got       bool   `json:"got"`
	Want      bool   `json:"want"`
}

func classify(c cas) string {
	k := "match-mismatch"
	if c.Want {
		k += ":should-match"
	} else {
		k += ":should-not-match"
	}
	if len(c.Delim) > 1 {
		k += ":non-ascii-delimiter"
	}
	if strings.Contains(c.Pattern, "%") {
		k += ":percent"
	} else if strings.Contains(c.Pattern, "*") {
		k += ":star"
	} else {
		k += ":literal"
	}
	if c.Reference != "" {
		k += ":with-reference"
	}
	return k
}

func main() {
	run = vk.Start("C20", "exploration")
	if run.Replay != "" {
		b, _ := os.ReadFile(run.Replay)
		var f struct{ Detail cas }
		json.Unmarshal(b, &f)
		c := f.Detail
		var d rune
		for _, r := range c.Delim {
			d = r
		}
		got := imapserver.MatchList(c.Name, d, c.Reference, c.Pattern)
		want := compile(d, c.Reference, c.Pattern).MatchString(c.Name)
		fmt.Printf("MatchList(%q, %q, %q, %q) = %v, reference regexp %v says %v\n", c.Name, c.Delim, c.Reference, c.Pattern, got, compile(d, c.Reference, c.Pattern), want)
		if got != want {
			c.Got, c.Want = got, want
			run.Violation(classify(c), c)
		}
		run.AddEvals(1)
		run.Finish()
	}
	nameLen, patLen := 5, 5
	if run.Thorough() {
		nameLen, patLen = 6, 6
	}
	type config struct {
		delim     rune
		nameAlpha []string
		patAlpha  []string
		refs      []string
		nameLen   int
		patLen    int
	}
	refs := func(d string) []string {
		if d == "" {
			return []string{"", "a", "a/", "a/b", "a/b/", "/", "a//"}
		}
		// incl. references ending in two delimiters (an empty hierarchy level is a level)
		return []string{"", "a", "a" + d, "a" + d + "b", "a" + d + "b" + d, d, "a" + d + d, d + d}
	}
	configs := []config{
		{'/', []string{"a", "b", "/", "."}, []string{"a", "b", "/", ".", "*", "%"}, refs("/"), nameLen, patLen},
		{'.', []string{"a", "b", "/", "."}, []string{"a", "b", "/", ".", "*", "%"}, refs("."), nameLen, patLen},
		{0, []string{"a", "b", "/", "."}, []string{"a", "b", "/", ".", "*", "%"}, refs(""), nameLen, patLen},
		// non-ASCII delimiter (names are valid UTF-8); one rune shorter
		{'→', []string{"a", "→", "/"}, []string{"a", "→", "/", "*", "%"}, refs("→"), nameLen, patLen - 1},
		// Latin-1 delimiter U+00BB whose code point equals the trailing byte of 'û' (C3 BB)
		{'»', []string{"a", "»", "û"}, []string{"a", "»", "û", "*", "%"}, refs("»"), nameLen, patLen - 1},
	}
	var evals int64
	for _, cf := range configs {
		names := all(cf.nameAlpha, cf.nameLen)
		pats := all(cf.patAlpha, cf.patLen)
		d := ""
		if cf.delim != 0 {
			d = string(cf.delim)
		}
		vk.Parallel(len(pats), func(pi int) {
			pat := pats[pi]
			var n int64
			for _, ref := range cf.refs {
				re := compile(cf.delim, ref, pat)
				matched, unmatched := 0, 0
				for _, name := range names {
					got := imapserver.MatchList(name, cf.delim, ref, pat)
					want := re.MatchString(name)
					n++
					if want {
						matched++
					} else {
						unmatched++
					}
					if got != want {
						c := cas{name, d, ref, pat, got, want}
						run.Violation(classify(c), c)
					}
				}
				if strings.ContainsAny(pat, "*%") && matched > 0 && unmatched > 0 {
					run.NontrivialN(1)
				}
			}
			atomic.AddInt64(&evals, n)
		})
		run.Sample("config", map[string]interface{}{"delim": d, "names": len(names), "patterns": len(pats), "references": cf.refs,
			"example": cas{Name: "a" + d + "b", Delim: d, Reference: "a", Pattern: "%", Got: imapserver.MatchList("a"+d+"b", cf.delim, "a", "%"), Want: compile(cf.delim, "a", "%").MatchString("a" + d + "b")}})
	}
	run.AddEvals(evals)
	run.Rule = "every (name, pattern, reference, delimiter): names over {a,b,/,.} and patterns over {a,b,/,.,*,%} up to the length bound, references {'',a,a<d>,a<d>b,a<d>b<d>,<d>,a<d><d>,<d><d>}, delimiters '/', '.', none, and the non-ASCII '→' and '»' (own alphabets incl. 'û' whose last byte equals U+00BB); oracle = anchored regexp compiled from the resolved pattern. non-trivial = distinct (pattern with a wildcard, reference, delimiter) triples that both match and reject some enumerated name"
	run.Exhaustive = true
	run.Set("name_len", int64(nameLen))
	run.Set("pattern_len", int64(patLen))
	run.Assume("reference resolution follows the rule the package documents through its table test (leading delimiter = absolute); references contain no wildcards")
	run.Assume("names are valid UTF-8; regexp (?s) semantics on runes")
	run.Finish()
}
