// C07 — sequence-number translation between a client's view and the mailbox.
//
// Explicit-state breadth-first search over histories of tracker operations executed on the REAL
// imapserver.MailboxTracker / SessionTracker, compared step by step with a small reference model.
// Polls go through a real server connection (srvkit.StubServer) whose stub Session.Poll delegates
// to the SessionTracker; the emitted updates are read back from the wire.
//
// A state is the event history reaching it. Successors are produced by building a fresh tracker,
// replaying the history and applying one more event. States are merged on a canonical key of the
// reference-model state (message identities renamed by rank, sessions sorted). Two kinds of search
// run: "closed" searches (undelivered updates per session bounded, no depth bound: they run until
// the frontier is empty) and a depth-bounded search without that bound. A further pass runs every
// history up to a smaller depth without merging (fresh connection per session), and a small
// command matrix checks which commands may carry EXPUNGE (NOOP/CHECK vs FETCH/STORE/SEARCH).
//
// Violations are collected per key with the smallest history (shorter, then lexicographically
// smaller), re-executed 5 times, and stored as replay files; `--replay f` re-executes the stored
// history printing model vs implementation after every step.
package main

import (
	"crypto/sha256"
	"encoding/json"
	"flag"
	"fmt"
	"io"
	"os"
	"regexp"
	"runtime"
	"runtime/pprof"
	"sort"
	"strconv"
	"strings"
	"sync"
	"sync/atomic"
	"time"

	imap "github.com/emersion/go-imap/v2"
	"github.com/emersion/go-imap/v2/imapserver"
	"github.com/emersion/go-imap/v2/verif/srvkit"
	"github.com/emersion/go-imap/v2/verif/vk"
)

// ---------------------------------------------------------------------------------------------
// events and histories

const (
	evAppend = iota
	evExpunge
	evMsgFlags
	evMboxFlags
	evNewSession
	evClose
	evPoll
)

// event: Append(A=k) Expunge(A=i) MsgFlags(A=i,B=source session or -1) MailboxFlags NewSession
// Close(A=session) Poll(A=session, B=index into pollCmds: 0 = FETCH (no expunge), 1 = NOOP).
type event struct{ K, A, B int8 }

type hist struct {
	Init int8
	Ev   []event
}

// pollCmds: how a poll is put on the wire. Index 0 and 1 are the alphabet of the search; the rest
// is only used by the command-matrix pass.
var pollCmds = []struct {
	cmd          string
	expectAllow  int // 1 true, 0 false, -1 unconstrained (take what the connection passes)
	mustNotEmitX bool
}{
	{"FETCH 1 FLAGS", 0, true},
	{"NOOP", 1, false},
	{"CHECK", 1, false},
	{"STORE 1 +FLAGS (\\Seen)", 0, true},
	{"SEARCH ALL", 0, true},
	{"UID FETCH 1 FLAGS", -1, false},
	{"UID STORE 1 +FLAGS (\\Seen)", -1, false},
	{"UID SEARCH ALL", -1, false},
}

func (e event) String() string {
	switch e.K {
	case evAppend:
		return fmt.Sprintf("Append(%d)", e.A)
	case evExpunge:
		return fmt.Sprintf("Expunge(%d)", e.A)
	case evMsgFlags:
		if e.B < 0 {
			return fmt.Sprintf("MsgFlags(%d,src=nil)", e.A)
		}
		return fmt.Sprintf("MsgFlags(%d,src=s%d)", e.A, e.B)
	case evMboxFlags:
		return "MailboxFlags"
	case evNewSession:
		return "NewSession"
	case evClose:
		return fmt.Sprintf("Close(s%d)", e.A)
	case evPoll:
		if e.B == 0 {
			return fmt.Sprintf("Poll(s%d,allowExpunge=false)", e.A)
		}
		if e.B == 1 {
			return fmt.Sprintf("Poll(s%d,allowExpunge=true)", e.A)
		}
		return fmt.Sprintf("Poll(s%d,via %q)", e.A, pollCmds[e.B].cmd)
	}
	return "?"
}

func (h hist) String() string {
	parts := []string{fmt.Sprintf("init=%d", h.Init)}
	for _, e := range h.Ev {
		parts = append(parts, e.String())
	}
	return strings.Join(parts, " ; ")
}

func (h hist) extend(e event) hist {
	ev := make([]event, len(h.Ev)+1)
	copy(ev, h.Ev)
	ev[len(h.Ev)] = e
	return hist{h.Init, ev}
}

func (h hist) raw() [][3]int {
	out := make([][3]int, len(h.Ev))
	for i, e := range h.Ev {
		out[i] = [3]int{int(e.K), int(e.A), int(e.B)}
	}
	return out
}

// less orders histories: shorter first, then smaller initial size, then lexicographic events.
func (h hist) less(o hist) bool {
	if len(h.Ev) != len(o.Ev) {
		return len(h.Ev) < len(o.Ev)
	}
	if h.Init != o.Init {
		return h.Init < o.Init
	}
	for i := range h.Ev {
		a, b := h.Ev[i], o.Ev[i]
		if a != b {
			if a.K != b.K {
				return a.K < b.K
			}
			if a.A != b.A {
				return a.A < b.A
			}
			return a.B < b.B
		}
	}
	return false
}

// ---------------------------------------------------------------------------------------------
// reference model

type upd struct {
	Kind    byte   // 'E' EXISTS, 'X' EXPUNGE, 'F' FETCH flags, 'L' mailbox FLAGS
	N       int    // EXISTS: new count; EXPUNGE/FETCH: sequence number at queue time
	IDs     []int  // EXISTS: the new message ids; EXPUNGE/FETCH: the message id
	Payload string // flag list as it should appear on the wire
	Skipped bool   // flag update whose source is this session: must NOT be delivered (not part of the key)
}

func (u upd) String() string {
	s := ""
	switch u.Kind {
	case 'E':
		s = fmt.Sprintf("EXISTS %d %v", u.N, u.IDs)
	case 'X':
		s = fmt.Sprintf("EXPUNGE %d %v", u.N, u.IDs)
	case 'F':
		s = fmt.Sprintf("FETCH %d %v %s", u.N, u.IDs, u.Payload)
	case 'L':
		s = "FLAGS " + u.Payload
	}
	if u.Skipped {
		s = "[not for this session: " + s + "]"
	}
	return s
}

type msess struct {
	open    bool
	view    []int // message ids as the client believes
	pending []upd
}

type model struct {
	mbox []int
	next int
	sess []*msess
}

func newModel(n int) *model {
	m := &model{}
	for i := 0; i < n; i++ {
		m.mbox = append(m.mbox, i)
	}
	m.next = n
	return m
}

func (m *model) openCount() int {
	c := 0
	for _, s := range m.sess {
		if s.open {
			c++
		}
	}
	return c
}

func (m *model) queue(u upd, source int) {
	for i, s := range m.sess {
		if !s.open {
			continue
		}
		v := u
		if i == source {
			v.Skipped = true
		}
		s.pending = append(s.pending, v)
	}
}

const msgFlagsPayload = "(\\Seen)"

func mboxFlagsPayload(n int) string { return fmt.Sprintf("(\\Seen $n%d)", n) }

// apply performs a non-poll event.
func (m *model) apply(e event) {
	switch e.K {
	case evAppend:
		var ids []int
		for i := 0; i < int(e.A); i++ {
			ids = append(ids, m.next)
			m.mbox = append(m.mbox, m.next)
			m.next++
		}
		m.queue(upd{Kind: 'E', N: len(m.mbox), IDs: ids}, -1)
	case evExpunge:
		i := int(e.A)
		id := m.mbox[i-1]
		m.queue(upd{Kind: 'X', N: i, IDs: []int{id}}, -1)
		m.mbox = append(append([]int{}, m.mbox[:i-1]...), m.mbox[i:]...)
	case evMsgFlags:
		i := int(e.A)
		m.queue(upd{Kind: 'F', N: i, IDs: []int{m.mbox[i-1]}, Payload: msgFlagsPayload}, int(e.B))
	case evMboxFlags:
		m.queue(upd{Kind: 'L', Payload: mboxFlagsPayload(len(m.mbox))}, -1)
	case evNewSession:
		m.sess = append(m.sess, &msess{open: true, view: append([]int{}, m.mbox...)})
	case evClose:
		s := m.sess[e.A]
		s.open = false
		s.view, s.pending = nil, nil
	}
}

// poll delivers the maximal prefix allowed; returns the delivered list including the entries that
// must be skipped for this session (marked).
func (m *model) poll(si int, allowExpunge bool) []upd {
	s := m.sess[si]
	cut := len(s.pending)
	if !allowExpunge {
		for i, u := range s.pending {
			if u.Kind == 'X' {
				cut = i
				break
			}
		}
	}
	deliv := s.pending[:cut:cut]
	s.pending = append([]upd{}, s.pending[cut:]...)
	for _, u := range deliv {
		if u.Skipped {
			continue
		}
		switch u.Kind {
		case 'E':
			s.view = append(s.view, u.IDs...)
		case 'X':
			s.view = append(append([]int{}, s.view[:u.N-1]...), s.view[u.N:]...)
		}
	}
	return deliv
}

func (s *msess) pendingLen() int {
	n := 0
	for _, u := range s.pending {
		if !u.Skipped {
			n++
		}
	}
	return n
}

func indexOf(l []int, id int) int {
	for i, x := range l {
		if x == id {
			return i + 1
		}
	}
	return 0
}

// key: canonical form. Ids renamed by rank (ids are handed out in increasing order and every list
// is increasing, so rank renaming is order-of-first-appearance and independent of session order);
// sessions sorted.
func (m *model) key() string {
	idset := map[int]bool{}
	for _, id := range m.mbox {
		idset[id] = true
	}
	for _, s := range m.sess {
		if !s.open {
			continue
		}
		for _, id := range s.view {
			idset[id] = true
		}
		for _, u := range s.pending {
			if u.Skipped {
				continue
			}
			for _, id := range u.IDs {
				idset[id] = true
			}
		}
	}
	ids := make([]int, 0, len(idset))
	for id := range idset {
		ids = append(ids, id)
	}
	sort.Ints(ids)
	rank := make(map[int]int, len(ids))
	for i, id := range ids {
		rank[id] = i
	}
	wl := func(b *strings.Builder, l []int) {
		for i, id := range l {
			if i > 0 {
				b.WriteByte(',')
			}
			b.WriteString(strconv.Itoa(rank[id]))
		}
	}
	var out strings.Builder
	wl(&out, m.mbox)
	var ss []string
	for _, s := range m.sess {
		if !s.open {
			continue
		}
		var b strings.Builder
		b.WriteString("|v")
		wl(&b, s.view)
		b.WriteString(";p")
		for _, u := range s.pending {
			if u.Skipped {
				continue
			}
			b.WriteByte(' ')
			b.WriteByte(u.Kind)
			b.WriteString(strconv.Itoa(u.N))
			b.WriteByte('[')
			wl(&b, u.IDs)
			b.WriteByte(']')
			if u.Kind == 'L' {
				b.WriteString(u.Payload)
			}
		}
		ss = append(ss, b.String())
	}
	sort.Strings(ss)
	for _, s := range ss {
		out.WriteString(s)
	}
	return out.String()
}

type bounds struct {
	maxN, maxS, maxPending int
}

// enabled lists the events of the alphabet that are possible in state m under the bounds.
func (m *model) enabled(bd bounds) []event {
	var out []event
	n := len(m.mbox)
	room := true // may another update be queued without exceeding the pending bound?
	if bd.maxPending > 0 {
		for _, s := range m.sess {
			if s.open && s.pendingLen() >= bd.maxPending {
				room = false
			}
		}
	}
	var open []int8
	for i, s := range m.sess {
		if s.open {
			open = append(open, int8(i))
		}
	}
	if room {
		for k := 1; k <= 3; k++ {
			if n+k <= bd.maxN {
				out = append(out, event{evAppend, int8(k), 0})
			}
		}
		for i := 1; i <= n; i++ {
			out = append(out, event{evExpunge, int8(i), 0})
		}
		for i := 1; i <= n; i++ {
			out = append(out, event{evMsgFlags, int8(i), -1})
			for _, s := range open {
				out = append(out, event{evMsgFlags, int8(i), s})
			}
		}
		out = append(out, event{evMboxFlags, 0, 0})
	}
	if len(open) < bd.maxS && len(m.sess) < 100 {
		out = append(out, event{evNewSession, 0, 0})
	}
	for _, s := range open {
		out = append(out, event{evClose, s, 0})
	}
	for _, s := range open {
		out = append(out, event{evPoll, s, 1})
		out = append(out, event{evPoll, s, 0})
	}
	return out
}

// modelOnly runs the reference model alone.
func modelOnly(h hist) *model {
	m := newModel(int(h.Init))
	for _, e := range h.Ev {
		if e.K == evPoll {
			m.poll(int(e.A), pollCmds[e.B].expectAllow == 1)
		} else {
			m.apply(e)
		}
	}
	return m
}

// ---------------------------------------------------------------------------------------------
// real side: connections

type slot struct {
	d         *srvkit.Driver
	cur       *imapserver.SessionTracker
	polls     int
	lastAllow bool
	uses      int
	tag       int
	dirty     bool
}

type worker struct {
	ss    *srvkit.StubServer
	free  []*slot
	fresh bool // never reuse a connection across histories
	// statistics
	conns int64
}

func newWorker(fresh bool) *worker {
	w := &worker{fresh: fresh}
	w.ss = srvkit.NewStubServer(imapserver.Options{InsecureAuth: true, Caps: imap.CapSet{imap.CapIMAP4rev1: {}}})
	return w
}

func (w *worker) close() {
	for _, s := range w.free {
		s.d.Close()
	}
	w.free = nil
	w.ss.Close()
}

const slotMaxUses = 512 // the in-memory pipe keeps all output: retire connections regularly

func (w *worker) acquire(n int) *slot {
	if k := len(w.free); k > 0 {
		s := w.free[k-1]
		w.free = w.free[:k-1]
		return s
	}
	s := &slot{}
	w.ss.Prepare = func(st *srvkit.Stub) {
		st.OnSelect = func(string, *imap.SelectOptions) (*imap.SelectData, error) {
			return &imap.SelectData{Flags: []imap.Flag{imap.FlagSeen}, PermanentFlags: []imap.Flag{imap.FlagSeen}, NumMessages: uint32(n), UIDNext: 100, UIDValidity: 1}, nil
		}
		// Poll is called by the server goroutine after every successful command in the
		// authenticated/selected state; only polls issued while a tracker session is bound count.
		st.OnPoll = func(uw *imapserver.UpdateWriter, allow bool) error {
			if s.cur == nil {
				return nil
			}
			s.polls++
			s.lastAllow = allow
			return s.cur.Poll(uw, allow)
		}
	}
	d, _, err := w.ss.Connect()
	if err != nil {
		run.EngineError("connect: %v", err)
	}
	s.d = d
	atomic.AddInt64(&w.conns, 1)
	for _, c := range []string{"a LOGIN u p\r\n", "b SELECT INBOX\r\n"} {
		resps, closed, err := d.Do(c)
		t := srvkit.Tagged(resps)
		if err != nil || closed || len(t) != 1 || !strings.HasPrefix(t[0].Text, "OK") {
			run.EngineError("connection setup %q failed: %v %v", c, err, resps)
		}
	}
	return s
}

func (w *worker) release(s *slot) {
	s.cur = nil
	s.uses++
	// server goroutine is parked in Read (Do waited for quiescence): safe to trim the recordings
	s.d.Out = s.d.Out[:0]
	s.d.Stub.Calls = nil
	if w.fresh || s.dirty || s.uses >= slotMaxUses {
		s.d.Close()
		return
	}
	w.free = append(w.free, s)
}

// wire update as parsed from the connection
type wupd struct {
	Kind    byte
	N       int
	UID     int
	Payload string
	Raw     string
}

func (u wupd) String() string { return strings.TrimRight(u.Raw, "\r\n") }

var fetchRe = regexp.MustCompile(`^(\d+) FETCH \((?:UID (\d+) )?FLAGS (\([^)]*\))\)$`)

// poll sends the command and parses what comes back. problem != "" means the command did not
// complete normally (a verdict about the implementation, not an engine error).
func (s *slot) poll(st *imapserver.SessionTracker, cmdIdx int) (ups []wupd, problem string) {
	s.cur = st
	s.polls = 0
	s.tag++
	tag := fmt.Sprintf("p%d", s.tag)
	resps, closed, err := s.d.Do(tag + " " + pollCmds[cmdIdx].cmd + "\r\n")
	s.cur = nil
	if err == srvkit.ErrWatchdog {
		run.EngineError("watchdog while polling with %q", pollCmds[cmdIdx].cmd)
	}
	if err != nil {
		s.dirty = true
		return nil, "malformed output: " + err.Error()
	}
	if closed {
		s.dirty = true
	}
	tagged := 0
	for _, r := range resps {
		if r.Tag != "*" {
			tagged++
			if r.Tag != tag || !strings.HasPrefix(r.Text, "OK") {
				problem = fmt.Sprintf("command %q answered %q", pollCmds[cmdIdx].cmd, r.Tag+" "+r.Text)
			}
			continue
		}
		u := wupd{Raw: string(r.Raw)}
		switch r.Kind() {
		case "EXISTS":
			n, _ := r.Num()
			u.Kind, u.N = 'E', int(n)
		case "EXPUNGE":
			n, _ := r.Num()
			u.Kind, u.N = 'X', int(n)
		case "FETCH":
			mm := fetchRe.FindStringSubmatch(r.Text)
			if mm == nil {
				problem = fmt.Sprintf("unparseable FETCH update %q", r.Text)
				continue
			}
			u.Kind = 'F'
			u.N, _ = strconv.Atoi(mm[1])
			u.UID, _ = strconv.Atoi(mm[2])
			u.Payload = mm[3]
		case "FLAGS":
			u.Kind = 'L'
			u.Payload = strings.TrimSpace(strings.TrimPrefix(r.Text, "FLAGS"))
		case "SEARCH", "ESEARCH":
			continue // data of the SEARCH command of the command-matrix pass
		case "BYE":
			problem = "server said BYE: " + r.Text
			continue
		default:
			problem = fmt.Sprintf("unexpected untagged response %q", r.Text)
			continue
		}
		ups = append(ups, u)
	}
	if problem == "" && tagged != 1 {
		problem = fmt.Sprintf("%d tagged responses to one command (connection closed: %v)", tagged, closed)
	}
	if problem == "" && s.polls != 1 {
		run.EngineError("Session.Poll called %d times for one %q", s.polls, pollCmds[cmdIdx].cmd)
	}
	return ups, problem
}

// ---------------------------------------------------------------------------------------------
// lock-step execution of a history on the real tracker and on the model

type rsess struct {
	st    *imapserver.SessionTracker
	slot  *slot
	open  bool
	cview []int // client's view reconstructed from the wire only
	hw    int   // ids below hw have been announced to this client
}

type sinkFn func(key string, h hist, step int, detail map[string]interface{})

type stats struct {
	polls, pollsDelivering, pollsCutAtExpunge, pollsFullWithExpunge int64
	queries, wantZero, wantNonZero, renumbered                      int64
	allowSurprise                                                   int64
}

func (a *stats) add(b *stats) {
	a.polls += b.polls
	a.pollsDelivering += b.pollsDelivering
	a.pollsCutAtExpunge += b.pollsCutAtExpunge
	a.pollsFullWithExpunge += b.pollsFullWithExpunge
	a.queries += b.queries
	a.wantZero += b.wantZero
	a.wantNonZero += b.wantNonZero
	a.renumbered += b.renumbered
	a.allowSurprise += b.allowSurprise
}

func safely(f func()) (p interface{}) {
	defer func() { p = recover() }()
	f()
	return nil
}

// lazy detail values: violation details are only rendered when the observation is kept (the
// known EncodeSeqNum defect alone is observed in every second transition). A sink must call
// resolve before the next step of the execution mutates what the closures refer to.
type lazy func() interface{}

func resolve(d map[string]interface{}) map[string]interface{} {
	for k, v := range d {
		if f, ok := v.(lazy); ok {
			d[k] = f()
		}
	}
	return d
}

func ints(l []int) lazy { return func() interface{} { return fmt.Sprint(l) } }

func normUpd(kind byte, n int, id int, payload string) string {
	switch kind {
	case 'E':
		return fmt.Sprintf("EXISTS %d", n)
	case 'X':
		return fmt.Sprintf("EXPUNGE %d", n)
	case 'F':
		return fmt.Sprintf("FETCH %d (UID %d FLAGS %s)", n, id+1, payload)
	}
	return "FLAGS " + payload
}

// collapse merges runs of consecutive EXISTS into the last one (an implementation may legitimately
// coalesce them; the statement only speaks about the resulting view and about order).
func collapse(l []string) []string {
	var out []string
	for _, s := range l {
		if len(out) > 0 && strings.HasPrefix(s, "EXISTS ") && strings.HasPrefix(out[len(out)-1], "EXISTS ") {
			out[len(out)-1] = s
			continue
		}
		out = append(out, s)
	}
	return out
}

func eqStrings(a, b []string) bool {
	if len(a) != len(b) {
		return false
	}
	for i := range a {
		if a[i] != b[i] {
			return false
		}
	}
	return true
}

func sameMultiset(a, b []string) bool {
	x := append([]string{}, a...)
	y := append([]string{}, b...)
	sort.Strings(x)
	sort.Strings(y)
	return eqStrings(x, y)
}

func eqInts(a, b []int) bool {
	if len(a) != len(b) {
		return false
	}
	for i := range a {
		if a[i] != b[i] {
			return false
		}
	}
	return true
}

// lockstep executes h on a fresh real tracker and on the model. The oracle is evaluated after
// every step with index >= checkFrom. It returns the model reached and whether the
// implementation's state can no longer be trusted to correspond to the model (a poll went wrong).
func (w *worker) lockstep(h hist, checkFrom int, sink sinkFn, st *stats, vb io.Writer) (m *model, diverged bool) {
	m = newModel(int(h.Init))
	mt := imapserver.NewMailboxTracker(uint32(h.Init))
	var rs []*rsess
	defer func() {
		for _, r := range rs {
			if r.slot != nil {
				w.release(r.slot)
				r.slot = nil
			}
		}
	}()
	if vb != nil {
		fmt.Fprintf(vb, "step 0: NewMailboxTracker(%d)\n  model: mailbox=%v\n", h.Init, m.mbox)
	}
	for step, e := range h.Ev {
		check := step >= checkFrom
		cur := hist{h.Init, h.Ev[:step+1]}
		report := func(key string, d map[string]interface{}) {
			d["history"] = lazy(func() interface{} { return cur.String() })
			d["init"] = int(cur.Init)
			d["events"] = lazy(func() interface{} { return cur.raw() })
			d["step"] = step + 1
			d["event"] = lazy(func() interface{} { return e.String() })
			sink(key, cur, step+1, d)
			if vb != nil {
				b, _ := json.Marshal(resolve(d))
				fmt.Fprintf(vb, "  !! VIOLATION %s %s\n", key, b)
			}
		}
		if vb != nil {
			fmt.Fprintf(vb, "step %d: %s\n", step+1, e)
		}
		var pnc interface{}
		switch e.K {
		case evAppend:
			m.apply(e)
			pnc = safely(func() { mt.QueueNumMessages(uint32(len(m.mbox))) })
		case evExpunge:
			m.apply(e)
			pnc = safely(func() { mt.QueueExpunge(uint32(e.A)) })
		case evMsgFlags:
			id := m.mbox[e.A-1]
			m.apply(e)
			var src *imapserver.SessionTracker
			if e.B >= 0 {
				src = rs[e.B].st
			}
			pnc = safely(func() { mt.QueueMessageFlags(uint32(e.A), imap.UID(id+1), []imap.Flag{imap.FlagSeen}, src) })
		case evMboxFlags:
			n := len(m.mbox)
			m.apply(e)
			pnc = safely(func() { mt.QueueMailboxFlags([]imap.Flag{imap.FlagSeen, imap.Flag(fmt.Sprintf("$n%d", n))}) })
		case evNewSession:
			m.apply(e)
			r := &rsess{open: true, cview: append([]int{}, m.mbox...), hw: m.next}
			pnc = safely(func() { r.st = mt.NewSession() })
			rs = append(rs, r)
		case evClose:
			m.apply(e)
			r := rs[e.A]
			pnc = safely(func() { r.st.Close() })
			r.open = false
			if r.slot != nil {
				w.release(r.slot)
				r.slot = nil
			}
		case evPoll:
			r := rs[e.A]
			ms := m.sess[e.A]
			pc := pollCmds[e.B]
			if r.slot == nil {
				r.slot = w.acquire(len(r.cview))
			}
			hadExpunge := false
			for _, u := range ms.pending {
				if u.Kind == 'X' {
					hadExpunge = true
				}
			}
			viewBefore := append([]int{}, r.cview...)
			wire, problem := r.slot.poll(r.st, int(e.B))
			allow := pc.expectAllow == 1
			if problem == "" {
				if pc.expectAllow < 0 {
					allow = r.slot.lastAllow
				} else if allow != r.slot.lastAllow {
					st.allowSurprise++
				}
			}
			deliv := m.poll(int(e.A), allow)
			st.polls++
			if len(deliv) > 0 {
				st.pollsDelivering++
			}
			if hadExpunge && !allow {
				st.pollsCutAtExpunge++
			}
			if hadExpunge && allow {
				st.pollsFullWithExpunge++
			}
			var wantL, wantSkL, gotL []string
			anySkipped := false
			for _, u := range deliv {
				id := 0
				if len(u.IDs) > 0 {
					id = u.IDs[0]
				}
				s := normUpd(u.Kind, u.N, id, u.Payload)
				wantSkL = append(wantSkL, s)
				if u.Skipped {
					anySkipped = true
					continue
				}
				wantL = append(wantL, s)
			}
			for _, u := range wire {
				gotL = append(gotL, normUpd(u.Kind, u.N, u.UID-1, u.Payload))
			}
			if vb != nil {
				fmt.Fprintf(vb, "  wire (%s, Conn passed allowExpunge=%v):\n", pc.cmd, r.slot.lastAllow)
				for _, u := range wire {
					fmt.Fprintf(vb, "    impl : %s\n", u)
				}
				for _, s := range wantL {
					fmt.Fprintf(vb, "    model: %s\n", s)
				}
				if problem != "" {
					fmt.Fprintf(vb, "    problem: %s\n", problem)
				}
			}
			base := func() map[string]interface{} {
				raw := lazy(func() interface{} {
					var raw []string
					for _, u := range wire {
						raw = append(raw, u.String())
					}
					return raw
				})
				return map[string]interface{}{"session": int(e.A), "command": pc.cmd, "wire_updates": raw, "model_updates": wantL,
					"client_view_before": ints(viewBefore), "mailbox": ints(m.mbox)}
			}
			// apply the wire updates to the client's view, in order
			bad := false
			for _, u := range wire {
				switch u.Kind {
				case 'X':
					if pc.mustNotEmitX || !allow {
						d := base()
						d["offending"] = u.String()
						report("expunge-emitted-when-disallowed", d)
						bad = true
					}
					if u.N < 1 || u.N > len(r.cview) {
						d := base()
						d["offending"] = u.String()
						d["client_view_at_that_point"] = ints(r.cview)
						report("expunge-number-outside-client-view", d)
						bad = true
						continue
					}
					r.cview = append(append([]int{}, r.cview[:u.N-1]...), r.cview[u.N:]...)
				case 'E':
					if u.N < len(r.cview) {
						d := base()
						d["offending"] = u.String()
						d["client_view_at_that_point"] = ints(r.cview)
						report("exists-smaller-than-client-view", d)
						bad = true
						continue
					}
					for len(r.cview) < u.N {
						if r.hw >= m.next {
							d := base()
							d["offending"] = u.String()
							report("exists-announces-more-than-ever-appended", d)
							bad = true
							break
						}
						r.cview = append(r.cview, r.hw)
						r.hw++
					}
				case 'F':
					if u.N < 1 || u.N > len(r.cview) {
						d := base()
						d["offending"] = u.String()
						d["client_view_at_that_point"] = ints(r.cview)
						report("flag-update-number-outside-client-view", d)
						bad = true
					} else if r.cview[u.N-1] != u.UID-1 {
						d := base()
						d["offending"] = u.String()
						d["client_view_at_that_point"] = ints(r.cview)
						report("flag-update-names-wrong-message", d)
						bad = true
					}
				}
			}
			if problem != "" {
				d := base()
				d["problem"] = problem
				d["server_log"] = w.ss.Log.Snapshot()
				report("poll-command-failed", d)
				bad = true
			}
			if !eqInts(r.cview, ms.view) {
				d := base()
				d["client_view_after"] = ints(r.cview)
				d["model_view_after"] = ints(ms.view)
				if allow {
					report("view-differs-from-mailbox-after-allow-expunge-poll", d)
				} else {
					report("view-differs-from-model-after-no-expunge-poll", d)
				}
				bad = true
			}
			if allow && !eqInts(ms.view, m.mbox) {
				run.EngineError("model: view %v != mailbox %v after a full poll (%s)", ms.view, m.mbox, cur)
			}
			if cg, cw := collapse(gotL), collapse(wantL); !eqStrings(cg, cw) {
				d := base()
				switch {
				case anySkipped && eqStrings(cg, collapse(wantSkL)):
					report("flag-update-delivered-to-its-source", d)
				case sameMultiset(cg, cw):
					report("updates-reordered", d)
				default:
					report("delivered-updates-differ-from-model", d)
				}
				bad = true
			}
			if bad {
				// the implementation's state no longer corresponds to the model: stop here
				return m, true
			}
		}
		if pnc != nil {
			report("panic-in-tracker", map[string]interface{}{"panic": fmt.Sprint(pnc)})
			return m, true
		}
		if vb != nil {
			fmt.Fprintf(vb, "  model: mailbox=%v\n", m.mbox)
			for i, s := range m.sess {
				if s.open {
					var p []string
					for _, u := range s.pending {
						p = append(p, u.String())
					}
					fmt.Fprintf(vb, "         s%d view=%v pending=[%s]\n", i, s.view, strings.Join(p, "; "))
				}
			}
		}
		if !check {
			continue
		}
		// ---- translation oracle, every session, every number ----
		n := len(m.mbox)
		for si, r := range rs {
			if !r.open {
				continue
			}
			ms := m.sess[si]
			lim := n
			if len(ms.view) > lim {
				lim = len(ms.view)
			}
			lim++
			dec := make([]uint32, lim+1)
			enc := make([]uint32, lim+1)
			if p := safely(func() {
				for c := 1; c <= lim; c++ {
					dec[c] = r.st.DecodeSeqNum(uint32(c))
					enc[c] = r.st.EncodeSeqNum(uint32(c))
				}
			}); p != nil {
				report("panic-in-tracker", map[string]interface{}{"panic": fmt.Sprint(p), "session": si})
				return m, true
			}
			st.queries += int64(2 * lim)
			ctx := func() map[string]interface{} {
				pend := lazy(func() interface{} {
					var p []string
					for _, u := range ms.pending {
						if !u.Skipped {
							p = append(p, u.String())
						}
					}
					return p
				})
				return map[string]interface{}{"session": si, "mailbox": ints(m.mbox), "client_view": ints(ms.view), "pending": pend}
			}
			var vbDec, vbEnc []string
			encFlagged := map[int]bool{}
			for c := 1; c <= len(ms.view); c++ {
				want := indexOf(m.mbox, ms.view[c-1])
				if want == 0 {
					st.wantZero++
				} else {
					st.wantNonZero++
					if want != c {
						st.renumbered++
					}
				}
				if vb != nil {
					vbDec = append(vbDec, fmt.Sprintf("%d→%d(want %d)", c, dec[c], want))
				}
				if int(dec[c]) != want {
					d := ctx()
					c := c
					d["call"] = lazy(func() interface{} { return fmt.Sprintf("DecodeSeqNum(%d)", c) })
					d["got"], d["want"] = dec[c], want
					switch {
					case want == 0:
						report("DecodeSeqNum-nonzero-for-expunged-message", d)
					case dec[c] == 0:
						report("DecodeSeqNum-zero-for-existing-message", d)
					default:
						report("DecodeSeqNum-wrong-number", d)
					}
				}
			}
			for s := 1; s <= n; s++ {
				id := m.mbox[s-1]
				want := indexOf(ms.view, id)
				if want == 0 {
					st.wantZero++
				} else {
					st.wantNonZero++
					if want != s {
						st.renumbered++
					}
				}
				if vb != nil {
					vbEnc = append(vbEnc, fmt.Sprintf("%d→%d(want %d)", s, enc[s], want))
				}
				if int(enc[s]) != want {
					encFlagged[s] = true
					d := ctx()
					s := s
					d["call"] = lazy(func() interface{} { return fmt.Sprintf("EncodeSeqNum(%d)", s) })
					d["got"], d["want"] = enc[s], want
					switch {
					case want == 0 && inMultiAppendNotLast(ms, id):
						report("EncodeSeqNum-after-append-k>=2", d)
					case want == 0:
						report("EncodeSeqNum-nonzero-for-unannounced-message", d)
					case enc[s] == 0:
						report("EncodeSeqNum-zero-for-known-message", d)
					default:
						report("EncodeSeqNum-wrong-number", d)
					}
				}
			}
			// round trips on the implementation's own answers
			for c := 1; c <= len(ms.view); c++ {
				if s := dec[c]; s != 0 && int(dec[c]) == indexOf(m.mbox, ms.view[c-1]) {
					var back uint32
					safely(func() { back = r.st.EncodeSeqNum(s) })
					if int(back) != c && !encFlagged[int(s)] {
						d := ctx()
						d["call"] = fmt.Sprintf("EncodeSeqNum(DecodeSeqNum(%d)=%d)", c, s)
						d["got"], d["want"] = back, c
						report("roundtrip-decode-encode", d)
					}
				}
			}
			for s := 1; s <= n; s++ {
				if c := enc[s]; c != 0 && !encFlagged[s] {
					var back uint32
					safely(func() { back = r.st.DecodeSeqNum(c) })
					if int(back) != s {
						d := ctx()
						d["call"] = fmt.Sprintf("DecodeSeqNum(EncodeSeqNum(%d)=%d)", s, c)
						d["got"], d["want"] = back, s
						report("roundtrip-encode-decode", d)
					}
				}
			}
			if vb != nil {
				fmt.Fprintf(vb, "  impl:  s%d Decode %s | Encode %s | beyond-view Decode(%d..%d)=%v Encode(%d)=%d (unconstrained)\n",
					si, strings.Join(vbDec, " "), strings.Join(vbEnc, " "), len(ms.view)+1, lim, dec[len(ms.view)+1:], lim, enc[lim])
			}
		}
	}
	return m, false
}

// inMultiAppendNotLast: id was announced by a still pending EXISTS update covering >= 2 new
// messages and is not the last of them (the case the TODO in EncodeSeqNum admits).
func inMultiAppendNotLast(ms *msess, id int) bool {
	for _, u := range ms.pending {
		if u.Kind == 'E' && len(u.IDs) >= 2 {
			for i, x := range u.IDs {
				if x == id && i < len(u.IDs)-1 {
					return true
				}
			}
		}
	}
	return false
}

// ---------------------------------------------------------------------------------------------
// violation collection (deterministic: per key the smallest history wins)

type cand struct {
	h      hist
	detail map[string]interface{}
}

var (
	violMu sync.Mutex
	viols  = map[string]*cand{}
	nViol  int64
)

func collect(key string, h hist, step int, detail map[string]interface{}) {
	atomic.AddInt64(&nViol, 1)
	violMu.Lock()
	defer violMu.Unlock()
	if c, ok := viols[key]; ok && !h.less(c.h) {
		return
	}
	viols[key] = &cand{h: hist{h.Init, append([]event{}, h.Ev...)}, detail: resolve(detail)}
}

// ---------------------------------------------------------------------------------------------
// search

type entry struct {
	level  int16
	parent int32
	evIdx  int16
	ev     event
}

const nShards = 256

// states are remembered by the first 128 bits of the SHA-256 of their canonical key
type hkey [16]byte

type freshEnt struct {
	k  hkey
	nt bool // some session has undelivered updates
}

type shard struct {
	mu    sync.Mutex
	m     map[hkey]entry
	fresh []freshEnt
}

func hashKey(k string) hkey {
	s := sha256.Sum256([]byte(k))
	var h hkey
	copy(h[:], s[:16])
	return h
}

var run *vk.Run

func shardOf(k hkey) int { return int(k[0]) % nShards }

type bfsResult struct {
	ran                       bool
	bd                        bounds
	depthBound                int
	states, trans, nontrivial int64
	depthReached              int
	perLevel                  []int64
	frontierEmpty             bool
	frontierLeft              int
	wall                      time.Duration
}

func (r bfsResult) coverage() map[string]interface{} {
	return map[string]interface{}{"mailbox_size_max": r.bd.maxN, "open_sessions_max": r.bd.maxS, "pending_per_session_max(0=unbounded)": r.bd.maxPending,
		"depth_bound": r.depthBound, "states": r.states, "transitions": r.trans, "depth_reached": r.depthReached, "new_states_per_depth": r.perLevel,
		"frontier_exhausted": r.frontierEmpty, "frontier_left_at_depth_bound": r.frontierLeft, "wall_s": r.wall.Seconds()}
}

// bfs: level-synchronous breadth-first search. Every transition (state representative, enabled
// event) is executed on a fresh real tracker by replaying the representative's history; the oracle
// is evaluated on the last step (all proper prefixes are representatives checked one level earlier).
// The representative of a state is the smallest (parent index, event index) reaching it, so the
// result does not depend on worker scheduling.
func bfs(name string, bd bounds, depth int, workers []*worker, total *stats, totalMu *sync.Mutex) bfsResult {
	t0 := time.Now()
	nw := len(workers)
	shards := make([]*shard, nShards)
	for i := range shards {
		shards[i] = &shard{m: map[hkey]entry{}}
	}
	var frontier []hist
	var states, trans, nontrivial int64
	for init := 0; init <= 3; init++ {
		h := hist{Init: int8(init)}
		k := hashKey(modelOnly(h).key())
		shards[shardOf(k)].m[k] = entry{}
		frontier = append(frontier, h)
		states++
	}
	depthReached := 0
	perLevel := []int64{states}
	left := len(frontier)
	for d := 0; d < depth && len(frontier) > 0; d++ {
		var next int64 = -1
		var wg sync.WaitGroup
		for wi := 0; wi < nw; wi++ {
			wg.Add(1)
			go func(w *worker) {
				defer wg.Done()
				var st stats
				var tr int64
				for {
					pi := int(atomic.AddInt64(&next, 1))
					if pi >= len(frontier) {
						break
					}
					h := frontier[pi]
					pm := modelOnly(h)
					for ei, e := range pm.enabled(bd) {
						child := h.extend(e)
						m, diverged := w.lockstep(child, len(child.Ev)-1, collect, &st, nil)
						tr++
						if diverged {
							continue
						}
						ks := m.key()
						k := hashKey(ks)
						sh := shards[shardOf(k)]
						sh.mu.Lock()
						old, ok := sh.m[k]
						switch {
						case !ok:
							sh.m[k] = entry{int16(d + 1), int32(pi), int16(ei), e}
							sh.fresh = append(sh.fresh, freshEnt{k, strings.Contains(ks, ";p ")})
						case int(old.level) == d+1 && (int32(pi) < old.parent || (int32(pi) == old.parent && int16(ei) < old.evIdx)):
							sh.m[k] = entry{int16(d + 1), int32(pi), int16(ei), e}
						}
						sh.mu.Unlock()
					}
				}
				atomic.AddInt64(&trans, tr)
				totalMu.Lock()
				total.add(&st)
				totalMu.Unlock()
			}(workers[wi])
		}
		wg.Wait()
		var ents []entry
		for _, sh := range shards {
			for _, f := range sh.fresh {
				ents = append(ents, sh.m[f.k])
				if f.nt {
					nontrivial++
				}
			}
			sh.fresh = nil
		}
		sort.Slice(ents, func(i, j int) bool {
			if ents[i].parent != ents[j].parent {
				return ents[i].parent < ents[j].parent
			}
			return ents[i].evIdx < ents[j].evIdx
		})
		nNew := len(ents)
		states += int64(nNew)
		perLevel = append(perLevel, int64(nNew))
		if nNew > 0 {
			depthReached = d + 1
		}
		if nNew > 0 && d+1 >= 5 {
			en := ents[nNew/2]
			x := frontier[en.parent].extend(en.ev)
			run.Sample("bfs-state-"+name, map[string]interface{}{"history": x.String(), "key": modelOnly(x).key()})
		}
		fmt.Fprintf(os.Stderr, "bfs[%s] depth %d: new states=%d total=%d transitions=%d t=%s\n", name, d+1, nNew, states, trans, time.Since(t0).Round(time.Millisecond))
		left = nNew
		if d+1 == depth {
			// depth bound reached: the states of the last level are counted, not expanded, so
			// their histories are not materialised
			frontier = nil
			break
		}
		nf := make([]hist, nNew)
		for i, en := range ents {
			nf[i] = frontier[en.parent].extend(en.ev)
		}
		frontier = nf
	}
	return bfsResult{ran: true, bd: bd, depthBound: depth, states: states, trans: trans, nontrivial: nontrivial, depthReached: depthReached, perLevel: perLevel,
		frontierEmpty: left == 0, frontierLeft: left, wall: time.Since(t0)}
}

func main() {
	freshFlag := flag.Bool("fresh-conns", false, "never reuse a server connection across histories (slower)")
	depthFlag := flag.Int("depth", 0, "override the BFS depth bound")
	nodedupFlag := flag.Int("nodedup-depth", -1, "override the depth of the pass without merging")
	sessFlag := flag.Int("sessions", 0, "override the bound on simultaneously open sessions")
	pendFlag := flag.Int("max-pending", -1, "override the bound on undelivered updates per session (0 = unbounded)")
	profFlag := flag.String("cpuprofile", "", "write a CPU profile (engine tuning only)")
	workersFlag := flag.Int("workers", 0, "worker goroutines (default: number of CPUs)")
	closedFlag := flag.Int("closed-pending", -1, "bound on undelivered updates per session in the closed search (0 = skip that search)")
	run = vk.Start("C07", "model_checking")
	if run.Replay != "" {
		replay()
		return
	}
	bd := bounds{maxN: 4, maxS: 2, maxPending: 0}
	// Sizes measured on 16 cores: quick ~4 M transitions (30-95 s depending on machine load),
	// thorough ~68 M (the depth-8 search with 3 sessions alone is 50 M transitions / 30 M states,
	// 5-9 min). A closed search with 3 sessions and <= 4 undelivered updates per session was run
	// once: 16.7 M states, 163 M transitions, frontier empty at depth 12, 18 min - too big for a tier.
	depth, ndDepth := 7, 4
	closedCfgs := []bounds{{maxN: 4, maxS: 2, maxPending: 3}}
	if run.Thorough() {
		bd.maxS = 3
		depth, ndDepth = 8, 5
		closedCfgs = []bounds{{maxN: 4, maxS: 3, maxPending: 3}, {maxN: 4, maxS: 2, maxPending: 4}}
	}
	if *depthFlag > 0 {
		depth = *depthFlag
	}
	if *nodedupFlag >= 0 {
		ndDepth = *nodedupFlag
	}
	if *sessFlag > 0 {
		bd.maxS = *sessFlag
	}
	if *pendFlag >= 0 {
		bd.maxPending = *pendFlag
	}
	if *profFlag != "" {
		f, err := os.Create(*profFlag)
		if err == nil {
			pprof.StartCPUProfile(f)
			defer pprof.StopCPUProfile()
		}
	}
	nw := runtime.GOMAXPROCS(0)
	if *workersFlag > 0 {
		nw = *workersFlag
	}
	workers := make([]*worker, nw)
	for i := range workers {
		workers[i] = newWorker(*freshFlag)
	}
	ndWorkers := make([]*worker, nw)
	for i := range ndWorkers {
		ndWorkers[i] = newWorker(true)
	}
	t0 := time.Now()
	var total stats
	var totalMu sync.Mutex

	// ---- BFS with merging ----
	// (1) closed search: undelivered updates per session bounded, no depth bound: runs until the
	//     frontier is empty; (2) depth-bounded search without a bound on undelivered updates.
	if *closedFlag == 0 {
		closedCfgs = nil
	} else if *closedFlag > 0 {
		closedCfgs = []bounds{{maxN: bd.maxN, maxS: bd.maxS, maxPending: *closedFlag}}
	}
	var closed []bfsResult
	for _, cb := range closedCfgs {
		closed = append(closed, bfs(fmt.Sprintf("closed,sessions<=%d,pending<=%d", cb.maxS, cb.maxPending), cb, 1000, workers, &total, &totalMu))
	}
	deep := bfs("depth-bounded", bd, depth, workers, &total, &totalMu)

	// ---- every history up to ndDepth, no merging ----
	var ndCount int64
	{
		var jobs []hist
		// jobs = all histories of length <= 2 (each is also executed); recursion continues below length 2
		var gen func(h hist, m *model)
		gen = func(h hist, m *model) {
			jobs = append(jobs, h)
			if len(h.Ev) >= 2 || len(h.Ev) >= ndDepth {
				return
			}
			for _, e := range m.enabled(bd) {
				c := h.extend(e)
				gen(c, modelOnly(c))
			}
		}
		for init := 0; init <= 3 && ndDepth > 0; init++ {
			h := hist{Init: int8(init)}
			gen(h, modelOnly(h))
		}
		var next int64 = -1
		var wg sync.WaitGroup
		for wi := 0; wi < nw; wi++ {
			wg.Add(1)
			go func(w *worker) {
				defer wg.Done()
				var st stats
				var cnt int64
				var rec func(h hist)
				rec = func(h hist) {
					var m *model
					if len(h.Ev) > 0 {
						var div bool
						m, div = w.lockstep(h, len(h.Ev)-1, collect, &st, nil)
						cnt++
						if div {
							return
						}
					} else {
						m = modelOnly(h)
					}
					if len(h.Ev) >= ndDepth {
						return
					}
					for _, e := range m.enabled(bd) {
						rec(h.extend(e))
					}
				}
				for {
					ji := int(atomic.AddInt64(&next, 1))
					if ji >= len(jobs) {
						break
					}
					h := jobs[ji]
					if len(h.Ev) < 2 && len(h.Ev) < ndDepth {
						// inner node of the job tree: executed here, children are separate jobs
						if len(h.Ev) > 0 {
							w.lockstep(h, len(h.Ev)-1, collect, &st, nil)
							cnt++
						}
						continue
					}
					rec(h)
				}
				atomic.AddInt64(&ndCount, cnt)
				totalMu.Lock()
				total.add(&st)
				totalMu.Unlock()
			}(ndWorkers[wi])
		}
		wg.Wait()
		fmt.Fprintf(os.Stderr, "no-merge pass depth<=%d: histories=%d t=%s\n", ndDepth, ndCount, time.Since(t0).Round(time.Millisecond))
	}

	// ---- command matrix: which commands may carry EXPUNGE ----
	var matrix int64
	{
		w := workers[0]
		var st stats
		for ci := range pollCmds {
			for init := 1; init <= 3; init++ {
				for x := 1; x <= init; x++ {
					h := hist{Init: int8(init), Ev: []event{
						{evNewSession, 0, 0}, {evAppend, 1, 0}, {evExpunge, int8(x), 0}, {evMsgFlags, 1, -1}, {evMboxFlags, 0, 0},
						{evPoll, 0, int8(ci)}, {evPoll, 0, 1}}}
					w.lockstep(h, 0, collect, &st, nil)
					matrix++
				}
			}
		}
		total.add(&st)
	}
	var conns int64
	for _, w := range append(append([]*worker{}, workers...), ndWorkers...) {
		conns += w.conns
		w.close()
	}

	// ---- verdicts ----
	if total.polls == 0 || total.pollsCutAtExpunge == 0 || total.pollsFullWithExpunge == 0 || total.wantZero == 0 || total.renumbered == 0 {
		run.EngineError("vacuous run: %+v", total)
	}
	if total.allowSurprise > 0 {
		// NOOP must give permission, FETCH/STORE/SEARCH must not: otherwise the harness cannot issue the
		// polls of the alphabet. A FETCH that carries EXPUNGE is reported as a violation above.
		run.Set("polls_where_conn_passed_unexpected_allowExpunge", total.allowSurprise)
	}
	keys := make([]string, 0, len(viols))
	for k := range viols {
		keys = append(keys, k)
	}
	sort.Strings(keys)
	vw := newWorker(true)
	for _, k := range keys {
		c := viols[k]
		// re-execute 5 times from the stored history before reporting
		same := 0
		for i := 0; i < 5; i++ {
			hit := false
			var st stats
			vw.lockstep(c.h, 0, func(key string, h hist, step int, d map[string]interface{}) {
				if key == k {
					hit = true
				}
			}, &st, nil)
			if hit {
				same++
			}
		}
		if same != 5 {
			run.EngineError("violation %s reproduced only %d/5 times on %s", k, same, c.h)
		}
		run.Violation(k, c.detail)
		fmt.Printf("finding key=%s shortest history: %s\n   %v\n", k, c.h, brief(c.detail))
	}
	vw.close()

	big := deep
	allTrans := deep.trans
	anyClosedEmpty := false
	var closedCov []interface{}
	for _, c := range closed {
		if c.states > big.states {
			big = c
		}
		allTrans += c.trans
		anyClosedEmpty = anyClosedEmpty || c.frontierEmpty
		closedCov = append(closedCov, c.coverage())
	}
	run.States, run.Trans, run.Traces = big.states, big.trans, allTrans+ndCount+matrix
	run.AddEvals(allTrans + ndCount + matrix)
	run.NontrivialN(big.nontrivial)
	run.Set("bounds", map[string]interface{}{"mailbox_size_max": bd.maxN, "initial_sizes": "0..3", "open_sessions_max": bd.maxS,
		"depth_bounded_search_depth": depth, "no_merge_depth": ndDepth})
	run.Set("bfs_depth_bounded", deep.coverage())
	run.Set("bfs_closed", closedCov)
	run.Set("bfs_transitions_all_searches", allTrans)
	run.Set("no_merge_histories", ndCount)
	run.Set("command_matrix_histories", matrix)
	run.Set("server_connections_opened", conns)
	run.Set("fresh_connection_per_history", *freshFlag)
	run.Set("polls_on_the_wire", total.polls)
	run.Set("polls_delivering_updates", total.pollsDelivering)
	run.Set("polls_cut_at_pending_expunge", total.pollsCutAtExpunge)
	run.Set("polls_delivering_expunges", total.pollsFullWithExpunge)
	run.Set("translation_queries", total.queries)
	run.Set("translation_want_zero", total.wantZero)
	run.Set("translation_want_nonzero", total.wantNonZero)
	run.Set("translation_want_renumbered", total.renumbered)
	run.Set("violating_observations_total", atomic.LoadInt64(&nViol))
	run.Rule = "breadth-first searches (closed: undelivered updates per session bounded, run until the frontier is empty; depth-bounded: no such bound) over histories of {Append(1..3), Expunge(i), MsgFlags(i,source), MailboxFlags, NewSession, Close(s), Poll(s,allowExpunge)} on the real MailboxTracker/SessionTracker (polls through a real Conn: NOOP / FETCH), merged on the canonical reference-model state (mailbox, per open session view + undelivered updates; ids renamed by rank, sessions sorted); every transition re-executed from a fresh tracker; plus every history up to the no-merge depth without merging; plus a command matrix (NOOP, CHECK, FETCH, STORE, SEARCH, UID variants) for the EXPUNGE permission. non-trivial = distinct states in which some session has undelivered updates"
	// exhaustive only when a frontier emptied under the configured bounds (the closed search)
	run.Exhaustive = anyClosedEmpty || deep.frontierEmpty
	run.Assume("DecodeSeqNum of numbers beyond the client's view and EncodeSeqNum of numbers beyond the mailbox are called (must not panic) but their value is unconstrained: the documentation does not define them")
	run.Assume("a session's client view starts as the mailbox at NewSession time (what SELECT reported)")
	run.Assume("consecutive EXISTS updates may be coalesced by an implementation: delivered and expected update lists are compared after collapsing runs of EXISTS")
	run.Assume("the tracker is driven sequentially (no concurrent Queue*/Poll); concurrency is C14's subject")
	run.Assume("visited states are remembered by the first 128 bits of the SHA-256 of the canonical key")
	run.Assume("the merging searches reuse server connections across histories unless --fresh-conns is given (a Conn holds no tracker state; the UpdateWriter is created per poll; each connection is retired after 512 histories); the no-merge pass, the 5x re-execution of every counterexample and --replay use a fresh connection per session")
	for _, c := range closed {
		if c.frontierEmpty {
			run.Assume(fmt.Sprintf("exhaustive=true refers to the closed search: mailbox <= %d messages (initial 0..3), <= %d simultaneously open sessions, <= %d undelivered updates per session, no depth bound; its frontier emptied at depth %d", c.bd.maxN, c.bd.maxS, c.bd.maxPending, c.depthReached))
		}
	}
	if !deep.frontierEmpty {
		run.Assume(fmt.Sprintf("without a bound on undelivered updates the state space is infinite (flag updates accumulate): the depth-bounded search stops at depth %d with %d states on its frontier; every history up to that depth is covered modulo merging", depth, deep.frontierLeft))
	}
	for _, r := range append(append([]bfsResult{}, closed...), deep) {
		fmt.Printf("C07 bfs: mailbox<=%d initial 0..3 sessions<=%d pending/session<=%d (0=unbounded) depth<=%d | states=%d transitions=%d depth_reached=%d frontier_exhausted=%v (left %d) wall=%.1fs\n",
			r.bd.maxN, r.bd.maxS, r.bd.maxPending, r.depthBound, r.states, r.trans, r.depthReached, r.frontierEmpty, r.frontierLeft, r.wall.Seconds())
	}
	fmt.Printf("C07 no-merge pass: depth<=%d histories=%d (fresh connections) | command matrix=%d | polls on the wire=%d translation queries=%d connections=%d\n",
		ndDepth, ndCount, matrix, total.polls, total.queries, conns)
	pprof.StopCPUProfile()
	run.Finish()
}

func brief(d map[string]interface{}) string {
	var parts []string
	for _, k := range []string{"call", "got", "want", "session", "mailbox", "client_view", "pending", "offending", "wire_updates", "model_updates", "problem", "panic"} {
		if v, ok := d[k]; ok {
			parts = append(parts, fmt.Sprintf("%s=%v", k, v))
		}
	}
	return strings.Join(parts, " ")
}

// ---------------------------------------------------------------------------------------------
// replay

func replay() {
	b, err := os.ReadFile(run.Replay)
	if err != nil {
		run.EngineError("%v", err)
	}
	var f struct {
		Key    string `json:"key"`
		Detail struct {
			Init   int      `json:"init"`
			Events [][3]int `json:"events"`
		} `json:"detail"`
	}
	if err := json.Unmarshal(b, &f); err != nil {
		run.EngineError("replay file: %v", err)
	}
	h := hist{Init: int8(f.Detail.Init)}
	for _, e := range f.Detail.Events {
		h.Ev = append(h.Ev, event{int8(e[0]), int8(e[1]), int8(e[2])})
	}
	fmt.Printf("replaying %s (stored key: %s)\n", h, f.Key)
	w := newWorker(true)
	var st stats
	hit := false
	w.lockstep(h, 0, func(key string, hh hist, step int, d map[string]interface{}) {
		if key == f.Key {
			hit = true
		}
		run.Violation(key, resolve(d))
	}, &st, os.Stdout)
	w.close()
	fmt.Printf("stored violation reproduced: %v\n", hit)
	run.Finish()
}
