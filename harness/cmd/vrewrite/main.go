// vrewrite instruments go-imap for the vsched controlled scheduler. It reads the current
// sources of the listed packages under /repo (or their replacements from an input overlay, so
// that mutants can be instrumented too), rewrites synchronisation constructs into calls to the
// shim, and writes the result plus an overlay.json that also maps the shim sources to the
// virtual package /repo/internal/vsched. /repo itself is never modified.
//
// Rewrites: import "sync" -> shim; `ch <- v` -> vsched.Send(ch); ch <- v; `<-ch` inside a simple
// statement -> vsched.Recv(ch) hoisted before the statement; close(ch) -> vsched.Close(ch);
// select -> switch vsched.Select(...); go f(x) -> vsched.Go(...); time.NewTimer -> vsched.NewTimer.
// Anything it cannot handle makes it exit with status 3 ("unsupported construct").
package main

import (
	"bytes"
	"encoding/json"
	"flag"
	"fmt"
	"go/ast"
	"go/parser"
	"go/printer"
	"go/token"
	"os"
	"path/filepath"
	"strconv"
	"strings"
)

const shimPath = "github.com/emersion/go-imap/v2/internal/vsched"

var pkgs = []string{"imapclient", "imapserver", "imapserver/imapmemserver", "internal/imapwire", "internal"}

type overlay struct {
	Replace map[string]string
}

func fatal(format string, a ...interface{}) {
	fmt.Fprintf(os.Stderr, "vrewrite: "+format+"\n", a...)
	os.Exit(3)
}

func main() {
	out := flag.String("out", "", "output directory")
	in := flag.String("overlay-in", "", "input overlay (mutant) whose replacements are used as sources")
	repo := flag.String("repo", "/repo", "repository root")
	shim := flag.String("shim", "/verif/vsched", "shim sources")
	flag.Parse()
	if *out == "" {
		fatal("-out required")
	}
	inRepl := map[string]string{}
	if *in != "" {
		b, err := os.ReadFile(*in)
		if err != nil {
			fatal("%v", err)
		}
		var o overlay
		if err := json.Unmarshal(b, &o); err != nil {
			fatal("%v", err)
		}
		inRepl = o.Replace
	}
	ov := overlay{Replace: map[string]string{}}
	for k, v := range inRepl {
		ov.Replace[k] = v // files outside the instrumented packages pass through
	}
	os.MkdirAll(*out, 0o755)
	for _, pkg := range pkgs {
		dir := filepath.Join(*repo, pkg)
		ents, err := os.ReadDir(dir)
		if err != nil {
			fatal("%v", err)
		}
		names := map[string]bool{}
		for _, e := range ents {
			if !e.IsDir() {
				names[e.Name()] = true
			}
		}
		// files added by the input overlay
		for k := range inRepl {
			if filepath.Dir(k) == dir {
				names[filepath.Base(k)] = true
			}
		}
		// pre-pass: unexported struct fields of this package that are maps wherever they are declared
		fieldKinds := map[string][2]int{} // name -> {map declarations, other declarations}
		ptrKeyed := map[string]bool{}
		chanKinds := map[string][2]int{} // name -> {declarations as a channel, other declarations}
		for name := range names {
			if !strings.HasSuffix(name, ".go") || strings.HasSuffix(name, "_test.go") {
				continue
			}
			path := filepath.Join(dir, name)
			src := path
			if r, ok := inRepl[path]; ok {
				if r == "" {
					continue
				}
				src = r
			}
			b, err := os.ReadFile(src)
			if err != nil {
				fatal("%v", err)
			}
			f, err := parser.ParseFile(token.NewFileSet(), path, b, 0)
			if err != nil {
				fatal("%v", err)
			}
			noteChan := func(id *ast.Ident, isChan bool) {
				if id == nil || id.Name == "_" {
					return
				}
				k := chanKinds[id.Name]
				if isChan {
					k[0]++
				} else {
					k[1]++
				}
				chanKinds[id.Name] = k
			}
			isChanType := func(e ast.Expr) bool { _, ok := e.(*ast.ChanType); return ok }
			isMakeChan := func(e ast.Expr) bool {
				c, ok := e.(*ast.CallExpr)
				if !ok || len(c.Args) == 0 {
					return false
				}
				id, ok := c.Fun.(*ast.Ident)
				return ok && id.Name == "make" && isChanType(c.Args[0])
			}
			ast.Inspect(f, func(n ast.Node) bool {
				switch x := n.(type) {
				case *ast.Field: // struct fields, parameters, results
					for _, id := range x.Names {
						noteChan(id, isChanType(x.Type))
					}
				case *ast.ValueSpec:
					for i, id := range x.Names {
						noteChan(id, (x.Type != nil && isChanType(x.Type)) || (x.Type == nil && i < len(x.Values) && isMakeChan(x.Values[i])))
					}
				case *ast.AssignStmt:
					if x.Tok == token.DEFINE && len(x.Lhs) == len(x.Rhs) {
						for i, l := range x.Lhs {
							if id, ok := l.(*ast.Ident); ok {
								noteChan(id, isMakeChan(x.Rhs[i]))
							}
						}
					} else if x.Tok == token.DEFINE {
						for _, l := range x.Lhs {
							if id, ok := l.(*ast.Ident); ok {
								noteChan(id, false)
							}
						}
					}
				case *ast.RangeStmt:
					if x.Tok == token.DEFINE {
						if id, ok := x.Key.(*ast.Ident); ok {
							noteChan(id, false)
						}
						if id, ok := x.Value.(*ast.Ident); ok {
							noteChan(id, false)
						}
					}
				}
				st, ok := n.(*ast.StructType)
				if !ok || st.Fields == nil {
					return true
				}
				for _, fld := range st.Fields.List {
					// only keys of a predeclared ordered type: other key types cannot be told apart
					// syntactically (interfaces do not satisfy comparable at the repository's language
					// version, pointers have no stable order)
					isMap := false
					if mt, ok := fld.Type.(*ast.MapType); ok {
						if _, ok := mt.Key.(*ast.StarExpr); ok {
							isMap = true // iterated in insertion order (vsched.Note / vsched.Keys)
							for _, id := range fld.Names {
								ptrKeyed[id.Name] = true
							}
						}
						if id, ok := mt.Key.(*ast.Ident); ok {
							switch id.Name {
							case "string", "int", "int32", "int64", "uint", "uint32", "uint64":
								isMap = true
							}
						}
					}
					for _, id := range fld.Names {
						k := fieldKinds[id.Name]
						if isMap {
							k[0]++
						} else {
							k[1]++
						}
						fieldKinds[id.Name] = k
					}
				}
				return true
			})
		}
		chanNames = map[string]bool{}
		for name, k := range chanKinds {
			if k[0] > 0 && k[1] == 0 {
				chanNames[name] = true
			}
		}
		mapFields = map[string]bool{}
		ptrMapFields = map[string]bool{}
		for name, k := range fieldKinds {
			if k[0] > 0 && k[1] == 0 && !ast.IsExported(name) {
				mapFields[name] = true
				if ptrKeyed[name] {
					ptrMapFields[name] = true
				}
			}
		}
		for name := range names {
			if !strings.HasSuffix(name, ".go") || strings.HasSuffix(name, "_test.go") {
				continue
			}
			path := filepath.Join(dir, name)
			src := path
			if r, ok := inRepl[path]; ok {
				if r == "" {
					continue
				}
				src = r
			}
			b, err := os.ReadFile(src)
			if err != nil {
				fatal("%v", err)
			}
			res, changed := rewriteFile(path, b)
			if !changed && src == path {
				continue
			}
			dst := filepath.Join(*out, strings.ReplaceAll(pkg, "/", "_")+"__"+name)
			if err := os.WriteFile(dst, res, 0o644); err != nil {
				fatal("%v", err)
			}
			ov.Replace[path] = dst
		}
	}
	// shim as a virtual package
	shimFiles, _ := filepath.Glob(filepath.Join(*shim, "*.go"))
	if len(shimFiles) == 0 {
		fatal("no shim sources in %s", *shim)
	}
	for _, f := range shimFiles {
		ov.Replace[filepath.Join(*repo, "internal/vsched", filepath.Base(f))] = f
	}
	b, _ := json.MarshalIndent(ov, "", " ")
	if err := os.WriteFile(filepath.Join(*out, "overlay.json"), b, 0o644); err != nil {
		fatal("%v", err)
	}
}

// chanNames: names (fields, variables, parameters) that are channels in every declaration of the
// package being rewritten; `for v := range ch` over such a name becomes an announced receive loop.
var chanNames map[string]bool

// mapFields: unexported struct fields of the package being rewritten that are maps in every
// declaration; `for k, v := range x.f` over such a field is given a deterministic order.
var mapFields map[string]bool

// ptrMapFields: the subset of mapFields whose key is a pointer; insertions are announced.
var ptrMapFields map[string]bool

type rewriter struct {
	fset    *token.FileSet
	file    string
	used    bool // vsched referenced
	changed bool
	timePkg bool
	tmpN    int
	hoists  []ast.Stmt // temporaries to declare ahead of the statement being rewritten
}

func (r *rewriter) pos(n ast.Node) string {
	p := r.fset.Position(n.Pos())
	return fmt.Sprintf("%s:%d", filepath.Base(p.Filename), p.Line)
}

func (r *rewriter) unsupported(n ast.Node, what string) {
	fatal("unsupported construct at %s: %s", r.pos(n), what)
}

func sel(name string) ast.Expr {
	return &ast.SelectorExpr{X: ast.NewIdent("vsched"), Sel: ast.NewIdent(name)}
}

func call(name string, args ...ast.Expr) *ast.CallExpr {
	return &ast.CallExpr{Fun: sel(name), Args: args}
}

func rewriteFile(path string, src []byte) ([]byte, bool) {
	fset := token.NewFileSet()
	f, err := parser.ParseFile(fset, path, src, 0)
	if err != nil {
		fatal("%v", err)
	}
	r := &rewriter{fset: fset, file: path}
	// imports
	for _, imp := range f.Imports {
		p, _ := strconv.Unquote(imp.Path.Value)
		if p == "sync" {
			if imp.Name != nil && imp.Name.Name != "sync" {
				r.unsupported(imp, "renamed sync import")
			}
			imp.Path.Value = strconv.Quote(shimPath)
			imp.Name = ast.NewIdent("sync")
			r.changed = true
		}
		if p == "time" && imp.Name == nil {
			r.timePkg = true
		}
	}
	for _, d := range f.Decls {
		if fd, ok := d.(*ast.FuncDecl); ok && fd.Body != nil {
			fd.Body.List = r.stmts(fd.Body.List)
		}
		if gd, ok := d.(*ast.GenDecl); ok {
			ast.Inspect(gd, func(n ast.Node) bool {
				if fl, ok := n.(*ast.FuncLit); ok {
					fl.Body.List = r.stmts(fl.Body.List)
					return false
				}
				return true
			})
		}
	}
	if !r.changed {
		return src, false
	}
	if r.used {
		// add the import
		imp := &ast.ImportSpec{Name: ast.NewIdent("vsched"), Path: &ast.BasicLit{Kind: token.STRING, Value: strconv.Quote(shimPath)}}
		gd := &ast.GenDecl{Tok: token.IMPORT, Specs: []ast.Spec{imp}}
		f.Decls = append([]ast.Decl{gd}, f.Decls...)
	}
	var buf bytes.Buffer
	if err := (&printer.Config{Mode: printer.UseSpaces | printer.TabIndent, Tabwidth: 8}).Fprint(&buf, fset, f); err != nil {
		fatal("%v", err)
	}
	if r.timePkg {
		buf.WriteString("\nvar _ time.Duration // keep the import used after rewriting\n")
	}
	return buf.Bytes(), true
}

// exprs rewrites expressions in place: close(...) calls, time.NewTimer, nested function
// literals; it collects receive operations that must be announced before the statement.
func (r *rewriter) expr(e ast.Expr, recvs *[]ast.Expr) {
	if e == nil {
		return
	}
	ast.Inspect(e, func(n ast.Node) bool {
		switch x := n.(type) {
		case *ast.FuncLit:
			x.Body.List = r.stmts(x.Body.List)
			return false
		case *ast.UnaryExpr:
			if x.Op == token.ARROW {
				if recvs == nil {
					r.unsupported(x, "receive in an unsupported position")
				}
				if !pureOperand(x.X) {
					// <-f(...): evaluate the channel once into a temporary ahead of the statement,
					// announce the receive on it, receive from it
					r.expr(x.X, recvs)
					x.X = r.hoist(x.X)
					*recvs = append(*recvs, x.X)
					return false
				}
				*recvs = append(*recvs, x.X)
			}
		case *ast.CallExpr:
			if id, ok := x.Fun.(*ast.Ident); ok && id.Name == "close" && len(x.Args) == 1 {
				x.Fun = sel("Close")
				r.used, r.changed = true, true
			}
			if se, ok := x.Fun.(*ast.SelectorExpr); ok {
				if id, ok := se.X.(*ast.Ident); ok && id.Name == "time" {
					switch se.Sel.Name {
					case "NewTimer":
						x.Fun = sel("NewTimer")
						r.used, r.changed = true, true
					case "After":
						x.Fun = sel("After")
						r.used, r.changed = true, true
					case "AfterFunc":
						x.Fun = sel("AfterFunc")
						r.used, r.changed = true, true
					case "Tick", "NewTicker":
						r.unsupported(x, "time."+se.Sel.Name)
					}
				}
			}
		}
		return true
	})
}

// lastName is the identifier an operand ends in (x, a.b.x), or "".
func lastName(e ast.Expr) string {
	switch x := e.(type) {
	case *ast.Ident:
		return x.Name
	case *ast.SelectorExpr:
		return x.Sel.Name
	case *ast.ParenExpr:
		return lastName(x.X)
	}
	return ""
}

func pureOperand(e ast.Expr) bool {
	switch x := e.(type) {
	case *ast.Ident:
		return true
	case *ast.SelectorExpr:
		return pureOperand(x.X)
	case *ast.ParenExpr:
		return pureOperand(x.X)
	}
	return false
}

// hoist declares a fresh temporary holding e ahead of the current statement and returns it.
func (r *rewriter) hoist(e ast.Expr) ast.Expr {
	id := ast.NewIdent(fmt.Sprintf("vschedCh%d", r.tmpN))
	r.tmpN++
	r.hoists = append(r.hoists, &ast.AssignStmt{Lhs: []ast.Expr{id}, Tok: token.DEFINE, Rhs: []ast.Expr{e}})
	r.changed = true
	return id
}

func (r *rewriter) recvStmts(recvs []ast.Expr) []ast.Stmt {
	out := r.hoists
	r.hoists = nil
	for _, ch := range recvs {
		out = append(out, &ast.ExprStmt{X: call("Recv", ch)})
		r.used, r.changed = true, true
	}
	return out
}

func (r *rewriter) stmts(list []ast.Stmt) []ast.Stmt {
	var out []ast.Stmt
	for _, s := range list {
		out = append(out, r.stmt(s)...)
	}
	return out
}

func (r *rewriter) block(b *ast.BlockStmt) {
	if b != nil {
		b.List = r.stmts(b.List)
	}
}

// stmt returns the statements replacing s (pre-statements + s).
func (r *rewriter) stmt(s ast.Stmt) []ast.Stmt {
	switch x := s.(type) {
	case nil:
		return nil
	case *ast.BlockStmt:
		r.block(x)
		return []ast.Stmt{x}
	case *ast.LabeledStmt:
		inner := r.stmt(x.Stmt)
		if len(inner) == 1 {
			x.Stmt = inner[0]
			return []ast.Stmt{x}
		}
		// label must stay on the loop/select; pre-statements go before the label only if the
		// labeled statement is not a jump target that would skip them: be strict
		r.unsupported(x, "labeled statement needing pre-statements")
	case *ast.ExprStmt:
		var recvs []ast.Expr
		r.expr(x.X, &recvs)
		return append(r.recvStmts(recvs), x)
	case *ast.AssignStmt:
		var recvs []ast.Expr
		for _, e := range x.Lhs {
			r.expr(e, &recvs)
		}
		for _, e := range x.Rhs {
			r.expr(e, &recvs)
		}
		pre := r.recvStmts(recvs)
		if len(x.Lhs) == 1 && x.Tok == token.ASSIGN {
			if ie, ok := x.Lhs[0].(*ast.IndexExpr); ok {
				if se, ok := ie.X.(*ast.SelectorExpr); ok && ptrMapFields[se.Sel.Name] && pureOperand(ie.Index) {
					pre = append(pre, &ast.ExprStmt{X: call("Note", ie.Index)})
					r.used, r.changed = true, true
				}
			}
		}
		return append(pre, x)
	case *ast.ReturnStmt:
		var recvs []ast.Expr
		for _, e := range x.Results {
			r.expr(e, &recvs)
		}
		return append(r.recvStmts(recvs), x)
	case *ast.DeclStmt:
		var recvs []ast.Expr
		if gd, ok := x.Decl.(*ast.GenDecl); ok {
			for _, sp := range gd.Specs {
				if vs, ok := sp.(*ast.ValueSpec); ok {
					for _, e := range vs.Values {
						r.expr(e, &recvs)
					}
				}
			}
		}
		return append(r.recvStmts(recvs), x)
	case *ast.IncDecStmt:
		r.expr(x.X, nil)
		return []ast.Stmt{x}
	case *ast.SendStmt:
		var recvs []ast.Expr
		r.expr(x.Value, &recvs)
		if !pureOperand(x.Chan) {
			r.unsupported(x, "send on a non-trivial channel expression")
		}
		r.used, r.changed = true, true
		pre := r.recvStmts(recvs)
		pre = append(pre, &ast.ExprStmt{X: call("Send", x.Chan)})
		return append(pre, x)
	case *ast.GoStmt:
		return r.goStmt(x)
	case *ast.DeferStmt:
		// defer close(ch) -> defer vsched.Close(ch); other calls: rewrite nested literals
		r.expr(x.Call, nil)
		return []ast.Stmt{x}
	case *ast.IfStmt:
		if x.Init != nil {
			init := r.stmt(x.Init)
			if len(init) != 1 {
				r.unsupported(x, "channel operation in if-init")
			}
			x.Init = init[0]
		}
		r.expr(x.Cond, nil)
		r.block(x.Body)
		if x.Else != nil {
			e := r.stmt(x.Else)
			if len(e) != 1 {
				r.unsupported(x, "else needing pre-statements")
			}
			x.Else = e[0]
		}
		return []ast.Stmt{x}
	case *ast.ForStmt:
		if x.Init != nil {
			init := r.stmt(x.Init)
			if len(init) != 1 {
				r.unsupported(x, "channel operation in for-init")
			}
			x.Init = init[0]
		}
		r.expr(x.Cond, nil)
		if x.Post != nil {
			post := r.stmt(x.Post)
			if len(post) != 1 {
				r.unsupported(x, "channel operation in for-post")
			}
			x.Post = post[0]
		}
		r.block(x.Body)
		return []ast.Stmt{x}
	case *ast.RangeStmt:
		r.expr(x.X, nil)
		r.block(x.Body)
		if nm := lastName(x.X); nm != "" && chanNames[nm] && pureOperand(x.X) && x.Value == nil && (x.Tok == token.DEFINE || x.Key == nil) {
			// for v := range ch  ->  for { vsched.Recv(ch); v, ok := <-ch; if !ok { break }; body }
			okName := fmt.Sprintf("vschedOk%d", r.tmpN)
			r.tmpN++
			var lhs ast.Expr = ast.NewIdent("_")
			if x.Key != nil {
				lhs = x.Key
			}
			recv := &ast.AssignStmt{Lhs: []ast.Expr{lhs, ast.NewIdent(okName)}, Tok: token.DEFINE, Rhs: []ast.Expr{&ast.UnaryExpr{Op: token.ARROW, X: x.X}}}
			stop := &ast.IfStmt{Cond: &ast.UnaryExpr{Op: token.NOT, X: ast.NewIdent(okName)}, Body: &ast.BlockStmt{List: []ast.Stmt{&ast.BranchStmt{Tok: token.BREAK}}}}
			body := append([]ast.Stmt{&ast.ExprStmt{X: call("Recv", x.X)}, recv, stop}, x.Body.List...)
			r.used, r.changed = true, true
			return []ast.Stmt{&ast.ForStmt{Body: &ast.BlockStmt{List: body}}}
		}
		if se, ok := x.X.(*ast.SelectorExpr); ok && mapFields[se.Sel.Name] && pureOperand(se) && x.Tok == token.DEFINE && x.Key != nil {
			// map iteration order is the one source of nondeterminism the scheduler cannot own at run
			// time: iterate over the keys in sorted order instead (a key deleted meanwhile is skipped,
			// as the language guarantees for the native loop)
			key, _ := x.Key.(*ast.Ident)
			if key != nil {
				kname := key.Name
				if kname == "_" {
					kname = fmt.Sprintf("vschedKey%d", r.tmpN)
					r.tmpN++
				}
				val := ast.Expr(ast.NewIdent("_"))
				if x.Value != nil {
					val = x.Value
				}
				okName := fmt.Sprintf("vschedOk%d", r.tmpN)
				r.tmpN++
				look := &ast.AssignStmt{Lhs: []ast.Expr{val, ast.NewIdent(okName)}, Tok: token.DEFINE, Rhs: []ast.Expr{&ast.IndexExpr{X: x.X, Index: ast.NewIdent(kname)}}}
				skip := &ast.IfStmt{Cond: &ast.UnaryExpr{Op: token.NOT, X: ast.NewIdent(okName)}, Body: &ast.BlockStmt{List: []ast.Stmt{&ast.BranchStmt{Tok: token.CONTINUE}}}}
				x.Body.List = append([]ast.Stmt{look, skip}, x.Body.List...)
				x.Key, x.Value = ast.NewIdent("_"), ast.NewIdent(kname)
				x.X = call("Keys", x.X)
				r.used, r.changed = true, true
			}
		}
		return []ast.Stmt{x}
	case *ast.SwitchStmt:
		if x.Init != nil {
			init := r.stmt(x.Init)
			if len(init) != 1 {
				r.unsupported(x, "channel operation in switch-init")
			}
			x.Init = init[0]
		}
		r.expr(x.Tag, nil)
		for _, c := range x.Body.List {
			cc := c.(*ast.CaseClause)
			for _, e := range cc.List {
				r.expr(e, nil)
			}
			cc.Body = r.stmts(cc.Body)
		}
		return []ast.Stmt{x}
	case *ast.TypeSwitchStmt:
		if x.Init != nil {
			init := r.stmt(x.Init)
			if len(init) != 1 {
				r.unsupported(x, "channel operation in switch-init")
			}
			x.Init = init[0]
		}
		a := r.stmt(x.Assign)
		if len(a) != 1 {
			r.unsupported(x, "channel operation in type-switch guard")
		}
		x.Assign = a[0]
		for _, c := range x.Body.List {
			cc := c.(*ast.CaseClause)
			cc.Body = r.stmts(cc.Body)
		}
		return []ast.Stmt{x}
	case *ast.SelectStmt:
		return []ast.Stmt{r.selectStmt(x)}
	case *ast.BranchStmt, *ast.EmptyStmt:
		return []ast.Stmt{x}
	}
	r.unsupported(s, fmt.Sprintf("statement %T", s))
	return nil
}

func (r *rewriter) goStmt(g *ast.GoStmt) []ast.Stmt {
	r.used, r.changed = true, true
	c := g.Call
	name := &ast.BasicLit{Kind: token.STRING, Value: strconv.Quote(r.pos(g))}
	// go func(){...}() with no arguments: keep the literal as the thread body
	if fl, ok := c.Fun.(*ast.FuncLit); ok && len(c.Args) == 0 {
		fl.Body.List = r.stmts(fl.Body.List)
		return []ast.Stmt{&ast.ExprStmt{X: call("Go", name, fl)}}
	}
	// general form: evaluate the function value and the arguments now, call them in the thread
	var pre []ast.Stmt
	var recvs []ast.Expr
	r.expr(c.Fun, &recvs)
	for _, a := range c.Args {
		r.expr(a, &recvs)
	}
	pre = append(pre, r.recvStmts(recvs)...)
	fn := ast.NewIdent("vschedFn")
	lhs := []ast.Expr{fn}
	rhs := []ast.Expr{c.Fun}
	var args []ast.Expr
	for i, a := range c.Args {
		id := ast.NewIdent(fmt.Sprintf("vschedArg%d", i))
		lhs = append(lhs, id)
		rhs = append(rhs, a)
		args = append(args, id)
	}
	if c.Ellipsis.IsValid() {
		r.unsupported(g, "go statement with variadic spread")
	}
	assign := &ast.AssignStmt{Lhs: lhs, Tok: token.DEFINE, Rhs: rhs}
	body := &ast.FuncLit{Type: &ast.FuncType{Params: &ast.FieldList{}}, Body: &ast.BlockStmt{List: []ast.Stmt{
		&ast.ExprStmt{X: &ast.CallExpr{Fun: fn, Args: args}},
	}}}
	blk := &ast.BlockStmt{List: append(pre, assign, &ast.ExprStmt{X: call("Go", name, body)})}
	return []ast.Stmt{blk}
}

func (r *rewriter) selectStmt(s *ast.SelectStmt) ast.Stmt {
	r.used, r.changed = true, true
	hasDefault := "false"
	var cases []ast.Expr
	sw := &ast.SwitchStmt{Body: &ast.BlockStmt{}}
	idx := 0
	// channel operands that are calls (ctx.Done(), time.After(d)) are evaluated once, in source
	// order, into temporaries ahead of the statement: exactly what select itself does on entry
	var pre []ast.Stmt
	selHoist := func(e ast.Expr) ast.Expr {
		id := ast.NewIdent(fmt.Sprintf("vschedCh%d", r.tmpN))
		r.tmpN++
		pre = append(pre, &ast.AssignStmt{Lhs: []ast.Expr{id}, Tok: token.DEFINE, Rhs: []ast.Expr{e}})
		return id
	}
	for _, c := range s.Body.List {
		cc := c.(*ast.CommClause)
		body := r.stmts(cc.Body)
		if cc.Comm == nil {
			hasDefault = "true"
			sw.Body.List = append(sw.Body.List, &ast.CaseClause{List: nil, Body: body})
			continue
		}
		var comm ast.Stmt = cc.Comm
		switch x := cc.Comm.(type) {
		case *ast.SendStmt:
			if !pureOperand(x.Chan) {
				r.unsupported(x, "select send on a non-trivial channel expression")
			}
			r.expr(x.Value, nil)
			cases = append(cases, call("SendCase", x.Chan))
		case *ast.ExprStmt:
			u, ok := x.X.(*ast.UnaryExpr)
			if !ok || u.Op != token.ARROW {
				r.unsupported(x, "select receive form")
			}
			if !pureOperand(u.X) {
				r.expr(u.X, nil)
				u.X = selHoist(u.X)
			}
			cases = append(cases, call("RecvCase", u.X))
		case *ast.AssignStmt:
			if len(x.Rhs) != 1 {
				r.unsupported(x, "select receive form")
			}
			u, ok := x.Rhs[0].(*ast.UnaryExpr)
			if !ok || u.Op != token.ARROW {
				r.unsupported(x, "select receive form")
			}
			if !pureOperand(u.X) {
				r.expr(u.X, nil)
				u.X = selHoist(u.X)
			}
			cases = append(cases, call("RecvCase", u.X))
		default:
			r.unsupported(cc, "select clause")
		}
		lit := &ast.BasicLit{Kind: token.INT, Value: strconv.Itoa(idx)}
		sw.Body.List = append(sw.Body.List, &ast.CaseClause{List: []ast.Expr{lit}, Body: append([]ast.Stmt{comm}, body...)})
		idx++
	}
	if hasDefault == "false" {
		// keeps the switch a terminating statement when every clause terminates
		sw.Body.List = append(sw.Body.List, &ast.CaseClause{List: nil, Body: []ast.Stmt{
			&ast.ExprStmt{X: &ast.CallExpr{Fun: ast.NewIdent("panic"), Args: []ast.Expr{&ast.BasicLit{Kind: token.STRING, Value: strconv.Quote("vsched: select index out of range")}}}},
		}})
	}
	args := append([]ast.Expr{ast.NewIdent(hasDefault)}, cases...)
	sw.Tag = call("Select", args...)
	// free-running mode (no controlled execution in progress): keep the native select
	ifs := &ast.IfStmt{Cond: call("Controlled"), Body: &ast.BlockStmt{List: []ast.Stmt{sw}}, Else: &ast.BlockStmt{List: []ast.Stmt{s}}}
	if len(pre) == 0 {
		return ifs
	}
	return &ast.BlockStmt{List: append(pre, ifs)}
}
