// vsmoke: engine self-test — a real imapclient.Client under the controlled scheduler.
package main

import (
	"flag"
	"fmt"
	"strings"
	"time"

	"github.com/emersion/go-imap/v2/imapclient"
	"github.com/emersion/go-imap/v2/internal/vsched"
	"github.com/emersion/go-imap/v2/verif/vnet"
	"github.com/emersion/go-imap/v2/verif/vx"
)

func main() {
	bound := flag.Int("bound", 1, "")
	tier := flag.String("tier", "quick", "")
	flag.Parse()
	_ = tier
	sc := &vx.Scenario{
		Name: "login+2noop",
		Body: func() interface{} {
			cEnd, sEnd := vnet.Pair("client", "server")
			c := imapclient.New(cEnd, nil)
			var results [3]string
			vsched.Go("server", func() {
				sEnd.Write([]byte("* OK [CAPABILITY IMAP4rev1] hi\r\n"))
				buf := make([]byte, 4096)
				var acc string
				answered := 0
				for answered < 3 {
					n, err := sEnd.Read(buf)
					if err != nil {
						return
					}
					acc += string(buf[:n])
					for {
						i := strings.Index(acc, "\r\n")
						if i < 0 {
							break
						}
						line := acc[:i]
						acc = acc[i+2:]
						tag := strings.Fields(line)[0]
						sEnd.Write([]byte(tag + " OK done\r\n"))
						answered++
					}
				}
				sEnd.Close()
			})
			done := 0
			for i := 0; i < 2; i++ {
				i := i
				vsched.Go(fmt.Sprintf("caller%d", i), func() {
					err := c.Noop().Wait()
					results[i] = fmt.Sprint(err)
					done++
				})
			}
			err := c.Noop().Wait()
			results[2] = fmt.Sprint(err)
			vsched.WaitUntil("join", func() bool { return done == 2 })
			cerr := c.Close()
			return fmt.Sprint(results, cerr)
		},
		Check: func(res *vsched.Result, obs interface{}) (string, string) {
			if res.Verdict != "ok" {
				return "verdict-" + res.Verdict, strings.Join(res.Blocked, "; ") + strings.Join(res.Panics, "; ")
			}
			return "", ""
		},
	}
	// shim primitives the current tree does not use but a change to it might: Cond, After, AfterFunc
	prim := func(signal bool) *vx.Scenario {
		return &vx.Scenario{
			Name: fmt.Sprintf("cond+timers signal=%v", signal),
			Body: func() interface{} {
				var mu vsched.Mutex
				cond := vsched.NewCond(&mu)
				ready, fired, got := false, false, 0
				vsched.Go("producer", func() {
					mu.Lock()
					ready = true
					mu.Unlock()
					if signal {
						cond.Signal()
					}
				})
				vsched.AfterFunc(time.Second, func() { mu.Lock(); fired = true; mu.Unlock() })
				tc := vsched.After(time.Second)
				mu.Lock()
				for !ready {
					cond.Wait()
				}
				mu.Unlock()
				vsched.FireTimers()
				vsched.Recv(tc)
				<-tc
				got++
				vsched.WaitUntil("afterfunc", func() bool { return fired })
				return fmt.Sprint(ready, fired, got)
			},
			Check: func(res *vsched.Result, obs interface{}) (string, string) {
				want := "ok"
				if !signal && res.Verdict == "deadlock" {
					return "", "" // only the schedules where the consumer waits first deadlock
				}
				if res.Verdict != want || obs != "true true 1" {
					return "verdict-" + res.Verdict, fmt.Sprint(obs, res.Blocked, res.Panics)
				}
				return "", ""
			},
		}
	}
	// RWMutex: a recursive read lock deadlocks when a writer arrives between the two RLock calls
	rw := &vx.Scenario{
		Name: "rwmutex recursive read lock",
		Body: func() interface{} {
			var mu vsched.RWMutex
			done := false
			vsched.Go("writer", func() { mu.Lock(); mu.Unlock(); done = true })
			mu.RLock()
			mu.RLock()
			mu.RUnlock()
			mu.RUnlock()
			vsched.WaitUntil("writer", func() bool { return done })
			return "ok"
		},
		Check: func(res *vsched.Result, obs interface{}) (string, string) { return "", "" },
	}
	{
		st := vx.Explore(rw, vx.Config{Bound: 2})
		fmt.Printf("%s executions=%d verdicts=%v engineErr=%q (expected: some deadlocks)\n", rw.Name, st.Executions, st.Verdicts, st.EngineErr)
		if st.Verdicts["deadlock"] == 0 || st.Verdicts["ok"] == 0 {
			fmt.Println("FAIL rwmutex writer preference not modelled")
		}
	}
	for _, signal := range []bool{true, false} {
		st := vx.Explore(prim(signal), vx.Config{Bound: 2})
		fmt.Printf("%s executions=%d verdicts=%v engineErr=%q failures=%d\n", prim(signal).Name, st.Executions, st.Verdicts, st.EngineErr, len(st.Failures))
		for _, f := range st.Failures {
			fmt.Printf("FAIL %s choices=%v %s\n", f.Key, f.Choices, f.Detail)
		}
	}
	for b := 0; b <= *bound; b++ {
		st := vx.Explore(sc, vx.Config{Bound: b})
		fmt.Printf("bound=%d executions=%d points=%d maxchoices=%d outcomes=%v verdicts=%v engineErr=%q\n", b, st.Executions, st.Points, st.MaxChoices, st.Outcomes, st.Verdicts, st.EngineErr)
		for _, f := range st.Failures {
			fmt.Printf("FAIL %s choices=%v %s\n", f.Key, f.Choices, f.Detail)
		}
	}
}
