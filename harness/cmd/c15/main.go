// C15 — number sets behave as mathematical sets. Explicit-state BFS over AddNum/AddRange/AddSet
// sequences on the real imap.SeqSet / imap.UIDSet / imapnum.Set against an explicit-membership
// reference model, plus exhaustive enumeration of sequence-set texts against an independent
// ABNF recogniser. Nums() runs in a resource-limited worker subprocess.
package main

import (
	"bufio"
	"bytes"
	"encoding/json"
	"fmt"
	"os"
	"os/exec"
	"sort"
	"strconv"
	"strings"
	"syscall"
	"time"

	imap "github.com/emersion/go-imap/v2"
	"github.com/emersion/go-imap/v2/internal/imapnum"
	"github.com/emersion/go-imap/v2/internal/imapwire"
	"github.com/emersion/go-imap/v2/verif/vk"
)

const M = ^uint32(0)

// endpoint alphabet; 0 stands for "*"
var E = []uint32{1, 2, 3, 4, 6, M - 2, M - 1, M, 0}

// probe universe
var P = []uint32{1, 2, 3, 4, 5, 6, 7, 8, M - 3, M - 2, M - 1, M}

type op struct {
	Kind string // num, range, set
	A, B uint32
	Set  []op // for set: the op sequence building the operand
	Res  bool // AddSet(SearchRes()) on the UID flavour (no-op operand)
}

func (o op) String() string {
	e := func(x uint32) string {
		if x == 0 {
			return "*"
		}
		return strconv.FormatUint(uint64(x), 10)
	}
	switch o.Kind {
	case "num":
		return "AddNum(" + e(o.A) + ")"
	case "range":
		return "AddRange(" + e(o.A) + "," + e(o.B) + ")"
	default:
		if o.Res {
			return "AddSet(SearchRes)"
		}
		var parts []string
		for _, x := range o.Set {
			parts = append(parts, x.String())
		}
		return "AddSet{" + strings.Join(parts, ";") + "}"
	}
}

// reference model: explicit membership of the probe universe + "contains *"
type model struct {
	mem  uint16 // bit i ⇔ P[i] ∈ set
	star bool
}

func (m *model) addRange(a, b uint32) {
	// RFC: the order of endpoints is irrelevant; "*" is the largest number in use.
	if a == 0 || b == 0 {
		m.star = true
	}
	var lo, hi uint64
	switch {
	case a == 0 && b == 0:
		return
	case a == 0:
		lo, hi = uint64(b), 1<<40
	case b == 0:
		lo, hi = uint64(a), 1<<40
	default:
		lo, hi = uint64(a), uint64(b)
		if lo > hi {
			lo, hi = hi, lo
		}
	}
	for i, p := range P {
		if uint64(p) >= lo && uint64(p) <= hi {
			m.mem |= 1 << uint(i)
		}
	}
}

func (m *model) apply(o op) {
	switch o.Kind {
	case "num":
		m.addRange(o.A, o.A)
	case "range":
		m.addRange(o.A, o.B)
	case "set":
		for _, x := range o.Set {
			m.apply(x)
		}
	}
}

func applyNum(s *imapnum.Set, o op) {
	switch o.Kind {
	case "num":
		s.AddNum(o.A)
	case "range":
		s.AddRange(o.A, o.B)
	case "set":
		var t imapnum.Set
		for _, x := range o.Set {
			applyNum(&t, x)
		}
		before := append(imapnum.Set{}, t...)
		s.AddSet(t)
		if !eqRanges(before, t) {
			panic("AddSet mutated its operand")
		}
	}
}

func applySeq(s *imap.SeqSet, o op) {
	switch o.Kind {
	case "num":
		s.AddNum(o.A)
	case "range":
		s.AddRange(o.A, o.B)
	case "set":
		var t imap.SeqSet
		for _, x := range o.Set {
			applySeq(&t, x)
		}
		s.AddSet(t)
	}
}

func applyUID(s *imap.UIDSet, o op) {
	switch o.Kind {
	case "num":
		s.AddNum(imap.UID(o.A))
	case "range":
		s.AddRange(imap.UID(o.A), imap.UID(o.B))
	case "set":
		if o.Res {
			s.AddSet(imap.SearchRes())
			return
		}
		var t imap.UIDSet
		for _, x := range o.Set {
			applyUID(&t, x)
		}
		s.AddSet(t)
	}
}

func eqRanges(a, b imapnum.Set) bool {
	if len(a) != len(b) {
		return false
	}
	for i := range a {
		if a[i] != b[i] {
			return false
		}
	}
	return true
}

// canonical: sorted, disjoint, non-adjacent, "*"-bearing range last and unique
func canonical(s imapnum.Set) string {
	for i, r := range s {
		dyn := r.Stop == 0
		if dyn && i != len(s)-1 {
			return fmt.Sprintf("dynamic range %v not last", r)
		}
		if !dyn && r.Start > r.Stop {
			return fmt.Sprintf("range %v reversed", r)
		}
		if r.Start == 0 && r.Stop != 0 {
			return fmt.Sprintf("range %v has * start", r)
		}
		if i > 0 {
			p := s[i-1]
			if p.Stop == 0 {
				return "dynamic range not last"
			}
			if r.Start != 0 {
				if p.Stop == M || p.Stop+1 >= r.Start {
					return fmt.Sprintf("ranges %v %v overlap or touch", p, r)
				}
			}
		}
	}
	return ""
}

// cardinality of the static part (saturating)
func card(s imapnum.Set) uint64 {
	var n uint64
	for _, r := range s {
		if r.Start == 0 || r.Stop == 0 {
			continue
		}
		n += uint64(r.Stop) - uint64(r.Start) + 1
	}
	return n
}

type state struct {
	hist []op
	val  imapnum.Set // real value, with its capacity history
	mod  model
}

func key(st *state) string {
	spare := cap(st.val) > len(st.val)
	return fmt.Sprintf("%x/%v/%d/%v", st.mod.mem, st.mod.star, len(st.val), spare)
}

func cloneExact(s imapnum.Set) imapnum.Set {
	if s == nil {
		return nil
	}
	c := make(imapnum.Set, len(s), cap(s))
	copy(c, s)
	return c
}

func histString(h []op) string {
	var parts []string
	for _, o := range h {
		parts = append(parts, o.String())
	}
	return strings.Join(parts, " ; ")
}

var run *vk.Run

// checkState evaluates every oracle on the three flavours reached by hist.
func checkState(hist []op, val imapnum.Set, mod model, numsJobs *[]numsJob) {
	// fresh replay on all three flavours
	var fn imapnum.Set
	var fs imap.SeqSet
	var fu imap.UIDSet
	for _, o := range hist {
		applyNum(&fn, o)
		applySeq(&fs, o)
		applyUID(&fu, o)
	}
	hs := histString(hist)
	viol := func(key, msg string) {
		run.Violation(key, map[string]interface{}{"history": hs, "problem": msg, "set": fn.String()})
	}
	// differential: copy-free continuation (val) vs fresh replay
	if !eqRanges(val, fn) {
		viol("continuation-differs-from-fresh-replay", fmt.Sprintf("continued=%v fresh=%v", val, fn))
	}
	seqAs := imapnum.Set{}
	for _, r := range fs {
		seqAs = append(seqAs, imapnum.Range{Start: r.Start, Stop: r.Stop})
	}
	uidAs := imapnum.Set{}
	for _, r := range fu {
		uidAs = append(uidAs, imapnum.Range{Start: uint32(r.Start), Stop: uint32(r.Stop)})
	}
	if !eqRanges(seqAs, fn) || !eqRanges(uidAs, fn) {
		viol("flavours-disagree", fmt.Sprintf("num=%v seq=%v uid=%v", fn, fs, fu))
	}
	if c := canonical(fn); c != "" {
		viol("not-canonical:"+strings.Fields(c)[0], c)
	}
	for i, p := range P {
		want := mod.mem&(1<<uint(i)) != 0
		if got := fn.Contains(p); got != want {
			viol(fmt.Sprintf("contains-mismatch:want=%v", want), fmt.Sprintf("Contains(%d)=%v want %v", p, got, want))
		}
		if got := fs.Contains(p); got != want {
			viol("contains-mismatch-seq", fmt.Sprintf("SeqSet.Contains(%d)=%v want %v", p, got, want))
		}
		if got := fu.Contains(imap.UID(p)); got != want {
			viol("contains-mismatch-uid", fmt.Sprintf("UIDSet.Contains(%d)=%v want %v", p, got, want))
		}
	}
	if fn.Contains(0) {
		viol("contains-zero", "Contains(0) is true")
	}
	if fn.Dynamic() != mod.star || fs.Dynamic() != mod.star || fu.Dynamic() != mod.star {
		viol("dynamic-mismatch", fmt.Sprintf("Dynamic()=%v/%v/%v want %v", fn.Dynamic(), fs.Dynamic(), fu.Dynamic(), mod.star))
	}
	// text round trip
	if len(fn) > 0 {
		txt := fn.String()
		// the text is a value: rendering another set afterwards must not change it
		keep := string(append([]byte(nil), txt...))
		other := imapnum.Set{{Start: 1234567, Stop: 1234569}}
		if otxt := other.String(); txt != keep || otxt != "1234567:1234569" {
			viol("string-value-changes-after-another-String-call", fmt.Sprintf("was %q, is %q after rendering %q", keep, txt, otxt))
			txt = keep
		}
		if fs.String() != txt || fu.String() != txt {
			viol("string-flavours-disagree", txt+" "+fs.String()+" "+fu.String())
		}
		if !abnfValid(txt) {
			viol("string-not-abnf", txt)
		}
		back, err := imapnum.ParseSet(txt)
		if err != nil || !eqRanges(back, fn) {
			viol("string-roundtrip-ParseSet", fmt.Sprintf("%q -> %v err=%v", txt, back, err))
		}
		bs, err := imapwire.ParseSeqSet(txt)
		if err != nil || bs.String() != txt {
			viol("string-roundtrip-ParseSeqSet", fmt.Sprintf("%q -> %v err=%v", txt, bs, err))
		}
		for _, kind := range []imapwire.NumKind{imapwire.NumKindSeq, imapwire.NumKindUID} {
			dec := imapwire.NewDecoder(bufio.NewReader(strings.NewReader(txt+" END\r\n")), imapwire.ConnSideServer)
			var ns imap.NumSet
			var end string
			if !dec.ExpectNumSet(kind, &ns) || ns.String() != txt || !dec.ExpectSP() || !dec.ExpectAtom(&end) || end != "END" || !dec.ExpectCRLF() {
				viol("string-roundtrip-decoder", fmt.Sprintf("%q kind=%d -> %v err=%v", txt, kind, ns, dec.Err()))
			}
		}
	}
	// Nums: in the worker. Only when static cardinality is small.
	if card(fn) <= 10000 {
		*numsJobs = append(*numsJobs, numsJob{hist: hist, dynamic: mod.star, ranges: append(imapnum.Set{}, fn...)})
	}
}

type numsJob struct {
	hist    []op
	dynamic bool
	ranges  imapnum.Set
}

// expected members from the (already canonical-checked) ranges, by plain counting in uint64
func expectedNums(s imapnum.Set) []uint32 {
	var out []uint32
	for _, r := range s {
		if r.Start == 0 || r.Stop == 0 {
			continue
		}
		for n := uint64(r.Start); n <= uint64(r.Stop); n++ {
			out = append(out, uint32(n))
		}
	}
	sort.Slice(out, func(i, j int) bool { return out[i] < out[j] })
	return out
}

// ---- Nums worker (subprocess) ----

type workerReq struct {
	Hist []op
}
type workerResp struct {
	I                 int
	NumOK, SeqOK, UOK bool
	Num, Seq, UID     []uint32
}

func workerMain() {
	// 2 GiB address-space cap: an unbounded Nums() dies here instead of eating the sandbox.
	lim := syscall.Rlimit{Cur: 4 << 30, Max: 4 << 30}
	syscall.Setrlimit(syscall.RLIMIT_AS, &lim)
	in := bufio.NewReaderSize(os.Stdin, 1<<20)
	out := bufio.NewWriter(os.Stdout)
	dec := json.NewDecoder(in)
	i := 0
	for {
		var req workerReq
		if err := dec.Decode(&req); err != nil {
			break
		}
		fmt.Fprintf(out, "BEGIN %d\n", i)
		out.Flush()
		var fn imapnum.Set
		var fs imap.SeqSet
		var fu imap.UIDSet
		for _, o := range req.Hist {
			applyNum(&fn, o)
			applySeq(&fs, o)
			applyUID(&fu, o)
		}
		var resp workerResp
		resp.I = i
		resp.Num, resp.NumOK = fn.Nums()
		resp.Seq, resp.SeqOK = fs.Nums()
		u, ok := fu.Nums()
		resp.UOK = ok
		for _, x := range u {
			resp.UID = append(resp.UID, uint32(x))
		}
		b, _ := json.Marshal(resp)
		fmt.Fprintf(out, "END %s\n", b)
		out.Flush()
		i++
	}
}

func eqU32(a, b []uint32) bool {
	if len(a) != len(b) {
		return false
	}
	for i := range a {
		if a[i] != b[i] {
			return false
		}
	}
	return true
}

func runNums(jobs []numsJob) {
	// Each batch goes to a worker; on death or timeout the job that was open is the culprit,
	// it is reported and the remainder restarts in a new worker.
	start := 0
	kills := 0
	for start < len(jobs) {
		if kills >= 3 {
			// three non-terminating calls already reported; the remaining jobs are not run
			run.Set("nums_jobs_skipped_after_3_kills", int64(len(jobs)-start))
			run.Set("nums_exhaustive", false)
			return
		}
		cmd := exec.Command(os.Args[0], "--tier", run.Tier)
		cmd.Env = append(os.Environ(), "C15_WORKER=1", "GOMAXPROCS=2")
		stdin, _ := cmd.StdinPipe()
		stdout, _ := cmd.StdoutPipe()
		var stderr bytes.Buffer
		cmd.Stderr = &stderr
		if err := cmd.Start(); err != nil {
			run.EngineError("cannot start worker: %v", err)
		}
		go func(from int) {
			enc := json.NewEncoder(stdin)
			for _, j := range jobs[from:] {
				if enc.Encode(workerReq{Hist: j.hist}) != nil {
					break
				}
			}
			stdin.Close()
		}(start)
		lines := make(chan string, 1024)
		go func() {
			sc := bufio.NewScanner(stdout)
			sc.Buffer(make([]byte, 1<<20), 1<<26)
			for sc.Scan() {
				lines <- sc.Text()
			}
			close(lines)
		}()
		open := -1
		done := start
		dead := false
		// per-job budget: 20 s against a sub-millisecond expectation (≥10^4x margin)
		timer := time.NewTimer(20 * time.Second)
	loop:
		for {
			select {
			case l, ok := <-lines:
				if !ok {
					break loop
				}
				if !timer.Stop() {
					select {
					case <-timer.C:
					default:
					}
				}
				timer.Reset(20 * time.Second)
				if strings.HasPrefix(l, "BEGIN ") {
					n, _ := strconv.Atoi(l[6:])
					open = start + n
				} else if strings.HasPrefix(l, "END ") {
					var resp workerResp
					if err := json.Unmarshal([]byte(l[4:]), &resp); err != nil {
						run.EngineError("bad worker line: %v", err)
					}
					j := jobs[start+resp.I]
					checkNums(j, resp)
					open = -1
					done = start + resp.I + 1
				}
			case <-timer.C:
				dead = true
				cmd.Process.Kill()
				break loop
			}
		}
		cmd.Process.Kill()
		cmd.Wait()
		if open >= 0 {
			j := jobs[open]
			cls := "other"
			for _, r := range j.ranges {
				if r.Stop == M {
					cls = "set-contains-4294967295"
				}
			}
			how := "worker died (memory limit)"
			if dead {
				how = "no answer within 20s"
			}
			run.Violation("Nums-does-not-terminate:"+cls, map[string]interface{}{"history": histString(j.hist), "set": j.ranges.String(), "how": how, "stderr_tail": tail(stderr.String(), 300)})
			run.Add("nums_worker_kills", 1)
			kills++
			start = open + 1
			continue
		}
		if done < len(jobs) && !dead {
			run.EngineError("worker stopped early at %d/%d: %s", done, len(jobs), tail(stderr.String(), 500))
		}
		start = done
		if done >= len(jobs) {
			break
		}
	}
}

func tail(s string, n int) string {
	if len(s) > n {
		return s[len(s)-n:]
	}
	return s
}

func checkNums(j numsJob, resp workerResp) {
	run.Add("nums_calls", 3)
	hs := histString(j.hist)
	if j.dynamic {
		if resp.NumOK || resp.SeqOK || resp.UOK {
			run.Violation("Nums-ok-on-dynamic-set", map[string]interface{}{"history": hs, "set": j.ranges.String()})
		}
		return
	}
	want := expectedNums(j.ranges)
	if !resp.NumOK || !resp.SeqOK || !resp.UOK {
		run.Violation("Nums-not-ok-on-static-set", map[string]interface{}{"history": hs, "set": j.ranges.String()})
		return
	}
	if !eqU32(resp.Num, want) || !eqU32(resp.Seq, want) || !eqU32(resp.UID, want) {
		run.Violation("Nums-wrong-members", map[string]interface{}{"history": hs, "set": j.ranges.String(), "got_len": len(resp.Num), "want_len": len(want)})
	}
	if len(want) > 0 && want[len(want)-1] == M {
		run.Add("nums_calls_at_uint32_boundary", 1)
	}
}

// ---- independent ABNF recogniser (RFC 3501 §9 sequence-set; no SEARCHRES "$") ----

func abnfSeqNumber(s string) (uint64, bool) {
	if s == "*" {
		return 0, true
	}
	if s == "" || s[0] < '1' || s[0] > '9' {
		return 0, false
	}
	var v uint64
	for _, c := range []byte(s) {
		if c < '0' || c > '9' {
			return 0, false
		}
		v = v*10 + uint64(c-'0')
		if v > uint64(M) {
			return 0, false // "number" is an unsigned 32-bit integer
		}
	}
	return v, true
}

// abnfParse returns the model of a valid sequence-set text.
func abnfParse(s string) (model, bool) {
	var m model
	if s == "" {
		return m, false
	}
	for _, part := range strings.Split(s, ",") {
		if i := strings.IndexByte(part, ':'); i >= 0 {
			a, ok1 := abnfSeqNumber(part[:i])
			b, ok2 := abnfSeqNumber(part[i+1:])
			if !ok1 || !ok2 {
				return m, false
			}
			m.addRange(uint32(a), uint32(b))
		} else {
			a, ok := abnfSeqNumber(part)
			if !ok {
				return m, false
			}
			m.addRange(uint32(a), uint32(a))
		}
	}
	return m, true
}

func abnfValid(s string) bool { _, ok := abnfParse(s); return ok }

func modelOf(s imapnum.Set) model {
	var m model
	for _, r := range s {
		m.addRange(r.Start, r.Stop)
	}
	return m
}

func textCheck(txt string) {
	run.AddEvals(1)
	want, valid := abnfParse(txt)
	got, err := imapnum.ParseSet(txt)
	viol := func(key, msg string) {
		run.Violation(key, map[string]interface{}{"text": txt, "problem": msg})
	}
	if valid {
		run.Nontrivial("text:" + txt)
		if err != nil {
			viol("text-valid-refused", err.Error())
			return
		}
		if c := canonical(got); c != "" {
			viol("text-parse-not-canonical", c)
		}
		if modelOf(got) != want {
			viol("text-parse-wrong-members", fmt.Sprintf("parsed %v", got))
		}
		for i, p := range P {
			if got.Contains(p) != (want.mem&(1<<uint(i)) != 0) {
				viol("text-parse-contains-mismatch", fmt.Sprintf("parsed %v probe %d", got, p))
			}
		}
		if got.Dynamic() != want.star {
			viol("text-parse-dynamic-mismatch", fmt.Sprintf("parsed %v", got))
		}
	} else if err == nil {
		viol("text-invalid-accepted:"+classify(txt), fmt.Sprintf("parsed to %v", got))
	}
	// through the wire decoder (server side): a valid text followed by SP must be consumed
	// exactly; "$" alone is the SEARCHRES marker.
	for _, kind := range []imapwire.NumKind{imapwire.NumKindSeq, imapwire.NumKindUID} {
		dec := imapwire.NewDecoder(bufio.NewReader(strings.NewReader(txt+" END\r\n")), imapwire.ConnSideServer)
		var ns imap.NumSet
		ok := dec.ExpectNumSet(kind, &ns)
		cleanTxt := !strings.ContainsAny(txt, " ")
		switch {
		case valid && cleanTxt:
			var end string
			if !ok || !dec.ExpectSP() || !dec.ExpectAtom(&end) || end != "END" || !dec.ExpectCRLF() {
				viol("decoder-valid-refused", fmt.Sprintf("kind=%d err=%v", kind, dec.Err()))
			} else if ns.String() != got.String() {
				viol("decoder-differs-from-ParseSet", fmt.Sprintf("%v vs %v", ns, got))
			}
		case txt == "$":
			if !ok || !imap.IsSearchRes(ns) {
				viol("decoder-searchres", "")
			}
		case !valid && cleanTxt && !strings.HasPrefix(txt, "$"):
			// the decoder reads a maximal run of set characters; if it returns ok the whole
			// invalid text must not have been accepted as a set
			if ok {
				var end string
				if dec.ExpectSP() && dec.ExpectAtom(&end) && end == "END" {
					viol("decoder-invalid-accepted:"+classify(txt), fmt.Sprintf("-> %v", ns))
				}
			}
		}
	}
}

func classify(txt string) string {
	switch {
	case strings.Contains(txt, "4294967296"):
		return "overflow"
	case strings.HasPrefix(txt, "0") || strings.Contains(txt, ",0") || strings.Contains(txt, ":0"):
		return "leading-zero"
	case strings.Contains(txt, ",,") || strings.HasPrefix(txt, ",") || strings.HasSuffix(txt, ","):
		return "empty-element"
	case strings.Contains(txt, "::") || strings.HasPrefix(txt, ":") || strings.HasSuffix(txt, ":"):
		return "empty-endpoint"
	case strings.Count(txt, ":") > 1:
		return "multi-colon"
	}
	return "other"
}

func main() {
	if os.Getenv("C15_WORKER") == "1" {
		workerMain()
		return
	}
	run = vk.Start("C15", "model_checking")
	depth, textLen := 4, 6
	if run.Thorough() {
		depth, textLen = 6, 7
	}
	if run.Replay != "" {
		replay()
		return
	}

	// ---- alphabet of operations ----
	var base []op
	for _, e := range E {
		base = append(base, op{Kind: "num", A: e})
	}
	for _, a := range E {
		for _, b := range E {
			base = append(base, op{Kind: "range", A: a, B: b})
		}
	}
	// AddSet operands: every distinct representation reachable in ≤ 2 base steps that has ≥ 1 range
	// (quick: only 1 step + the 2-step ones with ≥ 2 ranges)
	operandSeen := map[string]bool{}
	var operands []op
	addOperand := func(h []op) {
		var s imapnum.Set
		for _, o := range h {
			applyNum(&s, o)
		}
		k := s.String()
		if operandSeen[k] {
			return
		}
		operandSeen[k] = true
		operands = append(operands, op{Kind: "set", Set: append([]op{}, h...)})
	}
	for _, a := range base {
		addOperand([]op{a})
	}
	for _, a := range base {
		for _, b := range base {
			var s imapnum.Set
			applyNum(&s, a)
			applyNum(&s, b)
			if len(s) >= 2 {
				addOperand([]op{a, b})
			}
		}
	}
	ops := append([]op{}, base...)
	ops = append(ops, operands...)
	ops = append(ops, op{Kind: "set", Res: true})
	run.Set("alphabet_ops", int64(len(ops)))
	run.Set("alphabet_addset_operands", int64(len(operands)))

	t0 := time.Now()
	// ---- BFS, deduplicated on (reference content, len, spare capacity) ----
	var numsJobs []numsJob
	seen := map[string]bool{}
	init := &state{}
	seen[key(init)] = true
	frontier := []*state{init}
	var states, trans int64 = 1, 0
	maxDepth := 0
	for d := 1; d <= depth && len(frontier) > 0; d++ {
		var next []*state
		for _, st := range frontier {
			for _, o := range ops {
				trans++
				nv := cloneExact(st.val)
				applyNum(&nv, o)
				nm := st.mod
				nm.apply(o)
				hist := append(append([]op{}, st.hist...), o)
				ns := &state{hist: hist, val: nv, mod: nm}
				// every transition is checked (not only the ones reaching a new state)
				quickStep(ns, st, o)
				k := key(ns)
				if seen[k] {
					continue
				}
				seen[k] = true
				states++
				maxDepth = d
				checkState(hist, nv, nm, &numsJobs)
				next = append(next, ns)
				if len(nv) >= 2 || nm.star {
					run.Nontrivial(k)
				}
				if states%997 == 1 {
					run.Sample("bfs-state", map[string]interface{}{"history": histString(hist), "set": nv.String()})
				}
			}
		}
		frontier = next
	}
	run.States, run.Trans, run.Traces = states, trans, trans
	fmt.Fprintf(os.Stderr, "bfs done: states=%d trans=%d t=%s\n", states, trans, time.Since(t0))
	run.Set("bfs_depth_completed", int64(depth))
	run.Set("bfs_max_depth_with_new_state", int64(maxDepth))
	run.Set("bfs_frontier_exhausted", len(frontier) == 0)
	run.AddEvals(trans)

	// ---- all un-deduplicated sequences of depth ≤ 2 over the full alphabet ----
	var nodedup int64
	for _, a := range ops {
		var s1 imapnum.Set
		applyNum(&s1, a)
		var m1 model
		m1.apply(a)
		checkState([]op{a}, s1, m1, &numsJobs)
		nodedup++
		for _, b := range ops {
			s2 := cloneExact(s1)
			applyNum(&s2, b)
			m2 := m1
			m2.apply(b)
			checkState([]op{a, b}, s2, m2, &numsJobs)
			nodedup++
		}
	}
	fmt.Fprintf(os.Stderr, "nodedup done: %d t=%s\n", nodedup, time.Since(t0))
	run.Set("undeduplicated_sequences_depth_le_2", nodedup)
	run.AddEvals(nodedup)

	// dedup Nums jobs on representation
	{
		seenJ := map[string]bool{}
		var uniq []numsJob
		for _, j := range numsJobs {
			k := j.ranges.String() + fmt.Sprint(j.dynamic)
			if !seenJ[k] {
				seenJ[k] = true
				uniq = append(uniq, j)
			}
		}
		run.Set("nums_distinct_sets", int64(len(uniq)))
		fmt.Fprintf(os.Stderr, "nums jobs: %d t=%s\n", len(uniq), time.Since(t0))
		runNums(uniq)
		fmt.Fprintf(os.Stderr, "nums done t=%s\n", time.Since(t0))
	}

	// ---- texts ----
	alpha := []string{"1", "2", "0", "9", ":", ",", "*", "$", " ", "a", "4294967295", "4294967296"}
	var cnt int64
	vk.StringsSharded(alpha, textLen, func(s string) {
		textCheck(s)
	})
	run.Set("text_alphabet", alpha)
	run.Set("text_max_symbols", int64(textLen))
	_ = cnt
	run.Sample("text", "1:*,2,4294967295")

	run.Rule = "BFS over AddNum/AddRange/AddSet sequences (endpoints {1,2,3,4,6,M-2,M-1,M,*}) on imapnum.Set, imap.SeqSet and imap.UIDSet, deduplicated on (reference membership over probe universe, contains-*, number of ranges, spare capacity); every transition re-executed on the real code; plus all undeduplicated sequences of depth<=2; plus every text over the 12-symbol alphabet up to the length bound against an independent ABNF recogniser. non-trivial = distinct states with >=2 ranges or '*', and distinct ABNF-valid texts"
	run.Exhaustive = true
	run.Assume("membership is compared on the probe universe {1..8, M-3..M}: every set built from the endpoint alphabet is determined by it")
	run.Assume("Nums() is only called when the static cardinality is <= 10^4 (a set such as 6:M-2 is never enumerated); it runs in a worker subprocess with RLIMIT_AS=4GiB and a 20 s per-call budget")
	run.Assume("SEARCHRES '$' is accepted only as a whole set (RFC 5182); ParseSet itself is not required to accept it")
	run.Finish()
}

// quickStep: per-transition oracle (cheap part): the successor's content equals the model.
func quickStep(ns, parent *state, o op) {
	for i, p := range P {
		want := ns.mod.mem&(1<<uint(i)) != 0
		if ns.val.Contains(p) != want {
			run.Violation(fmt.Sprintf("contains-mismatch:want=%v", want), map[string]interface{}{"history": histString(ns.hist), "probe": p, "set": ns.val.String()})
		}
	}
	if c := canonical(ns.val); c != "" {
		run.Violation("not-canonical:"+strings.Fields(c)[0], map[string]interface{}{"history": histString(ns.hist), "problem": c, "set": ns.val.String()})
	}
	if ns.val.Dynamic() != ns.mod.star {
		run.Violation("dynamic-mismatch", map[string]interface{}{"history": histString(ns.hist), "set": ns.val.String()})
	}
}

func replay() {
	b, err := os.ReadFile(run.Replay)
	if err != nil {
		run.EngineError("%v", err)
	}
	fmt.Printf("replay file:\n%s\n", b)
	var f struct {
		Detail struct {
			Text string `json:"text"`
		} `json:"detail"`
	}
	json.Unmarshal(b, &f)
	if f.Detail.Text != "" {
		textCheck(f.Detail.Text)
		got, err := imapnum.ParseSet(f.Detail.Text)
		fmt.Printf("ParseSet(%q) = %v, %v\n", f.Detail.Text, got, err)
	}
	run.Finish()
}
