// C13 — the client is safe for concurrent use. The real client runs under the vsched controlled
// scheduler against a reactive scripted server; N caller threads submit commands of every kind
// and wait on them, concurrently with connection loss chosen by the environment and with
// threads calling Close/State/Caps/Mailbox. Every schedule within the preemption bound is
// executed. Oracle: all threads finish (every Wait returned exactly once; zero completions is a
// deadlock verdict, a second completion is a recorded panic), tags on the wire pairwise distinct,
// no panic anywhere.
package main

import (
	"encoding/json"
	"fmt"
	"io"
	"os"
	"os/exec"
	"sort"
	"strings"

	imap "github.com/emersion/go-imap/v2"
	"github.com/emersion/go-imap/v2/imapclient"
	"github.com/emersion/go-imap/v2/internal/vsched"
	"github.com/emersion/go-imap/v2/verif/vimap"
	"github.com/emersion/go-imap/v2/verif/vk"
	"github.com/emersion/go-imap/v2/verif/vnet"
	"github.com/emersion/go-imap/v2/verif/vx"
	"github.com/emersion/go-sasl"
)

type env struct {
	c           *imapclient.Client
	srv         *vimap.Server
	cEnd        *vnet.End
	results     []string // "name.label=ok|err" (a slice: map operations would be reported by the race detector)
	running     int
	loginNoCode bool // LOGIN is answered OK without a capability code
}

//go:norace
func setup(greeting string) *env {
	cEnd, sEnd := vnet.Pair("client", "server")
	e := &env{cEnd: cEnd, results: make([]string, 0, 64)}
	e.srv = &vimap.Server{End: sEnd, Greeting: greeting}
	e.srv.Respond = func(c *vimap.Cmd) string {
		switch c.Name {
		case "STATUS":
			return "* STATUS INBOX (MESSAGES 1)\r\n" + c.Tag + " OK done\r\n"
		case "FETCH":
			return "* 1 FETCH (UID 5 BODY[] {5}\r\nhello)\r\n" + c.Tag + " OK done\r\n"
		case "CAPABILITY":
			return "* CAPABILITY IMAP4rev1 IDLE ENABLE\r\n" + c.Tag + " OK done\r\n"
		case "ENABLE":
			return "* ENABLED UTF8=ACCEPT\r\n" + c.Tag + " OK done\r\n"
		case "SEARCH":
			// distinguishable answers: the routing scenario checks that each caller gets its own
			switch {
			case strings.Contains(c.Line, "aaa"):
				return "* SEARCH 11\r\n" + c.Tag + " OK done\r\n"
			case strings.Contains(c.Line, "bbb"):
				return "* SEARCH 22\r\n" + c.Tag + " OK done\r\n"
			}
			return "* SEARCH 1 2\r\n" + c.Tag + " OK done\r\n"
		case "SELECT":
			return "* 2 EXISTS\r\n* FLAGS (\\Seen)\r\n" + c.Tag + " OK [READ-WRITE] done\r\n"
		case "LOGIN":
			if e.loginNoCode {
				// no capability code: the client has to forget what it knew and ask again
				return c.Tag + " OK done\r\n"
			}
			return c.Tag + " OK [CAPABILITY IMAP4rev1 IDLE] done\r\n"
		case "LOGOUT":
			return "* BYE bye\r\n" + c.Tag + " OK done\r\n"
		}
		return ""
	}
	vsched.Go("server", e.srv.Run)
	e.c = imapclient.New(cEnd, nil)
	return e
}

//go:norace
func (e *env) caller(name string, f func(rec func(label string, err error))) {
	e.running++
	vsched.Go(name, func() {
		f(func(label string, err error) {
			if err == nil {
				e.results = append(e.results, name+"."+label+"=ok")
			} else {
				e.results = append(e.results, name+"."+label+"=err")
			}
		})
		e.running--
	})
}

type observation struct {
	Results  []string
	Problems []string
	Tags     int
	Dropped  bool
	CloseErr bool
}

//go:norace
func (e *env) finish() interface{} {
	vsched.WaitUntil("join callers", func() bool { return e.running == 0 })
	cerr := e.c.Close()
	return observation{Results: e.results, Problems: e.srv.Problems, Tags: len(e.srv.Tags), Dropped: e.srv.Dead, CloseErr: cerr != nil}
}

const greetCaps = "* OK [CAPABILITY IMAP4rev1 IDLE ENABLE] ready\r\n"

type scenario struct {
	name     string
	body     func() interface{}
	allOK    bool // without an environment fault every command must succeed
	maxBound int  // 0 = default
}

//go:norace
func scenarios() []scenario {
	status := &imap.StatusOptions{NumMessages: true}
	fo := &imap.FetchOptions{UID: true, BodySection: []*imap.FetchItemBodySection{{}}}
	return []scenario{
		{name: "2callers-plain", allOK: true, body: func() interface{} {
			e := setup(greetCaps)
			e.caller("A", func(rec func(string, error)) {
				rec("noop", e.c.Noop().Wait())
				_, err := e.c.Status("INBOX", status).Wait()
				rec("status", err)
			})
			e.caller("B", func(rec func(string, error)) { rec("noop", e.c.Noop().Wait()) })
			return e.finish()
		}},
		{name: "2callers-search-routing", allOK: true, body: func() interface{} {
			// two goroutines each run a SEARCH; the server processes commands in wire order and
			// answers untagged SEARCH data (matched by type, not by tag): each caller must get the
			// data of its own command, i.e. the pending queue must be in wire order
			e := setup("* PREAUTH [CAPABILITY IMAP4rev1] ready\r\n")
			for _, x := range [][2]string{{"A", "aaa"}, {"B", "bbb"}} {
				name, word := x[0], x[1]
				want := map[string]string{"aaa": "11", "bbb": "22"}[word]
				e.caller(name, func(rec func(string, error)) {
					d, err := e.c.Search(&imap.SearchCriteria{Body: []string{word}}, nil).Wait()
					if err == nil && (d == nil || d.All == nil || d.All.String() != want) {
						got := "<nil>"
						if d != nil && d.All != nil {
							got = d.All.String()
						}
						err = fmt.Errorf("SEARCH %s returned %s, want %s", word, got, want)
					}
					rec("search", err)
				})
			}
			return e.finish()
		}},
		{name: "3callers-plain", allOK: true, maxBound: 1, body: func() interface{} {
			e := setup(greetCaps)
			for _, n := range []string{"A", "B", "C"} {
				e.caller(n, func(rec func(string, error)) { rec("noop", e.c.Noop().Wait()) })
			}
			return e.finish()
		}},
		{name: "fetch-literal+noop", allOK: true, body: func() interface{} {
			e := setup(greetCaps)
			e.caller("A", func(rec func(string, error)) {
				_, err := e.c.Fetch(imap.SeqSetNum(1), fo).Collect()
				rec("fetch", err)
			})
			e.caller("B", func(rec func(string, error)) { rec("noop", e.c.Noop().Wait()) })
			return e.finish()
		}},
		{name: "fetch-stream+status", allOK: true, body: func() interface{} {
			e := setup(greetCaps)
			e.caller("A", func(rec func(string, error)) {
				cmd := e.c.Fetch(imap.SeqSetNum(1), fo)
				for {
					msg := cmd.Next()
					if msg == nil {
						break
					}
					for {
						it := msg.Next()
						if it == nil {
							break
						}
						if bs, ok := it.(imapclient.FetchItemDataBodySection); ok && bs.Literal != nil {
							io.Copy(io.Discard, bs.Literal)
						}
					}
				}
				rec("fetch", cmd.Close())
			})
			e.caller("B", func(rec func(string, error)) {
				_, err := e.c.Status("INBOX", status).Wait()
				rec("status", err)
			})
			return e.finish()
		}},
		{name: "sync-literal-login+noop", allOK: true, body: func() interface{} {
			e := setup("* OK [CAPABILITY IMAP4rev1] ready\r\n")
			e.caller("A", func(rec func(string, error)) { rec("login", e.c.Login("us\x80er", "p").Wait()) })
			e.caller("B", func(rec func(string, error)) { rec("noop", e.c.Noop().Wait()) })
			return e.finish()
		}},
		{name: "sync-literal-refused+noop", body: func() interface{} {
			e := setup("* OK [CAPABILITY IMAP4rev1] ready\r\n")
			e.srv.AcceptLiteral = func(tag string, n, i int) string { return tag + " NO refused\r\n" }
			e.caller("A", func(rec func(string, error)) { rec("login", e.c.Login("us\x80er", "p").Wait()) })
			e.caller("B", func(rec func(string, error)) { rec("noop", e.c.Noop().Wait()) })
			return e.finish()
		}},
		{name: "idle+sync-literal-cmd", allOK: true, body: func() interface{} {
			e := setup("* OK [CAPABILITY IMAP4rev1 IDLE] ready\r\n")
			e.caller("A", func(rec func(string, error)) {
				idle, err := e.c.Idle()
				if err != nil {
					rec("idle", err)
					return
				}
				cerr := idle.Close()
				werr := idle.Wait()
				if werr == nil {
					werr = cerr
				}
				rec("idle", werr)
			})
			e.caller("B", func(rec func(string, error)) { rec("login", e.c.Login("us\x80er", "p").Wait()) })
			return e.finish()
		}},
		{name: "authenticate+sync-literal-cmd", allOK: true, body: func() interface{} {
			e := setup("* OK [CAPABILITY IMAP4rev1] ready\r\n")
			e.caller("A", func(rec func(string, error)) {
				rec("authenticate", e.c.Authenticate(sasl.NewPlainClient("", "u", "p")))
			})
			e.caller("B", func(rec func(string, error)) {
				_, err := e.c.Search(&imap.SearchCriteria{Body: []string{"\x80"}}, nil).Wait()
				rec("search-literal", err)
			})
			return e.finish()
		}},
		{name: "login-without-capability-code+sync-literal-cmd", allOK: true, body: func() interface{} {
			// the completion of LOGIN invalidates the capabilities while another caller's command sits
			// in a synchronising literal, holding the encoder
			e := setup("* OK [CAPABILITY IMAP4rev1] ready\r\n")
			e.loginNoCode = true
			e.caller("A", func(rec func(string, error)) { rec("login", e.c.Login("u", "p").Wait()) })
			e.caller("B", func(rec func(string, error)) {
				_, err := e.c.Search(&imap.SearchCriteria{Body: []string{"\x80"}}, nil).Wait()
				rec("search-literal", err)
			})
			e.caller("C", func(rec func(string, error)) {
				e.c.Caps()
				rec("caps", nil)
			})
			return e.finish()
		}},
		{name: "authenticate-login-2step+noop", allOK: true, body: func() interface{} {
			// a SASL mechanism with two challenges: the second "+" arrives right after the client
			// flushed its first answer
			e := setup("* OK [CAPABILITY IMAP4rev1] ready\r\n")
			e.caller("A", func(rec func(string, error)) {
				rec("authenticate", e.c.Authenticate(sasl.NewLoginClient("u", "p")))
			})
			e.caller("B", func(rec func(string, error)) { rec("noop", e.c.Noop().Wait()) })
			return e.finish()
		}},
		{name: "drop+2callers", body: func() interface{} {
			e := setup(greetCaps)
			e.srv.Drop = true
			e.caller("A", func(rec func(string, error)) { rec("noop", e.c.Noop().Wait()) })
			e.caller("B", func(rec func(string, error)) {
				_, err := e.c.Status("INBOX", status).Wait()
				rec("status", err)
			})
			return e.finish()
		}},
		{name: "drop+fetch+noop", body: func() interface{} {
			e := setup(greetCaps)
			e.srv.Drop = true
			e.caller("A", func(rec func(string, error)) {
				_, err := e.c.Fetch(imap.SeqSetNum(1), fo).Collect()
				rec("fetch", err)
			})
			e.caller("B", func(rec func(string, error)) { rec("noop", e.c.Noop().Wait()) })
			return e.finish()
		}},
		{name: "cut-inside-completion+2callers", body: func() interface{} {
			e := setup(greetCaps)
			e.srv.Cut = true
			e.caller("A", func(rec func(string, error)) { rec("noop", e.c.Noop().Wait()) })
			e.caller("B", func(rec func(string, error)) {
				_, err := e.c.Status("INBOX", status).Wait()
				rec("status", err)
			})
			return e.finish()
		}},
		{name: "drop+sync-literal", body: func() interface{} {
			e := setup("* OK [CAPABILITY IMAP4rev1] ready\r\n")
			e.srv.Drop = true
			e.caller("A", func(rec func(string, error)) { rec("login", e.c.Login("us\x80er", "p").Wait()) })
			e.caller("B", func(rec func(string, error)) { rec("noop", e.c.Noop().Wait()) })
			return e.finish()
		}},
		{name: "close+state+caps+mailbox", body: func() interface{} {
			e := setup(greetCaps)
			e.caller("A", func(rec func(string, error)) {
				_, err := e.c.Select("INBOX", nil).Wait()
				rec("select", err)
			})
			e.caller("O", func(rec func(string, error)) {
				e.c.State()
				e.c.Mailbox()
				e.c.Caps()
				rec("observe", nil)
			})
			e.caller("X", func(rec func(string, error)) { e.c.Close(); rec("close", nil) })
			return e.finish()
		}},
		{name: "mailbox-reader+unilateral-updates", allOK: true, body: func() interface{} {
			e := setup("* PREAUTH [CAPABILITY IMAP4rev1] ready\r\n")
			base := e.srv.Respond
			e.srv.Respond = func(c *vimap.Cmd) string {
				if c.Name == "NOOP" {
					return "* 1 EXPUNGE\r\n* 5 EXISTS\r\n* FLAGS (\\Seen \\Draft)\r\n* OK [PERMANENTFLAGS (\\Seen)] ok\r\n" + c.Tag + " OK done\r\n"
				}
				return base(c)
			}
			e.caller("A", func(rec func(string, error)) {
				_, err := e.c.Select("INBOX", nil).Wait()
				rec("select", err)
				rec("noop", e.c.Noop().Wait())
			})
			e.caller("O", func(rec func(string, error)) {
				for i := 0; i < 3; i++ {
					mb := e.c.Mailbox()
					n1 := appReadMailbox(mb)
					vsched.Yield("application looks at the snapshot again")
					if n2 := appReadMailbox(mb); n1 != n2 {
						rec("snapshot-stable", fmt.Errorf("snapshot changed under the application: %d -> %d", n1, n2))
						return
					}
				}
				rec("snapshot-stable", nil)
			})
			return e.finish()
		}},
		{name: "caps-invalidation", allOK: true, body: func() interface{} {
			e := setup("* OK ready\r\n") // no capabilities in the greeting: background CAPABILITY
			e.srv.Respond = func(c *vimap.Cmd) string {
				switch c.Name {
				case "CAPABILITY":
					return "* CAPABILITY IMAP4rev1 IDLE\r\n" + c.Tag + " OK done\r\n"
				case "LOGIN":
					return c.Tag + " OK logged in\r\n" // no code: capabilities invalidated
				}
				return ""
			}
			e.caller("A", func(rec func(string, error)) { rec("login", e.c.Login("u", "p").Wait()) })
			e.caller("B", func(rec func(string, error)) {
				// Caps() may legitimately return nil when the capabilities are reset while it
				// waits (documented TODO in the client); the property does not cover its value
				e.c.Caps()
				rec("caps", nil)
			})
			e.caller("C", func(rec func(string, error)) {
				// Caps() may legitimately return nil when the capabilities are reset while it
				// waits (documented TODO in the client); the property does not cover its value
				e.c.Caps()
				rec("caps", nil)
			})
			return e.finish()
		}},
		{name: "enable+search", allOK: true, body: func() interface{} {
			e := setup("* PREAUTH [CAPABILITY IMAP4rev1 ENABLE UTF8=ACCEPT] ready\r\n")
			e.caller("A", func(rec func(string, error)) {
				_, err := e.c.Enable(imap.CapUTF8Accept).Wait()
				rec("enable", err)
			})
			e.caller("B", func(rec func(string, error)) {
				_, err := e.c.Search(&imap.SearchCriteria{Body: []string{"x"}}, nil).Wait()
				rec("search", err)
			})
			return e.finish()
		}},
	}
}

// appReadMailbox stands for application code looking at a snapshot returned by Client.Mailbox().
// It is deliberately NOT //go:norace: the race pass must see these reads (a report whose other
// side is in the client is a client data race: the documented contract is that the snapshot is
// immutable).
func appReadMailbox(mb *imapclient.SelectedMailbox) uint32 {
	if mb == nil {
		return 0
	}
	return mb.NumMessages + uint32(len(mb.Flags)) + uint32(len(mb.PermanentFlags)) + uint32(len(mb.Name))
}

func build(s scenario) *vx.Scenario {
	return &vx.Scenario{
		Name: s.name,
		Body: s.body,
		Sig: func(res *vsched.Result, obs interface{}) string {
			o, _ := obs.(observation)
			ks := append([]string{}, o.Results...)
			sort.Strings(ks)
			return strings.Join(ks, ",") + fmt.Sprint(o.Dropped, o.CloseErr)
		},
		Check: func(res *vsched.Result, obs interface{}) (string, string) {
			if len(res.Panics) > 0 {
				return "panic:" + s.name + ":" + panicSig(res.Panics[0]), strings.Join(res.Panics, "\n")
			}
			if res.Verdict == "deadlock" {
				return "never-completes:" + s.name + ":" + blockedSig(res.Blocked), strings.Join(res.Blocked, "; ")
			}
			if res.Verdict != "ok" {
				return "verdict-" + res.Verdict + ":" + s.name, ""
			}
			o, ok := obs.(observation)
			if !ok {
				return "no-observation:" + s.name, ""
			}
			if len(o.Problems) > 0 {
				return "wire-problem:" + s.name + ":" + strings.Fields(o.Problems[0])[0], strings.Join(o.Problems, "; ")
			}
			if s.allOK && !o.Dropped {
				for _, kv := range o.Results {
					if !strings.HasSuffix(kv, "=ok") {
						return "command-fails-without-fault:" + s.name + ":" + strings.SplitN(kv, "=", 2)[0], fmt.Sprint(o.Results)
					}
				}
			}
			return "", ""
		},
	}
}

func panicSig(p string) string {
	if i := strings.Index(p, "panic: "); i >= 0 {
		p = p[i+7:]
	}
	if i := strings.IndexByte(p, '\n'); i >= 0 {
		p = p[:i]
	}
	p = strings.ReplaceAll(p, " ", "-")
	if len(p) > 60 {
		p = p[:60]
	}
	return p
}

func blockedSig(blocked []string) string {
	var parts []string
	for _, b := range blocked {
		if i := strings.Index(b, " at "); i >= 0 {
			loc := b[i+4:]
			if j := strings.Index(loc, "("); j >= 0 {
				loc = strings.TrimSuffix(loc[j+1:], ")")
			}
			if strings.Contains(loc, "main.") || strings.Contains(loc, "vimap.") || strings.Contains(loc, "vnet.") {
				continue
			}
			parts = append(parts, loc)
		}
	}
	sort.Strings(parts)
	if len(parts) == 0 {
		return "harness-only"
	}
	return strings.Join(parts, "+")
}

func main() {
	run := vk.Start("C13", "model_checking")
	scs := scenarios()
	bound, pbound := 2, 1
	maxExec := int64(100000)
	if run.Thorough() {
		bound, pbound = 3, 2
		maxExec = 6000000
	}
	if run.Replay != "" {
		b, _ := os.ReadFile(run.Replay)
		var f struct {
			Detail struct {
				Scenario string
				Choices  []int
			}
		}
		json.Unmarshal(b, &f)
		for _, s := range scs {
			if s.name != f.Detail.Scenario {
				continue
			}
			sc := build(s)
			res, obs := vx.RunOnce(sc, f.Detail.Choices, 20000, true)
			fmt.Printf("scenario %s choices=%v\nverdict=%s\nobservation=%+v\nblocked=%v\npanics=%v\n", sc.Name, f.Detail.Choices, res.Verdict, obs, res.Blocked, res.Panics)
			for _, l := range res.Log {
				fmt.Println("  ", l)
			}
			if key, detail := sc.Check(res, obs); key != "" {
				run.Violation(key, map[string]interface{}{"scenario": s.name, "choices": f.Detail.Choices, "detail": detail})
			}
		}
		run.AddEvals(1)
		run.Finish()
	}
	// two passes per scenario: preemption bounding (free switches at blocking points) and delay
	// bounding (every departure from the default scheduler costs one deviation) which reaches a
	// higher bound
	results := vx.Sharded(2*len(scs), func(i int) vx.ItemResult {
		s := scs[i/2]
		if i%2 == 0 {
			r := vx.ExploreItem(build(s), pbound, vx.Config{MaxExec: maxExec})
			r.Name = "preempt:" + r.Name
			return r
		}
		r := vx.ExploreItem(build(s), bound, vx.Config{MaxExec: maxExec, Delay: true})
		r.Name = "delay:" + r.Name
		return r
	})
	exhaustive := true
	outcomes := 0
	for i, r := range results {
		if r.EngineErr != "" {
			run.EngineError("%s", r.EngineErr)
		}
		run.AddEvals(r.Executions)
		run.Trans += r.Points
		run.Traces += r.Executions
		if !r.Exhaustive {
			exhaustive = false
		}
		outcomes += len(r.Outcomes)
		for _, f := range r.Failures {
			run.Violation(f.Key, map[string]interface{}{"scenario": scs[i/2].name, "choices": f.Choices, "detail": f.Detail, "blocked": f.Blocked, "panics": f.Panics})
		}
		run.Sample("scenario", map[string]interface{}{"name": r.Name, "executions": r.Executions, "bound_completed": r.BoundDone, "exhaustive": r.Exhaustive, "distinct_outcomes": len(r.Outcomes)})
		run.Set("bound_completed:"+r.Name, int64(r.BoundDone))
	}
	// ---- data-race pass (plan A): the same scenarios in a -race build, under the same controlled
	// scheduler whose hand-offs are invisible to the race detector; every explored schedule is
	// judged with exactly the program's own happens-before relation ----
	if bin := os.Getenv("VERIF_RACE_BIN"); bin != "" {
		rbound, rmax := 2, int64(12000)
		if run.Thorough() {
			rbound, rmax = 3, 600000
		}
		rres, stderr := vx.ShardedBin(bin, "race", len(scs), func(i int) vx.ItemResult {
			r := vx.ExploreItem(build(scs[i]), rbound, vx.Config{MaxExec: rmax, Delay: true})
			r.Name = "race:" + r.Name
			return r
		})
		var rexec int64
		for _, r := range rres {
			if r.EngineErr != "" {
				run.EngineError("race pass: %s", r.EngineErr)
			}
			rexec += r.Executions
			run.Trans += r.Points
			run.Traces += r.Executions
			if !r.Exhaustive {
				exhaustive = false
			}
		}
		run.AddEvals(rexec)
		reports := vx.ParseRaceReports(stderr, []string{"go-imap/v2/imapclient", "go-imap/v2/internal/imapwire", "go-imap/v2.", "go-imap/v2/internal.", "main.appRead"})
		var harnessReports int64
		for _, rep := range reports {
			if !rep.Inner {
				harnessReports++
				run.Set("last_harness_side_race_report", rep.Key+"\n"+rep.Text)
				continue
			}
			name := "?"
			if rep.Item >= 0 && rep.Item < len(scs) {
				name = scs[rep.Item].name
			}
			run.Violation("data-race:"+rep.Key, map[string]interface{}{"scenario": name, "report": rep.Text})
		}
		run.Set("race_pass_executions", rexec)
		run.Set("race_pass_delay_bound", int64(rbound))
		run.Set("race_pass_reports_total", int64(len(reports)))
		run.Set("race_pass_reports_with_a_harness_side_ignored", harnessReports)
	} else {
		run.Set("race_pass", "skipped: no -race build available")
	}
	// STARTTLS cannot run under the controlled scheduler (crypto/tls is not instrumented): the switch
	// of the connection is covered by a free-running -race pass over honest upgrades with the real
	// TLS peer of C17's harness (supplementary: true positives only, silence proves nothing)
	if os.Getenv("VERIF_RACE_BIN") != "" && os.Getenv("C13_SKIP_STARTTLS_RACE") == "" {
		tier := "quick"
		if run.Thorough() {
			tier = "thorough"
		}
		scratch, _ := os.MkdirTemp("", "verif-c13-starttls")
		cmd := exec.Command("/verif/check", "C17", "--tier", tier)
		cmd.Env = append(os.Environ(), "C17_RACE_ONLY=1", "VERIF_WANT_RACE=1", "VERIF_OUT="+scratch)
		out, err := cmd.Output()
		os.RemoveAll(scratch)
		text := string(out)
		if err != nil || strings.Contains(text, "STARTTLS-RACE-ERROR") || !strings.Contains(text, "STARTTLS-RACE-PASS") {
			run.EngineError("STARTTLS race pass failed: %v\n%s", err, text)
		}
		n := 0
		for _, l := range strings.Split(text, "\n") {
			if strings.HasPrefix(l, "STARTTLS-RACE-PASS upgrades=") {
				fmt.Sscanf(l, "STARTTLS-RACE-PASS upgrades=%d", &n)
			}
			if !strings.HasPrefix(l, "STARTTLS-RACE ") {
				continue
			}
			f := strings.SplitN(strings.TrimPrefix(l, "STARTTLS-RACE "), "\t", 2)
			rep := ""
			if len(f) > 1 {
				rep = strings.ReplaceAll(f[1], "\\n", "\n")
			}
			run.Violation("data-race:starttls:"+f[0], map[string]interface{}{"scenario": "free-running STARTTLS upgrades (C17 harness, -race)", "report": rep,
				"note": "found by a free-running pass: re-run the check to reproduce"})
		}
		run.Set("starttls_race_pass_upgrades", int64(n))
		run.AddEvals(int64(n))
	}
	run.States = int64(2 * len(scs))
	run.NontrivialN(int64(outcomes))
	run.Set("delay_bound", int64(bound))
	run.Set("preemption_bound", int64(pbound))
	run.Set("max_executions_per_scenario", maxExec)
	run.Exhaustive = exhaustive
	run.Rule = "scenario = N caller threads + reactive scripted server (+ environment-chosen connection drop: clean close or reset before any command, or inside a tagged completion line) + the client's own reader/helper goroutines, all under the controlled scheduler with a scheduling point before every lock, after every unlock, at every channel operation, select, spawn and connection read/write; DFS over all schedules with at most `preemption_bound` deviations (preemptions and non-default environment answers). distinct_nontrivial = distinct (scenario, verdict, per-command outcome vector) observed"
	run.Assume("data races themselves are not visible to a cooperative scheduler; this check decides their behavioural consequences (lost/duplicate completions, hangs, panics); see DESIGN §3.2.6")
	run.Assume("in-memory connection: writes never block")
	run.Assume("STARTTLS: only a free-running -race pass over honest upgrades (sampling, supplementary); everything else is exhaustive within the stated bounds")
	run.Finish()
}
