// C06 — server survives arbitrary input and disconnects, cleaning up exactly once.
//
// Fault enumeration on the real imapserver.Conn over the in-memory pipe with the recording stub
// backend. Inputs: (i) the C04 stream family, (ii) every single-position mutation and every
// truncation of ~60 valid command lines (one per syntactic production of every parser), (iii)
// every raw string up to a length over a 14-symbol alphabet in 8 contexts, (iv) nesting families
// up to 10^6 deep in a resource-limited worker subprocess. Crash points: for ~27 valid
// multi-command transcripts every byte offset of the client stream x {clean EOF, read error} and
// every server write call from which all writes fail.
//
// Oracle: no panic report in the server log; after the client side is gone the server closes its
// side, the connection disappears from Server.conns, every Session.Idle call has returned (all
// decided by events; the 30 s engine watchdog only catches a genuine hang, which is re-run three
// times before it is reported); Session.Close was called exactly once (never if the session could
// not be created); no backend string argument above 4096 bytes that came from a literal and no
// "+" for such a header; Append never called and no "+" above the append limit; list nesting
// >= 1000 is refused and never crashes the process.
package main

import (
	"bufio"
	"bytes"
	"encoding/json"
	"fmt"
	"os"
	"os/exec"
	"runtime"
	"runtime/pprof"
	"sort"
	"strings"
	"sync"
	"sync/atomic"
	"syscall"
	"time"

	"github.com/emersion/go-imap/v2/verif/srvframe"
	"github.com/emersion/go-imap/v2/verif/srvkit"
	"github.com/emersion/go-imap/v2/verif/vk"
)

var run *vk.Run

const watchdog = 30 * time.Second

// ---------------------------------------------------------------------------------------------
// cases
// ---------------------------------------------------------------------------------------------

type kase struct {
	Family string
	Stream *srvframe.Stream  `json:",omitempty"`
	Raw    *srvframe.RawCase `json:",omitempty"`
	Note   string            `json:",omitempty"`
	// expectations of the family, checked besides survival
	WantTagged string `json:",omitempty"` // this tag must get a tagged completion (the connection is expected to stay usable)
	Bytes      int    `json:",omitempty"` // input size when the input itself is not stored (nesting families)
}

func (k *kase) size() int {
	if k.Bytes > 0 {
		return k.Bytes
	}
	if k.Stream != nil {
		return len(srvframe.Wire(k.Stream))
	}
	n := 0
	for _, s := range k.Raw.Segs {
		n += len(s)
	}
	return n
}

func (k *kase) describe() string {
	if k.Stream != nil {
		return k.Family + ": " + k.Stream.Describe()
	}
	var segs []string
	for _, s := range k.Raw.Segs {
		segs = append(segs, vk.Q(clip(s, 160)))
	}
	f := k.Raw.Fault
	if k.Raw.FailWriteAt >= 0 {
		f += fmt.Sprintf(", server writes fail from call #%d", k.Raw.FailWriteAt)
	}
	return fmt.Sprintf("%s [%s] %s: setup=%q segments=%s then %s", k.Family, srvframe.CapsName[k.Raw.Caps], k.Raw.Name, k.Raw.Setup, strings.Join(segs, " | "), f)
}

func clip(s string, n int) string {
	if len(s) > n {
		return s[:n/2] + fmt.Sprintf("…(%d bytes)…", len(s)-n) + s[len(s)-n/2:]
	}
	return s
}

type found struct {
	key   string
	msg   string
	k     *kase
	size  int
	order int64
	trans []string
}

var (
	fmu   sync.Mutex
	best  = map[string]*found{}
	hits  = map[string]int64{}
	hung  int32
	stats struct {
		cases, closedByServer, resetCases, eofCases, writeFaults, idleRuns, noSession, panics int64
	}
	outcomes sync.Map
)

func record(key, msg string, k *kase, order int64, trans []string) {
	sz := k.size()
	fmu.Lock()
	defer fmu.Unlock()
	hits[key]++
	b := best[key]
	if b != nil && (b.size < sz || (b.size == sz && b.order <= order)) {
		return
	}
	best[key] = &found{key: key, msg: msg, k: k, size: sz, order: order, trans: trans}
}

// exec runs one case and returns the findings (without recording them).
func execCase(w *srvframe.Worker, k *kase) (fs []srvframe.Finding, trans []string, engineErr string) {
	if k.Stream != nil {
		res := w.Play(k.Stream)
		if res.EngineErr != "" {
			return nil, nil, res.EngineErr
		}
		if res.End.EngineErr != "" {
			return nil, nil, res.End.EngineErr
		}
		fs = append(fs, srvframe.Survival(res.End, false)...)
		if res.End.Hang == "" {
			fs = append(fs, srvframe.Limits(res)...)
		}
		if res.ClosedAt >= 0 {
			atomic.AddInt64(&stats.closedByServer, 1)
		}
		if res.End.IdleStarted > 0 {
			atomic.AddInt64(&stats.idleRuns, 1)
		}
		outcomes.LoadOrStore(fmt.Sprintf("s/%d/%d/%d/%v", res.End.CloseCount, res.ClosedAt, len(res.Calls), len(fs)), struct{}{})
		return fs, srvframe.Transcript(res), ""
	}
	obs := w.RunRaw(k.Raw)
	if obs.EngineErr != "" {
		return nil, nil, obs.EngineErr
	}
	if obs.End.EngineErr != "" {
		return nil, nil, obs.End.EngineErr
	}
	fs = append(fs, srvframe.Survival(obs.End, obs.NoSession)...)
	if obs.NoSession {
		atomic.AddInt64(&stats.noSession, 1)
	}
	if obs.End.IdleStarted > 0 {
		atomic.AddInt64(&stats.idleRuns, 1)
	}
	trans = rawTranscript(obs)
	if obs.End.Hang == "" {
		// buffering clauses on raw input: no over-long string from a literal can exist here (the
		// lines are short), but Append above the limit and "+" for an oversized header can
		resps, _, _ := srvkit.ParseResponses(obs.Out)
		for _, c := range obs.Calls {
			if c.Method == "Append" && len(c.Args) > 1 {
				if n, ok := c.Args[1].(int64); ok && n > srvframe.AppendLimit {
					fs = append(fs, srvframe.Finding{Key: "append-over-limit-reaches-backend", Msg: fmt.Sprintf("Session.Append called with a %d byte literal", n)})
				}
			}
		}
		if k.WantTagged != "" && k.Raw.FailWriteAt < 0 {
			got := false
			for _, r := range resps {
				if r.Tag == k.WantTagged {
					got = true
				}
			}
			if !got {
				fs = append(fs, srvframe.Finding{Key: "connection-unusable-after:" + k.Family, Msg: fmt.Sprintf("no tagged completion for %q", k.WantTagged)})
			}
		}
		outcomes.LoadOrStore(fmt.Sprintf("r/%d/%d/%d/%v", obs.End.CloseCount, len(resps), len(obs.Calls), len(fs)), struct{}{})
	}
	return fs, trans, ""
}

func rawTranscript(obs *srvframe.Obs) []string {
	out := []string{"S: " + clip(string(obs.Out), 1200)}
	for _, c := range obs.Calls {
		var ss []string
		for _, s := range srvframe.Strings(c) {
			ss = append(ss, clip(s, 60))
		}
		out = append(out, fmt.Sprintf("backend: %s%q", c.Method, ss))
	}
	for _, l := range obs.End.Logs {
		out = append(out, "log: "+clip(l, 1600))
	}
	out = append(out, fmt.Sprintf("end: Session.Close calls=%d, Idle started/returned=%d/%d, connections still listed=%d, hang=%q", obs.End.CloseCount, obs.End.IdleStarted, obs.End.IdleDone, obs.End.ConnsLeft, obs.End.Hang))
	return out
}

// runCases executes the cases on all cores. A watchdog hit is re-run three times on fresh
// workers; if it persists it is reported and the family's remaining cases are abandoned (every
// further hit would cost another 30 s), else it is an engine error.
type famRec struct {
	name string
	n    int
	gen  func(i int) *kase
}

var families []famRec

func runCases(name string, n int, gen func(i int) *kase) {
	families = append(families, famRec{name, n, gen})
	start := time.Now()
	var next int64 = -1
	var wg sync.WaitGroup
	var done int64
	nw := runtime.GOMAXPROCS(0)
	if n < nw {
		nw = n
	}
	for i := 0; i < nw; i++ {
		wg.Add(1)
		go func() {
			defer wg.Done()
			w := srvframe.NewWorker(watchdog)
			defer func() { w.Close() }()
			for {
				if atomic.LoadInt32(&hung) != 0 {
					return
				}
				i := int(atomic.AddInt64(&next, 1))
				if i >= n {
					return
				}
				k := gen(i)
				if k == nil {
					continue
				}
				fs, trans, eerr := execCase(w, k)
				atomic.AddInt64(&done, 1)
				run.AddEvals(1)
				if eerr != "" {
					run.EngineError("%s: %s", k.describe(), eerr)
				}
				isHang := false
				for _, f := range fs {
					if strings.HasSuffix(f.Key, "-does-not-finish") {
						isHang = true
					}
				}
				if isHang {
					// the worker's server still has the stuck connection: abandon it
					w = srvframe.NewWorker(watchdog)
					confirmed := 0
					for rep := 0; rep < 3; rep++ {
						w2 := srvframe.NewWorker(watchdog)
						fs2, _, _ := execCase(w2, k)
						for _, f := range fs2 {
							if strings.HasSuffix(f.Key, "-does-not-finish") {
								confirmed++
								break
							}
						}
					}
					if confirmed < 3 {
						run.EngineError("watchdog hit on %s reproduced only %d/3 times (machine overloaded?)", k.describe(), confirmed)
					}
					atomic.StoreInt32(&hung, 1)
				}
				for _, f := range fs {
					record(f.Key, f.Msg, k, int64(i), trans)
				}
			}
		}()
	}
	wg.Wait()
	run.Set("cases_"+name, atomic.LoadInt64(&done))
	fmt.Printf("C06: %-28s %8d cases  %.1fs\n", name, done, time.Since(start).Seconds())
	if atomic.LoadInt32(&hung) != 0 {
		finish(false, "a confirmed hang ended the run early (every further occurrence would cost a 30 s watchdog)")
	}
}

// ---------------------------------------------------------------------------------------------
// (ii) valid command lines
// ---------------------------------------------------------------------------------------------

type line struct {
	name  string
	state int      // srvframe.StFresh / StAuth / StSelected
	segs  []string // the client waits for the server between segments
}

func validLines() []line {
	sel := srvframe.StSelected
	l := func(name string, segs ...string) line { return line{name, sel, segs} }
	ls := []line{
		l("search-flags", "a SEARCH ANSWERED DELETED DRAFT FLAGGED RECENT SEEN NEW OLD\r\n"),
		l("search-unflags", "a SEARCH UNANSWERED UNDELETED UNDRAFT UNFLAGGED UNSEEN ALL\r\n"),
		l("search-keyword", "a SEARCH KEYWORD kw UNKEYWORD \\Seen\r\n"),
		l("search-headers", "a SEARCH BCC x CC \"y\" FROM z SUBJECT \"s u\" TO t HEADER X-Spam \"\"\r\n"),
		l("search-dates", "a SEARCH SINCE 1-Feb-2024 BEFORE \"2-Feb-2024\" ON 3-Feb-2024 SENTSINCE 1-Feb-2024 SENTBEFORE 2-Feb-2024 SENTON 3-Feb-2024\r\n"),
		l("search-nonsync-literal", "a SEARCH BODY hello TEXT {3+}\r\nfox\r\n"),
		l("search-sync-literal", "a SEARCH SUBJECT {5}\r\n", "hello LARGER 10\r\n"),
		l("search-sizes", "a SEARCH LARGER 100 SMALLER 4294967296\r\n"),
		l("search-not-or-lists", "a SEARCH NOT SEEN OR (SMALLER 50) LARGER 500 (SMALLER 500 NEW) NOT (LARGER 50 UNSEEN)\r\n"),
		l("search-sets", "a SEARCH 1:* 2,4:6 UID 9:* $\r\n"),
		l("search-return-charset", "a SEARCH RETURN (MIN MAX ALL COUNT SAVE) CHARSET UTF-8 ALL\r\n"),
		l("uid-search-return-empty", "a UID SEARCH RETURN () UID 1:5\r\n"),
		l("fetch-macro-all", "a FETCH 1 ALL\r\n"),
		l("fetch-macro-fast", "a FETCH 1 FAST\r\n"),
		l("fetch-macro-full", "a FETCH 1 FULL\r\n"),
		l("fetch-list", "a FETCH 1:* (FLAGS UID ENVELOPE INTERNALDATE RFC822.SIZE BODYSTRUCTURE BODY)\r\n"),
		l("fetch-rfc822", "a FETCH 1 (RFC822 RFC822.HEADER RFC822.TEXT)\r\n"),
		l("fetch-body-sections", "a FETCH 1 (BODY[] BODY[HEADER] BODY[TEXT] BODY[1.2.MIME] BODY.PEEK[1.TEXT] BODY[1])\r\n"),
		l("fetch-header-fields", "a FETCH 1 (BODY[HEADER.FIELDS (From \"To\" {2+}\r\nCc)] BODY.PEEK[1.HEADER.FIELDS.NOT (X)])\r\n"),
		l("fetch-partial", "a FETCH 1 BODY[]<0.10>\r\n"),
		l("fetch-partial-huge", "a FETCH 1 BODY.PEEK[TEXT]<5.9223372036854775807>\r\n"),
		l("fetch-binary", "a FETCH 1 (BINARY[1] BINARY.PEEK[1.2]<0.5> BINARY.SIZE[1] BINARY[])\r\n"),
		l("uid-fetch", "a UID FETCH 7,9:* (FLAGS)\r\n"),
		l("list-basic", "a LIST \"\" *\r\n"),
		l("list-extended", "a LIST (SUBSCRIBED REMOTE RECURSIVEMATCH) \"ref/\" (\"a*\" b% {1+}\r\nc) RETURN (SUBSCRIBED CHILDREN STATUS (MESSAGES UIDNEXT UIDVALIDITY UNSEEN DELETED SIZE APPENDLIMIT DELETED-STORAGE RECENT))\r\n"),
		l("lsub", "a LSUB \"\" \"*\"\r\n"),
		l("status-all-items", "a STATUS box (MESSAGES UIDNEXT UIDVALIDITY UNSEEN DELETED SIZE APPENDLIMIT DELETED-STORAGE RECENT)\r\n"),
		l("create-special-use", "a CREATE \"Sent box\" (USE (\\Sent \\Flagged))\r\n"),
		l("create-utf7", "a CREATE m&AOk-\r\n"),
		l("append-sync-literal", "a APPEND box {5}\r\n", "hello\r\n"),
		l("append-flags-date", "a APPEND box (\\Seen kw) \"17-Jul-1996 02:44:25 -0700\" {5+}\r\nhello\r\n"),
		l("append-utf8", "a APPEND box UTF8 (~{5+}\r\nhello)\r\n"),
		l("store-list", "a STORE 1 FLAGS (\\Seen kw)\r\n"),
		l("store-add-silent", "a STORE 1:2 +FLAGS.SILENT \\Deleted kw\r\n"),
		l("uid-store-del", "a UID STORE 7 -FLAGS (\\*)\r\n"),
		l("enable", "a ENABLE IMAP4rev2 UTF8=ACCEPT X\r\n"),
		l("copy", "a COPY 1:2 dest\r\n"),
		l("uid-copy", "a UID COPY 7 \"d\"\r\n"),
		l("move", "a MOVE 1 dest\r\n"),
		l("uid-move", "a UID MOVE 7:* {1+}\r\nd\r\n"),
		l("expunge", "a EXPUNGE\r\n"),
		l("uid-expunge", "a UID EXPUNGE 7:9\r\n"),
		l("select", "a SELECT INBOX\r\n"),
		l("examine", "a EXAMINE \"x\"\r\n"),
		l("rename", "a RENAME a b\r\n"),
		l("delete", "a DELETE a\r\n"),
		l("subscribe", "a SUBSCRIBE a\r\n"),
		l("unsubscribe", "a UNSUBSCRIBE a\r\n"),
		l("namespace", "a NAMESPACE\r\n"),
		l("capability", "a CAPABILITY\r\n"),
		l("noop", "a NOOP\r\n"),
		l("check", "a CHECK\r\n"),
		l("close", "a CLOSE\r\n"),
		l("unselect", "a UNSELECT\r\n"),
		l("idle", "a IDLE\r\n", "DONE\r\n"),
		l("logout", "a LOGOUT\r\n"),
		{"login-literals", srvframe.StFresh, []string{"a LOGIN {1}\r\n", "u {1+}\r\np\r\n"}},
		{"login-quoted", srvframe.StFresh, []string{"a LOGIN \"u\\\"x\" p\r\n"}},
		{"authenticate-initial-response", srvframe.StFresh, []string{"a AUTHENTICATE PLAIN AHUAcA==\r\n"}},
		{"authenticate-two-step", srvframe.StFresh, []string{"a AUTHENTICATE PLAIN\r\n", "AHUAcA==\r\n"}},
	}
	return ls
}

func setupFor(state int) []string {
	var s []string
	if state >= srvframe.StAuth {
		s = append(s, "i1 LOGIN su sp\r\n")
	}
	if state >= srvframe.StSelected {
		s = append(s, "i2 SELECT sbox\r\n")
	}
	return s
}

var replacements = []byte{'(', ')', '{', '}', '[', ']', '<', '>', '"', '\\', ' ', '\r', '\n', 0, '*', '%', '0', '9', '~', '+', '-'}

// mutants of a segmented line: (operator, position) over the concatenated bytes, keeping the
// segment boundaries where they were.
func mutate(segs []string, op int, pos int) []string {
	out := make([]string, len(segs))
	off := 0
	for i, s := range segs {
		if pos >= off && pos < off+len(s) {
			p := pos - off
			switch {
			case op == 0: // delete
				out[i] = s[:p] + s[p+1:]
			case op == 1: // duplicate
				out[i] = s[:p+1] + s[p:]
			default:
				out[i] = s[:p] + string(replacements[op-2]) + s[p+1:]
			}
		} else {
			out[i] = s
		}
		off += len(s)
	}
	return out
}

func truncate(segs []string, n int) []string {
	var out []string
	off := 0
	for _, s := range segs {
		if n <= off {
			break
		}
		if n >= off+len(s) {
			out = append(out, s)
		} else {
			out = append(out, s[:n-off])
		}
		off += len(s)
	}
	return out
}

func total(segs []string) int {
	n := 0
	for _, s := range segs {
		n += len(s)
	}
	return n
}

// ---------------------------------------------------------------------------------------------
// crash-point transcripts
// ---------------------------------------------------------------------------------------------

type transcript struct {
	name        string
	segs        []string
	idleUpdates int
	idleLate    int
	loginFails  bool
}

func transcripts() []transcript {
	login := "a LOGIN u p\r\n"
	sel := "b SELECT INBOX\r\n"
	return []transcript{
		{name: "login-select-noop-logout", segs: []string{login, sel, "c NOOP\r\n", "d LOGOUT\r\n"}},
		{name: "fetch-with-literal-reply", segs: []string{login, sel, "c FETCH 1 (FLAGS UID BODY[])\r\n", "d LOGOUT\r\n"}},
		{name: "append-sync-literal", segs: []string{login, "c APPEND box {11}\r\n", "hello world\r\n", "d LOGOUT\r\n"}},
		{name: "append-nonsync-flags-date", segs: []string{login, "c APPEND box (\\Seen) \"17-Jul-1996 02:44:25 -0700\" {11+}\r\nhello world\r\n", "d NOOP\r\n"}},
		{name: "authenticate-two-step", segs: []string{"a AUTHENTICATE PLAIN\r\n", "AHUAcA==\r\n", sel, "c CLOSE\r\n", "d LOGOUT\r\n"}},
		{name: "authenticate-initial-response", segs: []string{"a AUTHENTICATE PLAIN AHUAcA==\r\n", "b LIST \"\" *\r\n", "d LOGOUT\r\n"}},
		{name: "authenticate-cancel-then-login", segs: []string{"a AUTHENTICATE PLAIN\r\n", "*\r\n", login, "d LOGOUT\r\n"}},
		{name: "idle-0-updates", segs: []string{login, sel, "c IDLE\r\n", "DONE\r\n", "d LOGOUT\r\n"}},
		{name: "idle-1-update", segs: []string{login, sel, "c IDLE\r\n", "DONE\r\n", "d NOOP\r\n"}, idleUpdates: 1},
		{name: "idle-2-updates", segs: []string{login, sel, "c IDLE\r\n", "DONE\r\n"}, idleUpdates: 2},
		{name: "idle-2-updates-pending-at-stop", segs: []string{login, "c IDLE\r\n", "DONE\r\n", "d LOGOUT\r\n"}, idleLate: 2},
		{name: "idle-1+1-updates", segs: []string{login, sel, "c IDLE\r\n", "DONE\r\n", "d IDLE\r\n", "DONE\r\n"}, idleUpdates: 1, idleLate: 1},
		{name: "idle-garbage-instead-of-done", segs: []string{login, sel, "c IDLE\r\n", "x NOOP\r\n", "d NOOP\r\n"}, idleUpdates: 1},
		{name: "login-sync-literals", segs: []string{"a LOGIN {1}\r\n", "u {1}\r\n", "p\r\n", "d LOGOUT\r\n"}},
		{name: "login-nonsync-literals", segs: []string{"a LOGIN {1+}\r\nu {1+}\r\np\r\n", sel, "d LOGOUT\r\n"}},
		{name: "search-literal-return", segs: []string{login, sel, "c SEARCH RETURN (MIN MAX) TEXT {3}\r\n", "fox SEEN\r\n", "d UID SEARCH 1:*\r\n"}},
		{name: "uid-fetch-sections", segs: []string{login, sel, "c UID FETCH 1:* (BODY.PEEK[HEADER.FIELDS (From To)]<0.10> BINARY.SIZE[1] ENVELOPE BODYSTRUCTURE)\r\n", "d LOGOUT\r\n"}},
		{name: "store-expunge", segs: []string{login, sel, "c STORE 1 +FLAGS (\\Seen)\r\n", "d EXPUNGE\r\n", "e UID EXPUNGE 1\r\n"}},
		{name: "copy-move-unselect", segs: []string{login, sel, "c COPY 1 dest\r\n", "d MOVE 1 dest\r\n", "e UNSELECT\r\n"}},
		{name: "status-list-extended", segs: []string{login, "c STATUS box (MESSAGES UIDNEXT)\r\n", "d LIST (SUBSCRIBED) \"\" (a b) RETURN (CHILDREN STATUS (MESSAGES))\r\n"}},
		{name: "mailbox-management", segs: []string{login, "c CREATE m (USE (\\Sent))\r\n", "d RENAME m n\r\n", "e DELETE n\r\n", "f SUBSCRIBE x\r\n", "g UNSUBSCRIBE x\r\n", "h LSUB \"\" *\r\n", "i NAMESPACE\r\n"}},
		{name: "enable-rev2-esearch", segs: []string{login, "c ENABLE IMAP4rev2\r\n", sel, "d SEARCH ALL\r\n", "e FETCH 1 (FLAGS)\r\n"}},
		{name: "capability-unknown-command", segs: []string{"a CAPABILITY\r\n", "b NOOP\r\n", "c XYZZY\r\n"}},
		{name: "login-fails-then-succeeds", segs: []string{"a LOGIN bad p\r\n", login, "d LOGOUT\r\n"}, loginFails: true},
		{name: "select-examine-close", segs: []string{login, sel, "c EXAMINE other\r\n", "d CLOSE\r\n"}},
		{name: "append-utf8-then-append", segs: []string{login, "c APPEND box UTF8 (~{5+}\r\nhello)\r\n", "d APPEND box {5+}\r\nhello\r\n"}},
		{name: "pipelined-commands", segs: []string{login + sel + "c NOOP\r\nd FETCH 1 (UID)\r\ne LOGOUT\r\n"}},
	}
}

// ---------------------------------------------------------------------------------------------
// (iv) nesting families, in a worker subprocess
// ---------------------------------------------------------------------------------------------

type nestJob struct {
	Family string
	N      int
}
type nestResult struct {
	Family     string
	N          int
	Status     string // status word of the tagged completion of the deep command ("" = none)
	Sentinel   string
	Backend    int // Search/List/Fetch/Status calls made for the deep command
	Panics     []string
	Hang       string
	CloseCount int
	InputBytes int
	Millis     int64
}

func nestLine(family string, n int) string {
	rep := strings.Repeat
	switch family {
	case "search-open-parens":
		return "a SEARCH " + rep("(", n) + "\r\n"
	case "search-closed-parens":
		return "a SEARCH " + rep("(", n) + "ALL" + rep(")", n) + "\r\n"
	case "search-sibling-lists":
		return "a SEARCH " + rep("(ALL) ", n-1) + "(ALL)\r\n"
	case "list-pattern-parens":
		return "a LIST \"\" " + rep("(", n) + "\r\n"
	case "list-select-parens":
		return "a LIST " + rep("(", n) + "\r\n"
	case "fetch-att-parens":
		return "a FETCH 1 " + rep("(", n) + "\r\n"
	case "status-item-parens":
		return "a STATUS box " + rep("(", n) + "\r\n"
	case "search-not-chain":
		return "a SEARCH " + rep("NOT ", n) + "ALL\r\n"
	case "search-or-chain":
		return "a SEARCH " + rep("OR ALL ", n) + "ALL\r\n"
	}
	panic("unknown nesting family " + family)
}

func nestWorkerMain() {
	lim := syscall.Rlimit{Cur: 6 << 30, Max: 6 << 30}
	syscall.Setrlimit(syscall.RLIMIT_AS, &lim)
	in := json.NewDecoder(bufio.NewReader(os.Stdin))
	out := bufio.NewWriter(os.Stdout)
	// the deep inputs legitimately take long on a loaded machine (1 GB of stack is copied several
	// times before the runtime gives up): the watchdog here only guards the engine
	w := srvframe.NewWorker(20 * time.Minute)
	for {
		var j nestJob
		if err := in.Decode(&j); err != nil {
			break
		}
		fmt.Fprintf(out, "BEGIN %s %d\n", j.Family, j.N)
		out.Flush()
		l := nestLine(j.Family, j.N)
		t0 := time.Now()
		rc := &srvframe.RawCase{Caps: srvframe.CapsRev2, Setup: setupFor(srvframe.StSelected), Segs: []string{l, "zz NOOP\r\n"}, Fault: "eof", FailWriteAt: -1, Name: j.Family}
		obs := w.RunRaw(rc)
		r := nestResult{Family: j.Family, N: j.N, Hang: obs.End.Hang, CloseCount: obs.End.CloseCount, InputBytes: len(l)}
		if obs.EngineErr != "" {
			r.Hang = "engine: " + obs.EngineErr
		}
		resps, _, _ := srvkit.ParseResponses(obs.Out)
		for _, x := range resps {
			ws := x.Words()
			if len(ws) == 0 {
				continue
			}
			if x.Tag == "a" {
				r.Status = strings.ToUpper(ws[0])
			}
			if x.Tag == "zz" {
				r.Sentinel = strings.ToUpper(ws[0])
			}
		}
		for _, c := range obs.Calls {
			switch c.Method {
			case "Search", "List", "Fetch", "Status":
				r.Backend++
			}
		}
		for _, lg := range obs.End.Logs {
			if strings.Contains(lg, "panic") {
				r.Panics = append(r.Panics, clip(lg, 600))
			}
		}
		r.Millis = time.Since(t0).Milliseconds()
		b, _ := json.Marshal(r)
		fmt.Fprintf(out, "END %s\n", b)
		out.Flush()
		runtime.GC()
	}
}

func runNesting(jobs []nestJob) {
	start := time.Now()
	idx := 0
	for idx < len(jobs) {
		cmd := exec.Command(os.Args[0], "--tier", run.Tier)
		cmd.Env = append(os.Environ(), "C06_NEST_WORKER=1", "GOMAXPROCS=4")
		stdin, _ := cmd.StdinPipe()
		stdout, _ := cmd.StdoutPipe()
		var stderr bytes.Buffer
		cmd.Stderr = &stderr
		if err := cmd.Start(); err != nil {
			run.EngineError("cannot start nesting worker: %v", err)
		}
		nestMu.Lock()
		nestProcs = append(nestProcs, cmd)
		nestMu.Unlock()
		go func(from int) {
			enc := json.NewEncoder(stdin)
			for _, j := range jobs[from:] {
				if enc.Encode(j) != nil {
					break
				}
			}
			stdin.Close()
		}(idx)
		sc := bufio.NewScanner(stdout)
		sc.Buffer(make([]byte, 1<<20), 1<<26)
		open := -1
		for sc.Scan() {
			l := sc.Text()
			if strings.HasPrefix(l, "BEGIN ") {
				open = idx
			} else if strings.HasPrefix(l, "END ") {
				var r nestResult
				if err := json.Unmarshal([]byte(l[4:]), &r); err != nil {
					run.EngineError("bad nesting worker line: %v", err)
				}
				judgeNest(jobs[idx], r)
				run.AddEvals(1)
				open = -1
				idx++
			}
		}
		werr := cmd.Wait()
		if open >= 0 {
			j := jobs[open]
			tail := stderr.String()
			first := tail
			if len(first) > 400 {
				first = first[:400]
			}
			k := &kase{Family: "nesting", Raw: &srvframe.RawCase{Caps: srvframe.CapsRev2, Setup: setupFor(srvframe.StSelected), Name: fmt.Sprintf("%s n=%d", j.Family, j.N), Segs: []string{fmt.Sprintf("<%s with n=%d, %d bytes>", j.Family, j.N, len(nestLine(j.Family, j.N)))}, Fault: "eof", FailWriteAt: -1}, Note: fmt.Sprintf("%s:%d", j.Family, j.N), Bytes: len(nestLine(j.Family, j.N))}
			cause := j.Family
			if j.Family == "search-not-chain" || j.Family == "search-or-chain" {
				cause = "search-key-recursion" // one defect: readSearchKey recursion is not depth-limited
			}
			record("server-process-dies:"+cause, fmt.Sprintf("the whole server process died (%v) while parsing %s with n=%d; stderr begins: %s", werr, j.Family, j.N, first), k, int64(j.N), []string{clip(tail, 1500)})
			run.AddEvals(1)
			idx = open + 1
			// a deeper input of the same family would only die again (and cost another 1 GB stack)
			for idx < len(jobs) && jobs[idx].Family == j.Family && jobs[idx].N > j.N {
				nestMu.Lock()
				nestOutcome[fmt.Sprintf("%s n=%d", jobs[idx].Family, jobs[idx].N)] = fmt.Sprintf("not run: the process already dies at n=%d", j.N)
				nestMu.Unlock()
				idx++
			}
			continue
		}
		if idx < len(jobs) {
			run.EngineError("nesting worker stopped early at job %d/%d: %v %s", idx, len(jobs), werr, clip(stderr.String(), 600))
		}
	}
	fmt.Printf("C06: %-28s %8d cases  %.1fs\n", "nesting: "+jobs[0].Family+"…", len(jobs), time.Since(start).Seconds())
}

var nestOutcome = map[string]string{}
var nestMu sync.Mutex
var nestProcs []*exec.Cmd

func judgeNest(j nestJob, r nestResult) {
	k := &kase{Family: "nesting", Raw: &srvframe.RawCase{Caps: srvframe.CapsRev2, Setup: setupFor(srvframe.StSelected), Name: fmt.Sprintf("%s n=%d", j.Family, j.N), Segs: []string{fmt.Sprintf("<%s with n=%d, %d bytes>", j.Family, j.N, r.InputBytes)}, Fault: "eof", FailWriteAt: -1}, Note: fmt.Sprintf("%s:%d", j.Family, j.N), Bytes: r.InputBytes}
	t := []string{fmt.Sprintf("%+v", r)}
	nestMu.Lock()
	nestOutcome[fmt.Sprintf("%s n=%d", j.Family, j.N)] = fmt.Sprintf("%s (backend calls %d)", r.Status, r.Backend)
	nestMu.Unlock()
	if os.Getenv("C06_DEV") != "" {
		fmt.Printf("  nest %s n=%d: %s backend=%d %dms\n", j.Family, j.N, r.Status, r.Backend, r.Millis)
	}
	for _, p := range r.Panics {
		record("server-panic:"+srvframe.PanicKey(p), p, k, int64(j.N), t)
	}
	if r.Hang != "" {
		run.EngineError("nesting worker: %s (%s n=%d)", r.Hang, j.Family, j.N)
	}
	if r.CloseCount != 1 {
		record(fmt.Sprintf("session-closed-%d-times", r.CloseCount), "after "+j.Family, k, int64(j.N), t)
	}
	if r.Status == "" || r.Sentinel != "OK" {
		record("connection-unusable-after:nesting:"+j.Family, fmt.Sprintf("deep command answered %q, the following NOOP %q", r.Status, r.Sentinel), k, int64(j.N), t)
	}
	switch j.Family {
	case "search-closed-parens":
		if j.N >= 1000 && (r.Status == "OK" || r.Backend > 0) {
			record("list-nesting-not-bounded", fmt.Sprintf("SEARCH with %d nested lists answered %s, backend calls %d", j.N, r.Status, r.Backend), k, int64(j.N), t)
		}
	case "search-sibling-lists":
		if r.Status != "OK" {
			record("list-depth-counts-siblings", fmt.Sprintf("SEARCH with %d lists side by side (nesting depth 1) answered %s", j.N, r.Status), k, int64(j.N), t)
		}
	case "search-open-parens", "list-pattern-parens", "list-select-parens", "fetch-att-parens", "status-item-parens":
		if r.Status == "OK" || r.Backend > 0 {
			record("unbalanced-list-accepted:"+j.Family, fmt.Sprintf("n=%d answered %s, backend calls %d", j.N, r.Status, r.Backend), k, int64(j.N), t)
		}
	}
}

// ---------------------------------------------------------------------------------------------
// main
// ---------------------------------------------------------------------------------------------

func finish(exhaustive bool, note string) {
	if !exhaustive {
		// early end: no worker subprocess may outlive the check
		nestMu.Lock()
		for _, c := range nestProcs {
			if c.Process != nil {
				c.Process.Kill()
			}
		}
		nestMu.Unlock()
		run.NontrivialN(run.Evals)
	}
	var keys []string
	for k := range best {
		keys = append(keys, k)
	}
	sort.Strings(keys)
	for _, k := range keys {
		f := best[k]
		// replay before reporting (hangs were already confirmed three times; process deaths are
		// re-run through the subprocess by --replay only)
		if !strings.HasSuffix(k, "-does-not-finish") && f.k.Family != "nesting" && !strings.HasPrefix(k, leakKey) {
			w := srvframe.NewWorker(watchdog)
			for rep := 0; rep < 3; rep++ {
				fs, _, _ := execCase(w, f.k)
				ok := false
				for _, g := range fs {
					if g.Key == k {
						ok = true
					}
				}
				if !ok {
					run.EngineError("violation %s did not reproduce on replay %d of %s", k, rep, f.k.describe())
				}
			}
			w.Close()
		}
		run.Violation(k, map[string]interface{}{"what": f.msg, "case": f.k.describe(), "transcript": f.trans, "kase": f.k, "hits": hits[k]})
		fmt.Printf("violation key=%s hits=%d shortest: %s\n    %s\n", k, hits[k], clip(f.k.describe(), 700), clip(f.msg, 500))
	}
	var no int64
	outcomes.Range(func(k, v interface{}) bool { no++; return true })
	run.Set("distinct_outcome_signatures", no)
	run.Set("streams_closed_by_server_first", stats.closedByServer)
	run.Set("cases_with_idle_goroutine", stats.idleRuns)
	run.Set("cases_session_creation_failed", stats.noSession)
	run.Set("nesting_outcomes", nestOutcome)
	run.Exhaustive = exhaustive
	if note != "" {
		run.Assume(note)
	}
	run.Rule = "inputs: (i) C04 stream family (quick: single commands and pairs with the small follow-up set; thorough: C04's quick family) x 3 capability sets x 3 starting states x client behaviours; (ii) ~60 valid command lines (one per production of the SEARCH, FETCH, LIST, STATUS, CREATE, APPEND, STORE, ENABLE, COPY/MOVE, UID, LOGIN, AUTHENTICATE, IDLE parsers): every position x {delete, duplicate, replace by one of ( ) { } [ ] < > \" \\ SP CR LF NUL * % 0 9 ~ + -}, every truncation followed by EOF and by CRLF, under 2 capability sets, backend answering with real data through the writer API; (iii) every string of length <= 3 (quick) / <= 4 (thorough) over {A SP ( ) { 1 + } \" \\ CR LF * [} as a whole first line, as a line after LOGIN, and as the argument text of LOGIN / SEARCH / FETCH 1 / LIST / APPEND m / STORE 1; (iv) '(' x n, n in {999,1000,1001,5000,10^6} in SEARCH (open, closed, 1001 siblings), LIST select options, LIST pattern list, FETCH items, STATUS items, and NOT/OR chains of the same lengths, in a subprocess with an address-space limit. Crash points: 27 transcripts x every byte offset x {clean EOF, read error}; every server write call index from which all writes fail; session creation failing with BYE / plain error. Alphabet derivation: one replacement symbol per special byte tested by the decoder (IsAtomChar, Special(), Quoted escapes, literal header, partial <>, section [], list wildcards, number digits incl. overflow by duplication, '~' literal8, '+' non-sync marker, '-' STORE op / body-fld-octets); raw alphabet = the bytes that start a different branch in readCommand / ExpectAString / List / LiteralReader"
	run.Assume("free-running, not under the vsched controlled scheduler: the stub's Idle writes its scripted updates and then signals the driver (Pipe.Notify), which waits for that in addition to 'server goroutine parked in Read', so every delivery point is an exact quiescent state; interleavings inside one delivery are whatever the Go scheduler does (updates written after stop are not synchronised with the closing connection on purpose)")
	run.Assume("goroutine termination is decided by events (server closed its side, the connection left Server.conns — deleted after Session.Close in serve's deferred calls —, every Session.Idle call returned); the 30 s watchdog only exists so that a genuine hang becomes reportable: it is re-run 3x on fresh servers and reported as *-does-not-finish, after which the run stops (exhaustive=false)")
	run.Assume("list nesting: the statement only says the nesting is bounded; the check requires refusal (BAD or NO) and no backend call for closed nesting >= 1000 and acceptance of 1001 lists side by side (depth 1), it does not require a particular refusal code (the server answers NO [SERVERBUG] and logs 'exceeded max depth')")
	run.Assume("the backend is the well-behaved stub (scope note of DESIGN C06); Server.conns is read through reflection under Server.mutex")
	run.Finish()
}

func main() {
	if os.Getenv("C06_NEST_WORKER") == "1" {
		nestWorkerMain()
		return
	}
	run = vk.Start("C06", "fault_enumeration")
	if run.Replay != "" {
		replay()
		return
	}
	// ---- (iv) nesting: three worker subprocesses, running while the other families are explored ----
	var nestGroups [][]nestJob
	{
		var parens []nestJob
		for _, fam := range []string{"search-open-parens", "search-closed-parens", "list-pattern-parens", "list-select-parens", "fetch-att-parens", "status-item-parens"} {
			for _, n := range []int{999, 1000, 1001, 5000, 1000000} {
				parens = append(parens, nestJob{fam, n})
			}
		}
		parens = append(parens, nestJob{"search-sibling-lists", 1001}, nestJob{"search-sibling-lists", 5000})
		nestGroups = append(nestGroups, parens)
		for _, fam := range []string{"search-not-chain", "search-or-chain"} {
			var g []nestJob
			for _, n := range []int{999, 1000, 1001, 5000, 300000, 1000000} {
				g = append(g, nestJob{fam, n})
			}
			nestGroups = append(nestGroups, g)
		}
	}
	var nestWG sync.WaitGroup
	var nestCases int64
	for _, g := range nestGroups {
		g := g
		nestCases += int64(len(g))
		nestWG.Add(1)
		go func() {
			defer nestWG.Done()
			runNesting(g)
		}()
	}

	// ---- crash points ----
	trs := transcripts()
	type cp struct {
		t     int
		k     int
		fault string
		caps  int
	}
	var cps []cp
	capsList := []int{srvframe.CapsLiteralPlus}
	if run.Thorough() {
		capsList = []int{srvframe.CapsRev1, srvframe.CapsLiteralPlus, srvframe.CapsRev2}
	}
	var offsets int64
	for ti, t := range trs {
		n := total(t.segs)
		offsets += int64(n + 1)
		for _, caps := range capsList {
			for k := 0; k <= n; k++ {
				cps = append(cps, cp{ti, k, "eof", caps}, cp{ti, k, "reset", caps})
			}
		}
	}
	mkRaw := func(t transcript, caps int) *srvframe.RawCase {
		return &srvframe.RawCase{Caps: caps, Fault: "eof", FailWriteAt: -1, IdleUpdates: t.idleUpdates, IdleLate: t.idleLate, Responsive: true, LoginFails: t.loginFails, Name: t.name}
	}
	// sanity: every transcript runs clean to the end and every command in it is answered
	{
		w := srvframe.NewWorker(watchdog)
		for _, t := range trs {
			rc := mkRaw(t, srvframe.CapsLiteralPlus)
			rc.Segs = t.segs
			obs := w.RunRaw(rc)
			resps, rest, err := srvkit.ParseResponses(obs.Out)
			tagged := 0
			for _, r := range resps {
				if r.Tag != "*" && r.Tag != "+" {
					tagged++
				}
			}
			want := strings.Count(strings.Join(t.segs, ""), "\r\n")
			_ = want
			if fs := srvframe.Survival(obs.End, obs.NoSession); len(fs) > 0 {
				break // the exploration below reports it with the shortest input
			}
			if err != nil || len(rest) > 0 || tagged == 0 {
				run.EngineError("transcript %s does not run clean: %q err=%v", t.name, obs.Out, err)
			}
		}
		w.Close()
	}
	run.Set("transcripts", int64(len(trs)))
	run.Set("transcript_byte_offsets", offsets)
	runCases("crash-points", len(cps), func(i int) *kase {
		c := cps[i]
		t := trs[c.t]
		rc := mkRaw(t, c.caps)
		rc.Segs = truncate(t.segs, c.k)
		rc.Fault = c.fault
		rc.Name = fmt.Sprintf("%s cut at byte %d/%d", t.name, c.k, total(t.segs))
		return &kase{Family: "crash-point", Raw: rc}
	})
	// write faults: count the write calls of the clean run, then fail from each index on
	type wf struct{ t, j, caps int }
	var wfs []wf
	{
		w := srvframe.NewWorker(watchdog)
		for ti, t := range trs {
			for _, caps := range capsList {
				rc := mkRaw(t, caps)
				rc.Segs = t.segs
				obs := w.RunRaw(rc)
				if obs.End.Hang != "" {
					w = srvframe.NewWorker(watchdog)
				}
				// one more than the write calls of the clean run (an index past the end never fails)
				nw := obs.Writes + 1
				for j := 0; j < nw; j++ {
					wfs = append(wfs, wf{ti, j, caps})
				}
			}
		}
		w.Close()
	}
	runCases("write-faults", len(wfs), func(i int) *kase {
		f := wfs[i]
		t := trs[f.t]
		rc := mkRaw(t, f.caps)
		rc.Segs = t.segs
		rc.FailWriteAt = f.j
		rc.Name = t.name
		atomic.AddInt64(&stats.writeFaults, 1)
		return &kase{Family: "write-fault", Raw: rc}
	})
	// session creation fails
	runCases("session-creation-fails", 8, func(i int) *kase {
		rc := &srvframe.RawCase{Caps: i % 2, Fault: []string{"eof", "reset"}[(i/2)%2], FailWriteAt: -1, SessionErr: []string{"bye", "error"}[(i/4)%2], Segs: []string{"a NOOP\r\n"}, Name: "NewSession returns an error"}
		return &kase{Family: "session-creation-fails", Raw: rc}
	})

	// ---- (ii) mutations and truncations ----
	lines := validLines()
	{
		w := srvframe.NewWorker(watchdog)
		for _, l := range lines {
			for _, caps := range []int{srvframe.CapsLiteralPlus, srvframe.CapsRev2} {
				rc := &srvframe.RawCase{Caps: caps, Setup: setupFor(l.state), Segs: l.segs, Fault: "eof", FailWriteAt: -1, Responsive: true, Name: l.name}
				obs := w.RunRaw(rc)
				resps, _, _ := srvkit.ParseResponses(obs.Out)
				ok := false
				for _, r := range resps {
					if r.Tag == "a" && strings.HasPrefix(r.Text, "OK") {
						ok = true
					}
				}
				if fs := srvframe.Survival(obs.End, obs.NoSession); len(fs) > 0 && obs.EngineErr == "" {
					if obs.End.Hang != "" {
						w = srvframe.NewWorker(watchdog)
					}
					continue // reported by the exploration below
				}
				if !ok || obs.EngineErr != "" {
					run.EngineError("line %s is not a valid command on this server (caps %s): %q %s", l.name, srvframe.CapsName[caps], obs.Out, obs.EngineErr)
				}
			}
		}
		w.Close()
	}
	type mc struct {
		l, op, pos, caps int
	}
	var mcs []mc
	nops := 2 + len(replacements)
	for li, l := range lines {
		n := total(l.segs)
		for _, caps := range []int{srvframe.CapsLiteralPlus, srvframe.CapsRev2} {
			for pos := 0; pos < n; pos++ {
				for op := 0; op < nops; op++ {
					mcs = append(mcs, mc{li, op, pos, caps})
				}
			}
			for k := 0; k < n; k++ {
				mcs = append(mcs, mc{li, -1, k, caps}, mc{li, -2, k, caps})
			}
		}
	}
	run.Set("valid_lines", int64(len(lines)))
	run.Set("mutation_operators", int64(nops))
	runCases("mutations+truncations", len(mcs), func(i int) *kase {
		m := mcs[i]
		l := lines[m.l]
		rc := &srvframe.RawCase{Caps: m.caps, Setup: setupFor(l.state), Fault: "eof", FailWriteAt: -1, Responsive: true}
		switch m.op {
		case -1:
			rc.Segs = truncate(l.segs, m.pos)
			rc.Name = fmt.Sprintf("%s truncated to %d bytes then EOF", l.name, m.pos)
		case -2:
			rc.Segs = append(truncate(l.segs, m.pos), "\r\n", "zz NOOP\r\n")
			rc.Name = fmt.Sprintf("%s truncated to %d bytes then CRLF", l.name, m.pos)
		default:
			segs := mutate(l.segs, m.op, m.pos)
			orig := strings.Join(l.segs, "")
			if strings.Join(segs, "") == orig {
				return nil // replacement by the same byte
			}
			rc.Segs = append(segs, "zz NOOP\r\n")
			opn := "delete"
			if m.op == 1 {
				opn = "duplicate"
			} else if m.op >= 2 {
				opn = fmt.Sprintf("replace by %q", string(replacements[m.op-2]))
			}
			rc.Name = fmt.Sprintf("%s: %s byte %d (%q)", l.name, opn, m.pos, string(orig[m.pos]))
		}
		return &kase{Family: "mutation", Raw: rc}
	})

	// ---- (iii) raw strings ----
	alphabet := []string{"A", " ", "(", ")", "{", "1", "+", "}", "\"", "\\", "\r", "\n", "*", "["}
	maxLen := 3
	if run.Thorough() {
		maxLen = 4
	}
	var raws []string
	vk.Strings(alphabet, maxLen, func(s string) { raws = append(raws, s) })
	type ctx struct {
		name   string
		state  int
		prefix string
	}
	ctxs := []ctx{
		{"first line", srvframe.StFresh, ""},
		{"line after LOGIN", srvframe.StAuth, ""},
		{"LOGIN arguments", srvframe.StFresh, "t LOGIN "},
		{"SEARCH arguments", srvframe.StSelected, "t SEARCH "},
		{"FETCH arguments", srvframe.StSelected, "t FETCH 1 "},
		{"LIST arguments", srvframe.StSelected, "t LIST "},
		{"APPEND arguments", srvframe.StSelected, "t APPEND m "},
		{"STORE arguments", srvframe.StSelected, "t STORE 1 "},
	}
	run.Set("raw_strings", int64(len(raws)))
	run.Set("raw_contexts", int64(len(ctxs)))
	runCases("raw-strings", len(raws)*len(ctxs), func(i int) *kase {
		s, c := raws[i/len(ctxs)], ctxs[i%len(ctxs)]
		rc := &srvframe.RawCase{Caps: srvframe.CapsLiteralPlus, Setup: setupFor(c.state), Segs: []string{c.prefix + s + "\r\n", "zz NOOP\r\n"}, Fault: "eof", FailWriteAt: -1, Responsive: true, Name: "raw string as " + c.name}
		return &kase{Family: "raw", Raw: rc}
	})

	// ---- (i) the C04 stream family ----
	var vars [3][]srvframe.Variant
	for i := range vars {
		vars[i] = srvframe.Variants(i)
	}
	full := len(vars[0])
	var small []int
	for i, v := range vars[0] {
		if (run.Thorough() && v.Core) || (!run.Thorough() && v.Core2) {
			small = append(small, i)
		}
	}
	type sq struct{ a, b int }
	var sqs []sq
	for i := 0; i < full; i++ {
		sqs = append(sqs, sq{i, -1})
	}
	for i := 0; i < full; i++ {
		if vars[0][i].Stops {
			continue
		}
		for _, j := range small {
			sqs = append(sqs, sq{i, j})
		}
	}
	for _, i := range small {
		for j := 0; j < full; j++ {
			sqs = append(sqs, sq{i, j})
		}
	}
	const perSeq = 3 * 3 * 4
	runCases("c04-stream-family", len(sqs)*perSeq, func(i int) *kase {
		s := sqs[i/perSeq]
		r := i % perSeq
		caps, start, mode := r/12, (r/4)%3, r%4
		cmds := []srvframe.Cmd{vars[0][s.a].Cmd}
		stops := vars[0][s.a].Stops
		if s.b >= 0 {
			cmds = append(cmds, vars[1][s.b].Cmd)
			stops = vars[1][s.b].Stops
		}
		if !stops {
			cmds = append(cmds, srvframe.Sentinel())
		}
		pipelined, anyway := mode&1 != 0, mode&2 != 0
		if anyway && !srvframe.HasWaitPoint(cmds) {
			return nil
		}
		return &kase{Family: "c04-stream", Stream: &srvframe.Stream{Caps: caps, Start: start, Cmds: cmds, Pipelined: pipelined, Anyway: anyway}}
	})
	// the two really over-limit payloads
	{
		big := srvframe.BigStreams()
		w := srvframe.NewWorker(120 * time.Second)
		for i := range big {
			k := &kase{Family: "c04-stream", Stream: &big[i]}
			fs, trans, eerr := execCase(w, k)
			if eerr != "" {
				run.EngineError("%s", eerr)
			}
			run.AddEvals(1)
			for _, f := range fs {
				record(f.Key, f.Msg, k, int64(i), trans)
			}
			runtime.GC()
		}
		w.Close()
	}

	nestWG.Wait()
	run.Set("cases_nesting", nestCases)

	// non-vacuity
	ev := run.Evals
	run.NontrivialN(ev - int64(len(raws))) // every case but the trivially short raw strings exercises a parser beyond the tag
	if stats.idleRuns == 0 || stats.noSession == 0 || stats.writeFaults == 0 {
		run.EngineError("vacuous run: idle=%d nosession=%d writefaults=%d", stats.idleRuns, stats.noSession, stats.writeFaults)
	}
	// global leak check: no goroutine of the server may be left anywhere in this process. Decided
	// by state, not by a short wait: a goroutine that is on its way out disappears, one that is
	// blocked for good (a send nobody receives) is still there after any wait; the wait is long
	// only so that a loaded machine cannot turn "still exiting" into a report
	var left map[string]int
	var dump string
	for deadline := time.Now().Add(20 * time.Second); ; {
		left, dump = serverGoroutines()
		if len(left) == 0 || time.Now().After(deadline) {
			break
		}
		time.Sleep(20 * time.Millisecond)
	}
	var fns []string
	for fn := range left {
		fns = append(fns, fn)
	}
	sort.Strings(fns)
	for _, fn := range fns {
		key := leakKey
		if fn != "(*Conn).serve" {
			key += ":" + fn
		}
		// attribution: the other families are quiet now, so the cases can be re-run one at a time and
		// the first one after which the number of such goroutines stays up is a replayable input
		k, msg := attributeLeak(fn)
		if k == nil {
			k = &kase{Family: "global", Raw: &srvframe.RawCase{FailWriteAt: -1, Name: "end of run"}}
			msg = "no single case reproduces it when run alone"
		}
		record(key, fmt.Sprintf("%d goroutines inside imapserver.%s still exist after every connection was closed and every server shut down; %s", left[fn], fn, msg), k, 0, []string{clip(dump, 3000)})
	}
	run.Sample("mutation", "search-sizes: duplicate byte 37 -> a SEARCH LARGER 100 SMALLER 42949672966")
	run.Sample("crash-point", "append-sync-literal cut at byte 31/62 then read error")
	run.Sample("raw", "\"t FETCH 1 \" + \"({1\" + CRLF")
	finish(true, "")
}

const leakKey = "server-goroutine-left-at-end-of-run"

// leakAfter runs one case alone and reports whether the number of goroutines whose outermost
// imapserver frame is fn is higher afterwards and stays higher (1 s of polling: only used to name a
// culprit for a leak the end-of-run check has already established, and by --replay).
func leakAfter(k *kase, fn string) bool {
	n0 := runtime.NumGoroutine()
	before, _ := map[string]int(nil), ""
	if fn != "" {
		before, _ = serverGoroutines()
	}
	w := srvframe.NewWorker(watchdog)
	execCase(w, k)
	w.Close()
	for deadline := time.Now().Add(time.Second); ; {
		if runtime.NumGoroutine() <= n0 {
			return false
		}
		if fn != "" {
			if after, _ := serverGoroutines(); after[fn] <= before[fn] {
				return false
			}
		}
		if time.Now().After(deadline) {
			return true
		}
		time.Sleep(2 * time.Millisecond)
	}
}

func attributeLeak(fn string) (*kase, string) {
	budget := time.Now().Add(90 * time.Second)
	for _, f := range families {
		for i := 0; i < f.n && i < 5000; i++ {
			if time.Now().After(budget) {
				return nil, ""
			}
			k := f.gen(i)
			if k == nil || !leakAfter(k, "") { // cheap filter: the goroutine count alone
				continue
			}
			if leakAfter(k, fn) && leakAfter(k, fn) {
				return k, "each run of this case alone leaves one more behind (3 of 3 runs): " + k.describe()
			}
		}
	}
	return nil, ""
}

// serverGoroutines lists the goroutines that have an imapserver frame on their stack, keyed by
// the outermost such function (the goroutine's entry point into the package).
func serverGoroutines() (map[string]int, string) {
	// the aggregated profile (identical stacks are merged, with a count): its size does not grow
	// with the number of leaked goroutines, unlike runtime.Stack
	var prof bytes.Buffer
	pprof.Lookup("goroutine").WriteTo(&prof, 1)
	const pkg = "github.com/emersion/go-imap/v2/imapserver."
	out := map[string]int{}
	var dump strings.Builder
	for _, g := range strings.Split(prof.String(), "\n\n") {
		outer, n := "", 0
		for li, line := range strings.Split(g, "\n") {
			if li == 0 || !strings.HasPrefix(line, "#") {
				if strings.Contains(line, " @ ") {
					fmt.Sscan(line, &n)
				}
				continue
			}
			f := strings.Split(line, "\t")
			if len(f) < 3 || !strings.HasPrefix(f[2], pkg) {
				continue
			}
			fn := f[2][len(pkg):]
			if k := strings.LastIndex(fn, "+0x"); k > 0 {
				fn = fn[:k]
			}
			outer = fn
		}
		if outer != "" && n > 0 {
			out[outer] += n
			dump.WriteString(g + "\n\n")
		}
	}
	return out, dump.String()
}

func replay() {
	b, err := os.ReadFile(run.Replay)
	if err != nil {
		run.EngineError("cannot read %s: %v", run.Replay, err)
	}
	var f struct {
		Key    string
		Detail struct {
			Kase kase
		}
	}
	if err := json.Unmarshal(b, &f); err != nil {
		run.EngineError("bad replay file: %v", err)
	}
	k := &f.Detail.Kase
	fmt.Printf("replaying key=%s\n", f.Key)
	if k.Family == "nesting" {
		var fam string
		var n int
		if i := strings.LastIndexByte(k.Note, ':'); i > 0 {
			fam = k.Note[:i]
			fmt.Sscan(k.Note[i+1:], &n)
		}
		fmt.Printf("nesting family %s n=%d in a worker subprocess\n", fam, n)
		runNesting([]nestJob{{fam, n}})
		fmt.Printf("outcome: %v\n", nestOutcome)
	} else if k.Family == "global" {
		fmt.Println("the end-of-run goroutine leak check has no single input; run the check again")
	} else {
		fmt.Println(k.describe())
		w := srvframe.NewWorker(watchdog)
		fs, trans, eerr := execCase(w, k)
		run.AddEvals(1)
		if eerr != "" {
			run.EngineError("%s", eerr)
		}
		for _, l := range trans {
			fmt.Println(vk.Q(l))
		}
		for _, g := range fs {
			record(g.Key, g.Msg, k, 0, trans)
		}
		if strings.HasPrefix(f.Key, leakKey) {
			fn := strings.TrimPrefix(strings.TrimPrefix(f.Key, leakKey), ":")
			if fn == "" {
				fn = "(*Conn).serve"
			}
			if leakAfter(k, fn) {
				_, dump := serverGoroutines()
				fmt.Println(clip(dump, 3000))
				record(f.Key, "a goroutine inside imapserver."+fn+" is still there after the connection ended", k, 0, nil)
			}
		}
	}
	if len(best) == 0 {
		fmt.Println("no violation on this tree")
	}
	for key, g := range best {
		fmt.Printf("VIOLATION key=%s: %s\n", key, clip(g.msg, 600))
		run.Violation(key, map[string]interface{}{"what": g.msg, "kase": g.k})
	}
	run.Finish()
}
