package main

// FETCH: case model, execution through the real FetchWriter / FetchCommand, and the flattening of
// both sides.

import (
	"errors"
	"fmt"
	"io"
	"sort"
	"strings"
	"sync/atomic"
	"time"

	imap "github.com/emersion/go-imap/v2"
	"github.com/emersion/go-imap/v2/imapclient"
	"github.com/emersion/go-imap/v2/imapserver"
)

type itemKind int

const (
	kUID itemKind = iota
	kFlags
	kDate
	kSize
	kEnv
	kBS
	kSection
	kBinary
	kBinSize
)

var kindNames = []string{"uid", "flags", "internaldate", "rfc822size", "envelope", "bodystructure", "bodysection", "binarysection", "binarysize"}

type payloadSpec struct{ n, pat int }

var payloadPats = []string{
	"a",
	")\r\n* 1 FETCH (FLAGS (\\Seen))\r\nT1 OK done\r\n",
	"", // pat 2: computed bytes, all 256 values
	"{5}\r\n\xff\"\\ (NIL ",
}

func (p payloadSpec) bytes() []byte {
	b := make([]byte, p.n)
	if p.pat == 2 {
		for i := range b {
			b[i] = byte((i*7 + 3) % 256)
		}
		return b
	}
	pat := payloadPats[p.pat]
	for i := range b {
		b[i] = pat[i%len(pat)]
	}
	return b
}

type fitem struct {
	kind  itemKind
	uid   imap.UID // 0: assigned from the position in the batch
	flags []imap.Flag
	t     time.Time
	size  int64
	env   *imap.Envelope
	bs    imap.BodyStructure
	sec   *imap.FetchItemBodySection
	bin   *imap.FetchItemBinarySection
	pay   payloadSpec
	bsize uint32
}

type fetchCase struct {
	uidCmd  bool   // UID FETCH
	bsReq   int    // 0: none, 1: BODY, 2: BODYSTRUCTURE requested
	seq     uint32 // 0: position in the batch + 1
	collect bool   // read through Collect() (FetchMessageBuffer) instead of the streaming Next()
	store   bool   // the FETCH responses answer a STORE command (Session.Store gets the same FetchWriter)
	items   []fitem
	label   string
}

func (cs *fetchCase) groupKey() string {
	return fmt.Sprintf("%v/%d/%v/%v/%v", cs.uidCmd, cs.bsReq, cs.collect, cs.seq != 0, cs.store)
}

func (cs *fetchCase) describe() string {
	var sb strings.Builder
	if cs.uidCmd {
		sb.WriteString("UID ")
	}
	if cs.store {
		sb.WriteString("STORE")
	} else {
		sb.WriteString("FETCH")
	}
	switch cs.bsReq {
	case 1:
		sb.WriteString(" (request BODY)")
	case 2:
		sb.WriteString(" (request BODYSTRUCTURE)")
	}
	if cs.collect {
		sb.WriteString(" via Collect()")
	}
	if cs.label != "" {
		sb.WriteString(" [" + cs.label + "]")
	}
	sb.WriteString(" backend writes:")
	for _, it := range cs.items {
		sb.WriteString(" " + describeItem(it, cs.bsReq))
	}
	return sb.String()
}

func describeItem(it fitem, bsReq int) string {
	var f flat
	printSupplied(&f, "", it, bsReq == 2, true)
	s := kvString(f.l)
	if len(s) > 1500 {
		s = s[:1500] + "..."
	}
	return "{" + s + "}"
}

// printSupplied flattens what the wire can carry of a supplied item (raw=true: the supplied value
// itself, for descriptions).
func printSupplied(f *flat, p string, it fitem, extended bool, raw bool) {
	f.s(p+".kind", kindNames[it.kind])
	switch it.kind {
	case kUID:
		if raw && it.uid == 0 {
			f.s(p+".uid", "1000+position")
		} else {
			f.n(p+".uid", it.uid)
		}
	case kFlags:
		printFlags(f, p+".flags", it.flags)
	case kDate:
		printTime(f, p+".time", it.t)
	case kSize:
		f.n(p+".size", it.size)
	case kEnv:
		if raw {
			printEnvelope(f, p+".envelope", it.env)
		} else {
			printEnvelope(f, p+".envelope", wireEnvelope(it.env))
		}
	case kBS:
		f.n(p+".extended", extended)
		if raw {
			printBS(f, p+".bs", it.bs)
		} else {
			printBS(f, p+".bs", wireBS(it.bs, extended))
		}
	case kSection:
		if raw {
			printSection(f, p+".section", it.sec)
		} else {
			printSection(f, p+".section", wireSection(it.sec))
		}
		if raw {
			f.s(p+".payload", fmt.Sprintf("size=%d pattern=%d", it.pay.n, it.pay.pat))
		} else {
			printPayload(f, p+".literal", it.pay.bytes())
		}
	case kBinary:
		printBinSection(f, p+".section", it.bin, !raw)
		if raw {
			f.s(p+".payload", fmt.Sprintf("size=%d pattern=%d", it.pay.n, it.pay.pat))
		} else {
			printPayload(f, p+".literal", it.pay.bytes())
		}
	case kBinSize:
		printPart(f, p+".part", it.bin.Part)
		f.n(p+".size", it.bsize)
	}
}

// printDelivered flattens an item the client delivered.
func printDelivered(f *flat, p string, item imapclient.FetchItemData, on *int32) {
	readLit := func(lit imap.LiteralReader) {
		if lit == nil {
			f.s(p+".literal", "nil")
			return
		}
		b, err := io.ReadAll(lit)
		if err != nil {
			f.s(p+".literal.error", err.Error())
		}
		if atomic.LoadInt32(on) != 0 {
			atomic.AddInt64(&litCount, 1)
			atomic.AddInt64(&litBytes, int64(len(b)))
		}
		if int64(len(b)) != lit.Size() {
			f.s(p+".literal.size-mismatch", fmt.Sprintf("Size()=%d read=%d", lit.Size(), len(b)))
		}
		printPayload(f, p+".literal", b)
	}
	switch it := item.(type) {
	case imapclient.FetchItemDataUID:
		f.s(p+".kind", "uid")
		f.n(p+".uid", it.UID)
	case imapclient.FetchItemDataFlags:
		f.s(p+".kind", "flags")
		printFlags(f, p+".flags", it.Flags)
	case imapclient.FetchItemDataInternalDate:
		f.s(p+".kind", "internaldate")
		printTime(f, p+".time", it.Time)
	case imapclient.FetchItemDataRFC822Size:
		f.s(p+".kind", "rfc822size")
		f.n(p+".size", it.Size)
	case imapclient.FetchItemDataEnvelope:
		f.s(p+".kind", "envelope")
		printEnvelope(f, p+".envelope", it.Envelope)
	case imapclient.FetchItemDataBodyStructure:
		f.s(p+".kind", "bodystructure")
		f.n(p+".extended", it.IsExtended)
		printBS(f, p+".bs", it.BodyStructure)
	case imapclient.FetchItemDataBodySection:
		f.s(p+".kind", "bodysection")
		printSection(f, p+".section", it.Section)
		readLit(it.Literal)
	case imapclient.FetchItemDataBinarySection:
		f.s(p+".kind", "binarysection")
		printBinSection(f, p+".section", it.Section, false)
		readLit(it.Literal)
	case imapclient.FetchItemDataBinarySectionSize:
		f.s(p+".kind", "binarysize")
		printPart(f, p+".part", it.Part)
		f.n(p+".size", it.Size)
	default:
		f.s(p+".kind", fmt.Sprintf("?%T", item))
	}
}

// non-vacuity counters; they count first executions only (conn.counting), because which cases are
// re-run for pinpointing depends on scheduling and the evidence must not
var litCount, litBytes, msgCount, uniCount int64

type gotMsg struct {
	seq uint32
	f   []kv
}

func drainMessage(msg *imapclient.FetchMessageData, on *int32) gotMsg {
	var f flat
	f.n("seq", msg.SeqNum)
	k := 0
	for {
		item := msg.Next()
		if item == nil {
			break
		}
		printDelivered(&f, fmt.Sprintf("item[%d]", k), item, on)
		k++
	}
	f.n("items", k)
	if atomic.LoadInt32(on) != 0 {
		atomic.AddInt64(&msgCount, 1)
	}
	return gotMsg{msg.SeqNum, f.l}
}

func expectStream(items []fitem, seq uint32, extended bool) []kv {
	var f flat
	f.n("seq", seq)
	for k, it := range items {
		printSupplied(&f, fmt.Sprintf("item[%d]", k), it, extended, false)
	}
	f.n("items", len(items))
	return f.l
}

// ----- Collect() view: a FetchMessageBuffer has one slot per kind and maps for sections -----

type bufView struct {
	seq      uint32
	uid      imap.UID
	flags    []imap.Flag
	t        time.Time
	size     int64
	env      *imap.Envelope
	bs       imap.BodyStructure
	sections []string // printed section + payload, sorted
	binaries []string
	binsizes []string // in order
}

func (v *bufView) print() []kv {
	var f flat
	f.n("seq", v.seq)
	f.n("buffer.uid", v.uid)
	printFlags(&f, "buffer.flags", v.flags)
	printTime(&f, "buffer.internaldate", v.t)
	f.n("buffer.rfc822size", v.size)
	printEnvelope(&f, "buffer.envelope", v.env)
	printBS(&f, "buffer.bodystructure", v.bs)
	sort.Strings(v.sections)
	sort.Strings(v.binaries)
	printStrings(&f, "buffer.bodysection", v.sections)
	printStrings(&f, "buffer.binarysection", v.binaries)
	printStrings(&f, "buffer.binarysize", v.binsizes)
	return f.l
}

func expectBuffer(items []fitem, seq uint32, extended bool) []kv {
	v := bufView{seq: seq}
	for _, it := range items {
		switch it.kind {
		case kUID:
			v.uid = it.uid
		case kFlags:
			v.flags = it.flags
		case kDate:
			v.t = it.t
		case kSize:
			v.size = it.size
		case kEnv:
			v.env = wireEnvelope(it.env)
		case kBS:
			v.bs = wireBS(it.bs, extended)
		case kSection:
			var f flat
			printSection(&f, "s", wireSection(it.sec))
			printPayload(&f, "l", it.pay.bytes())
			v.sections = append(v.sections, kvString(f.l))
		case kBinary:
			var f flat
			printBinSection(&f, "s", it.bin, true)
			printPayload(&f, "l", it.pay.bytes())
			v.binaries = append(v.binaries, kvString(f.l))
		case kBinSize:
			var f flat
			printPart(&f, "part", it.bin.Part)
			f.n("size", it.bsize)
			v.binsizes = append(v.binsizes, kvString(f.l))
		}
	}
	return v.print()
}

func deliveredBuffer(b *imapclient.FetchMessageBuffer) []kv {
	v := bufView{seq: b.SeqNum, uid: b.UID, flags: b.Flags, t: b.InternalDate, size: b.RFC822Size, env: b.Envelope, bs: b.BodyStructure}
	for s, lit := range b.BodySection {
		var f flat
		printSection(&f, "s", s)
		printPayload(&f, "l", lit)
		v.sections = append(v.sections, kvString(f.l))
	}
	for s, lit := range b.BinarySection {
		var f flat
		printBinSection(&f, "s", s, false)
		printPayload(&f, "l", lit)
		v.binaries = append(v.binaries, kvString(f.l))
	}
	for _, bs := range b.BinarySectionSize {
		var f flat
		printPart(&f, "part", bs.Part)
		f.n("size", bs.Size)
		v.binsizes = append(v.binsizes, kvString(f.l))
	}
	return v.print()
}

// ----- writing through the real writer API -----

func writeItem(rw *imapserver.FetchResponseWriter, it fitem) {
	switch it.kind {
	case kUID:
		rw.WriteUID(it.uid)
	case kFlags:
		rw.WriteFlags(it.flags)
	case kDate:
		rw.WriteInternalDate(it.t)
	case kSize:
		rw.WriteRFC822Size(it.size)
	case kEnv:
		rw.WriteEnvelope(it.env)
	case kBS:
		rw.WriteBodyStructure(it.bs)
	case kSection:
		b := it.pay.bytes()
		wc := rw.WriteBodySection(it.sec, int64(len(b)))
		wc.Write(b)
		wc.Close()
	case kBinary:
		b := it.pay.bytes()
		wc := rw.WriteBinarySection(it.bin, int64(len(b)))
		wc.Write(b)
		wc.Close()
	case kBinSize:
		rw.WriteBinarySectionSize(it.bin, it.bsize)
	}
}

// resolve assigns batch-position UIDs / sequence numbers.
func resolve(cs *fetchCase, pos int) (items []fitem, seq uint32, uid imap.UID) {
	seq = cs.seq
	if seq == 0 {
		seq = uint32(pos + 1)
	}
	items = make([]fitem, len(cs.items))
	copy(items, cs.items)
	for k := range items {
		if items[k].kind == kUID {
			if items[k].uid == 0 {
				items[k].uid = imap.UID(1000 + pos)
			}
			if uid == 0 {
				uid = items[k].uid
			}
		}
	}
	return
}

// isConnDead: after a decoding failure the client has shut the connection down.
func isConnDead(c *imapclient.Client) bool {
	return c.State() == imap.ConnStateLogout
}

func execFetch(cn *conn, cases []*fetchCase) []outcome {
	outs := make([]outcome, len(cases))
	if err := cn.ensureSelected(); err != nil {
		return setupFailed(len(cases), err)
	}
	first := cases[0]
	extended := first.bsReq == 2
	opts := &imap.FetchOptions{Flags: true}
	switch first.bsReq {
	case 1:
		opts.BodyStructure = &imap.FetchItemBodyStructure{Extended: false}
	case 2:
		opts.BodyStructure = &imap.FetchItemBodyStructure{Extended: true}
	}
	items := make([][]fitem, len(cases))
	seqs := make([]uint32, len(cases))
	var seqSet imap.SeqSet
	var uidSet imap.UIDSet
	for i, cs := range cases {
		var uid imap.UID
		items[i], seqs[i], uid = resolve(cs, i)
		seqSet.AddNum(seqs[i])
		if first.uidCmd {
			if uid == 0 {
				run.EngineError("UID FETCH case without UID item: %s", cs.describe())
			}
			uidSet.AddNum(uid)
		}
	}
	var writeErr error
	writeAll := func(w *imapserver.FetchWriter) error {
		for i := range cases {
			rw := w.CreateMessage(seqs[i])
			for _, it := range items[i] {
				writeItem(rw, it)
			}
			if err := rw.Close(); err != nil {
				writeErr = fmt.Errorf("message %d: FetchResponseWriter.Close: %v", i, err)
				return writeErr
			}
		}
		return nil
	}
	cn.stub.OnFetch = func(w *imapserver.FetchWriter, numSet imap.NumSet, o *imap.FetchOptions) error { return writeAll(w) }
	cn.stub.OnStore = func(w *imapserver.FetchWriter, numSet imap.NumSet, f *imap.StoreFlags, o *imap.StoreOptions) error {
		return writeAll(w)
	}
	var set imap.NumSet = seqSet
	if first.uidCmd {
		set = uidSet
	}
	var cmd *imapclient.FetchCommand
	if first.store {
		cmd = cn.c.Store(set, &imap.StoreFlags{Op: imap.StoreFlagsAdd, Flags: []imap.Flag{imap.FlagSeen}}, nil)
	} else {
		cmd = cn.c.Fetch(set, opts)
	}
	var got [][]kv
	var cmdErr error
	if first.collect {
		bufs, err := cmd.Collect()
		cmdErr = err
		for _, b := range bufs {
			got = append(got, deliveredBuffer(b))
		}
	} else {
		for {
			msg := cmd.Next()
			if msg == nil {
				break
			}
			got = append(got, drainMessage(msg, &cn.counting).f)
		}
		cmdErr = cmd.Close()
	}
	cn.stub.OnFetch = nil
	cn.stub.OnStore = nil
	dead := false
	if cmdErr != nil {
		var ie *imap.Error
		if !errors.As(cmdErr, &ie) || isConnDead(cn.c) {
			dead = true
		}
	}
	for i := range cases {
		var exp []kv
		if first.collect {
			exp = expectBuffer(items[i], seqs[i], extended)
		} else {
			exp = expectStream(items[i], seqs[i], extended)
		}
		extra := map[string]interface{}{}
		if writeErr != nil {
			extra["writer_error"] = writeErr.Error()
		}
		if canonChanges(items[i], extended) {
			cn.markNontrivial(exp)
		}
		switch {
		case cmdErr != nil && i == len(got)-1:
			// the last message that was handed over before the command failed: either it is
			// complete (the failure belongs to the next one) or it is the victim
			outs[i] = cn.compare("fetch", exp, got[i], nil, extra)
			if !outs[i].OK || i == len(cases)-1 {
				extra["delivered_before_failure"] = kvString(got[i])
				outs[i] = cn.compare("fetch", exp, nil, cmdErr, extra)
			}
		case i < len(got):
			outs[i] = cn.compare("fetch", exp, got[i], nil, extra)
		case cmdErr != nil && i == len(got) && (i == 0 || outs[i-1].OK):
			outs[i] = cn.compare("fetch", exp, nil, cmdErr, extra)
		case cmdErr != nil:
			cn.account(exp, false)
			outs[i] = outcome{NotRun: true, Key: "fetch:not-run"}
		default:
			outs[i] = outcome{Key: "fetch:message-not-delivered", Detail: map[string]interface{}{"expected": kvString(exp), "delivered_messages": len(got)}}
		}
	}
	if len(got) > len(cases) {
		o := &outs[len(outs)-1]
		if o.OK {
			*o = outcome{Key: "fetch:extra-message", Detail: map[string]interface{}{"extra": kvString(got[len(cases)])}}
		}
	}
	if ev := cn.uni.take(); len(ev) > 0 {
		// a reply to our own command must never be treated as unilateral data
		for i := range outs {
			if !outs[i].OK && outs[i].Detail != nil {
				outs[i].Detail["unilateral_events"] = ev
			}
		}
	}
	if dead {
		cn.kill()
	}
	return outs
}

// canonChanges: does a protocol canonicalisation change what the backend supplied?
func canonChanges(items []fitem, extended bool) bool {
	for _, it := range items {
		var a, b flat
		switch it.kind {
		case kEnv:
			printEnvelope(&a, "", it.env)
			printEnvelope(&b, "", wireEnvelope(it.env))
		case kBS:
			printBS(&a, "", it.bs)
			printBS(&b, "", wireBS(it.bs, extended))
		default:
			continue
		}
		if _, _, _, same := firstDiff(a.l, b.l); !same {
			return true
		}
	}
	return false
}

// setupFailed: the benign SELECT that precedes a selected-state command did not come through.
func setupFailed(n int, err error) []outcome {
	outs := make([]outcome, n)
	for k := range outs {
		outs[k] = outcome{Key: "setup:" + errClass(err), Detail: map[string]interface{}{"error": err.Error(), "note": "benign SELECT INBOX failed"}}
	}
	return outs
}

// regFetch registers a FETCH family whose cases are built on demand.
func regFetch(name string, n int, batch int, get func(i int) *fetchCase, nontrivial func(i int) bool) {
	register(&family{
		name:  name,
		n:     n,
		batch: batch,
		group: func(i int) string { return get(i).groupKey() },
		exec: func(cn *conn, idxs []int) []outcome {
			cases := make([]*fetchCase, len(idxs))
			for k, i := range idxs {
				cases[k] = get(i)
			}
			return execFetch(cn, cases)
		},
		desc:       func(i int) string { return get(i).describe() },
		nontrivial: nontrivial,
		renameKey: func(i int, key string, o *outcome) string {
			cs := get(i)
			return renameFetchKey(cs, key, o)
		},
	})
}

// renameFetchKey gives the findings confirmed on the real code their specific stable names. A
// rename applies only when the case contains the trigger AND the automatic key is the symptom
// that trigger produces.
func renameFetchKey(cs *fetchCase, key string, o *outcome) string {
	hasKind := func(k itemKind) bool {
		for _, it := range cs.items {
			if it.kind == k {
				return true
			}
		}
		return false
	}
	errText := ""
	if o != nil && o.Detail != nil {
		errText, _ = o.Detail["error"].(string)
	}
	if strings.HasPrefix(key, "fetch:error:") && hasKind(kBinSize) && strings.Contains(errText, "expected ']'") {
		return "fetch-binary-size-unparseable"
	}
	if key == "fetch:item.section.partial" {
		for _, it := range cs.items {
			if it.kind == kSection && it.sec.Partial != nil && it.sec.Partial.Offset > 4294967295 {
				return "fetch-partial-origin-above-32bit-truncated"
			}
		}
	}
	if strings.Contains(key, "params") || strings.Contains(errText, "key without value") || strings.Contains(errText, "in body-fld-param") || strings.Contains(errText, "in body-fld-dsp") {
		for _, it := range cs.items {
			if it.kind == kBS && hasEmptyParamName(it.bs) {
				return "fetch-bodyparam-empty-name"
			}
		}
	}
	return key
}

func hasEmptyParamName(bs imap.BodyStructure) bool {
	empty := func(m map[string]string) bool { _, ok := m[""]; return ok }
	dispEmpty := func(d *imap.BodyStructureDisposition) bool { return d != nil && empty(d.Params) }
	switch b := bs.(type) {
	case *imap.BodyStructureSinglePart:
		if empty(b.Params) || (b.Extended != nil && dispEmpty(b.Extended.Disposition)) {
			return true
		}
		if b.MessageRFC822 != nil {
			return hasEmptyParamName(b.MessageRFC822.BodyStructure)
		}
	case *imap.BodyStructureMultiPart:
		if b.Extended != nil && (empty(b.Extended.Params) || dispEmpty(b.Extended.Disposition)) {
			return true
		}
		for _, c := range b.Children {
			if hasEmptyParamName(c) {
				return true
			}
		}
	}
	return false
}
