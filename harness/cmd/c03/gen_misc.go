package main

// Everything that is not FETCH: LIST / LIST-STATUS, STATUS, SELECT, SEARCH / ESEARCH, APPENDUID,
// COPYUID, MOVE, NAMESPACE, CAPABILITY, EXPUNGE, unilateral updates (poll and IDLE), STORE.

import (
	"errors"
	"fmt"
	"sort"
	"strings"
	"time"

	imap "github.com/emersion/go-imap/v2"
	"github.com/emersion/go-imap/v2/imapclient"
	"github.com/emersion/go-imap/v2/imapserver"
	"github.com/emersion/go-imap/v2/verif/srvkit"
)

// regSeq registers a family whose cases are one command each; a job runs up to batch of them one
// after the other on the same connection.
func regSeq(name string, n, batch int, cfgs []int, caps []imap.Cap, one func(cn *conn, i int) outcome, desc func(i int) string, rename func(i int, key string, o *outcome) string) {
	register(&family{
		name: name, n: n, batch: batch, cfgs: cfgs, caps: caps, desc: desc, renameKey: rename,
		exec: func(cn *conn, idxs []int) []outcome {
			outs := make([]outcome, len(idxs))
			for k, i := range idxs {
				if !cn.alive {
					outs[k] = outcome{NotRun: true, Key: name + ":not-run"}
					continue
				}
				cn.w.tick(fmt.Sprintf("%s cfg=%s idx=%d", name, cn.cfg.Name, i))
				outs[k] = one(cn, i)
				if k < len(idxs)-1 {
					cn.after()
				}
			}
			return outs
		},
	})
}

// failed decides, after a command error, whether the connection is still usable.
func (cn *conn) failed(err error) {
	if err == nil {
		return
	}
	var ie *imap.Error
	if !errors.As(err, &ie) || isConnDead(cn.c) {
		cn.kill()
	}
}

func u32p(v uint32) *uint32 { return &v }
func i64p(v int64) *int64   { return &v }

// M: mailbox-name alphabet (valid UTF-8): S plus the names the UTF-7 / INBOX code cares about.
var M = append(append([]string{}, S...), "INBOX", "inbox", "InBoX", "inbox/x", "a&b", "&", "a&-b", "&AOk-", "é", "日本/語", "~peter", "#news.x", "a/b c", "%", "*", "a]b")

func statusOptsFromMask(m int) *imap.StatusOptions {
	return &imap.StatusOptions{
		NumMessages: m&1 != 0, UIDNext: m&2 != 0, UIDValidity: m&4 != 0, NumUnseen: m&8 != 0,
		NumDeleted: m&16 != 0, Size: m&32 != 0, AppendLimit: m&64 != 0, DeletedStorage: m&128 != 0,
	}
}

// statusValues: variant 0 all zero, 1 all one, 2 all maximal, 3 mixed, 4 mixed with nil AppendLimit
func statusValues(v int, mailbox string) *imap.StatusData {
	switch v {
	case 0:
		return &imap.StatusData{Mailbox: mailbox, NumMessages: u32p(0), UIDNext: 0, UIDValidity: 0, NumUnseen: u32p(0), NumDeleted: u32p(0), Size: i64p(0), AppendLimit: u32p(0), DeletedStorage: i64p(0)}
	case 1:
		return &imap.StatusData{Mailbox: mailbox, NumMessages: u32p(1), UIDNext: 1, UIDValidity: 1, NumUnseen: u32p(1), NumDeleted: u32p(1), Size: i64p(1), AppendLimit: u32p(1), DeletedStorage: i64p(1)}
	case 2:
		return &imap.StatusData{Mailbox: mailbox, NumMessages: u32p(4294967295), UIDNext: 4294967295, UIDValidity: 4294967295, NumUnseen: u32p(4294967295), NumDeleted: u32p(4294967295), Size: i64p(9223372036854775807), AppendLimit: u32p(4294967295), DeletedStorage: i64p(9223372036854775807)}
	case 3:
		return &imap.StatusData{Mailbox: mailbox, NumMessages: u32p(10), UIDNext: 11, UIDValidity: 12, NumUnseen: u32p(13), NumDeleted: u32p(14), Size: i64p(4294967296), AppendLimit: u32p(16), DeletedStorage: i64p(17)}
	default:
		return &imap.StatusData{Mailbox: mailbox, NumMessages: u32p(20), UIDNext: 21, UIDValidity: 22, NumUnseen: u32p(23), NumDeleted: u32p(24), Size: i64p(25), AppendLimit: nil, DeletedStorage: i64p(27)}
	}
}

func describeList(d *imap.ListData, so *imap.StatusOptions) string {
	var f flat
	so2 := so
	if d.Status != nil && so2 == nil {
		so2 = statusOptsFromMask(255)
	}
	printList(&f, "", d, so2, false)
	return "{" + kvString(f.l) + "}"
}

var listAttrs = []imap.MailboxAttr{imap.MailboxAttrNoSelect, imap.MailboxAttrHasChildren, imap.MailboxAttrSubscribed, imap.MailboxAttrSent, "\\X-Custom", "\\NONEXISTENT"}

var delims = []rune{'/', '.', '\\', '"', 0, 'é', '日'}

// listCase: the mailboxes one LIST command returns, and the STATUS items it asks for.
type listCase struct {
	items  []*imap.ListData
	status *imap.StatusOptions
	label  string
}

func (lc *listCase) describe() string {
	var sb strings.Builder
	sb.WriteString("LIST")
	if lc.status != nil {
		var f flat
		d := statusValues(2, "")
		printStatus(&f, "", d, lc.status)
		var names []string
		for _, e := range f.l[1:] {
			names = append(names, strings.TrimPrefix(e.P, "."))
		}
		sb.WriteString(" RETURN (STATUS (" + strings.Join(names, " ") + "))")
	}
	if lc.label != "" {
		sb.WriteString(" [" + lc.label + "]")
	}
	sb.WriteString(" backend writes:")
	for _, d := range lc.items {
		sb.WriteString(" " + describeList(d, lc.status))
	}
	return sb.String()
}

func execList(cn *conn, cases []*listCase) []outcome {
	outs := make([]outcome, len(cases))
	var all []*imap.ListData
	for _, lc := range cases {
		all = append(all, lc.items...)
	}
	so := cases[0].status
	var writeErr error
	cn.stub.OnList = func(w *imapserver.ListWriter, ref string, patterns []string, o *imap.ListOptions) error {
		for k, d := range all {
			if err := w.WriteList(d); err != nil {
				writeErr = fmt.Errorf("item %d: ListWriter.WriteList: %v", k, err)
				return writeErr
			}
		}
		return nil
	}
	var opts *imap.ListOptions
	if so != nil {
		opts = &imap.ListOptions{ReturnStatus: so}
	}
	got, cmdErr := cn.c.List("", "*", opts).Collect()
	cn.stub.OnList = nil
	pos := 0
	for i, lc := range cases {
		var exp, dl flat
		for k, d := range lc.items {
			printList(&exp, fmt.Sprintf("mailbox[%d]", k), d, so, true)
			if pos+k < len(got) {
				printList(&dl, fmt.Sprintf("mailbox[%d]", k), got[pos+k], so, false)
			}
		}
		pos += len(lc.items)
		extra := map[string]interface{}{}
		if writeErr != nil {
			extra["writer_error"] = writeErr.Error()
		}
		var e error
		if cmdErr != nil && pos > len(got) {
			e = cmdErr
		}
		if cmdErr != nil && i == len(cases)-1 {
			e = cmdErr
		}
		outs[i] = cn.compare("list", exp.l, dl.l, e, extra)
	}
	if cmdErr == nil && len(got) > pos {
		var f flat
		printList(&f, "extra", got[pos], so, false)
		outs[len(outs)-1] = outcome{Key: "list:extra-mailbox", Detail: map[string]interface{}{"extra": kvString(f.l)}}
	}
	cn.failed(cmdErr)
	return outs
}

func regList(name string, n, batch int, get func(i int) *listCase) {
	register(&family{
		name: name, n: n, batch: batch,
		group: func(i int) string {
			lc := get(i)
			if lc.status == nil {
				return "plain"
			}
			return fmt.Sprintf("%+v", *lc.status)
		},
		exec: func(cn *conn, idxs []int) []outcome {
			cases := make([]*listCase, len(idxs))
			for k, i := range idxs {
				cases[k] = get(i)
			}
			return execList(cn, cases)
		},
		desc: func(i int) string { return get(i).describe() },
	})
}

func buildMiscFamilies(thorough bool) {
	// ---------------- LIST ----------------
	{
		type spec struct{ attrs, delim, child, old int }
		var specs []spec
		for a := 0; a < 64; a++ {
			for d := range delims {
				for c := 0; c < 3; c++ {
					for o := 0; o < 3; o++ {
						specs = append(specs, spec{a, d, c, o})
					}
				}
			}
		}
		get := func(i int) *listCase {
			sp := specs[i]
			d := &imap.ListData{Delim: delims[sp.delim], Mailbox: fmt.Sprintf("box%d", i%7)}
			for b := 0; b < 6; b++ {
				if sp.attrs&(1<<b) != 0 {
					d.Attrs = append(d.Attrs, listAttrs[b])
				}
			}
			if sp.attrs == 0 && i%2 == 1 {
				d.Attrs = []imap.MailboxAttr{}
			}
			switch sp.child {
			case 1:
				d.ChildInfo = &imap.ListDataChildInfo{}
			case 2:
				d.ChildInfo = &imap.ListDataChildInfo{Subscribed: true}
			}
			switch sp.old {
			case 1:
				d.OldName = "old/näme"
			case 2:
				d.OldName = "inbox"
			}
			return &listCase{items: []*imap.ListData{d}, label: "attribute subset x delimiter x CHILDINFO x OLDNAME"}
		}
		regList("list-items", len(specs), 32, get)
		// many mailboxes in one command (the command's channel holds 64)
		regList("list-many", 200, 200, func(i int) *listCase {
			return &listCase{label: "one of 200 mailboxes of one LIST", items: []*imap.ListData{{Delim: '/', Mailbox: fmt.Sprintf("m/%d", i), Attrs: []imap.MailboxAttr{imap.MailboxAttrHasNoChildren}}}}
		})

		// names: Mailbox alone, OldName alone, then every pair
		type nspec struct{ m, o int }
		var ns []nspec
		for m := range M {
			ns = append(ns, nspec{m, -1})
		}
		for o := range M {
			if M[o] != "" {
				ns = append(ns, nspec{-1, o})
			}
		}
		for m := range M {
			for o := range M {
				if M[o] != "" {
					ns = append(ns, nspec{m, o})
				}
			}
		}
		getN := func(i int) *listCase {
			sp := ns[i]
			d := &imap.ListData{Delim: '/', Mailbox: "box", Attrs: []imap.MailboxAttr{imap.MailboxAttrHasNoChildren}}
			if sp.m >= 0 {
				d.Mailbox = M[sp.m]
			}
			if sp.o >= 0 {
				d.OldName = M[sp.o]
			}
			return &listCase{items: []*imap.ListData{d}, label: "mailbox names"}
		}
		regList("list-names", len(ns), 32, getN)

		// LIST-STATUS pairing: 1..3 mailboxes, status for every subset of them
		type sspec struct{ k, mask, opt, val, names int }
		optMasks := []int{0, 1, 1 | 2 | 4 | 8, 255}
		var ss []sspec
		for k := 1; k <= 3; k++ {
			for mask := 0; mask < 1<<k; mask++ {
				for opt := range optMasks {
					for val := 2; val < 5; val++ {
						for names := 0; names < 3; names++ {
							ss = append(ss, sspec{k, mask, opt, val, names})
						}
					}
				}
			}
		}
		nameSets := [][]string{{"a", "b", "c"}, {"inbox", "INBOX/x", "é b"}, {"x", "x", "InBoX"}}
		getS := func(i int) *listCase {
			sp := ss[i]
			lc := &listCase{status: statusOptsFromMask(optMasks[sp.opt]), label: fmt.Sprintf("LIST-STATUS: %d mailboxes, status for subset %03b", sp.k, sp.mask)}
			for m := 0; m < sp.k; m++ {
				d := &imap.ListData{Delim: '/', Mailbox: nameSets[sp.names][m], Attrs: []imap.MailboxAttr{imap.MailboxAttrHasNoChildren}}
				if sp.mask&(1<<m) != 0 {
					d.Status = statusValues((sp.val+m)%5, d.Mailbox)
				}
				lc.items = append(lc.items, d)
			}
			return lc
		}
		regList("list-status", len(ss), 1, getS)
		// status supplied although the client did not ask for it: it must not travel
		regList("list-status-unrequested", 1, 1, func(i int) *listCase {
			return &listCase{label: "status supplied but not requested", items: []*imap.ListData{{Delim: '/', Mailbox: "a", Status: statusValues(3, "a")}}}
		})
	}

	// ---------------- STATUS ----------------
	{
		type spec struct {
			name      string
			mask, val int
			onlyAsked bool
		}
		var specs []spec
		for mask := 0; mask < 256; mask++ {
			for val := 0; val < 5; val++ {
				specs = append(specs, spec{"box", mask, val, (mask+val)%2 == 0})
			}
		}
		for _, nm := range M {
			if nm == "" || len(nm) > 4096 {
				// "" is not a mailbox one can ask about; a name the client has to send as a
				// literal of more than 4096 bytes is refused by the server (C04's business)
				continue
			}
			for _, mask := range []int{1, 255} {
				specs = append(specs, spec{nm, mask, 3, false})
			}
		}
		one := func(cn *conn, i int) outcome {
			sp := specs[i]
			o := statusOptsFromMask(sp.mask)
			var supplied *imap.StatusData
			cn.stub.OnStatus = func(mailbox string, opts *imap.StatusOptions) (*imap.StatusData, error) {
				d := statusValues(sp.val, mailbox)
				if sp.onlyAsked { // a backend that fills in only what was asked for
					if !opts.NumMessages {
						d.NumMessages = nil
					}
					if !opts.NumUnseen {
						d.NumUnseen = nil
					}
					if !opts.NumDeleted {
						d.NumDeleted = nil
					}
					if !opts.Size {
						d.Size = nil
					}
					if !opts.DeletedStorage {
						d.DeletedStorage = nil
					}
				}
				supplied = d
				return d, nil
			}
			got, err := cn.c.Status(sp.name, o).Wait()
			cn.stub.OnStatus = nil
			var exp, dl flat
			if supplied != nil {
				printStatus(&exp, "status", supplied, o)
			} else {
				exp.s("status", "backend was not called")
			}
			// the name the client asked for is the name the data belongs to
			exp.s("asked", q(foldInbox(sp.name)))
			if err == nil {
				printStatus(&dl, "status", got, o)
				dl.s("asked", q(foldInbox(got.Mailbox)))
				printStatusUnrequested(&dl, "status", got, o)
			}
			cn.failed(err)
			return cn.compare("status", exp.l, dl.l, err, nil)
		}
		desc := func(i int) string {
			sp := specs[i]
			var f flat
			printStatus(&f, "", statusValues(sp.val, sp.name), statusOptsFromMask(sp.mask))
			return fmt.Sprintf("STATUS %s items-mask=%08b backend-fills-only-requested=%v backend returns {%s}", q(sp.name), sp.mask, sp.onlyAsked, kvString(f.l))
		}
		regSeq("status", len(specs), 16, nil, nil, one, desc, nil)
	}

	// ---------------- SELECT ----------------
	{
		flagLists := [][]imap.Flag{nil, {}, {imap.FlagSeen}, {imap.FlagSeen, imap.FlagAnswered, imap.FlagFlagged, imap.FlagDeleted, imap.FlagDraft, "$Forwarded", "kw"}, {"\\aNSWERED", "NIL"}}
		permLists := [][]imap.Flag{nil, {imap.FlagWildcard}, {imap.FlagSeen, imap.FlagDeleted, imap.FlagWildcard}, {"kw", imap.FlagSeen}}
		nums := []uint32{0, 1, 4294967295}
		type spec struct {
			name                     string
			fl, pf, nm, un, uv, list int
			ro                       bool
		}
		var specs []spec
		for fl := range flagLists {
			for pf := range permLists {
				for nm := range nums {
					for un := range nums {
						for uv := range nums {
							specs = append(specs, spec{"box", fl, pf, nm, un, uv, 0, (fl+pf+nm)%2 == 0})
						}
					}
				}
			}
		}
		// LIST-in-SELECT (RFC 9051 6.3.2): variants 1..5 x mailbox names
		for _, nm := range []string{"box", "INBOX", "inbox", "é/x", "a b"} {
			for l := 1; l <= 5; l++ {
				for _, ro := range []bool{false, true} {
					specs = append(specs, spec{nm, 3, 2, 1, 1, 1, l, ro})
				}
			}
		}
		mkList := func(variant int, name string) *imap.ListData {
			switch variant {
			case 0:
				return nil
			case 1:
				return &imap.ListData{Delim: '/', Mailbox: name}
			case 2:
				return &imap.ListData{Delim: '.', Mailbox: name, Attrs: []imap.MailboxAttr{imap.MailboxAttrHasChildren, imap.MailboxAttrSubscribed}, ChildInfo: &imap.ListDataChildInfo{Subscribed: true}}
			case 3: // the server knows the mailbox under a canonical name: OLDNAME is what the client sent
				return &imap.ListData{Delim: '/', Mailbox: name + "-canonical", OldName: name}
			case 4:
				return &imap.ListData{Delim: 0, Mailbox: strings.ToUpper(name), OldName: name}
			default:
				return &imap.ListData{Delim: '/', Mailbox: name, OldName: "some/other"}
			}
		}
		one := func(cn *conn, i int) outcome {
			sp := specs[i]
			var supplied *imap.SelectData
			cn.stub.OnSelect = func(mailbox string, o *imap.SelectOptions) (*imap.SelectData, error) {
				supplied = &imap.SelectData{Flags: flagLists[sp.fl], PermanentFlags: permLists[sp.pf], NumMessages: nums[sp.nm], UIDNext: imap.UID(nums[sp.un]), UIDValidity: nums[sp.uv], List: mkList(sp.list, mailbox)}
				return supplied, nil
			}
			got, err := cn.c.Select(sp.name, &imap.SelectOptions{ReadOnly: sp.ro}).Wait()
			cn.stub.OnSelect = nil
			cn.sel = ""
			if err == nil {
				cn.sel = sp.name
			}
			var exp, dl flat
			if supplied != nil {
				printSelect(&exp, "select", supplied, true)
			}
			if err == nil {
				printSelect(&dl, "select", got, false)
			}
			cn.failed(err)
			return cn.compare("select", exp.l, dl.l, err, nil)
		}
		desc := func(i int) string {
			sp := specs[i]
			var f flat
			printSelect(&f, "", &imap.SelectData{Flags: flagLists[sp.fl], PermanentFlags: permLists[sp.pf], NumMessages: nums[sp.nm], UIDNext: imap.UID(nums[sp.un]), UIDValidity: nums[sp.uv], List: mkList(sp.list, sp.name)}, true)
			cmd := "SELECT"
			if sp.ro {
				cmd = "EXAMINE"
			}
			return fmt.Sprintf("%s %s backend returns {%s}", cmd, q(sp.name), kvString(f.l))
		}
		rename := func(i int, key string, o *outcome) string {
			sp := specs[i]
			dropped := false
			if o != nil && o.Detail != nil {
				dropped = o.Detail["delivered"] == "select.list=nil"
			}
			if strings.HasPrefix(key, "select:select.list") && dropped {
				// the LIST response of RFC 9051 6.3.2 was parsed but not attached to the SELECT
				switch {
				case sp.list == 3 || sp.list == 4:
					return "select-list-canonical-name-dropped"
				case strings.EqualFold(sp.name, "INBOX") && sp.name != "INBOX":
					return "select-list-inbox-case-dropped"
				}
			}
			return key
		}
		regSeq("select", len(specs), 16, nil, nil, one, desc, rename)
	}

	// ---------------- SEARCH / ESEARCH ----------------
	{
		type spec struct {
			uid      bool
			ret      int // bit 0 MIN, 1 MAX, 2 ALL, 3 COUNT
			set, mmc int
			nilAll   bool
		}
		sets := [][]rng{nil, {{1, 1}}, {{1, 3}}, {{1, 1}, {3, 3}, {5, 7}}, {{4294967295, 4294967295}}, {{2, 2}, {4294967294, 4294967295}}}
		mmcs := [][3]uint32{{0, 0, 0}, {1, 1, 1}, {1, 4294967295, 4294967295}, {7, 3, 0}}
		var specs []spec
		for _, uid := range []bool{false, true} {
			for ret := 0; ret < 16; ret++ {
				for s := range sets {
					for m := range mmcs {
						specs = append(specs, spec{uid, ret, s, m, false})
					}
				}
				if ret != 0 && ret&4 == 0 { // ALL neither requested nor implied: a backend may leave All nil
					specs = append(specs, spec{uid, ret, 0, 1, true})
				}
			}
		}
		mkData := func(sp spec) *imap.SearchData {
			d := &imap.SearchData{UID: sp.uid, Min: mmcs[sp.mmc][0], Max: mmcs[sp.mmc][1], Count: mmcs[sp.mmc][2]}
			if sp.nilAll {
				return d
			}
			if sp.uid {
				var s imap.UIDSet
				for _, r := range sets[sp.set] {
					s.AddRange(imap.UID(r.a), imap.UID(r.b))
				}
				d.All = s
			} else {
				var s imap.SeqSet
				for _, r := range sets[sp.set] {
					s.AddRange(r.a, r.b)
				}
				d.All = s
			}
			return d
		}
		mkOpts := func(sp spec) *imap.SearchOptions {
			return &imap.SearchOptions{ReturnMin: sp.ret&1 != 0, ReturnMax: sp.ret&2 != 0, ReturnAll: sp.ret&4 != 0, ReturnCount: sp.ret&8 != 0}
		}
		one := func(cn *conn, i int) outcome {
			sp := specs[i]
			if err := cn.ensureSelected(); err != nil {
				return setupFailed(1, err)[0]
			}
			data := mkData(sp)
			var effective imap.SearchOptions
			called := false
			cn.stub.OnSearch = func(kind imapserver.NumKind, c *imap.SearchCriteria, o *imap.SearchOptions) (*imap.SearchData, error) {
				effective = *o // the server adds ALL when nothing was asked for
				called = true
				return data, nil
			}
			crit := &imap.SearchCriteria{Flag: []imap.Flag{imap.FlagSeen}}
			var cmd *imapclient.SearchCommand
			if sp.uid {
				cmd = cn.c.UIDSearch(crit, mkOpts(sp))
			} else {
				cmd = cn.c.Search(crit, mkOpts(sp))
			}
			got, err := cmd.Wait()
			cn.stub.OnSearch = nil
			var exp, dl flat
			if called {
				esearch := cn.cfg.Enable || sp.ret != 0
				printSearch(&exp, "search", wireSearch(data, &effective, esearch, sp.uid))
			}
			if err == nil {
				printSearch(&dl, "search", got)
			}
			cn.failed(err)
			return cn.compare("search", exp.l, dl.l, err, nil)
		}
		desc := func(i int) string {
			sp := specs[i]
			var f flat
			d := mkData(sp)
			printSearch(&f, "", d)
			cmd := "SEARCH"
			if sp.uid {
				cmd = "UID SEARCH"
			}
			var r []string
			for b, n := range []string{"MIN", "MAX", "ALL", "COUNT"} {
				if sp.ret&(1<<b) != 0 {
					r = append(r, n)
				}
			}
			return fmt.Sprintf("%s RETURN (%s) backend returns {%s; all-is-nil-interface=%v}", cmd, strings.Join(r, " "), kvString(f.l), d.All == nil)
		}
		regSeq("search", len(specs), 16, nil, nil, one, desc, nil)
	}

	// ---------------- APPENDUID ----------------
	{
		type spec struct {
			data *imap.AppendData
			size int
		}
		var specs []spec
		for _, size := range []int{0, 5, 5000} {
			specs = append(specs, spec{nil, size})
			for _, uv := range []uint32{0, 1, 4294967295} {
				for _, uid := range []imap.UID{1, 2147483648, 4294967295} {
					specs = append(specs, spec{&imap.AppendData{UIDValidity: uv, UID: uid}, size})
				}
			}
		}
		one := func(cn *conn, i int) outcome {
			sp := specs[i]
			cn.stub.OnAppend = func(mailbox string, r imap.LiteralReader, o *imap.AppendOptions) (*imap.AppendData, error) {
				buf := make([]byte, 4096)
				for {
					if _, err := r.Read(buf); err != nil {
						break
					}
				}
				return sp.data, nil
			}
			cmd := cn.c.Append("box", int64(sp.size), nil)
			cmd.Write([]byte(strings.Repeat("x", sp.size)))
			cmd.Close()
			got, err := cmd.Wait()
			cn.stub.OnAppend = nil
			var exp, dl flat
			d := sp.data
			if d == nil {
				d = &imap.AppendData{}
			}
			exp.n("append.uidvalidity", d.UIDValidity)
			exp.n("append.uid", d.UID)
			if err == nil {
				dl.n("append.uidvalidity", got.UIDValidity)
				dl.n("append.uid", got.UID)
			}
			cn.failed(err)
			return cn.compare("append", exp.l, dl.l, err, nil)
		}
		desc := func(i int) string {
			sp := specs[i]
			if sp.data == nil {
				return fmt.Sprintf("APPEND of %d bytes, backend returns nil AppendData", sp.size)
			}
			return fmt.Sprintf("APPEND of %d bytes, backend returns %+v", sp.size, *sp.data)
		}
		regSeq("append", len(specs), 8, nil, nil, one, desc, nil)
	}

	// ---------------- COPYUID / MOVE ----------------
	type uidPair struct{ src, dst imap.UIDSet }
	mkSet := func(l ...rng) imap.UIDSet {
		var s imap.UIDSet
		for _, r := range l {
			s = append(s, imap.UIDRange{Start: imap.UID(r.a), Stop: imap.UID(r.b)})
		}
		return s
	}
	uidPairs := []uidPair{
		{mkSet(rng{5, 5}), mkSet(rng{9, 9})},
		{mkSet(rng{1, 3}), mkSet(rng{10, 12})},
		{mkSet(rng{1, 1}, rng{3, 3}, rng{5, 7}), mkSet(rng{20, 20}, rng{22, 22}, rng{30, 32})},
		{mkSet(rng{4294967295, 4294967295}), mkSet(rng{4294967294, 4294967295})},
		{mkSet(rng{9, 9}, rng{2, 4}), mkSet(rng{7, 5}, rng{1, 1})}, // scattered, unsorted, a reversed range
	}
	var copyDatas []*imap.CopyData
	copyDatas = append(copyDatas, nil)
	for _, uv := range []uint32{0, 1, 4294967295} {
		for _, p := range uidPairs {
			copyDatas = append(copyDatas, &imap.CopyData{UIDValidity: uv, SourceUIDs: p.src, DestUIDs: p.dst})
		}
	}
	printCopy := func(f *flat, p string, uv uint32, src, dst imap.NumSet) {
		f.n(p+".uidvalidity", uv)
		f.s(p+".sourceuids", setString(src))
		f.s(p+".destuids", setString(dst))
	}
	descCopy := func(d *imap.CopyData) string {
		if d == nil {
			return "nil CopyData"
		}
		return fmt.Sprintf("CopyData{UIDValidity:%d SourceUIDs:%s DestUIDs:%s}", d.UIDValidity, d.SourceUIDs.String(), d.DestUIDs.String())
	}
	{
		n := 2 * len(copyDatas)
		one := func(cn *conn, i int) outcome {
			d := copyDatas[i%len(copyDatas)]
			uid := i >= len(copyDatas)
			if err := cn.ensureSelected(); err != nil {
				return setupFailed(1, err)[0]
			}
			cn.stub.OnCopy = func(numSet imap.NumSet, dest string) (*imap.CopyData, error) { return d, nil }
			var set imap.NumSet = imap.SeqSetNum(1, 2)
			if uid {
				set = imap.UIDSetNum(1, 2)
			}
			got, err := cn.c.Copy(set, "dest").Wait()
			cn.stub.OnCopy = nil
			var exp, dl flat
			if d == nil {
				printCopy(&exp, "copy", 0, nil, nil)
			} else {
				printCopy(&exp, "copy", d.UIDValidity, d.SourceUIDs, d.DestUIDs)
			}
			if err == nil {
				printCopy(&dl, "copy", got.UIDValidity, got.SourceUIDs, got.DestUIDs)
			}
			cn.failed(err)
			return cn.compare("copy", exp.l, dl.l, err, nil)
		}
		desc := func(i int) string {
			c := "COPY"
			if i >= len(copyDatas) {
				c = "UID COPY"
			}
			return c + " backend returns " + descCopy(copyDatas[i%len(copyDatas)])
		}
		regSeq("copy", n, 8, nil, nil, one, desc, nil)
	}
	{
		// MOVE: the order of WriteCopyData and WriteExpunge calls is the backend's choice
		expLists := [][]uint32{nil, {1}, {3, 2, 1}, {1, 1, 1}, {4294967295}}
		var long []uint32
		for k := 0; k < 200; k++ {
			long = append(long, uint32(200-k))
		}
		expLists = append(expLists, long)
		type spec struct {
			data, exp int
			copyFirst bool
			uid       bool
		}
		var specs []spec
		for d := range copyDatas {
			for e := range expLists {
				for _, cf := range []bool{true, false} {
					specs = append(specs, spec{d, e, cf, (d+e)%2 == 0})
				}
			}
		}
		one := func(cn *conn, i int) outcome {
			sp := specs[i]
			d := copyDatas[sp.data]
			if err := cn.ensureSelected(); err != nil {
				return setupFailed(1, err)[0]
			}
			var writeErr error
			cn.stub.OnMove = func(w *imapserver.MoveWriter, numSet imap.NumSet, dest string) error {
				wc := func() {
					if d != nil && writeErr == nil {
						writeErr = w.WriteCopyData(d)
					}
				}
				if sp.copyFirst {
					wc()
				}
				for _, n := range expLists[sp.exp] {
					if writeErr == nil {
						writeErr = w.WriteExpunge(n)
					}
				}
				if !sp.copyFirst {
					wc()
				}
				return writeErr
			}
			cn.stub.OnCopy = func(numSet imap.NumSet, dest string) (*imap.CopyData, error) { return d, nil } // fallback path
			cn.stub.OnExpunge = func(w *imapserver.ExpungeWriter, uids *imap.UIDSet) error {
				for _, n := range expLists[sp.exp] {
					w.WriteExpunge(n)
				}
				return nil
			}
			var set imap.NumSet = imap.SeqSetNum(1, 2)
			if sp.uid {
				set = imap.UIDSetNum(1, 2)
			}
			cn.uni.take()
			got, err := cn.c.Move(set, "dest").Wait()
			cn.stub.OnMove, cn.stub.OnCopy, cn.stub.OnExpunge = nil, nil, nil
			var exp, dl flat
			if d == nil {
				printCopy(&exp, "move", 0, nil, nil)
			} else {
				printCopy(&exp, "move", d.UIDValidity, d.SourceUIDs, d.DestUIDs)
			}
			moveCap := cn.caps.Has(imap.CapMove)
			if moveCap {
				for k, n := range expLists[sp.exp] {
					exp.s(fmt.Sprintf("move.expunge[%d]", k), fmt.Sprintf("expunge %d", n))
				}
			}
			if err == nil {
				printCopy(&dl, "move", got.UIDValidity, got.SourceUIDs, got.DestUIDs)
				if moveCap {
					for k, e := range cn.uni.take() {
						dl.s(fmt.Sprintf("move.expunge[%d]", k), e)
					}
				}
			}
			cn.uni.take()
			cn.failed(err)
			extra := map[string]interface{}{"client_used_MOVE": moveCap}
			if writeErr != nil {
				extra["writer_error"] = writeErr.Error()
			}
			return cn.compare("move", exp.l, dl.l, err, extra)
		}
		desc := func(i int) string {
			sp := specs[i]
			c := "MOVE"
			if sp.uid {
				c = "UID MOVE"
			}
			el := fmt.Sprint(expLists[sp.exp])
			if len(el) > 60 {
				el = el[:60] + "..."
			}
			return fmt.Sprintf("%s backend writes %s and expunges %s (copy data first: %v)", c, descCopy(copyDatas[sp.data]), el, sp.copyFirst)
		}
		rename := func(i int, key string, o *outcome) string {
			if o != nil && o.Detail != nil {
				if used, ok := o.Detail["client_used_MOVE"].(bool); ok && !used && strings.HasPrefix(key, "move:move.") {
					return "move-fallback-copyuid-dropped"
				}
			}
			return key
		}
		regSeq("move", len(specs), 8, nil, nil, one, desc, rename)
		// rev1 server that advertises the MOVE extension
		regSeq("move-rev1-ext", len(specs), 8, []int{0}, []imap.Cap{imap.CapMove}, one, desc, rename)
	}

	// ---------------- NAMESPACE ----------------
	{
		mkNS := func(variant, base int) []imap.NamespaceDescriptor {
			switch variant {
			case 0:
				return nil
			case 1:
				return []imap.NamespaceDescriptor{}
			case 2:
				return []imap.NamespaceDescriptor{{Prefix: fmt.Sprintf("p%d/", base), Delim: '/'}}
			default:
				return []imap.NamespaceDescriptor{{Prefix: "", Delim: delims[base%len(delims)]}, {Prefix: fmt.Sprintf("#q%d.", base), Delim: '.'}}
			}
		}
		var datas []*imap.NamespaceData
		var labels []string
		for a := 0; a < 4; a++ {
			for b := 0; b < 4; b++ {
				for c := 0; c < 4; c++ {
					datas = append(datas, &imap.NamespaceData{Personal: mkNS(a, 1), Other: mkNS(b, 2), Shared: mkNS(c, 3)})
					labels = append(labels, "presence")
				}
			}
		}
		for _, d := range delims {
			datas = append(datas, &imap.NamespaceData{Personal: []imap.NamespaceDescriptor{{Prefix: "x", Delim: d}}})
			labels = append(labels, "delimiter")
		}
		for _, s1 := range S {
			datas = append(datas, &imap.NamespaceData{Shared: []imap.NamespaceDescriptor{{Prefix: s1, Delim: '/'}}})
			labels = append(labels, "prefix from S")
		}
		for _, s1 := range S {
			for _, s2 := range S {
				datas = append(datas, &imap.NamespaceData{Personal: []imap.NamespaceDescriptor{{Prefix: s1, Delim: '/'}}, Other: []imap.NamespaceDescriptor{{Prefix: "o", Delim: '.'}, {Prefix: s2}}})
				labels = append(labels, "prefix pair from S")
			}
		}
		pr := func(f *flat, d *imap.NamespaceData) {
			printNamespaces(f, "namespace.personal", d.Personal)
			printNamespaces(f, "namespace.other", d.Other)
			printNamespaces(f, "namespace.shared", d.Shared)
		}
		one := func(cn *conn, i int) outcome {
			d := datas[i]
			cn.stub.OnNS = func() (*imap.NamespaceData, error) { return d, nil }
			got, err := cn.c.Namespace().Wait()
			cn.stub.OnNS = nil
			var exp, dl flat
			pr(&exp, d)
			if err == nil {
				pr(&dl, got)
			}
			cn.failed(err)
			return cn.compare("namespace", exp.l, dl.l, err, nil)
		}
		desc := func(i int) string {
			var f flat
			pr(&f, datas[i])
			return fmt.Sprintf("NAMESPACE [%s] backend returns {%s}", labels[i], kvString(f.l))
		}
		regSeq("namespace", len(datas), 16, nil, nil, one, desc, nil)
	}

	// ---------------- EXPUNGE ----------------
	{
		lists := [][]uint32{nil, {1}, {3, 2, 1}, {1, 1, 1}, {4294967295}, {2, 4294967295, 1}}
		for _, n := range []int{127, 128, 129, 300} {
			var l []uint32
			for k := 0; k < n; k++ {
				l = append(l, uint32(n-k))
			}
			lists = append(lists, l)
		}
		one := func(cn *conn, i int) outcome {
			l := lists[i%len(lists)]
			uid := i >= len(lists)
			if err := cn.ensureSelected(); err != nil {
				return setupFailed(1, err)[0]
			}
			var writeErr error
			cn.stub.OnExpunge = func(w *imapserver.ExpungeWriter, uids *imap.UIDSet) error {
				for _, n := range l {
					if err := w.WriteExpunge(n); err != nil {
						writeErr = err
						return err
					}
				}
				return nil
			}
			var cmd *imapclient.ExpungeCommand
			if uid {
				cmd = cn.c.UIDExpunge(imap.UIDSetNum(1, 2, 3))
			} else {
				cmd = cn.c.Expunge()
			}
			got, err := cmd.Collect()
			cn.stub.OnExpunge = nil
			var exp, dl flat
			exp.n("expunge.len", len(l))
			for k, n := range l {
				exp.n(fmt.Sprintf("expunge[%d]", k), n)
			}
			if err == nil {
				dl.n("expunge.len", len(got))
				for k, n := range got {
					dl.n(fmt.Sprintf("expunge[%d]", k), n)
				}
			}
			if ev := cn.uni.take(); len(ev) > 0 {
				dl.s("expunge.unilateral-leak", strings.Join(ev, ","))
			}
			cn.failed(err)
			extra := map[string]interface{}{}
			if writeErr != nil {
				extra["writer_error"] = writeErr.Error()
			}
			return cn.compare("expunge", exp.l, dl.l, err, extra)
		}
		desc := func(i int) string {
			c := "EXPUNGE"
			if i >= len(lists) {
				c = "UID EXPUNGE"
			}
			el := fmt.Sprint(lists[i%len(lists)])
			if len(el) > 80 {
				el = el[:80] + fmt.Sprintf("... (%d numbers)", len(lists[i%len(lists)]))
			}
			return c + " backend writes " + el
		}
		regSeq("expunge", 2*len(lists), 4, nil, nil, one, desc, nil)
	}

	// ---------------- unilateral updates: after a command (poll) and during IDLE ----------------
	{
		type upd struct {
			kind  int // 0 EXISTS, 1 EXPUNGE, 2 FLAGS, 3 FETCH flags
			n     uint32
			uid   imap.UID
			flags []imap.Flag
		}
		alphabet := []upd{
			{0, 0, 0, nil}, {0, 4294967295, 0, nil},
			{1, 1, 0, nil}, {1, 7, 0, nil},
			{2, 0, 0, nil}, {2, 0, 0, []imap.Flag{imap.FlagSeen, "kw", "\\dRAFT"}},
			{3, 2, 0, []imap.Flag{imap.FlagSeen}}, {3, 3, 9, []imap.Flag{}}, {3, 4294967295, 4294967295, []imap.Flag{"$Junk", "kw"}},
		}
		maxLen := 2
		if thorough {
			maxLen = 4
		}
		var seqs [][]int
		var rec func(cur []int)
		rec = func(cur []int) {
			if len(cur) > 0 {
				seqs = append(seqs, append([]int{}, cur...))
			}
			if len(cur) == maxLen {
				return
			}
			for k := range alphabet {
				rec(append(cur, k))
			}
		}
		rec(nil)
		descU := func(u upd) string {
			switch u.kind {
			case 0:
				return fmt.Sprintf("WriteNumMessages(%d)", u.n)
			case 1:
				return fmt.Sprintf("WriteExpunge(%d)", u.n)
			case 2:
				return fmt.Sprintf("WriteMailboxFlags(%v)", u.flags)
			default:
				return fmt.Sprintf("WriteMessageFlags(seq=%d, uid=%d, %v)", u.n, u.uid, u.flags)
			}
		}
		one := func(cn *conn, i int) outcome {
			idle := i >= len(seqs)
			sq := seqs[i%len(seqs)]
			if err := cn.ensureSelected(); err != nil {
				return setupFailed(1, err)[0]
			}
			var writeErr error
			write := func(w *imapserver.UpdateWriter) {
				for _, k := range sq {
					u := alphabet[k]
					var err error
					switch u.kind {
					case 0:
						err = w.WriteNumMessages(u.n)
					case 1:
						err = w.WriteExpunge(u.n)
					case 2:
						err = w.WriteMailboxFlags(u.flags)
					default:
						err = w.WriteMessageFlags(u.n, u.uid, u.flags)
					}
					if err != nil && writeErr == nil {
						writeErr = err
					}
				}
			}
			cn.uni.take()
			var err error
			if idle {
				cn.stub.OnIdle = func(w *imapserver.UpdateWriter, stop <-chan struct{}) error {
					write(w)
					<-stop
					return nil
				}
				var ic *imapclient.IdleCommand
				ic, err = cn.c.Idle()
				if err == nil {
					err = ic.Close()
					if err == nil {
						err = ic.Wait()
					}
				}
				cn.stub.OnIdle = nil
			} else {
				cn.stub.OnPoll = func(w *imapserver.UpdateWriter, allowExpunge bool) error {
					write(w)
					return nil
				}
				err = cn.c.Noop().Wait()
				cn.stub.OnPoll = nil
			}
			// expected: synchronous events in order; FETCH events (handed to a goroutine by the
			// client) as a sorted multiset
			var exp, dl flat
			var expFetch []string
			k := 0
			for _, a := range sq {
				u := alphabet[a]
				switch u.kind {
				case 0:
					exp.s(fmt.Sprintf("update[%d]", k), fmt.Sprintf("mailbox nummessages=%d", u.n))
					k++
				case 1:
					exp.s(fmt.Sprintf("update[%d]", k), fmt.Sprintf("expunge %d", u.n))
					k++
				case 2:
					var f flat
					printFlags(&f, "flags", u.flags)
					if u.flags == nil {
						// the handler cannot tell "FLAGS ()" from "no FLAGS": nil slice
						exp.s(fmt.Sprintf("update[%d]", k), "mailbox ")
					} else {
						exp.s(fmt.Sprintf("update[%d]", k), "mailbox "+kvString(f.l))
					}
					k++
				default:
					var its []fitem
					if u.uid != 0 {
						its = append(its, fitem{kind: kUID, uid: u.uid})
					}
					its = append(its, fitem{kind: kFlags, flags: u.flags})
					expFetch = append(expFetch, fmt.Sprintf("fetch seq=%d %s", u.n, kvString(expectStream(its, u.n, false))))
				}
			}
			sort.Strings(expFetch)
			if err == nil {
				// wait for the handler goroutines the client spawned (engine margin, see Assume)
				deadline := time.Now().Add(10 * time.Second)
				for {
					cn.uni.mu.Lock()
					n := cn.uni.fetchN
					cn.uni.mu.Unlock()
					if n >= len(expFetch) || time.Now().After(deadline) {
						break
					}
					time.Sleep(50 * time.Microsecond)
				}
				var gotFetch []string
				k := 0
				for _, e := range cn.uni.take() {
					if strings.HasPrefix(e, "fetch ") {
						gotFetch = append(gotFetch, e)
						continue
					}
					dl.s(fmt.Sprintf("update[%d]", k), e)
					k++
				}
				sort.Strings(gotFetch)
				for j, e := range gotFetch {
					dl.s(fmt.Sprintf("fetchupdate[%d]", j), e)
				}
			}
			for j, e := range expFetch {
				exp.s(fmt.Sprintf("fetchupdate[%d]", j), e)
			}
			cn.failed(err)
			extra := map[string]interface{}{}
			if writeErr != nil {
				extra["writer_error"] = writeErr.Error()
			}
			return cn.compare("unilateral", exp.l, dl.l, err, extra)
		}
		desc := func(i int) string {
			var l []string
			for _, k := range seqs[i%len(seqs)] {
				l = append(l, descU(alphabet[k]))
			}
			via := "Session.Poll after NOOP"
			if i >= len(seqs) {
				via = "Session.Idle"
			}
			return via + " writes " + strings.Join(l, ", ")
		}
		regSeq("unilateral", 2*len(seqs), 8, nil, nil, one, desc, nil)
	}

	// ---------------- STORE responses (same writer, other command) ----------------
	{
		var cases []*fetchCase
		lists := [][]imap.Flag{nil, {}, {imap.FlagSeen}, {imap.FlagDeleted, "kw", "$Forwarded"}}
		for _, uid := range []bool{false, true} {
			for _, l := range lists {
				cs := &fetchCase{store: true, uidCmd: uid, label: "STORE response"}
				if uid {
					cs.items = append(cs.items, fitem{kind: kUID})
				}
				cs.items = append(cs.items, fitem{kind: kFlags, flags: l})
				cases = append(cases, cs)
			}
			cases = append(cases, &fetchCase{store: true, uidCmd: uid, label: "STORE response with UID after FLAGS", items: []fitem{{kind: kFlags, flags: lists[3]}, {kind: kUID}}})
		}
		regFetch("store", len(cases), 4, func(i int) *fetchCase { return cases[i] }, nil)
	}

	// ---------------- CAPABILITY ----------------
	buildCapabilityFamily(thorough)
}

// ---------- capability lists ----------

var optionalCaps = []imap.Cap{imap.CapNamespace, imap.CapUIDPlus, imap.CapESearch, imap.CapSearchRes, imap.CapListExtended, imap.CapListStatus, imap.CapMove, imap.CapStatusSize, imap.CapBinary, imap.CapCreateSpecialUse, imap.CapLiteralPlus}

// capsOnWire extracts capability lists with the independent tokenizer: kind "greeting" / "tagged"
// (resp-text code) / "data" (untagged CAPABILITY).
func capsOnWire(out []byte) (greeting, tagged, data []string, err error) {
	resps, rest, perr := srvkit.ParseResponses(out)
	if perr != nil || len(rest) > 0 {
		return nil, nil, nil, fmt.Errorf("unparseable server output: %v rest=%q", perr, rest)
	}
	code := func(text string) []string {
		i := strings.Index(text, "[CAPABILITY ")
		if i < 0 {
			return nil
		}
		j := strings.Index(text[i:], "]")
		if j < 0 {
			return nil
		}
		return strings.Fields(text[i+len("[CAPABILITY ") : i+j])
	}
	for k, r := range resps {
		switch {
		case k == 0:
			greeting = code(r.Text)
		case r.Tag == "*" && r.Kind() == "CAPABILITY":
			data = r.Words()[1:]
		case r.Tag != "*" && r.Tag != "+" && strings.Contains(r.Text, "[CAPABILITY "):
			tagged = code(r.Text)
		}
	}
	return
}

func capSetString(cs imap.CapSet) string {
	var l []string
	for c := range cs {
		l = append(l, string(c))
	}
	sort.Strings(l)
	return strings.Join(l, " ")
}

func sortedJoin(l []string) string {
	l = append([]string{}, l...)
	sort.Strings(l)
	return strings.Join(l, " ")
}

func buildCapabilityFamily(thorough bool) {
	nOpt := len(optionalCaps)
	var masks []int
	if thorough {
		for m := 0; m < 1<<nOpt; m++ {
			masks = append(masks, m)
		}
	} else {
		// quick: every subset of the first six, every single capability, all of them
		for m := 0; m < 1<<6; m++ {
			masks = append(masks, m)
		}
		for b := 6; b < nOpt; b++ {
			masks = append(masks, 1<<b)
		}
		masks = append(masks, 1<<nOpt-1)
	}
	n := len(masks)
	one := func(cn *conn, i int) outcome {
		// own server: the capability list is a property of imapserver.Options
		caps := capsFor(cn.cfg, nil)
		var configured []imap.Cap
		for b := 0; b < nOpt; b++ {
			if masks[i]&(1<<b) != 0 {
				caps[optionalCaps[b]] = struct{}{}
				configured = append(configured, optionalCaps[b])
			}
		}
		ss := srvkit.NewStubServer(imapserver.Options{Caps: caps, InsecureAuth: true})
		defer ss.Close()
		p := ss.Ln.Dial()
		c := imapclient.New(p.ClientConn(), nil)
		defer c.Close()
		var exp, dl flat
		fail := func(err error) outcome { return cn.compare("capability", exp.l, dl.l, err, nil) }
		if err := c.WaitGreeting(); err != nil {
			return fail(err)
		}
		atGreeting := capSetString(c.Caps())
		if err := c.Login("u", "p").Wait(); err != nil {
			return fail(err)
		}
		afterLogin := capSetString(c.Caps())
		cmdCaps, err := c.Capability().Wait()
		if err != nil {
			return fail(err)
		}
		g, t, d, werr := capsOnWire(p.AllOutput())
		if werr != nil {
			run.EngineError("capability: %v", werr)
		}
		exp.s("capability.greeting", sortedJoin(g))
		exp.s("capability.login", sortedJoin(t))
		exp.s("capability.command", sortedJoin(d))
		exp.s("capability.state-after-command", sortedJoin(d))
		dl.s("capability.greeting", atGreeting)
		dl.s("capability.login", afterLogin)
		dl.s("capability.command", capSetString(cmdCaps))
		dl.s("capability.state-after-command", capSetString(c.Caps()))
		// what the application configured must be what the client ends up knowing
		for _, cc := range configured {
			if cc == imap.CapCreateSpecialUse || cc == imap.CapLiteralPlus || caps.Has(imap.CapIMAP4rev1) {
				exp.s("capability.configured."+string(cc), "true")
				dl.s("capability.configured."+string(cc), fmt.Sprint(cmdCaps.Has(cc)))
			}
		}
		return cn.compare("capability", exp.l, dl.l, nil, nil)
	}
	desc := func(i int) string {
		var l []string
		for b := 0; b < nOpt; b++ {
			if masks[i]&(1<<b) != 0 {
				l = append(l, string(optionalCaps[b]))
			}
		}
		return "server Options.Caps = base + {" + strings.Join(l, " ") + "}: greeting, LOGIN completion, CAPABILITY command"
	}
	regSeq("capability", n, 8, nil, nil, one, desc, nil)
}
