package main

func buildMiscFamilies(thorough bool) {}
