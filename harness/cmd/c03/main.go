// C03 — server responses are decoded by the client into the data the backend supplied.
//
// One real imapclient.Client is connected through srvkit's in-memory network to one real
// imapserver connection whose backend is the scripted srvkit.Stub. For every enumerated value
// the stub hands the value to the real writer API; the driver compares what the client's
// Wait / Collect / Next deliver with print(wire(supplied)) as defined in canon.go.
//
// Engine: families of cases, each identified by (family, config, index); consecutive compatible
// cases are batched into one command (one FETCH with many messages, one LIST with many
// mailboxes); a batch with any failure is re-run case by case on a fresh command to name the
// culprit, and every culprit is replayed 3 more times before it is reported.
package main

import (
	"encoding/json"
	"fmt"
	"os"
	"regexp"
	"runtime"
	"sort"
	"strings"
	"sync"
	"sync/atomic"
	"time"

	imap "github.com/emersion/go-imap/v2"
	"github.com/emersion/go-imap/v2/imapclient"
	"github.com/emersion/go-imap/v2/imapserver"
	"github.com/emersion/go-imap/v2/verif/srvkit"
	"github.com/emersion/go-imap/v2/verif/vk"
)

var run *vk.Run

// ---------- configurations ----------

type config struct {
	Name    string
	Rev2Cap bool // server advertises IMAP4rev2 next to IMAP4rev1
	Enable  bool // client sends ENABLE IMAP4rev2
}

var configs = []config{
	{"rev1", false, false},
	{"rev2-advertised", true, false},
	{"rev2-enabled", true, true},
}

var allCfg = []int{0, 1, 2}

// ---------- connection ----------

type uniLog struct {
	on     *int32
	mu     sync.Mutex
	events []string
	fetchN int
}

func (u *uniLog) add(s string) {
	if atomic.LoadInt32(u.on) != 0 {
		atomic.AddInt64(&uniCount, 1)
	}
	u.mu.Lock()
	u.events = append(u.events, s)
	u.mu.Unlock()
}

func (u *uniLog) take() []string {
	u.mu.Lock()
	defer u.mu.Unlock()
	out := u.events
	u.events = nil
	u.fetchN = 0
	return out
}

type conn struct {
	w     *worker
	cfg   config
	caps  imap.CapSet
	ss    *srvkit.StubServer
	p     *srvkit.Pipe
	c     *imapclient.Client
	stub  *srvkit.Stub
	uni   *uniLog
	alive bool
	sel   string // selected mailbox ("" none)
	cmds  int
	// capture: diagnostic mode, keep the wire output
	capture bool
	// counting: this execution contributes to the non-vacuity counters (first runs only)
	counting int32
}

type worker struct {
	id    int
	conns map[string]*conn
	beat  int64 // unix nano of last progress
	busy  int32
	what  atomic.Value // string: what it is doing
}

func (w *worker) tick(what string) {
	atomic.StoreInt64(&w.beat, time.Now().UnixNano())
	w.what.Store(what)
}

func capsFor(cfg config, extra []imap.Cap) imap.CapSet {
	caps := imap.CapSet{imap.CapIMAP4rev1: {}}
	if cfg.Rev2Cap {
		caps[imap.CapIMAP4rev2] = struct{}{}
	}
	for _, c := range extra {
		caps[c] = struct{}{}
	}
	return caps
}

// getConn returns a live, logged-in connection for cfg (extra: additional server capabilities;
// they key a separate server).
func (w *worker) getConn(cfg config, extra []imap.Cap) (*conn, error) {
	key := cfg.Name
	for _, c := range extra {
		key += "+" + string(c)
	}
	cn := w.conns[key]
	if cn == nil {
		cn = &conn{w: w, cfg: cfg, uni: &uniLog{}, caps: capsFor(cfg, extra)}
		cn.uni.on = &cn.counting
		cn.ss = srvkit.NewStubServer(imapserver.Options{Caps: cn.caps, InsecureAuth: true})
		cn.ss.Prepare = func(s *srvkit.Stub) { cn.stub = s }
		w.conns[key] = cn
	}
	if cn.alive {
		return cn, nil
	}
	if err := cn.dial(); err != nil {
		return nil, err
	}
	return cn, nil
}

func (cn *conn) dial() error {
	cn.w.tick("dial " + cn.cfg.Name)
	cn.p = cn.ss.Ln.Dial()
	u := cn.uni
	cn.c = imapclient.New(cn.p.ClientConn(), &imapclient.Options{
		UnilateralDataHandler: &imapclient.UnilateralDataHandler{
			Expunge: func(seqNum uint32) { u.add(fmt.Sprintf("expunge %d", seqNum)) },
			Mailbox: func(d *imapclient.UnilateralDataMailbox) {
				var f flat
				if d.NumMessages != nil {
					f.n("nummessages", *d.NumMessages)
				}
				if d.Flags != nil {
					printFlags(&f, "flags", d.Flags)
				}
				if d.PermanentFlags != nil {
					printFlags(&f, "permanentflags", d.PermanentFlags)
				}
				u.add("mailbox " + kvString(f.l))
			},
			Fetch: func(msg *imapclient.FetchMessageData) {
				gm := drainMessage(msg, &cn.counting)
				u.mu.Lock()
				u.events = append(u.events, fmt.Sprintf("fetch seq=%d %s", gm.seq, kvString(gm.f)))
				u.fetchN++
				u.mu.Unlock()
			},
		},
	})
	if err := cn.c.WaitGreeting(); err != nil {
		return fmt.Errorf("greeting: %v", err)
	}
	if err := cn.c.Login("u", "p").Wait(); err != nil {
		return fmt.Errorf("login: %v", err)
	}
	if cn.cfg.Enable {
		if _, err := cn.c.Enable(imap.CapIMAP4rev2).Wait(); err != nil {
			return fmt.Errorf("enable: %v", err)
		}
	}
	cn.alive = true
	cn.sel = ""
	cn.uni.take()
	return nil
}

// kill drops the connection (after a client-side failure the client has closed it anyway).
func (cn *conn) kill() {
	if cn.c != nil {
		cn.c.Close()
	}
	cn.alive = false
	cn.c = nil
}

// ensureSelected selects INBOX with benign data (restoring the stub's default Select).
func (cn *conn) ensureSelected() error {
	if cn.sel == "INBOX" {
		return nil
	}
	cn.stub.OnSelect = nil
	if _, err := cn.c.Select("INBOX", nil).Wait(); err != nil {
		cn.kill()
		return fmt.Errorf("select: %v", err)
	}
	cn.sel = "INBOX"
	return nil
}

// after is called after every command: progress beat and output trimming.
func (cn *conn) after() {
	cn.cmds++
	cn.w.tick("idle")
	if cn.p != nil && !cn.capture {
		cn.p.DropConsumed()
	}
}

func kvString(l []kv) string {
	var sb strings.Builder
	for i, e := range l {
		if i > 0 {
			sb.WriteString("; ")
		}
		sb.WriteString(e.P + "=" + e.V)
	}
	return sb.String()
}

// ---------- outcomes ----------

type outcome struct {
	OK     bool
	Key    string                 // stable violation key when !OK
	Detail map[string]interface{} // counterexample
	NotRun bool                   // the connection died before this case was reached
}

func okOutcome() outcome { return outcome{OK: true} }

var reQuoted = regexp.MustCompile(`"(?:[^"\\]|\\.)*"|'[^']*'`)
var reDigits = regexp.MustCompile(`[0-9]+`)
var reNest = regexp.MustCompile(`(in body-type-(Npart|mpart): )+`)

// errClass strips the variable parts of an error message.
func errClass(err error) string {
	if err == nil {
		return "nil"
	}
	s := err.Error()
	if i := strings.Index(s, "\n"); i >= 0 {
		s = s[:i]
	}
	s = reQuoted.ReplaceAllString(s, "_")
	s = reDigits.ReplaceAllString(s, "N")
	s = reNest.ReplaceAllString(s, "in body: ")
	if len(s) > 100 {
		s = s[:100]
	}
	return strings.ReplaceAll(s, " ", "-")
}

// ---------- coverage accounting: distinct and non-trivial, measured ----------

// A case is identified by (configuration, expected delivery); it is NON-TRIVIAL when delivering it
// involves at least one of: a literal on the wire (section payloads; strings with CR/LF, 8-bit
// bytes, more than 4096 bytes), an escaped or encoded string (quote, backslash, RFC 2047,
// modified UTF-7), a nested body structure / embedded message, a number >= 2^31, or a protocol
// canonicalisation that changes the supplied value (FETCH: print(supplied) != print(wire(supplied))).
const sigShards = 64

var sigSets [sigShards]struct {
	mu sync.Mutex
	m  map[uint64]struct{}
}

func sigOf(cfg string, exp []kv) uint64 {
	h := uint64(14695981039346656037)
	mix := func(s string) {
		for i := 0; i < len(s); i++ {
			h ^= uint64(s[i])
			h *= 1099511628211
		}
		h ^= 0xff
		h *= 1099511628211
	}
	mix(cfg)
	for _, e := range exp {
		mix(e.P)
		mix(e.V)
	}
	return h
}

func isBigNumber(v string) bool {
	if len(v) < 10 || len(v) > 20 {
		return false
	}
	for i := 0; i < len(v); i++ {
		if v[i] < '0' || v[i] > '9' {
			return false
		}
	}
	return len(v) > 10 || v >= "2147483648"
}

func nontrivialFlat(exp []kv) bool {
	for _, e := range exp {
		if strings.Contains(e.P, ".literal.") || strings.Contains(e.P, ".children[") || strings.Contains(e.P, ".msg.") {
			return true
		}
		if strings.Contains(e.V, "...(") || isBigNumber(e.V) {
			return true
		}
		// escapes show up as backslashes in the quoted rendering; flag and attribute atoms
		// (\Seen) and the events of the unilateral log are not strings in that sense
		if strings.Contains(e.P, "flags") || strings.Contains(e.P, ".attrs") || strings.HasPrefix(e.P, "update[") || strings.HasPrefix(e.P, "fetchupdate[") {
			continue
		}
		if strings.ContainsAny(e.V, "\\&") {
			return true
		}
	}
	return false
}

var distinctCases, distinctNontrivial, reruns int64

func (cn *conn) account(exp []kv, force bool) {
	if atomic.LoadInt32(&cn.counting) == 0 {
		return // re-runs for pinpointing are scheduling-dependent: only first executions count
	}
	sig := sigOf(cn.cfg.Name, exp)
	sh := &sigSets[sig%sigShards]
	sh.mu.Lock()
	if sh.m == nil {
		sh.m = map[uint64]struct{}{}
	}
	_, seen := sh.m[sig]
	_, seenNT := sh.m[^sig]
	nt := !seenNT && (force || nontrivialFlat(exp))
	if !seen {
		sh.m[sig] = struct{}{}
	}
	if nt {
		sh.m[^sig] = struct{}{}
	}
	sh.mu.Unlock()
	if !seen {
		atomic.AddInt64(&distinctCases, 1)
	}
	if nt {
		atomic.AddInt64(&distinctNontrivial, 1)
	}
}

// markNontrivial records that the case with this expectation is non-trivial for a reason the
// flattened expectation does not show (a canonicalisation changed the supplied value).
func (cn *conn) markNontrivial(exp []kv) { cn.account(exp, true) }

// compare builds an outcome from expected and delivered flattened data.
func (cn *conn) compare(fam string, exp, got []kv, cmdErr error, extra map[string]interface{}) outcome {
	cn.account(exp, false)
	if cmdErr != nil {
		d := map[string]interface{}{"error": cmdErr.Error(), "expected": kvString(exp)}
		for k, v := range extra {
			d[k] = v
		}
		return outcome{Key: fam + ":error:" + errClass(cmdErr), Detail: d}
	}
	path, e, g, same := firstDiff(exp, got)
	if same {
		return okOutcome()
	}
	d := map[string]interface{}{"first_difference": path, "expected": e, "delivered": g,
		"expected_all": kvString(exp), "delivered_all": kvString(got)}
	for k, v := range extra {
		d[k] = v
	}
	return outcome{Key: fam + ":" + stripIdx(path), Detail: d}
}

// ---------- deterministic reporting ----------

// Violations are buffered and the smallest case (family order, config, index) per key is the one
// written out, so that the replay artefact does not depend on which worker got there first.
type candidate struct {
	rank   [3]int
	detail map[string]interface{}
}

var (
	repMu   sync.Mutex
	pending = map[string]*candidate{}
)

func famRank(name string) int {
	for i, f := range families {
		if f.name == name {
			return i
		}
	}
	return len(families)
}

func report(key string, fam string, ci, idx int, detail map[string]interface{}) {
	r := [3]int{famRank(fam), idx, ci}
	repMu.Lock()
	defer repMu.Unlock()
	c := pending[key]
	if c == nil {
		pending[key] = &candidate{r, detail}
		return
	}
	for k := 0; k < 3; k++ {
		if r[k] != c.rank[k] {
			if r[k] < c.rank[k] {
				pending[key] = &candidate{r, detail}
			}
			return
		}
	}
}

func knownRank(key string) *[3]int {
	repMu.Lock()
	defer repMu.Unlock()
	if c := pending[key]; c != nil {
		r := c.rank
		return &r
	}
	return nil
}

func rankLess(a, b [3]int) bool {
	for k := 0; k < 3; k++ {
		if a[k] != b[k] {
			return a[k] < b[k]
		}
	}
	return false
}

func flushReports() {
	keys := make([]string, 0, len(pending))
	for k := range pending {
		keys = append(keys, k)
	}
	sort.Strings(keys)
	for _, k := range keys {
		run.Violation(k, pending[k].detail)
	}
}

// ---------- families ----------

type family struct {
	name  string
	n     int
	batch int   // max cases per command (1: no batching)
	cfgs  []int // configurations it runs under
	// group: cases of one batch must share this key (nil: all compatible)
	group func(i int) string
	// exec runs the cases idxs (a compatible batch) on cn and returns one outcome per case
	exec func(cn *conn, idxs []int) []outcome
	// extra server capabilities this family needs
	caps []imap.Cap
	// desc renders case i for humans (replay files, samples)
	desc func(i int) string
	// nontrivial: case i exercises an escape / literal / canonicalisation / nesting
	nontrivial func(i int) bool
	// renameKey maps an automatic key to a specific stable one (optional)
	renameKey func(i int, key string, o *outcome) string
}

var families []*family

func register(f *family) {
	if f.batch < 1 {
		f.batch = 1
	}
	if f.cfgs == nil {
		f.cfgs = allCfg
	}
	families = append(families, f)
}

type job struct {
	fam  *family
	cfg  int
	idxs []int
}

func mkJobs(thorough bool) []job {
	var jobs []job
	for _, f := range families {
		// batch-compatibility keys, computed once per family on all cores (generators are pure)
		var keys []string
		if f.group != nil {
			keys = make([]string, f.n)
			g := f.group
			vk.Parallel((f.n+255)/256, func(b int) {
				for i := b * 256; i < (b+1)*256 && i < len(keys); i++ {
					keys[i] = g(i)
				}
			})
		}
		for _, ci := range f.cfgs {
			var cur []int
			curKey := ""
			flush := func() {
				if len(cur) > 0 {
					jobs = append(jobs, job{f, ci, cur})
					cur = nil
				}
			}
			for i := 0; i < f.n; i++ {
				k := ""
				if keys != nil {
					k = keys[i]
				}
				if len(cur) > 0 && (k != curKey || len(cur) >= f.batch) {
					flush()
				}
				curKey = k
				cur = append(cur, i)
			}
			flush()
		}
	}
	return jobs
}

// execSafe runs a batch, reconnecting first when needed. A connection that cannot be set up
// (greeting / LOGIN / ENABLE do not come through) is a verdict about the code under test, not an
// engine error: those responses are server data reaching the client too.
func (w *worker) execSafe(f *family, ci int, idxs []int, first bool) []outcome {
	cn, err := w.getConn(configs[ci], f.caps)
	if err != nil {
		cn, err = w.getConn(configs[ci], f.caps) // one retry
	}
	if err != nil {
		outs := make([]outcome, len(idxs))
		for k := range outs {
			outs[k] = outcome{Key: "setup:" + errClass(err), Detail: map[string]interface{}{"error": err.Error(), "note": "greeting / LOGIN / ENABLE failed"}}
		}
		return outs
	}
	w.tick(fmt.Sprintf("%s cfg=%s idx=%v", f.name, configs[ci].Name, idxs))
	if first {
		atomic.StoreInt32(&cn.counting, 1)
	}
	outs := f.exec(cn, idxs)
	atomic.StoreInt32(&cn.counting, 0)
	cn.after()
	if len(outs) != len(idxs) {
		run.EngineError("family %s returned %d outcomes for %d cases", f.name, len(outs), len(idxs))
	}
	return outs
}

type caseRef struct {
	Family string `json:"family"`
	Config string `json:"config"`
	Index  int    `json:"index"`
}

func (w *worker) runJob(j job) {
	f := j.fam
	outs := w.execSafe(f, j.cfg, j.idxs, true)
	run.AddEvals(int64(len(j.idxs)))
	run.Add("cases:"+f.name, int64(len(j.idxs)))
	run.Add("commands", 1)
	bad := false
	for _, o := range outs {
		if !o.OK {
			bad = true
		}
	}
	if !bad {
		return
	}
	// pinpoint: a case that failed inside a batch (or was not reached because the connection
	// died) is run alone on its own command, unless a smaller case with the same key is on record
	single := map[int]outcome{}
	var batchOnly []int
	for k, i := range j.idxs {
		o := outs[k]
		if o.OK {
			continue
		}
		if len(j.idxs) == 1 {
			single[i] = o
			continue
		}
		if !o.NotRun {
			key := o.Key
			if f.renameKey != nil {
				key = f.renameKey(i, key, &o)
			}
			if r := knownRank(key); r != nil && !rankLess([3]int{famRank(f.name), i, j.cfg}, *r) {
				continue
			}
		}
		so := w.execSafe(f, j.cfg, []int{i}, false)[0]
		atomic.AddInt64(&reruns, 1) // scheduling-dependent (see knownRank): printed, not part of the evidence
		if so.OK {
			if !o.NotRun {
				batchOnly = append(batchOnly, k)
			}
			continue
		}
		single[i] = so
	}
	if len(batchOnly) > 0 && len(single) == 0 {
		// fails only in company: report the batch itself
		first := outs[batchOnly[0]]
		d := map[string]interface{}{"case": caseRef{f.name, configs[j.cfg].Name, j.idxs[batchOnly[0]]}, "batch": j.idxs,
			"note": "the case passes alone; it fails inside this batch (one command carrying all of them)", "batch_outcome": first.Detail, "batch_key": first.Key}
		report("batch-only:"+f.name, f.name, j.cfg, j.idxs[0], d)
		return
	}
	for _, i := range j.idxs {
		o, bad := single[i]
		if !bad {
			continue
		}
		// replay 3 more times with the wire captured: must be deterministic. (A key that has
		// already been confirmed on a smaller case is only diagnosed once more.)
		key := o.Key
		if f.renameKey != nil {
			key = f.renameKey(i, key, &o)
		}
		reps := 3
		if r := knownRank(key); r != nil {
			if !rankLess([3]int{famRank(f.name), i, j.cfg}, *r) {
				continue // a smaller case with this key is already on record
			}
			reps = 1
		}
		stable := true
		var last outcome
		for r := 0; r < reps; r++ {
			last = w.diagnose(f, j.cfg, i)
			if last.OK || last.Key != o.Key {
				stable = false
			}
		}
		d := map[string]interface{}{"case": caseRef{f.name, configs[j.cfg].Name, i}, "input": f.desc(i), "outcome": last.Detail}
		if !stable {
			d["first_outcome"] = o.Detail
			d["first_key"] = o.Key
			report("nondeterministic:"+key, f.name, j.cfg, i, d)
			continue
		}
		report(key, f.name, j.cfg, i, d)
	}
}

// diagnose re-runs one case on a fresh connection and attaches the wire transcript.
func (w *worker) diagnose(f *family, ci int, i int) outcome {
	cn, err := w.getConn(configs[ci], f.caps)
	if err == nil {
		cn.kill() // fresh connection: no state carried over
		cn, err = w.getConn(configs[ci], f.caps)
	}
	if err != nil {
		return outcome{Key: "setup:" + errClass(err), Detail: map[string]interface{}{"error": err.Error(), "note": "greeting / LOGIN / ENABLE failed"}}
	}
	cn.capture = true
	start := cn.p.OutLen()
	p := cn.p
	logStart := len(cn.ss.Log.Snapshot())
	outs := f.exec(cn, []int{i})
	wire := p.OutSince(start)
	cn.capture = false
	cn.after()
	o := outs[0]
	if !o.OK {
		if o.Detail == nil {
			o.Detail = map[string]interface{}{}
		}
		if len(wire) > 1500 {
			o.Detail["server_wire_bytes"] = len(wire)
			wire = append(append([]byte{}, wire[:1000]...), []byte(" ...[cut]... "+string(wire[len(wire)-300:]))...)
		}
		o.Detail["server_wire"] = string(wire)
		if lg := cn.ss.Log.Snapshot(); len(lg) > logStart {
			l := lg[logStart:]
			for k := range l {
				if len(l[k]) > 300 {
					l[k] = l[k][:300]
				}
			}
			o.Detail["server_log"] = l
		}
		if ev := cn.uni.take(); len(ev) > 0 {
			o.Detail["unilateral_events"] = ev
		}
	}
	return o
}

// ---------- main ----------

func main() {
	run = vk.Start("C03", "exploration")
	for _, r := range canonRules {
		run.Assume(r)
	}
	run.Assume("network: srvkit in-memory pipe; server writes never block; one command at a time, so the result is independent of goroutine scheduling")
	run.Assume("unilateral FETCH data is handed to the handler in a goroutine the client spawns ('go handler(msg)'); after the command completes the driver waits for those goroutines (10 s engine margin against microsecond work); a missing delivery is re-run before it is reported")
	thorough := run.Thorough()
	if run.Replay != "" {
		// families are tier-dependent: use the tier recorded in the replay file
		var doc struct {
			Tier string `json:"tier"`
		}
		if b, err := os.ReadFile(run.Replay); err == nil && json.Unmarshal(b, &doc) == nil && (doc.Tier == "quick" || doc.Tier == "thorough") {
			thorough = doc.Tier == "thorough"
			run.Tier = doc.Tier // a re-written artefact keeps the tier its index refers to
		}
		buildFamilies(thorough)
		replay(run.Replay)
		return
	}
	buildFamilies(thorough)

	if only := os.Getenv("C03_ONLY"); only != "" {
		// debugging aid: run the families whose name starts with $C03_ONLY (never exhaustive)
		var keep []*family
		for _, f := range families {
			if strings.HasPrefix(f.name, only) {
				keep = append(keep, f)
			}
		}
		families = keep
		defer func() { run.Exhaustive = false }()
	}
	t0 := time.Now()
	jobs := mkJobs(thorough)
	fmt.Printf("C03 %d jobs prepared in %.1fs\n", len(jobs), time.Since(t0).Seconds())
	// big jobs first would starve nothing here; keep the deterministic order
	nw := runtime.GOMAXPROCS(0)
	if nw > 16 {
		nw = 16
	}
	workers := make([]*worker, nw)
	for i := range workers {
		workers[i] = &worker{id: i, conns: map[string]*conn{}}
		workers[i].tick("start")
	}
	stopWD := make(chan struct{})
	go func() {
		t := time.NewTicker(5 * time.Second)
		defer t.Stop()
		for {
			select {
			case <-stopWD:
				return
			case <-t.C:
				for _, w := range workers {
					if atomic.LoadInt32(&w.busy) == 1 && time.Now().UnixNano()-atomic.LoadInt64(&w.beat) > int64(120*time.Second) {
						what, _ := w.what.Load().(string)
						run.EngineError("watchdog: worker %d made no progress for 120 s in %s (engine error, not a verdict)", w.id, what)
					}
				}
			}
		}
	}()
	var next int64 = -1
	var wg sync.WaitGroup
	for _, w := range workers {
		wg.Add(1)
		go func(w *worker) {
			defer wg.Done()
			atomic.StoreInt32(&w.busy, 1)
			for {
				k := int(atomic.AddInt64(&next, 1))
				if k >= len(jobs) {
					break
				}
				w.runJob(jobs[k])
			}
			atomic.StoreInt32(&w.busy, 0)
			for _, cn := range w.conns {
				cn.kill()
				cn.ss.Close()
			}
		}(w)
	}
	wg.Wait()
	close(stopWD)

	flushReports()
	run.NontrivialN(atomic.LoadInt64(&distinctNontrivial))
	run.Set("distinct_cases", atomic.LoadInt64(&distinctCases))
	run.Exhaustive = true
	var names []string
	total := 0
	for _, f := range families {
		names = append(names, fmt.Sprintf("%s=%dx%d", f.name, f.n, len(f.cfgs)))
		total += f.n * len(f.cfgs)
	}
	run.Set("families", names)
	run.Set("configs", []string{configs[0].Name, configs[1].Name, configs[2].Name})
	run.Set("total_cases", total)
	run.Rule = ruleText
	run.Set("fetch_messages_delivered", atomic.LoadInt64(&msgCount))
	run.Set("literals_compared", atomic.LoadInt64(&litCount))
	run.Set("literal_bytes_compared", atomic.LoadInt64(&litBytes))
	run.Set("unilateral_events_delivered", atomic.LoadInt64(&uniCount))
	if os.Getenv("C03_ONLY") == "" && (run.Evals == 0 || msgCount == 0 || litCount == 0 || uniCount == 0 || distinctNontrivial == 0) {
		run.EngineError("non-vacuity: messages=%d literals=%d unilateral events=%d non-trivial cases=%d", msgCount, litCount, uniCount, distinctNontrivial)
	}
	for _, f := range families {
		if f.n > 0 {
			run.Sample(f.name, f.desc(f.n/2))
		}
	}
	fmt.Printf("C03 tier=%s cases=%d (x configs) commands=%d reruns=%d workers=%d\n", run.Tier, total, run.Get("commands"), atomic.LoadInt64(&reruns), nw)
	sort.Strings(names)
	fmt.Printf("C03 families: %s\n", strings.Join(names, " "))
	run.Finish()
}

const ruleText = "distinct = distinct (configuration, expected delivery) pairs; non-trivial = delivering the case involves a literal on the wire (section payload, CR/LF, 8-bit, > 4096 bytes), an escaped / RFC 2047 / UTF-7 encoded string, a nested body structure or embedded message, a number >= 2^31, or a canonicalisation that changes the supplied value; both are counted by the engine per executed case. " +
	"string alphabet S = {\"\", a, 'a b', a\"b, a\\b, a CRLF b, é, {3}, (, ), NIL, nil, 4097*a} (+ \\xff in literal payloads): " +
	"one symbol per branch of Encoder.String/validQuoted (empty, plain, SP, the two escaped bytes, CR/LF => literal, 8-bit => literal unless UTF-8 quoting is on, length 4097 > 4096 => literal) " +
	"and per token the decoders treat specially (literal look-alike, parentheses, NIL in both cases); " +
	"numbers: 0, 1, 2^32-1, 2^32, 2^63-1 as the field type allows; literal sizes 0,1,4095,4096,4097,70000 (bufio 4096 boundary, > 64 KiB); " +
	"collections: nil / empty / one / two entries; body structures: every tree up to the node bound; attribute sets: every subset"

func replay(path string) {
	b, err := os.ReadFile(path)
	if err != nil {
		run.EngineError("cannot read replay file: %v", err)
	}
	var doc struct {
		Key    string `json:"key"`
		Detail struct {
			Case caseRef `json:"case"`
		} `json:"detail"`
	}
	if err := json.Unmarshal(b, &doc); err != nil {
		run.EngineError("bad replay file: %v", err)
	}
	ref := doc.Detail.Case
	var fam *family
	for _, f := range families {
		if f.name == ref.Family {
			fam = f
		}
	}
	ci := -1
	for i, c := range configs {
		if c.Name == ref.Config {
			ci = i
		}
	}
	if fam == nil || ci < 0 || ref.Index < 0 || ref.Index >= fam.n {
		run.EngineError("replay file names unknown case %+v (families are tier-dependent: replay with the tier recorded in the file)", ref)
	}
	w := &worker{id: 0, conns: map[string]*conn{}}
	w.tick("replay")
	fmt.Printf("replaying %s cfg=%s index=%d\ninput: %s\n", fam.name, ref.Config, ref.Index, fam.desc(ref.Index))
	o := w.diagnose(fam, ci, ref.Index)
	if o.OK {
		fmt.Printf("result: client delivered exactly what the backend supplied (no violation)\n")
	} else {
		key := o.Key
		if fam.renameKey != nil {
			key = fam.renameKey(ref.Index, key, &o)
		}
		jb, _ := json.MarshalIndent(o.Detail, "", " ")
		fmt.Printf("result: VIOLATION key=%s\n%s\n", key, jb)
		run.Violation(key, map[string]interface{}{"case": ref, "input": fam.desc(ref.Index), "outcome": o.Detail})
	}
	run.Finish()
}
