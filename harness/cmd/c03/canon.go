package main

// canon.go — the ONLY place where "equal" is defined for C03.
//
// Two layers:
//
//  1. wire*() functions turn a value a backend SUPPLIED into the value the PROTOCOL can carry
//     (the canonicalisations of RFC 9051 and of the documented writer contract). Each rule is
//     listed in canonRules and ends up in the evidence file via run.Assume.
//  2. print*() functions flatten a value (supplied-after-wire*, or delivered by the client) into a
//     list of (path, value) pairs; nil and empty collections print identically exactly where the
//     wire has a single representation for them. The same printer is used for both sides.
//
// The oracle is: print(wire(supplied)) == print(delivered), pairwise, in order.

import (
	"fmt"
	"sort"
	"strconv"
	"strings"
	"time"

	imap "github.com/emersion/go-imap/v2"
)

var canonRules = []string{
	"canon: envelope Sender / Reply-To default to From when the backend leaves them nil (RFC 9051 7.5.2; imapserver.writeEnvelope)",
	"canon: a nil *Envelope is the empty envelope (the writer emits the all-NIL envelope)",
	"canon: times are compared at second resolution and by their zone offset in whole minutes (INTERNALDATE and envelope date formats carry nothing finer); a zero envelope date is NIL",
	"canon: body-parameter names are lower-cased by the client (MIME parameter names are case-insensitive); generated maps never contain two names that differ only in case",
	"canon: content-transfer-encoding is upper-cased by the writer and empty means 7BIT",
	"canon: nil and empty collections are identified where the wire has one representation: flag lists, address lists (NIL / ()), body parameters, body languages, In-Reply-To, namespace lists, search result sets, empty strings vs NIL in nstring fields",
	"canon: a BODY[...] echo carries neither .PEEK nor the partial SIZE (only <origin>); a BINARY[...] echo carries only the part path",
	"canon: a non-extended BODY response cannot carry the extension data (Extended is dropped from the expectation); BODYSTRUCTURE always yields non-nil Extended",
	"canon: INBOX is compared case-insensitively (it is sent as the atom INBOX)",
	"canon: system flags / well-known keywords / mailbox attributes are compared case-insensitively (the client maps them to its canonical spelling); order of flags is preserved",
	"canon: number sets (COPYUID, ESEARCH ALL, SEARCH) are compared as mathematical sets",
	"canon: STATUS carries exactly the requested items; APPENDLIMIT NIL is delivered as 4294967295 (the client's representation of 'no limit'), so nil and 2^32-1 are identified for that item only",
	"canon: a plain SEARCH response carries only the numbers (no UID marker, MIN/MAX/COUNT); ESEARCH carries MIN/MAX only when non-zero and ALL only when non-empty (RFC 9051 7.3.4)",
	"canon: ListData.OldName \"\" means absent; ListData.Status travels as a separate STATUS response restricted to the requested items",
	"domain: Envelope.MessageID / InReplyTo hold RFC 5322 msg-ids (the writer wraps them in <>, the client parses msg-id): their alphabet is {\"\", a@b, a.b@c.d, a@[1.2.3.4], 4090*a@b} instead of S",
	"domain: subjects / display names that already look like RFC 2047 encoded words (=?cs?e?text?=) are excluded: the server Q-encodes and the client decodes, so they cannot round-trip by construction; the same holds for Description and body-parameter VALUES, which the client also passes through the RFC 2047 decoder",
	"domain: \"\\xff\" (invalid UTF-8) is used only in literal payloads; mailbox names are valid UTF-8; flags and attributes are atoms",
	"domain: body structures are well-typed: Text is set exactly for type text, MessageRFC822 exactly for message/rfc822, multiparts have >= 1 child, Extended is set on every node when BODYSTRUCTURE is requested; NumLines/Size are non-negative",
	"domain: mailbox names the CLIENT has to send (STATUS, SELECT) are non-empty and at most 4096 bytes (the server refuses larger buffered literals; the request direction is C02/C04's subject)",
	"domain: in UID FETCH the backend writes the UID item before any literal (documented assumption of imapclient.handleFetch); INTERNALDATE is never the zero time",
}

type kv struct{ P, V string }

type flat struct{ l []kv }

func (f *flat) s(p, v string)             { f.l = append(f.l, kv{p, v}) }
func (f *flat) n(p string, v interface{}) { f.l = append(f.l, kv{p, fmt.Sprint(v)}) }

// firstDiff returns the first position where the two flattened values differ.
func firstDiff(exp, got []kv) (path, e, g string, same bool) {
	n := len(exp)
	if len(got) < n {
		n = len(got)
	}
	for i := 0; i < n; i++ {
		if exp[i] != got[i] {
			if exp[i].P == got[i].P {
				return exp[i].P, exp[i].V, got[i].V, false
			}
			return exp[i].P, exp[i].P + "=" + exp[i].V, got[i].P + "=" + got[i].V, false
		}
	}
	if len(exp) > n {
		return exp[n].P, exp[n].P + "=" + exp[n].V, "<missing>", false
	}
	if len(got) > n {
		return got[n].P, "<nothing>", got[n].P + "=" + got[n].V, false
	}
	return "", "", "", true
}

// stripIdx turns a path into a stable key: list indices are removed and the nesting of body
// structures (children / message bodies at any depth) is collapsed, so that one defect has one
// key wherever in a tree it shows.
func stripIdx(p string) string {
	var sb strings.Builder
	skip := false
	for i := 0; i < len(p); i++ {
		switch {
		case p[i] == '[':
			skip = true
		case p[i] == ']':
			skip = false
		case !skip:
			sb.WriteByte(p[i])
		}
	}
	s := sb.String()
	for {
		t := strings.Replace(s, ".children.", ".", -1)
		t = strings.Replace(t, ".msg.body.", ".", -1)
		if t == s {
			break
		}
		s = t
	}
	return s
}

func q(s string) string {
	if len(s) > 120 {
		return strconv.QuoteToASCII(s[:40]) + fmt.Sprintf("...(%d bytes)", len(s))
	}
	return strconv.QuoteToASCII(s)
}

// ---------- scalars ----------

func printTime(f *flat, p string, t time.Time) {
	if t.IsZero() {
		f.s(p, "zero")
		return
	}
	_, off := t.Zone()
	f.s(p, fmt.Sprintf("unix=%d zone=%+dmin", t.Unix(), off/60))
}

func foldInbox(s string) string {
	if strings.EqualFold(s, "INBOX") {
		return "INBOX"
	}
	return s
}

func printFlags(f *flat, p string, flags []imap.Flag) {
	f.n(p+".len", len(flags))
	for i, fl := range flags {
		f.s(fmt.Sprintf("%s[%d]", p, i), strings.ToLower(string(fl)))
	}
}

func printStrings(f *flat, p string, l []string) {
	f.n(p+".len", len(l))
	for i, s := range l {
		f.s(fmt.Sprintf("%s[%d]", p, i), q(s))
	}
}

func printPart(f *flat, p string, part []int) {
	var sb strings.Builder
	for i, n := range part {
		if i > 0 {
			sb.WriteByte('.')
		}
		sb.WriteString(strconv.Itoa(n))
	}
	f.s(p, sb.String())
}

// ---------- number sets ----------

type rng struct{ a, b uint32 }

func normRanges(l []rng) []rng {
	for i := range l {
		if l[i].a > l[i].b {
			l[i].a, l[i].b = l[i].b, l[i].a
		}
	}
	sort.Slice(l, func(i, j int) bool { return l[i].a < l[j].a })
	var out []rng
	for _, r := range l {
		if n := len(out); n > 0 && (uint64(r.a) <= uint64(out[n-1].b)+1) {
			if r.b > out[n-1].b {
				out[n-1].b = r.b
			}
			continue
		}
		out = append(out, r)
	}
	return out
}

// setString renders a static number set as a sorted, merged list of ranges ("" when empty or
// nil) — mathematical-set equality. Dynamic sets ("*") never occur in response data.
func setString(ns imap.NumSet) string {
	var l []rng
	switch s := ns.(type) {
	case nil:
		return ""
	case imap.SeqSet:
		for _, r := range s {
			l = append(l, rng{r.Start, r.Stop})
		}
	case imap.UIDSet:
		for _, r := range s {
			l = append(l, rng{uint32(r.Start), uint32(r.Stop)})
		}
	default:
		return fmt.Sprintf("?%T", ns)
	}
	l = normRanges(l)
	var sb strings.Builder
	for i, r := range l {
		if i > 0 {
			sb.WriteByte(',')
		}
		if r.a == r.b {
			fmt.Fprintf(&sb, "%d", r.a)
		} else {
			fmt.Fprintf(&sb, "%d:%d", r.a, r.b)
		}
	}
	return sb.String()
}

func setKind(ns imap.NumSet) string {
	switch ns.(type) {
	case imap.SeqSet:
		return "seq"
	case imap.UIDSet:
		return "uid"
	case nil:
		return "nil"
	}
	return fmt.Sprintf("%T", ns)
}

// ---------- envelope ----------

// wireEnvelope: what RFC 9051 lets the server say about a supplied envelope.
func wireEnvelope(e *imap.Envelope) *imap.Envelope {
	if e == nil {
		return &imap.Envelope{}
	}
	c := *e
	if c.Sender == nil {
		c.Sender = c.From
	}
	if c.ReplyTo == nil {
		c.ReplyTo = c.From
	}
	return &c
}

func printAddrs(f *flat, p string, l []imap.Address) {
	f.n(p+".len", len(l))
	for i, a := range l {
		f.s(fmt.Sprintf("%s[%d].name", p, i), q(a.Name))
		f.s(fmt.Sprintf("%s[%d].mailbox", p, i), q(a.Mailbox))
		f.s(fmt.Sprintf("%s[%d].host", p, i), q(a.Host))
	}
}

func printEnvelope(f *flat, p string, e *imap.Envelope) {
	if e == nil {
		f.s(p, "nil")
		return
	}
	printTime(f, p+".date", e.Date)
	f.s(p+".subject", q(e.Subject))
	printAddrs(f, p+".from", e.From)
	printAddrs(f, p+".sender", e.Sender)
	printAddrs(f, p+".replyto", e.ReplyTo)
	printAddrs(f, p+".to", e.To)
	printAddrs(f, p+".cc", e.Cc)
	printAddrs(f, p+".bcc", e.Bcc)
	printStrings(f, p+".inreplyto", e.InReplyTo)
	f.s(p+".messageid", q(e.MessageID))
}

// ---------- body structure ----------

func lowerParams(m map[string]string) map[string]string {
	if m == nil {
		return nil
	}
	out := make(map[string]string, len(m))
	for k, v := range m {
		out[strings.ToLower(k)] = v
	}
	return out
}

func wireDisp(d *imap.BodyStructureDisposition) *imap.BodyStructureDisposition {
	if d == nil {
		return nil
	}
	return &imap.BodyStructureDisposition{Value: d.Value, Params: lowerParams(d.Params)}
}

// wireBS: what the wire carries of a supplied body structure for BODY (extended=false) or
// BODYSTRUCTURE (extended=true).
func wireBS(bs imap.BodyStructure, extended bool) imap.BodyStructure {
	switch b := bs.(type) {
	case *imap.BodyStructureSinglePart:
		c := *b
		c.Params = lowerParams(b.Params)
		if c.Encoding == "" {
			c.Encoding = "7BIT"
		} else {
			c.Encoding = strings.ToUpper(c.Encoding)
		}
		if b.MessageRFC822 != nil {
			m := *b.MessageRFC822
			m.Envelope = wireEnvelope(m.Envelope)
			m.BodyStructure = wireBS(m.BodyStructure, extended)
			c.MessageRFC822 = &m
		}
		if !extended {
			c.Extended = nil
		} else if b.Extended != nil {
			x := *b.Extended
			x.Disposition = wireDisp(x.Disposition)
			c.Extended = &x
		}
		return &c
	case *imap.BodyStructureMultiPart:
		c := *b
		c.Children = nil
		for _, ch := range b.Children {
			c.Children = append(c.Children, wireBS(ch, extended))
		}
		if !extended {
			c.Extended = nil
		} else if b.Extended != nil {
			x := *b.Extended
			x.Params = lowerParams(x.Params)
			x.Disposition = wireDisp(x.Disposition)
			c.Extended = &x
		}
		return &c
	}
	return bs
}

func printParams(f *flat, p string, m map[string]string) {
	keys := make([]string, 0, len(m))
	for k := range m {
		keys = append(keys, k)
	}
	sort.Strings(keys)
	f.n(p+".len", len(keys))
	for i, k := range keys {
		f.s(fmt.Sprintf("%s[%d]", p, i), q(k)+"="+q(m[k]))
	}
}

func printDisp(f *flat, p string, d *imap.BodyStructureDisposition) {
	if d == nil {
		f.s(p, "nil")
		return
	}
	f.s(p+".value", q(d.Value))
	printParams(f, p+".params", d.Params)
}

func printBS(f *flat, p string, bs imap.BodyStructure) {
	switch b := bs.(type) {
	case *imap.BodyStructureSinglePart:
		f.s(p+".kind", "single")
		f.s(p+".type", q(b.Type))
		f.s(p+".subtype", q(b.Subtype))
		printParams(f, p+".params", b.Params)
		f.s(p+".id", q(b.ID))
		f.s(p+".description", q(b.Description))
		f.s(p+".encoding", q(b.Encoding))
		f.n(p+".size", b.Size)
		if m := b.MessageRFC822; m != nil {
			printEnvelope(f, p+".msg.envelope", m.Envelope)
			printBS(f, p+".msg.body", m.BodyStructure)
			f.n(p+".msg.numlines", m.NumLines)
		} else {
			f.s(p+".msg", "nil")
		}
		if b.Text != nil {
			f.n(p+".text.numlines", b.Text.NumLines)
		} else {
			f.s(p+".text", "nil")
		}
		if x := b.Extended; x != nil {
			printDisp(f, p+".ext.disposition", x.Disposition)
			printStrings(f, p+".ext.language", x.Language)
			f.s(p+".ext.location", q(x.Location))
		} else {
			f.s(p+".ext", "nil")
		}
	case *imap.BodyStructureMultiPart:
		f.s(p+".kind", "multi")
		f.n(p+".children.len", len(b.Children))
		for i, ch := range b.Children {
			printBS(f, fmt.Sprintf("%s.children[%d]", p, i), ch)
		}
		f.s(p+".subtype", q(b.Subtype))
		if x := b.Extended; x != nil {
			printParams(f, p+".ext.params", x.Params)
			printDisp(f, p+".ext.disposition", x.Disposition)
			printStrings(f, p+".ext.language", x.Language)
			f.s(p+".ext.location", q(x.Location))
		} else {
			f.s(p+".ext", "nil")
		}
	case nil:
		f.s(p, "nil")
	default:
		f.s(p, fmt.Sprintf("?%T", bs))
	}
}

// ---------- sections ----------

func wireSection(s *imap.FetchItemBodySection) *imap.FetchItemBodySection {
	c := *s
	c.Peek = false
	if s.Partial != nil {
		c.Partial = &imap.SectionPartial{Offset: s.Partial.Offset}
	}
	return &c
}

func printSection(f *flat, p string, s *imap.FetchItemBodySection) {
	if s == nil {
		f.s(p, "nil")
		return
	}
	f.s(p+".specifier", string(s.Specifier))
	printPart(f, p+".part", s.Part)
	printStrings(f, p+".fields", s.HeaderFields)
	printStrings(f, p+".fieldsnot", s.HeaderFieldsNot)
	if s.Partial == nil {
		f.s(p+".partial", "nil")
	} else {
		f.s(p+".partial", fmt.Sprintf("offset=%d size=%d", s.Partial.Offset, s.Partial.Size))
	}
	f.n(p+".peek", s.Peek)
}

func printBinSection(f *flat, p string, s *imap.FetchItemBinarySection, wire bool) {
	if s == nil {
		f.s(p, "nil")
		return
	}
	printPart(f, p+".part", s.Part)
	if wire {
		f.s(p+".partial", "nil")
		f.n(p+".peek", false)
		return
	}
	if s.Partial == nil {
		f.s(p+".partial", "nil")
	} else {
		f.s(p+".partial", fmt.Sprintf("offset=%d size=%d", s.Partial.Offset, s.Partial.Size))
	}
	f.n(p+".peek", s.Peek)
}

// printPayload prints a literal by length, hash and a short prefix: byte identity.
func printPayload(f *flat, p string, b []byte) {
	f.n(p+".len", len(b))
	f.s(p+".sum", fmt.Sprintf("%016x", fnv64(b)))
	n := len(b)
	if n > 24 {
		n = 24
	}
	f.s(p+".head", strconv.QuoteToASCII(string(b[:n])))
}

func fnv64(b []byte) uint64 {
	h := uint64(14695981039346656037)
	for _, c := range b {
		h ^= uint64(c)
		h *= 1099511628211
	}
	return h
}

// ---------- LIST / STATUS / SELECT ----------

func printAttrs(f *flat, p string, l []imap.MailboxAttr) {
	f.n(p+".len", len(l))
	for i, a := range l {
		f.s(fmt.Sprintf("%s[%d]", p, i), strings.ToLower(string(a)))
	}
}

// printStatus prints the items selected by o (what STATUS can carry for that request).
func printStatus(f *flat, p string, d *imap.StatusData, o *imap.StatusOptions) {
	if d == nil {
		f.s(p, "nil")
		return
	}
	f.s(p+".mailbox", q(foldInbox(d.Mailbox)))
	u32 := func(name string, on bool, v *uint32) {
		if !on {
			return
		}
		if v == nil {
			f.s(p+"."+name, "nil")
		} else {
			f.n(p+"."+name, *v)
		}
	}
	i64 := func(name string, on bool, v *int64) {
		if !on {
			return
		}
		if v == nil {
			f.s(p+"."+name, "nil")
		} else {
			f.n(p+"."+name, *v)
		}
	}
	u32("messages", o.NumMessages, d.NumMessages)
	if o.UIDNext {
		f.n(p+".uidnext", d.UIDNext)
	}
	if o.UIDValidity {
		f.n(p+".uidvalidity", d.UIDValidity)
	}
	u32("unseen", o.NumUnseen, d.NumUnseen)
	u32("deleted", o.NumDeleted, d.NumDeleted)
	i64("size", o.Size, d.Size)
	if o.AppendLimit {
		if d.AppendLimit == nil || *d.AppendLimit == ^uint32(0) {
			f.s(p+".appendlimit", "nil-or-max")
		} else {
			f.n(p+".appendlimit", *d.AppendLimit)
		}
	}
	i64("deletedstorage", o.DeletedStorage, d.DeletedStorage)
}

// printStatusUnrequested prints what the client delivered for items that were NOT requested:
// they must be absent.
func printStatusUnrequested(f *flat, p string, d *imap.StatusData, o *imap.StatusOptions) {
	if d == nil {
		return
	}
	chk := func(name string, on bool, present bool) {
		if !on && present {
			f.s(p+".unrequested."+name, "present")
		}
	}
	chk("messages", o.NumMessages, d.NumMessages != nil)
	chk("uidnext", o.UIDNext, d.UIDNext != 0)
	chk("uidvalidity", o.UIDValidity, d.UIDValidity != 0)
	chk("unseen", o.NumUnseen, d.NumUnseen != nil)
	chk("deleted", o.NumDeleted, d.NumDeleted != nil)
	chk("size", o.Size, d.Size != nil)
	chk("appendlimit", o.AppendLimit, d.AppendLimit != nil)
	chk("deletedstorage", o.DeletedStorage, d.DeletedStorage != nil)
}

// printList prints a LIST item; so is the STATUS request of the LIST command (nil: none).
// supplied: the value is what the backend handed to the writer (its Status travels only when
// requested, and only the requested items of it); otherwise it is what the client delivered
// (anything beyond the request is reported).
func printList(f *flat, p string, d *imap.ListData, so *imap.StatusOptions, supplied bool) {
	if d == nil {
		f.s(p, "nil")
		return
	}
	printAttrs(f, p+".attrs", d.Attrs)
	f.n(p+".delim", int(d.Delim))
	f.s(p+".mailbox", q(foldInbox(d.Mailbox)))
	if d.ChildInfo == nil {
		f.s(p+".childinfo", "nil")
	} else {
		f.n(p+".childinfo.subscribed", d.ChildInfo.Subscribed)
	}
	f.s(p+".oldname", q(foldInbox(d.OldName)))
	switch {
	case d.Status == nil:
		f.s(p+".status", "nil")
	case so == nil && supplied:
		f.s(p+".status", "nil") // not requested: does not travel
	case so == nil:
		f.s(p+".status", "present-unrequested")
	default:
		printStatus(f, p+".status", d.Status, so)
		if !supplied {
			printStatusUnrequested(f, p+".status", d.Status, so)
		}
	}
}

func printSelect(f *flat, p string, d *imap.SelectData, supplied bool) {
	printFlags(f, p+".flags", d.Flags)
	printFlags(f, p+".permanentflags", d.PermanentFlags)
	f.n(p+".nummessages", d.NumMessages)
	f.n(p+".uidnext", d.UIDNext)
	f.n(p+".uidvalidity", d.UIDValidity)
	printList(f, p+".list", d.List, nil, supplied)
}

// ---------- SEARCH ----------

// wireSearch: what reaches the client of supplied search data. esearch: response form.
func wireSearch(d *imap.SearchData, o *imap.SearchOptions, esearch bool, uidCmd bool) *imap.SearchData {
	out := &imap.SearchData{}
	if !esearch {
		out.All = d.All
		return out
	}
	out.UID = d.UID
	if o.ReturnAll && setString(d.All) != "" {
		out.All = d.All
	}
	if o.ReturnMin {
		out.Min = d.Min
	}
	if o.ReturnMax {
		out.Max = d.Max
	}
	if o.ReturnCount {
		out.Count = d.Count
	}
	return out
}

func printSearch(f *flat, p string, d *imap.SearchData) {
	f.n(p+".uid", d.UID)
	s := setString(d.All)
	f.s(p+".all", s)
	if s != "" {
		f.s(p+".all.kind", setKind(d.All))
	}
	f.n(p+".min", d.Min)
	f.n(p+".max", d.Max)
	f.n(p+".count", d.Count)
}

// ---------- NAMESPACE ----------

func printNamespaces(f *flat, p string, l []imap.NamespaceDescriptor) {
	f.n(p+".len", len(l))
	for i, d := range l {
		f.s(fmt.Sprintf("%s[%d].prefix", p, i), q(d.Prefix))
		f.n(fmt.Sprintf("%s[%d].delim", p, i), int(d.Delim))
	}
}
