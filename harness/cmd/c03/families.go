package main

func buildFamilies(thorough bool) {
	buildFetchFamilies(thorough)
	buildMiscFamilies(thorough)
}
