package main

// Generators of the FETCH families.

import (
	"fmt"
	"strings"
	"time"

	imap "github.com/emersion/go-imap/v2"
)

// S: the special-string alphabet (see ruleText for the derivation).
var S = []string{"", "a", "a b", `a"b`, `a\b`, "a\r\nb", "é", "{3}", "(", ")", "NIL", "nil", strings.Repeat("a", 4097)}

// SMsgID: the alphabet of message-id fields (RFC 5322 msg-id without the angle brackets).
var SMsgID = []string{"", "a@b", "a.b@c.d", "a@[1.2.3.4]", strings.Repeat("a", 4090) + "@b"}

func sName(s string) string { return q(s) }

// looksLikeEncodedWord: RFC 2047 look-alikes are outside the domain of text fields.
func looksLikeEncodedWord(s string) bool {
	i := strings.Index(s, "=?")
	return i >= 0 && strings.Contains(s[i:], "?=")
}

func init() {
	for _, s := range S {
		if looksLikeEncodedWord(s) {
			panic("alphabet S contains an RFC 2047 look-alike")
		}
	}
}

var (
	tFixed = time.Date(2024, 2, 29, 23, 59, 59, 999999999, time.FixedZone("", 5*3600+30*60))
	times  = []time.Time{
		time.Date(1970, 1, 1, 0, 0, 0, 0, time.UTC),
		tFixed,
		time.Date(1999, 12, 31, 12, 0, 0, 1, time.FixedZone("", -12*3600)),
		time.Date(2038, 1, 19, 3, 14, 8, 0, time.FixedZone("", 14*3600)),
		time.Date(2001, 1, 5, 4, 5, 6, 0, time.UTC), // one-digit day: the "_2" layout pads with a space
		time.Date(9999, 12, 31, 23, 59, 59, 0, time.UTC),
	}
)

func addr(n int) imap.Address {
	return imap.Address{Name: fmt.Sprintf("N%d", n), Mailbox: fmt.Sprintf("m%d", n), Host: fmt.Sprintf("h%d.example", n)}
}

func addrList(variant, base int) []imap.Address {
	switch variant {
	case 0:
		return nil
	case 1:
		return []imap.Address{}
	case 2:
		return []imap.Address{addr(base)}
	default:
		return []imap.Address{addr(base), addr(base + 1)}
	}
}

func fullEnvelope() *imap.Envelope {
	return &imap.Envelope{
		Date: tFixed, Subject: "subject",
		From: addrList(2, 10), Sender: addrList(2, 20), ReplyTo: addrList(3, 30), To: addrList(3, 40), Cc: addrList(3, 50), Bcc: addrList(2, 60),
		InReplyTo: []string{"r1@h", "r2@h"}, MessageID: "id@h",
	}
}

// ---------- body structure trees ----------

type shape struct {
	kind byte // t: text part, b: non-text single part, m: message/rfc822 wrapper, p: multipart
	kids []*shape
}

func (s *shape) String() string {
	switch s.kind {
	case 't', 'b':
		return string(s.kind)
	}
	var sb strings.Builder
	sb.WriteByte(s.kind)
	sb.WriteByte('(')
	for _, k := range s.kids {
		sb.WriteString(k.String())
	}
	sb.WriteByte(')')
	return sb.String()
}

var shapeMemo = map[int][]*shape{}

// shapesExactly: every tree with exactly n nodes.
func shapesExactly(n int) []*shape {
	if n <= 0 {
		return nil
	}
	if l, ok := shapeMemo[n]; ok {
		return l
	}
	var out []*shape
	if n == 1 {
		out = []*shape{{kind: 't'}, {kind: 'b'}}
	} else {
		for _, c := range shapesExactly(n - 1) {
			out = append(out, &shape{kind: 'm', kids: []*shape{c}})
		}
		for _, c := range shapesExactly(n - 1) {
			out = append(out, &shape{kind: 'p', kids: []*shape{c}})
		}
		for a := 1; a <= n-2; a++ {
			for _, x := range shapesExactly(a) {
				for _, y := range shapesExactly(n - 1 - a) {
					out = append(out, &shape{kind: 'p', kids: []*shape{x, y}})
				}
			}
		}
		for a := 1; a <= n-3; a++ {
			for b := 1; a+b <= n-2; b++ {
				c := n - 1 - a - b
				for _, x := range shapesExactly(a) {
					for _, y := range shapesExactly(b) {
						for _, z := range shapesExactly(c) {
							out = append(out, &shape{kind: 'p', kids: []*shape{x, y, z}})
						}
					}
				}
			}
		}
	}
	shapeMemo[n] = out
	return out
}

// deco: presence of the optional body-structure fields, applied to every node.
type deco struct {
	params int  // 0 nil, 1 empty map, 2 one pair, 3 two pairs (one with an upper-case name)
	disp   int  // 0 nil, 1 value + nil params, 2 value + params
	lang   int  // 0 nil, 1 empty, 2 one, 3 two
	loc    int  // 0 "", 1 set
	env    int  // message wrappers: 0 nil envelope, 1 minimal, 2 full
	rot    bool // the variants advance from node to node (see deco.at)
}

func (d deco) String() string {
	return fmt.Sprintf("params=%d disp=%d lang=%d loc=%d env=%d rotating-per-node=%v", d.params, d.disp, d.lang, d.loc, d.env, d.rot)
}

func decoParams(v int, multi bool) map[string]string {
	switch v {
	case 0:
		return nil
	case 1:
		return map[string]string{}
	case 2:
		if multi {
			return map[string]string{"boundary": "b1"}
		}
		return map[string]string{"charset": "utf-8"}
	default:
		if multi {
			return map[string]string{"boundary": "b 2", "Type": "text/html"}
		}
		return map[string]string{"charset": "us-ascii", "Format": "flowed"}
	}
}

func decoDisp(v int) *imap.BodyStructureDisposition {
	switch v {
	case 0:
		return nil
	case 1:
		return &imap.BodyStructureDisposition{Value: "inline"}
	default:
		return &imap.BodyStructureDisposition{Value: "attachment", Params: map[string]string{"filename": "f n.txt", "Size": "12"}}
	}
}

func decoLang(v int) []string {
	switch v {
	case 0:
		return nil
	case 1:
		return []string{}
	case 2:
		return []string{"en"}
	default:
		return []string{"en", "fr-CA"}
	}
}

func decoLoc(v int) string {
	if v == 0 {
		return ""
	}
	return "http://example.org/a b"
}

func decoEnv(v int) *imap.Envelope {
	switch v {
	case 0:
		return nil
	case 1:
		return &imap.Envelope{Subject: "inner"}
	default:
		return fullEnvelope()
	}
}

var encodings = []string{"", "7bit", "BASE64", "quoted-printable", "8bit"}

// rotate: in "rotated" mode the presence variants advance from node to node, so that siblings and
// parents differ in which optional fields they carry.
var rotateDeco bool

func (d deco) at(n int) deco {
	if !d.rot {
		return d
	}
	return deco{params: (d.params + n) % 4, disp: (d.disp + n) % 3, lang: (d.lang + n/2) % 4, loc: (d.loc + n) % 2, env: (d.env + n) % 3, rot: true}
}

// build turns a shape into a body structure; ext: attach extension data to every node.
func build(s *shape, d0 deco, ext bool, counter *int) imap.BodyStructure {
	*counter++
	n := *counter
	d := d0.at(n - 1)
	switch s.kind {
	case 't', 'b', 'm':
		sp := &imap.BodyStructureSinglePart{
			Params:   decoParams(d.params, false),
			Encoding: encodings[n%len(encodings)],
			Size:     uint32(n * 100),
		}
		if n%2 == 0 {
			sp.ID = fmt.Sprintf("<id%d@h>", n)
		}
		if n%3 == 0 {
			sp.Description = fmt.Sprintf("part %d", n)
		}
		switch s.kind {
		case 't':
			sp.Type, sp.Subtype = "text", "plain"
			if n%2 == 1 {
				sp.Type, sp.Subtype = "TEXT", "html"
			}
			sp.Text = &imap.BodyStructureText{NumLines: int64(n)}
		case 'b':
			sp.Type, sp.Subtype = "application", "octet-stream"
		case 'm':
			sp.Type, sp.Subtype = "message", "rfc822"
			if n%2 == 1 {
				sp.Type, sp.Subtype = "MESSAGE", "RFC822"
			}
			sp.MessageRFC822 = &imap.BodyStructureMessageRFC822{
				Envelope:      decoEnv(d.env),
				BodyStructure: build(s.kids[0], d0, ext, counter),
				NumLines:      int64(n + 7),
			}
		}
		if ext {
			sp.Extended = &imap.BodyStructureSinglePartExt{Disposition: decoDisp(d.disp), Language: decoLang(d.lang), Location: decoLoc(d.loc)}
		}
		return sp
	default:
		mp := &imap.BodyStructureMultiPart{Subtype: []string{"mixed", "alternative", "RELATED"}[n%3]}
		for _, k := range s.kids {
			mp.Children = append(mp.Children, build(k, d0, ext, counter))
		}
		if ext {
			mp.Extended = &imap.BodyStructureMultiPartExt{Params: decoParams(d.params, true), Disposition: decoDisp(d.disp), Language: decoLang(d.lang), Location: decoLoc(d.loc)}
		}
		return mp
	}
}

// ---------- sections ----------

func sectionShape(k int) *imap.FetchItemBodySection {
	switch k {
	case 0:
		return &imap.FetchItemBodySection{}
	case 1:
		return &imap.FetchItemBodySection{Part: []int{1}}
	case 2:
		return &imap.FetchItemBodySection{Part: []int{1, 2}}
	case 3:
		return &imap.FetchItemBodySection{Specifier: imap.PartSpecifierHeader}
	case 4:
		return &imap.FetchItemBodySection{Specifier: imap.PartSpecifierText}
	case 5:
		return &imap.FetchItemBodySection{Part: []int{2}, Specifier: imap.PartSpecifierMIME}
	case 6:
		return &imap.FetchItemBodySection{Part: []int{1}, Specifier: imap.PartSpecifierHeader}
	case 7:
		return &imap.FetchItemBodySection{Part: []int{1, 2, 3}, Specifier: imap.PartSpecifierText}
	case 8:
		return &imap.FetchItemBodySection{Specifier: imap.PartSpecifierHeader, HeaderFields: []string{"Subject"}}
	case 9:
		return &imap.FetchItemBodySection{Specifier: imap.PartSpecifierHeader, HeaderFields: []string{"From", "To"}}
	case 10:
		return &imap.FetchItemBodySection{Specifier: imap.PartSpecifierHeader, HeaderFieldsNot: []string{"X-A"}}
	case 11:
		return &imap.FetchItemBodySection{Part: []int{4}, Specifier: imap.PartSpecifierHeader, HeaderFieldsNot: []string{"a", "b"}}
	default:
		return &imap.FetchItemBodySection{Part: []int{2147483647}, Specifier: imap.PartSpecifierHeader, HeaderFields: []string{"Date"}}
	}
}

const nSectionShapes = 13

func partialVariant(k int) *imap.SectionPartial {
	switch k {
	case 0:
		return nil
	case 1:
		return &imap.SectionPartial{Offset: 0, Size: 10}
	case 2:
		return &imap.SectionPartial{Offset: 1, Size: 0}
	case 3:
		return &imap.SectionPartial{Offset: 4294967295, Size: 5}
	default:
		return &imap.SectionPartial{Offset: 4294967296, Size: 1} // RFC 9051: number64
	}
}

const nPartials = 5

var litSizes = []int{0, 1, 4095, 4096, 4097, 70000}

func mkSection(shapeK, partialK int, peek bool) *imap.FetchItemBodySection {
	s := sectionShape(shapeK)
	s.Partial = partialVariant(partialK)
	s.Peek = peek
	return s
}

// ---------- the families ----------

func buildFetchFamilies(thorough bool) {
	for n := 1; n <= 7; n++ {
		shapesExactly(n) // fill the memo: generators run concurrently later
	}
	flagsBenign := []imap.Flag{imap.FlagSeen, "$Forwarded", "kw"}

	// --- attribute subsets x request kind x flavour x API x item order ---
	{
		type spec struct {
			mask, bsReq     int
			uidCmd, collect bool
			order           int // 0: canonical, 1: reversed, 2..: rotated left by order-1
		}
		var specs []spec
		for bsReq := 0; bsReq < 3; bsReq++ {
			for _, uidCmd := range []bool{false, true} {
				for _, collect := range []bool{false, true} {
					orders := 2
					if thorough {
						orders = 9
					}
					for order := 0; order < orders; order++ {
						for mask := 0; mask < 256; mask++ {
							if uidCmd && mask&1 == 0 {
								continue
							}
							specs = append(specs, spec{mask, bsReq, uidCmd, collect, order})
						}
					}
				}
			}
		}
		get := func(i int) *fetchCase {
			sp := specs[i]
			cs := &fetchCase{uidCmd: sp.uidCmd, bsReq: sp.bsReq, collect: sp.collect, label: fmt.Sprintf("attribute mask %08b item order variant %d", sp.mask, sp.order)}
			var its []fitem
			add := func(bit int, it fitem) {
				if sp.mask&(1<<bit) != 0 {
					its = append(its, it)
				}
			}
			add(1, fitem{kind: kFlags, flags: flagsBenign})
			add(2, fitem{kind: kDate, t: tFixed})
			add(3, fitem{kind: kSize, size: 4294967296})
			add(4, fitem{kind: kEnv, env: fullEnvelope()})
			if sp.bsReq != 0 {
				c := 0
				its = append(its, fitem{kind: kBS, bs: build(shapesExactly(4)[20], deco{params: 2, disp: 2, lang: 2, loc: 1, env: 2}, sp.bsReq == 2, &c)})
			}
			add(5, fitem{kind: kSection, sec: mkSection(9, 1, true), pay: payloadSpec{37, 1}})
			add(6, fitem{kind: kBinary, bin: &imap.FetchItemBinarySection{Part: []int{1, 2}}, pay: payloadSpec{19, 2}})
			add(7, fitem{kind: kBinSize, bin: &imap.FetchItemBinarySection{Part: []int{1}}, bsize: 42})
			if sp.order == 1 {
				for a, b := 0, len(its)-1; a < b; a, b = a+1, b-1 {
					its[a], its[b] = its[b], its[a]
				}
			} else if sp.order > 1 && len(its) > 0 {
				r := (sp.order - 1) % len(its)
				its = append(append([]fitem{}, its[r:]...), its[:r]...)
			}
			if sp.mask&1 != 0 {
				its = append([]fitem{{kind: kUID}}, its...) // UID first (before any literal)
			}
			cs.items = its
			return cs
		}
		regFetch("fetch-attrs", len(specs), 32, get, func(i int) bool { return specs[i].mask&0xf0 != 0 })
	}

	// --- many messages in one command (the command's message channel holds 128) ---
	regFetch("fetch-many", 300, 300, func(i int) *fetchCase {
		cs := &fetchCase{label: "one of 300 messages of one FETCH", items: []fitem{{kind: kFlags, flags: flagsBenign}, {kind: kSize, size: int64(i)}}}
		if i%50 == 7 {
			cs.items = append(cs.items, fitem{kind: kSection, sec: mkSection(0, 0, false), pay: payloadSpec{4097, 1}})
		}
		return cs
	}, nil)

	// --- scalar boundary values ---
	{
		var cases []*fetchCase
		for _, u := range []imap.UID{1, 2, 2147483648, 4294967295} {
			cases = append(cases, &fetchCase{items: []fitem{{kind: kUID, uid: u}}, label: "UID value in a FETCH by sequence number"})
			cases = append(cases, &fetchCase{uidCmd: true, items: []fitem{{kind: kUID, uid: u}, {kind: kFlags}}, label: "UID value in UID FETCH"})
		}
		for _, s := range []uint32{1, 2, 2147483648, 4294967295} {
			cases = append(cases, &fetchCase{seq: s, items: []fitem{{kind: kFlags, flags: flagsBenign}}, label: "sequence number"})
		}
		for _, n := range []int64{0, 1, 2147483647, 4294967295, 4294967296, 9223372036854775807} {
			cases = append(cases, &fetchCase{items: []fitem{{kind: kSize, size: n}}, label: "RFC822.SIZE"})
		}
		for _, t := range times {
			cases = append(cases, &fetchCase{items: []fitem{{kind: kDate, t: t}}, label: "INTERNALDATE"})
		}
		atoms := []imap.Flag{imap.FlagSeen, imap.FlagAnswered, imap.FlagFlagged, imap.FlagDeleted, imap.FlagDraft, "\\Recent", "$Forwarded", "$MDNSent", "$Junk", "$NotJunk", "$Phishing", "$Important",
			"\\sEEN", "$JUNK", "\\Custom", "a", "NIL", "nil", "kw.with-punct_1"}
		cases = append(cases, &fetchCase{items: []fitem{{kind: kFlags, flags: nil}}, label: "FLAGS nil"})
		cases = append(cases, &fetchCase{items: []fitem{{kind: kFlags, flags: []imap.Flag{}}}, label: "FLAGS empty"})
		for _, a := range atoms {
			cases = append(cases, &fetchCase{items: []fitem{{kind: kFlags, flags: []imap.Flag{a}}}, label: "FLAGS one"})
		}
		for _, a := range atoms {
			for _, b := range atoms {
				cases = append(cases, &fetchCase{items: []fitem{{kind: kFlags, flags: []imap.Flag{a, b}}}, label: "FLAGS two"})
			}
		}
		var many []imap.Flag
		for k := 0; k < 60; k++ {
			many = append(many, imap.Flag(fmt.Sprintf("kw%d", k)))
		}
		cases = append(cases, &fetchCase{items: []fitem{{kind: kFlags, flags: many}}, label: "FLAGS sixty"})
		for _, n := range []uint32{0, 1, 4294967295} {
			for _, part := range [][]int{nil, {1}, {1, 2, 3}, {2147483647}} {
				cases = append(cases, &fetchCase{items: []fitem{{kind: kBinSize, bin: &imap.FetchItemBinarySection{Part: part}, bsize: n}}, label: "BINARY.SIZE"})
			}
		}
		regFetch("fetch-scalars", len(cases), 16, func(i int) *fetchCase { return cases[i] }, nil)
	}

	// --- item order: every permutation of four items, one of them a literal ---
	{
		base := []fitem{{kind: kFlags, flags: flagsBenign}, {kind: kSize, size: 7}, {kind: kSection, sec: mkSection(0, 0, false), pay: payloadSpec{4097, 1}}, {kind: kEnv, env: fullEnvelope()}}
		var perms [][]int
		var rec func(cur []int, used int)
		rec = func(cur []int, used int) {
			if len(cur) == 4 {
				perms = append(perms, append([]int{}, cur...))
				return
			}
			for k := 0; k < 4; k++ {
				if used&(1<<k) == 0 {
					rec(append(cur, k), used|1<<k)
				}
			}
		}
		rec(nil, 0)
		get := func(i int) *fetchCase {
			p := perms[i%len(perms)]
			cs := &fetchCase{uidCmd: i >= len(perms), label: fmt.Sprintf("item order %v", p)}
			if cs.uidCmd {
				cs.items = append(cs.items, fitem{kind: kUID})
			}
			for _, k := range p {
				cs.items = append(cs.items, base[k])
			}
			return cs
		}
		regFetch("fetch-order", 2*len(perms), 8, get, nil)
	}

	// --- body sections ---
	{
		type spec struct {
			secs  [][3]int // shape, partial, size index
			pat   int
			label string
		}
		var specs []spec
		for sh := 0; sh < nSectionShapes; sh++ {
			for pa := 0; pa < nPartials; pa++ {
				for sz := range litSizes {
					for pat := 0; pat < 4; pat++ {
						specs = append(specs, spec{[][3]int{{sh, pa, sz}}, pat, "one section"})
					}
				}
			}
		}
		pairs := [][4]int{ // shape1, partial1, shape2, partial2
			{0, 0, 0, 1}, {0, 1, 0, 2}, {0, 2, 0, 2}, {0, 3, 0, 1}, // same section, differing only in the partial origin (or not at all)
			{0, 0, 3, 0}, {3, 0, 4, 0}, {8, 0, 9, 0}, {8, 1, 8, 2}, {1, 0, 6, 0}, {10, 0, 11, 2}, {12, 3, 2, 0},
		}
		for _, pr := range pairs {
			for s1 := range litSizes {
				for s2 := range litSizes {
					specs = append(specs, spec{[][3]int{{pr[0], pr[1], s1}, {pr[2], pr[3], s2}}, (s1 + s2) % 4, "two sections"})
				}
			}
		}
		if thorough {
			small := []int{0, 1, 4} // sizes 0, 1, 4097
			for a := 0; a < nSectionShapes; a++ {
				for b := 0; b < nSectionShapes; b++ {
					for pa := 0; pa < nPartials; pa++ {
						for pb := 0; pb < nPartials; pb++ {
							for _, s1 := range small {
								for _, s2 := range small {
									specs = append(specs, spec{[][3]int{{a, pa, s1}, {b, pb, s2}}, (a + b + pa + pb) % 4, "two sections (every shape pair)"})
								}
							}
						}
					}
				}
			}
		}
		triples := [][6]int{{0, 0, 3, 0, 4, 0}, {0, 1, 0, 2, 0, 0}, {9, 0, 11, 1, 5, 2}}
		for _, tr := range triples {
			for s1 := range litSizes {
				for s2 := range litSizes {
					for s3 := range litSizes {
						if !thorough && (s1+s2+s3)%2 == 1 && s1 != s2 {
							continue // quick: half of the size triples
						}
						specs = append(specs, spec{[][3]int{{tr[0], tr[1], s1}, {tr[2], tr[3], s2}, {tr[4], tr[5], s3}}, (s1 + s2 + s3) % 4, "three sections"})
					}
				}
			}
		}
		get := func(i int) *fetchCase {
			sp := specs[i]
			cs := &fetchCase{label: sp.label, uidCmd: i%3 == 0}
			if cs.uidCmd {
				cs.items = append(cs.items, fitem{kind: kUID})
			}
			for k, s := range sp.secs {
				cs.items = append(cs.items, fitem{kind: kSection, sec: mkSection(s[0], s[1], (i+k)%2 == 0), pay: payloadSpec{litSizes[s[2]], (sp.pat + k) % 4}})
			}
			if i%2 == 0 {
				cs.items = append(cs.items, fitem{kind: kFlags, flags: flagsBenign}) // something after the last literal
			}
			return cs
		}
		regFetch("fetch-sections", len(specs), 8, get, nil)

		// header-field names from S: one name, then all pairs
		var names [][]string
		for _, a := range S {
			names = append(names, []string{a})
		}
		for _, a := range S {
			for _, b := range S {
				names = append(names, []string{a, b})
			}
		}
		getN := func(i int) *fetchCase {
			nm := names[i%len(names)]
			not := i >= len(names)
			sec := &imap.FetchItemBodySection{Specifier: imap.PartSpecifierHeader}
			if not {
				sec.HeaderFieldsNot = nm
				sec.Part = []int{3}
			} else {
				sec.HeaderFields = nm
			}
			return &fetchCase{label: "header field names from S", items: []fitem{{kind: kSection, sec: sec, pay: payloadSpec{5, 1}}}}
		}
		regFetch("fetch-section-names", 2*len(names), 16, getN, nil)
	}

	// --- binary sections ---
	{
		type spec struct {
			part    []int
			sz, pat int
			v       int
		}
		var specs []spec
		for _, part := range [][]int{nil, {1}, {1, 2, 3}, {2147483647}} {
			for sz := range litSizes {
				for pat := 0; pat < 4; pat++ {
					for v := 0; v < 2; v++ {
						specs = append(specs, spec{part, sz, pat, v})
					}
				}
			}
		}
		get := func(i int) *fetchCase {
			sp := specs[i]
			bin := &imap.FetchItemBinarySection{Part: sp.part}
			if sp.v == 1 {
				bin.Peek = true
				bin.Partial = &imap.SectionPartial{Offset: 3, Size: 9}
			}
			cs := &fetchCase{label: "binary section", items: []fitem{{kind: kBinary, bin: bin, pay: payloadSpec{litSizes[sp.sz], sp.pat}}}}
			if i%2 == 1 {
				cs.items = append(cs.items, fitem{kind: kBinary, bin: &imap.FetchItemBinarySection{Part: []int{9}}, pay: payloadSpec{litSizes[(sp.sz+1)%len(litSizes)], 2}}, fitem{kind: kSize, size: 1})
			}
			return cs
		}
		regFetch("fetch-binary", len(specs), 8, get, nil)
	}

	// --- envelopes: presence shapes ---
	{
		// field variants: date 2, subject 2, six address lists 4 each, in-reply-to 4, message-id 2
		radix := []int{2, 2, 4, 4, 4, 4, 4, 4, 4, 2}
		total := 1
		for _, r := range radix {
			total *= r
		}
		mk := func(d []int) *imap.Envelope {
			e := &imap.Envelope{}
			if d[0] == 1 {
				e.Date = tFixed
			}
			if d[1] == 1 {
				e.Subject = "s u"
			}
			e.From = addrList(d[2], 10)
			e.Sender = addrList(d[3], 20)
			e.ReplyTo = addrList(d[4], 30)
			e.To = addrList(d[5], 40)
			e.Cc = addrList(d[6], 50)
			e.Bcc = addrList(d[7], 60)
			switch d[8] {
			case 1:
				e.InReplyTo = []string{}
			case 2:
				e.InReplyTo = []string{"r1@h"}
			case 3:
				e.InReplyTo = []string{"r1@h", "r2@h.example"}
			}
			if d[9] == 1 {
				e.MessageID = "id@h"
			}
			return e
		}
		decode := func(i int) []int {
			d := make([]int, len(radix))
			for k := len(radix) - 1; k >= 0; k-- {
				d[k] = i % radix[k]
				i /= radix[k]
			}
			return d
		}
		var idx []int
		if true { // the full product is cheap enough for both tiers
			for i := 0; i < total; i++ {
				idx = append(idx, i)
			}
		} else {
			// quick: every pair of fields takes every pair of values (others at each of two
			// backgrounds: all-absent and all-two-entries), plus every 37th point of the product
			seen := map[int]bool{}
			enc := func(d []int) int {
				v := 0
				for k := range radix {
					v = v*radix[k] + d[k]
				}
				return v
			}
			for _, bg := range []int{0, 1} {
				for a := 0; a < len(radix); a++ {
					for b := a + 1; b < len(radix); b++ {
						for va := 0; va < radix[a]; va++ {
							for vb := 0; vb < radix[b]; vb++ {
								d := make([]int, len(radix))
								if bg == 1 {
									for k := range d {
										d[k] = radix[k] - 1
									}
								}
								d[a], d[b] = va, vb
								if v := enc(d); !seen[v] {
									seen[v] = true
									idx = append(idx, v)
								}
							}
						}
					}
				}
			}
			for i := 0; i < total; i += 37 {
				if !seen[i] {
					seen[i] = true
					idx = append(idx, i)
				}
			}
		}
		get := func(i int) *fetchCase {
			d := decode(idx[i])
			return &fetchCase{label: fmt.Sprintf("envelope presence %v", d), items: []fitem{{kind: kEnv, env: mk(d)}}}
		}
		regFetch("fetch-envelope-shapes", len(idx), 64, get, func(i int) bool { return idx[i] != 0 })
		// the nil envelope
		regFetch("fetch-envelope-nil", 1, 1, func(i int) *fetchCase {
			return &fetchCase{label: "nil *Envelope", items: []fitem{{kind: kEnv, env: nil}}}
		}, nil)
	}

	// --- envelopes: strings ---
	{
		type field struct {
			name string
			alph []string
			set  func(e *imap.Envelope, s string)
		}
		fields := []field{
			{"subject", S, func(e *imap.Envelope, s string) { e.Subject = s }},
			{"from[0].name", S, func(e *imap.Envelope, s string) { e.From[0].Name = s }},
			{"from[0].mailbox", S, func(e *imap.Envelope, s string) { e.From[0].Mailbox = s }},
			{"from[0].host", S, func(e *imap.Envelope, s string) { e.From[0].Host = s }},
			{"cc[1].name", S, func(e *imap.Envelope, s string) { e.Cc[1].Name = s }},
			{"bcc[0].host", S, func(e *imap.Envelope, s string) { e.Bcc[0].Host = s }},
			{"inreplyto[1]", SMsgID[1:], func(e *imap.Envelope, s string) { e.InReplyTo[1] = s }},
			{"messageid", SMsgID, func(e *imap.Envelope, s string) { e.MessageID = s }},
		}
		type spec struct {
			f1, s1, f2, s2 int
		}
		var specs []spec
		for f1 := range fields {
			for s1 := range fields[f1].alph {
				specs = append(specs, spec{f1, s1, -1, 0})
			}
		}
		for f1 := range fields {
			for f2 := f1 + 1; f2 < len(fields); f2++ {
				for s1 := range fields[f1].alph {
					for s2 := range fields[f2].alph {
						specs = append(specs, spec{f1, s1, f2, s2})
					}
				}
			}
		}
		get := func(i int) *fetchCase {
			sp := specs[i]
			e := fullEnvelope()
			fields[sp.f1].set(e, fields[sp.f1].alph[sp.s1])
			label := fmt.Sprintf("envelope %s=%s", fields[sp.f1].name, sName(fields[sp.f1].alph[sp.s1]))
			if sp.f2 >= 0 {
				fields[sp.f2].set(e, fields[sp.f2].alph[sp.s2])
				label += fmt.Sprintf(" %s=%s", fields[sp.f2].name, sName(fields[sp.f2].alph[sp.s2]))
			}
			return &fetchCase{label: label, items: []fitem{{kind: kEnv, env: e}}}
		}
		regFetch("fetch-envelope-strings", len(specs), 32, get, nil)
	}

	// --- body structures: every tree x presence of the optional fields ---
	{
		maxNodes := 5
		if thorough {
			maxNodes = 6
		}
		var shapes []*shape
		for n := 1; n <= maxNodes; n++ {
			shapes = append(shapes, shapesExactly(n)...)
		}
		var decosExt, decosPlain []deco
		for p := 0; p < 4; p++ {
			decosPlain = append(decosPlain, deco{params: p, env: p % 3})
			for d := 0; d < 3; d++ {
				for l := 0; l < 4; l++ {
					for lo := 0; lo < 2; lo++ {
						decosExt = append(decosExt, deco{params: p, disp: d, lang: l, loc: lo, env: (p + d + l) % 3})
					}
				}
			}
		}
		// second pass: the same starting points, rotating from node to node
		for _, l := range []*[]deco{&decosPlain, &decosExt} {
			for _, d := range append([]deco{}, (*l)...) {
				d.rot = true
				*l = append(*l, d)
			}
		}
		nPlain := len(shapes) * len(decosPlain)
		nExt := len(shapes) * len(decosExt)
		// thorough: one more layer (7 nodes), BODYSTRUCTURE requests
		var shapes7 []*shape
		var decos7 []deco
		if thorough {
			shapes7 = shapesExactly(7)
			decos7 = decosExt
		}
		n7 := len(shapes7) * len(decos7)
		run.Set("bodystructure_trees_7_nodes", len(shapes7))
		get := func(i int) *fetchCase {
			c := 0
			if i >= nPlain+nExt {
				i -= nPlain + nExt
				sh, d := shapes7[i/len(decos7)], decos7[i%len(decos7)]
				return &fetchCase{bsReq: 2, label: fmt.Sprintf("tree %s %s", sh, d), items: []fitem{{kind: kBS, bs: build(sh, d, true, &c)}}}
			}
			if i < nPlain {
				sh, d := shapes[i/len(decosPlain)], decosPlain[i%len(decosPlain)]
				// the backend may or may not have extension data at hand for a BODY request
				return &fetchCase{bsReq: 1, label: fmt.Sprintf("tree %s %s", sh, d), items: []fitem{{kind: kBS, bs: build(sh, d, i%2 == 0, &c)}}}
			}
			i -= nPlain
			sh, d := shapes[i/len(decosExt)], decosExt[i%len(decosExt)]
			return &fetchCase{bsReq: 2, label: fmt.Sprintf("tree %s %s", sh, d), items: []fitem{{kind: kBS, bs: build(sh, d, true, &c)}}}
		}
		run.Set("bodystructure_trees", len(shapes))
		run.Set("bodystructure_max_nodes", maxNodes)
		regFetch("fetch-bodystructure-trees", nPlain+nExt+n7, 48, get, nil)
	}

	// --- body structures: strings ---
	{
		// fixed tree: multipart( text part , message/rfc822( non-text part ) )
		type tree struct {
			mp    *imap.BodyStructureMultiPart
			text  *imap.BodyStructureSinglePart
			msg   *imap.BodyStructureSinglePart
			inner *imap.BodyStructureSinglePart
		}
		mk := func() *tree {
			t := &tree{}
			t.text = &imap.BodyStructureSinglePart{Type: "text", Subtype: "plain", Params: map[string]string{"charset": "utf-8"}, ID: "<i@h>", Description: "d", Encoding: "8bit", Size: 3,
				Text:     &imap.BodyStructureText{NumLines: 2},
				Extended: &imap.BodyStructureSinglePartExt{Disposition: &imap.BodyStructureDisposition{Value: "inline", Params: map[string]string{"filename": "f"}}, Language: []string{"en"}, Location: "loc"}}
			t.inner = &imap.BodyStructureSinglePart{Type: "application", Subtype: "pdf", Encoding: "base64", Size: 9,
				Extended: &imap.BodyStructureSinglePartExt{}}
			t.msg = &imap.BodyStructureSinglePart{Type: "message", Subtype: "rfc822", Size: 50,
				MessageRFC822: &imap.BodyStructureMessageRFC822{Envelope: &imap.Envelope{Subject: "in"}, BodyStructure: t.inner, NumLines: 4},
				Extended:      &imap.BodyStructureSinglePartExt{}}
			t.mp = &imap.BodyStructureMultiPart{Children: []imap.BodyStructure{t.text, t.msg}, Subtype: "mixed",
				Extended: &imap.BodyStructureMultiPartExt{Params: map[string]string{"boundary": "b"}, Disposition: &imap.BodyStructureDisposition{Value: "inline"}, Language: []string{"en", "fr"}, Location: "l"}}
			return t
		}
		type field struct {
			name    string
			extOnly bool
			set     func(t *tree, s string)
		}
		rekey := func(m map[string]string, old, nw string) {
			v := m[old]
			delete(m, old)
			m[nw] = v
		}
		fields := []field{
			{"text.subtype", false, func(t *tree, s string) { t.text.Subtype = s }},
			{"text.param-name", false, func(t *tree, s string) { rekey(t.text.Params, "charset", s) }},
			{"text.param-value", false, func(t *tree, s string) { t.text.Params["charset"] = s }},
			{"text.id", false, func(t *tree, s string) { t.text.ID = s }},
			{"text.description", false, func(t *tree, s string) { t.text.Description = s }},
			{"text.encoding", false, func(t *tree, s string) { t.text.Encoding = s }},
			{"inner.type", false, func(t *tree, s string) { t.inner.Type = s }},
			{"inner.subtype", false, func(t *tree, s string) { t.inner.Subtype = s }},
			{"msg.envelope.subject", false, func(t *tree, s string) { t.msg.MessageRFC822.Envelope.Subject = s }},
			{"multipart.subtype", false, func(t *tree, s string) { t.mp.Subtype = s }},
			{"text.disposition.value", true, func(t *tree, s string) { t.text.Extended.Disposition.Value = s }},
			{"text.disposition.param-name", true, func(t *tree, s string) { rekey(t.text.Extended.Disposition.Params, "filename", s) }},
			{"text.disposition.param-value", true, func(t *tree, s string) { t.text.Extended.Disposition.Params["filename"] = s }},
			{"text.language[0]", true, func(t *tree, s string) { t.text.Extended.Language[0] = s }},
			{"text.location", true, func(t *tree, s string) { t.text.Extended.Location = s }},
			{"multipart.param-name", true, func(t *tree, s string) { rekey(t.mp.Extended.Params, "boundary", s) }},
			{"multipart.param-value", true, func(t *tree, s string) { t.mp.Extended.Params["boundary"] = s }},
			{"multipart.disposition.value", true, func(t *tree, s string) { t.mp.Extended.Disposition.Value = s }},
			{"multipart.language[1]", true, func(t *tree, s string) { t.mp.Extended.Language[1] = s }},
			{"multipart.location", true, func(t *tree, s string) { t.mp.Extended.Location = s }},
		}
		type spec struct {
			ext            bool
			f1, s1, f2, s2 int
		}
		var specs []spec
		for _, ext := range []bool{false, true} {
			for f1 := range fields {
				if fields[f1].extOnly && !ext {
					continue
				}
				for s1 := range S {
					specs = append(specs, spec{ext, f1, s1, -1, 0})
				}
			}
			for f1 := range fields {
				for f2 := f1 + 1; f2 < len(fields); f2++ {
					if (fields[f1].extOnly || fields[f2].extOnly) && !ext {
						continue
					}
					if ext && !fields[f1].extOnly && !fields[f2].extOnly {
						continue // already covered by the BODY request
					}
					for s1 := range S {
						for s2 := range S {
							if !thorough && (s1*len(S)+s2+f1+f2)%3 != 0 && s1 != s2 {
								continue // quick: a third of the off-diagonal pairs
							}
							specs = append(specs, spec{ext, f1, s1, f2, s2})
						}
					}
				}
			}
		}
		get := func(i int) *fetchCase {
			sp := specs[i]
			t := mk()
			fields[sp.f1].set(t, S[sp.s1])
			label := fmt.Sprintf("bodystructure %s=%s", fields[sp.f1].name, sName(S[sp.s1]))
			if sp.f2 >= 0 {
				fields[sp.f2].set(t, S[sp.s2])
				label += fmt.Sprintf(" %s=%s", fields[sp.f2].name, sName(S[sp.s2]))
			}
			cs := &fetchCase{bsReq: 1, label: label, items: []fitem{{kind: kBS, bs: t.mp}}}
			if sp.ext {
				cs.bsReq = 2
			}
			return cs
		}
		regFetch("fetch-bodystructure-strings", len(specs), 32, get, nil)
	}
}
