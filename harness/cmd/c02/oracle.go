package main

// Semantic equality between the issued call and the call the backend recorded.

import (
	"fmt"
	"sort"
	"strings"
	"sync/atomic"
	"time"

	imap "github.com/emersion/go-imap/v2"
	"github.com/emersion/go-imap/v2/imapserver"
	"github.com/emersion/go-imap/v2/verif/refmodel"
	"github.com/emersion/go-imap/v2/verif/srvkit"
	"github.com/emersion/go-imap/v2/verif/vk"
)

var universe = refmodel.Universe()
var cDiffEvals int64

func q(s string) string { return clip(vk.Q(s), 120) }

// ---- mailbox names: byte-equal modulo INBOX case folding ----

func mboxEq(issued, got string) bool {
	if strings.EqualFold(issued, "INBOX") {
		return strings.EqualFold(got, "INBOX")
	}
	return issued == got
}

// ---- flags: equal as sets modulo case ----

func flagSet(l []imap.Flag) []string {
	m := map[string]bool{}
	for _, f := range l {
		m[strings.ToLower(string(f))] = true
	}
	out := make([]string, 0, len(m))
	for k := range m {
		out = append(out, k)
	}
	sort.Strings(out)
	return out
}

func flagsEq(a, b []imap.Flag) bool {
	return strings.Join(flagSet(a), "\x00") == strings.Join(flagSet(b), "\x00")
}

func attrsEq(a, b []imap.MailboxAttr) bool {
	conv := func(l []imap.MailboxAttr) []imap.Flag {
		var o []imap.Flag
		for _, x := range l {
			o = append(o, imap.Flag(x))
		}
		return o
	}
	return flagsEq(conv(a), conv(b))
}

// ---- number sets: equal as sets ----
//
// Independent of imapnum: a set is a list of (start, stop) pairs where 0 stands for "*"; two sets
// are equal when they contain the same numbers whatever the largest message number M is (probed
// on every endpoint of the enumeration alphabet and its neighbours).

type rng struct{ a, b uint32 }

func rangesOf(ns imap.NumSet) (kind string, searchRes bool, l []rng, ok bool) {
	switch s := ns.(type) {
	case imap.SeqSet:
		for _, r := range s {
			l = append(l, rng{r.Start, r.Stop})
		}
		return "seq", false, l, true
	case imap.UIDSet:
		if imap.IsSearchRes(s) {
			return "uid", true, nil, true
		}
		for _, r := range s {
			l = append(l, rng{uint32(r.Start), uint32(r.Stop)})
		}
		return "uid", false, l, true
	}
	return "", false, nil, false
}

var probeNums = []uint32{1, 2, 3, 4, 5, 6, 7, 1<<32 - 4, 1<<32 - 3, 1<<32 - 2, 1<<32 - 1}

func contains(l []rng, x, max uint32) bool {
	for _, r := range l {
		a, b := r.a, r.b
		if a == 0 {
			a = max
		}
		if b == 0 {
			b = max
		}
		if a > b {
			a, b = b, a
		}
		if a <= x && x <= b {
			return true
		}
	}
	return false
}

func rangesEq(a, b []rng) bool {
	if (len(a) == 0) != (len(b) == 0) {
		return false
	}
	for _, max := range probeNums {
		for _, x := range probeNums {
			if contains(a, x, max) != contains(b, x, max) {
				return false
			}
		}
	}
	return true
}

func numSetEq(issued, got imap.NumSet) bool {
	k1, r1, l1, ok1 := rangesOf(issued)
	k2, r2, l2, ok2 := rangesOf(got)
	if !ok1 || !ok2 || k1 != k2 || r1 != r2 {
		return false
	}
	if r1 {
		return true
	}
	return rangesEq(l1, l2)
}

func setStr(ns imap.NumSet) string {
	k, res, l, ok := rangesOf(ns)
	if !ok {
		return fmt.Sprintf("%#v", ns)
	}
	if res {
		return k + ":$"
	}
	var parts []string
	for _, r := range l {
		e := func(x uint32) string {
			if x == 0 {
				return "*"
			}
			return fmt.Sprint(x)
		}
		if r.a == r.b {
			parts = append(parts, e(r.a))
		} else {
			parts = append(parts, e(r.a)+":"+e(r.b))
		}
	}
	return k + ":" + strings.Join(parts, ",")
}

// ---- STATUS / LIST options ----

func statusStr(o *imap.StatusOptions) string {
	if o == nil {
		return "nil"
	}
	var l []string
	add := func(b bool, n string) {
		if b {
			l = append(l, n)
		}
	}
	add(o.NumMessages, "MESSAGES")
	add(o.UIDNext, "UIDNEXT")
	add(o.UIDValidity, "UIDVALIDITY")
	add(o.NumUnseen, "UNSEEN")
	add(o.NumDeleted, "DELETED")
	add(o.Size, "SIZE")
	add(o.AppendLimit, "APPENDLIMIT")
	add(o.DeletedStorage, "DELETED-STORAGE")
	add(o.HighestModSeq, "HIGHESTMODSEQ")
	return "(" + strings.Join(l, " ") + ")"
}

func listOptStr(o *imap.ListOptions) string {
	if o == nil {
		return "{}"
	}
	var l []string
	add := func(b bool, n string) {
		if b {
			l = append(l, n)
		}
	}
	add(o.SelectSubscribed, "sel:SUBSCRIBED")
	add(o.SelectRemote, "sel:REMOTE")
	add(o.SelectRecursiveMatch, "sel:RECURSIVEMATCH")
	add(o.SelectSpecialUse, "sel:SPECIAL-USE")
	add(o.ReturnSubscribed, "ret:SUBSCRIBED")
	add(o.ReturnChildren, "ret:CHILDREN")
	add(o.ReturnSpecialUse, "ret:SPECIAL-USE")
	if o.ReturnStatus != nil {
		l = append(l, "ret:STATUS"+statusStr(o.ReturnStatus))
	}
	return "{" + strings.Join(l, " ") + "}"
}

// ---- FETCH options: equal as sets of items ----

func partStr(p []int) string {
	var l []string
	for _, x := range p {
		l = append(l, fmt.Sprint(x))
	}
	return strings.Join(l, ".")
}

func partialStr(p *imap.SectionPartial) string {
	if p == nil {
		return ""
	}
	return fmt.Sprintf("<%d.%d>", p.Offset, p.Size)
}

func qlist(l []string) string {
	var o []string
	for _, s := range l {
		o = append(o, q(s))
	}
	return "(" + strings.Join(o, " ") + ")"
}

// fetchItems renders options as a sorted list of canonical item strings. uidCmd adds the UID
// item that UID FETCH implies.
func fetchItems(o *imap.FetchOptions, uidCmd bool) []string {
	var l []string
	if o.BodyStructure != nil {
		if o.BodyStructure.Extended {
			l = append(l, "BODYSTRUCTURE")
		} else {
			l = append(l, "BODY")
		}
	}
	add := func(b bool, n string) {
		if b {
			l = append(l, n)
		}
	}
	add(o.Envelope, "ENVELOPE")
	add(o.Flags, "FLAGS")
	add(o.InternalDate, "INTERNALDATE")
	add(o.RFC822Size, "RFC822.SIZE")
	add(o.UID || uidCmd, "UID")
	add(o.ModSeq, "MODSEQ")
	if o.ChangedSince != 0 {
		l = append(l, fmt.Sprintf("CHANGEDSINCE %d", o.ChangedSince))
	}
	for _, bs := range o.BodySection {
		s := "BODY"
		if bs.Peek {
			s += ".PEEK"
		}
		s += "[" + partStr(bs.Part) + "|" + string(bs.Specifier)
		if len(bs.HeaderFields) > 0 {
			s += "|FIELDS" + qlist(bs.HeaderFields)
		}
		if len(bs.HeaderFieldsNot) > 0 {
			s += "|FIELDS.NOT" + qlist(bs.HeaderFieldsNot)
		}
		s += "]" + partialStr(bs.Partial)
		l = append(l, s)
	}
	for _, bs := range o.BinarySection {
		s := "BINARY"
		if bs.Peek {
			s += ".PEEK"
		}
		l = append(l, s+"["+partStr(bs.Part)+"]"+partialStr(bs.Partial))
	}
	for _, bs := range o.BinarySectionSize {
		l = append(l, "BINARY.SIZE["+partStr(bs.Part)+"]")
	}
	sort.Strings(l)
	return l
}

// ---- SEARCH ----

func dayOf(t time.Time) string {
	if t.IsZero() {
		return ""
	}
	y, m, d := t.Date()
	return fmt.Sprintf("%04d-%02d-%02d", y, int(m), d)
}

// critNorm is a structural normal form: the set of conjuncts, strings byte-exact (header field
// names and flags modulo case, dates to the day, number sets by their canonical membership
// signature), Or arms unordered.
func critNorm(c *imap.SearchCriteria) string {
	var l []string
	for _, s := range c.SeqNum {
		l = append(l, "seq:"+setSig(s))
	}
	for _, s := range c.UID {
		l = append(l, "uid:"+setSig(s))
	}
	if !c.Since.IsZero() {
		l = append(l, "since:"+dayOf(c.Since))
	}
	if !c.Before.IsZero() {
		l = append(l, "before:"+dayOf(c.Before))
	}
	if !c.SentSince.IsZero() {
		l = append(l, "sentsince:"+dayOf(c.SentSince))
	}
	if !c.SentBefore.IsZero() {
		l = append(l, "sentbefore:"+dayOf(c.SentBefore))
	}
	for _, h := range c.Header {
		l = append(l, "header:"+vk.Q(strings.ToLower(h.Key))+"="+vk.Q(h.Value))
	}
	for _, s := range c.Body {
		l = append(l, "body:"+vk.Q(s))
	}
	for _, s := range c.Text {
		l = append(l, "text:"+vk.Q(s))
	}
	for _, f := range c.Flag {
		l = append(l, "flag:"+strings.ToLower(string(f)))
	}
	for _, f := range c.NotFlag {
		l = append(l, "unflag:"+strings.ToLower(string(f)))
	}
	if c.Larger != 0 {
		l = append(l, fmt.Sprintf("larger:%d", c.Larger))
	}
	if c.Smaller != 0 {
		l = append(l, fmt.Sprintf("smaller:%d", c.Smaller))
	}
	if c.ModSeq != nil {
		l = append(l, fmt.Sprintf("modseq:%d", c.ModSeq.ModSeq))
	}
	for i := range c.Not {
		l = append(l, "not{"+critNorm(&c.Not[i])+"}")
	}
	for i := range c.Or {
		a, b := critNorm(&c.Or[i][0]), critNorm(&c.Or[i][1])
		if b < a {
			a, b = b, a
		}
		l = append(l, "or{"+a+"|"+b+"}")
	}
	if len(l) == 0 {
		return "all"
	}
	sort.Strings(l)
	out := l[:1]
	for _, x := range l[1:] {
		if x != out[len(out)-1] {
			out = append(out, x)
		}
	}
	return strings.Join(out, " ")
}

// setSig is a canonical signature of a set's membership over the probes.
func setSig(ns imap.NumSet) string {
	_, res, l, _ := rangesOf(ns)
	if res {
		return "$"
	}
	var sb strings.Builder
	for _, max := range probeNums {
		for _, x := range probeNums {
			if contains(l, x, max) {
				sb.WriteByte('1')
			} else {
				sb.WriteByte('0')
			}
		}
	}
	return sb.String()
}

func matchBits(c *imap.SearchCriteria) []uint64 {
	b := make([]uint64, (len(universe)+63)/64)
	for i, m := range universe {
		if refmodel.Match(c, m) {
			b[i/64] |= 1 << uint(i%64)
		}
	}
	return b
}

// critDump is a faithful serialisation of every field refmodel.Match reads (nothing is
// normalised): two criteria with the same dump are the same value as far as Match can tell, so
// their match sets may be shared. Used only to avoid recomputing match sets.
func critDump(sb *strings.Builder, c *imap.SearchCriteria) {
	for _, s := range c.SeqNum {
		fmt.Fprintf(sb, "q%v;", []imap.SeqRange(s))
	}
	for _, s := range c.UID {
		if imap.IsSearchRes(s) {
			sb.WriteString("u$;")
		} else {
			fmt.Fprintf(sb, "u%v;", []imap.UIDRange(s))
		}
	}
	tm := func(k string, t time.Time) {
		if !t.IsZero() {
			sb.WriteString(k + t.Format(time.RFC3339Nano) + ";")
		}
	}
	tm("S", c.Since)
	tm("B", c.Before)
	tm("s", c.SentSince)
	tm("b", c.SentBefore)
	for _, h := range c.Header {
		sb.WriteString("h" + vk.Q(h.Key) + vk.Q(h.Value) + ";")
	}
	for _, x := range c.Body {
		sb.WriteString("y" + vk.Q(x) + ";")
	}
	for _, x := range c.Text {
		sb.WriteString("t" + vk.Q(x) + ";")
	}
	for _, f := range c.Flag {
		sb.WriteString("f" + vk.Q(string(f)) + ";")
	}
	for _, f := range c.NotFlag {
		sb.WriteString("F" + vk.Q(string(f)) + ";")
	}
	fmt.Fprintf(sb, "L%d;M%d;", c.Larger, c.Smaller)
	if c.ModSeq != nil {
		fmt.Fprintf(sb, "m%d;", c.ModSeq.ModSeq)
	}
	for i := range c.Not {
		sb.WriteString("N{")
		critDump(sb, &c.Not[i])
		sb.WriteString("}")
	}
	for i := range c.Or {
		sb.WriteString("O{")
		critDump(sb, &c.Or[i][0])
		sb.WriteString("|")
		critDump(sb, &c.Or[i][1])
		sb.WriteString("}")
	}
}

// evalCtx memoises match sets for the cases one worker runs back to back (the same criteria are
// issued once per configuration).
type evalCtx struct {
	bits map[string][]uint64
}

func (ctx *evalCtx) matchBits(c *imap.SearchCriteria) []uint64 {
	if ctx == nil {
		atomic.AddInt64(&cDiffSweeps, 1)
		return matchBits(c)
	}
	var sb strings.Builder
	critDump(&sb, c)
	k := sb.String()
	if b, ok := ctx.bits[k]; ok {
		return b
	}
	atomic.AddInt64(&cDiffSweeps, 1)
	b := matchBits(c)
	ctx.bits[k] = b
	return b
}

var cDiffSweeps int64

// critEq decides predicate equality: differentially with the reference matcher over the message
// universe (the recorded criteria must match exactly the messages the issued criteria match),
// and structurally (normal forms) so that strings the universe cannot distinguish are still
// compared byte for byte.
func critEq(issued, got *imap.SearchCriteria, ctx *evalCtx) (what, msg string) {
	atomic.AddInt64(&cDiffEvals, 1)
	a, b := ctx.matchBits(issued), ctx.matchBits(got)
	for i := range a {
		if a[i] != b[i] {
			d := a[i] ^ b[i]
			k := 0
			for d&1 == 0 {
				d >>= 1
				k++
			}
			m := universe[i*64+k]
			return "criteria-predicate-differs", fmt.Sprintf("reference matcher: issued criteria match=%v, recorded criteria match=%v on message {seq %d uid %d internal %s sent %v size %d flags %v header %v body %q}; issued=%s recorded=%s",
				refmodel.Match(issued, m), refmodel.Match(got, m), m.Seq, m.UID, m.Internal.Format("2006-01-02"), sentStr(m), m.Size, m.Flags, m.Header, m.Body, critNorm(issued), critNorm(got))
		}
	}
	if n1, n2 := critNorm(issued), critNorm(got); n1 != n2 {
		return "criteria-altered", fmt.Sprintf("criteria differ structurally: issued=%s recorded=%s", clip(n1, 400), clip(n2, 400))
	}
	return "", ""
}

func sentStr(m *refmodel.Msg) string {
	if m.Sent == nil {
		return "none"
	}
	return m.Sent.Format("2006-01-02")
}

// searchOptsEq: the options the backend sees must be the issued ones; RFC 4731 §3.1 / RFC 9051
// §6.4.4: a SEARCH without result options (or with an empty list) means ALL.
func searchOptsEq(issued, got imap.SearchOptions) (what, msg string) {
	want := issued
	if !want.ReturnMin && !want.ReturnMax && !want.ReturnAll && !want.ReturnCount && !want.ReturnSave {
		want.ReturnAll = true
	}
	type bit struct {
		name     string
		want, is bool
	}
	for _, b := range []bit{
		{"min", want.ReturnMin, got.ReturnMin}, {"max", want.ReturnMax, got.ReturnMax},
		{"count", want.ReturnCount, got.ReturnCount}, {"save", want.ReturnSave, got.ReturnSave},
		{"all", want.ReturnAll, got.ReturnAll},
	} {
		if b.want && !b.is {
			return "return-" + b.name + "-dropped", fmt.Sprintf("return option %s requested (issued %s) but the backend got %s", strings.ToUpper(b.name), searchOptStr(issued), searchOptStr(got))
		}
		if !b.want && b.is {
			return "return-" + b.name + "-added", fmt.Sprintf("return option %s not requested (issued %s) but the backend got %s", strings.ToUpper(b.name), searchOptStr(issued), searchOptStr(got))
		}
	}
	return "", ""
}

// ---- generic helpers for the check functions ----

func renderArg(a interface{}) string {
	switch v := a.(type) {
	case string:
		return vk.Q(v)
	case []string:
		return qlist(v)
	case imap.NumSet:
		return setStr(v)
	case uidSetArg:
		if v.SearchRes {
			return "uid:$"
		}
		return setStr(v.Set)
	case imap.StatusOptions:
		return statusStr(&v)
	case imap.ListOptions:
		return listOptStr(&v)
	case imap.FetchOptions:
		return "[" + strings.Join(fetchItems(&v, false), " ") + "]"
	case imap.SearchCriteria:
		return "{" + critNorm(&v) + "}"
	case imap.SearchOptions:
		return searchOptStr(v)
	case imap.StoreFlags:
		return fmt.Sprintf("{op:%d silent:%v flags:%q}", v.Op, v.Silent, v.Flags)
	case imap.AppendOptions:
		return fmt.Sprintf("{flags:%q time:%s}", v.Flags, timeStr(v.Time))
	case imap.CreateOptions:
		return fmt.Sprintf("{use:%q}", v.SpecialUse)
	case imapserver.NumKind:
		return v.String()
	case nil:
		return "nil"
	}
	return fmt.Sprintf("%+v", a)
}

func searchOptStr(o imap.SearchOptions) string {
	var l []string
	add := func(b bool, n string) {
		if b {
			l = append(l, n)
		}
	}
	add(o.ReturnMin, "MIN")
	add(o.ReturnMax, "MAX")
	add(o.ReturnAll, "ALL")
	add(o.ReturnCount, "COUNT")
	add(o.ReturnSave, "SAVE")
	return "(" + strings.Join(l, " ") + ")"
}

func timeStr(t time.Time) string {
	if t.IsZero() {
		return "none"
	}
	return t.Format("2006-01-02T15:04:05.999999999-07:00")
}

// one expects exactly one backend call of the given method with n arguments.
func one(calls []srvkit.Call, method string, n int) (*srvkit.Call, string, string) {
	if len(calls) == 0 {
		return nil, "not-delivered", "the command completed OK but the backend received no " + method + " call"
	}
	if len(calls) != 1 || calls[0].Method != method || len(calls[0].Args) < n {
		return nil, "wrong-operation", fmt.Sprintf("expected exactly one %s call", method)
	}
	return &calls[0], "", ""
}

func strArg(c *srvkit.Call, i int) string {
	s, _ := c.Args[i].(string)
	return s
}
