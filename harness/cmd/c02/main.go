// C02 — client commands reach the server backend with the caller's arguments intact.
//
// One real imapclient.Client is connected through the in-memory network of srvkit to one real
// imapserver connection whose backend is the recording srvkit.Stub. The driver issues ONE command
// through the public client API, waits for it (Wait/Close/Collect), and compares the call the
// backend received with the call that was issued, under semantic equality (oracle.go). The
// argument spaces are enumerated exhaustively inside stated bounds (families.go), for every
// capability configuration of the server and every client-side enablement.
//
// Engine: E1 (bounded-exhaustive enumeration); free-running goroutines (one command at a time,
// result independent of scheduling; quiescence = the command's Wait returned). A case is
// identified by (configuration, family, index) and regenerated from that for --replay.
package main

import (
	"bytes"
	"encoding/json"
	"errors"
	"fmt"
	"net"
	"os"
	"runtime"
	"sort"
	"strings"
	"sync"
	"sync/atomic"
	"time"

	imap "github.com/emersion/go-imap/v2"
	"github.com/emersion/go-imap/v2/imapclient"
	"github.com/emersion/go-imap/v2/imapserver"
	"github.com/emersion/go-imap/v2/verif/srvkit"
	"github.com/emersion/go-imap/v2/verif/vk"
)

var run *vk.Run

// ---------------------------------------------------------------------------------------------
// configurations

type config struct {
	Name   string
	Caps   func() imap.CapSet
	Enable imap.Cap // "" = nothing enabled
	Rev2   bool
	LitP   bool
}

func capsRev1() imap.CapSet { return imap.CapSet{imap.CapIMAP4rev1: {}} }
func capsRev2() imap.CapSet { return srvkit.Rev2Caps() }
func capsLitPlus() imap.CapSet {
	return imap.CapSet{imap.CapIMAP4rev1: {}, imap.CapLiteralPlus: {}}
}

var configs = []*config{
	{Name: "rev1", Caps: capsRev1},
	{Name: "rev1+enable-utf8", Caps: capsRev1, Enable: imap.CapUTF8Accept},
	{Name: "rev1rev2", Caps: capsRev2, Rev2: true},
	{Name: "rev1rev2+enable-utf8", Caps: capsRev2, Enable: imap.CapUTF8Accept, Rev2: true},
	{Name: "rev1rev2+enable-rev2", Caps: capsRev2, Enable: imap.CapIMAP4rev2, Rev2: true},
	{Name: "rev1literal+", Caps: capsLitPlus, LitP: true},
	{Name: "rev1literal++enable-utf8", Caps: capsLitPlus, Enable: imap.CapUTF8Accept, LitP: true},
}

func configByName(n string) *config {
	for _, c := range configs {
		if c.Name == n {
			return c
		}
	}
	return nil
}

// quotedUTF8 mirrors the rule by which the client chooses quoted strings for 8-bit text (only
// used for the non-triviality counters, never for a verdict).
func (c *config) quotedUTF8() bool { return c.Rev2 || c.Enable != "" }

// ---------------------------------------------------------------------------------------------
// recording backend: the stock Stub plus deeper copies where the stock one keeps a string only

type deepStub struct{ *srvkit.Stub }

// uidSetArg is the deep copy of the UID set given to Session.Expunge.
type uidSetArg struct {
	Set       imap.UIDSet
	SearchRes bool
}

func (d deepStub) Expunge(w *imapserver.ExpungeWriter, uids *imap.UIDSet) error {
	var a interface{}
	if uids != nil {
		a = uidSetArg{Set: append(imap.UIDSet{}, (*uids)...), SearchRes: imap.IsSearchRes(*uids)}
	}
	return d.Record("Expunge", a)
}

// ---------------------------------------------------------------------------------------------
// one client <-> server pair

const (
	stNotAuth  = 1
	stAuth     = 2
	stSelected = 3
)

type traceConn struct {
	net.Conn
	mu  sync.Mutex
	buf bytes.Buffer
}

func (t *traceConn) Read(b []byte) (int, error) {
	n, err := t.Conn.Read(b)
	if n > 0 {
		t.mu.Lock()
		fmt.Fprintf(&t.buf, "S: %s\n", clip(vk.Q(string(b[:n])), 600))
		t.mu.Unlock()
	}
	return n, err
}

func (t *traceConn) Write(b []byte) (int, error) {
	t.mu.Lock()
	fmt.Fprintf(&t.buf, "C: %s\n", clip(vk.Q(string(b)), 600))
	t.mu.Unlock()
	return t.Conn.Write(b)
}

func (t *traceConn) take() string {
	t.mu.Lock()
	defer t.mu.Unlock()
	s := t.buf.String()
	t.buf.Reset()
	return s
}

func clip(s string, n int) string {
	if len(s) <= n {
		return s
	}
	return fmt.Sprintf("%s…(%d bytes more)…%s", s[:n/2], len(s)-n, s[len(s)-n/2:])
}

type sess struct {
	cfg   *config
	ss    *srvkit.StubServer
	p     *srvkit.Pipe
	c     *imapclient.Client
	stub  *srvkit.Stub
	state int
	ncmd  int
	trace *traceConn
	doTr  bool

	// watchdog
	busy  int64 // unix nano when the current case started, 0 = idle
	cur   atomic.Value
	wdone bool
}

var (
	sessMu  sync.Mutex
	allSess []*sess
)

func newSess(cfg *config, trace bool) *sess {
	s := &sess{cfg: cfg, doTr: trace}
	s.ss = srvkit.NewStubServer(imapserver.Options{Caps: cfg.Caps(), InsecureAuth: true})
	s.ss.Wrap = func(st *srvkit.Stub) imapserver.Session { return deepStub{st} }
	sessMu.Lock()
	allSess = append(allSess, s)
	sessMu.Unlock()
	return s
}

// drop closes the current connection (the server sees EOF and ends the connection).
func (s *sess) drop() {
	if s.c != nil {
		s.c.Close()
		s.p.Quiesce() // the server goroutine has left the connection
		s.p.ReleaseOutput()
	}
	s.c, s.p, s.stub, s.state, s.ncmd = nil, nil, nil, 0, 0
}

func (s *sess) shutdown() {
	s.drop()
	s.ss.Close()
}

func (s *sess) connect() error {
	s.drop()
	s.p = s.ss.Ln.Dial()
	var conn net.Conn = s.p.ClientConn()
	if s.doTr {
		s.trace = &traceConn{Conn: conn}
		conn = s.trace
	}
	s.c = imapclient.New(conn, nil)
	if err := s.c.WaitGreeting(); err != nil {
		return fmt.Errorf("greeting: %v", err)
	}
	s.stub = s.ss.TakeStub()
	if s.stub == nil {
		return fmt.Errorf("no stub for the new connection")
	}
	s.state = stNotAuth
	return nil
}

// ensure brings the pair into the wanted connection state with benign commands only. A failure
// here means a benign LOGIN / ENABLE / SELECT / UNSELECT did not work.
func (s *sess) ensure(want int) (step string, err error) {
	if s.c != nil && s.ncmd > 20000 {
		s.drop() // bound the memory of the pipe's output log
	}
	if s.c != nil && (s.state > want && want == stNotAuth) {
		s.drop()
	}
	if s.c == nil {
		if err := s.connect(); err != nil {
			return "connect", err
		}
	}
	if want >= stAuth && s.state == stNotAuth {
		if err := s.c.Login("user", "pass").Wait(); err != nil {
			return "login", err
		}
		if s.cfg.Enable != "" {
			data, err := s.c.Enable(s.cfg.Enable).Wait()
			if err != nil {
				return "enable", err
			}
			if !data.Caps.Has(s.cfg.Enable) {
				return "enable", fmt.Errorf("server did not enable %v: %v", s.cfg.Enable, data.Caps)
			}
		}
		s.state = stAuth
		s.stub.ForgetCalls()
	}
	if want == stSelected && s.state == stAuth {
		if _, err := s.c.Select("INBOX", nil).Wait(); err != nil {
			return "select", err
		}
		s.state = stSelected
	}
	if want == stAuth && s.state == stSelected {
		if err := s.c.Unselect().Wait(); err != nil {
			return "unselect", err
		}
		s.state = stAuth
	}
	return "", nil
}

// ---------------------------------------------------------------------------------------------
// cases

// tcase is one command with concrete arguments.
type tcase struct {
	cmd   string // command name, first component of violation keys
	state int    // connection state it needs
	after int    // state after success (0 = unchanged, -1 = connection is finished)
	// legal: the arguments are legal IMAP for every configuration; when false a refusal (local or
	// by the server) or an alteration is counted but is not a violation.
	legal bool
	// limit: the argument exceeds the server's declared 4096-byte limit for buffered strings; a
	// clean NO/BAD is the declared behaviour, not an alteration (see assumptions).
	limit      bool
	nontrivial string // non-empty: signature of the non-trivial encoding path it exercises
	desc       string
	do         func(c *imapclient.Client) error
	// check compares the recorded backend calls with the issued call: ("","") when semantically
	// equal, else a violation key suffix and a message.
	check func(calls []srvkit.Call) (what, msg string)
	// rejectKey lets a family give a root-cause name to a rejection of a legal argument.
	rejectKey func(err error) string
	ctx       *evalCtx // set by the driver: memoised match sets of the reference matcher
}

type family struct {
	name string
	n    int
	at   func(cfg *config, i int) *tcase
}

type finding struct {
	Key    string
	Detail map[string]interface{}
}

// counters
var (
	cRejectedIllegal int64
	cRefusedLocally  int64
	cAlteredIllegal  int64
	cLimitRefused    int64
	cLimitPassed     int64
	cLimitSkipped    int64
)

func fmtCalls(calls []srvkit.Call) string {
	var sb strings.Builder
	for i, c := range calls {
		if i > 0 {
			sb.WriteString("; ")
		}
		sb.WriteString(c.Method + "(")
		for j, a := range c.Args {
			if j > 0 {
				sb.WriteString(", ")
			}
			sb.WriteString(clip(renderArg(a), 300))
		}
		sb.WriteString(")")
	}
	if len(calls) == 0 {
		return "<no backend call>"
	}
	return sb.String()
}

// runCase executes one case on s and judges it.
func runCase(s *sess, tc *tcase) *finding {
	if tc.limit && (!s.cfg.LitP || tc.state == stNotAuth) { // LITERAL+ is advertised only after authentication
		// Without LITERAL+ a string of more than 4096 bytes goes out as a synchronising literal;
		// the server refuses it without answering and keeps reading, the client keeps waiting for
		// the continuation: both sit there until the server's 30 s read deadline (the in-memory
		// network has no clock). That is DESIGN §5 #7 (C04: refused buffered literal), outside the
		// server's declared string limit and not an argument-fidelity verdict: not executed.
		atomic.AddInt64(&cLimitSkipped, 1)
		return nil
	}
	if step, err := s.ensure(tc.state); err != nil {
		s.drop()
		return &finding{Key: "setup-" + step + "-failed", Detail: map[string]interface{}{
			"what": "a benign " + step + " before the case did not succeed", "error": err.Error(), "case": tc.desc}}
	}
	if s.trace != nil {
		s.trace.take()
	}
	n0 := s.stub.NumCalls()
	s.ncmd++
	err := tc.do(s.c)
	if err == nil {
		// everything the client sent has been consumed by the server (a string that smuggled a
		// second command would still be executing otherwise)
		s.p.WaitQuiet()
	}
	calls := s.stub.CallsFrom(n0)
	mk := func(what, msg string) *finding {
		d := map[string]interface{}{"issued": tc.desc, "recorded": fmtCalls(calls), "what": msg, "config": s.cfg.Name}
		if err != nil {
			d["error"] = err.Error()
		}
		if s.trace != nil {
			d["transcript"] = strings.Split(strings.TrimSpace(s.trace.take()), "\n")
		}
		return &finding{Key: tc.cmd + "-" + what, Detail: d}
	}
	if err != nil {
		var ie *imap.Error
		isIMAP := errors.As(err, &ie)
		var f *finding
		switch {
		case tc.limit && isIMAP && len(calls) == 0:
			atomic.AddInt64(&cLimitRefused, 1)
		case !tc.legal:
			if isIMAP {
				atomic.AddInt64(&cRejectedIllegal, 1)
			} else {
				atomic.AddInt64(&cRefusedLocally, 1)
			}
		case isIMAP:
			what := "rejected-by-server"
			if tc.rejectKey != nil {
				if k := tc.rejectKey(err); k != "" {
					what = k
				}
			}
			f = mk(what, "a legal argument was rejected by the server")
		default:
			f = mk("refused-by-client", "a legal argument made the client fail the command / close the connection")
		}
		s.drop() // always start over after an error
		return f
	}
	what, msg := tc.check(calls)
	if what != "" {
		if !tc.legal {
			atomic.AddInt64(&cAlteredIllegal, 1)
			if os.Getenv("C02_DEBUG") != "" {
				fmt.Printf("debug: illegal argument altered: %s/%s -> %s: %s\n", s.cfg.Name, tc.desc, fmtCalls(calls), msg)
			}
			s.drop()
			return nil
		}
		f := mk(what, msg)
		s.drop()
		return f
	}
	if tc.limit {
		atomic.AddInt64(&cLimitPassed, 1)
	}
	switch {
	case tc.after < 0:
		s.drop()
	case tc.after > 0:
		s.state = tc.after
	}
	if s.stub != nil && s.ncmd%512 == 0 {
		s.stub.ForgetCalls()
	}
	return nil
}

// ---------------------------------------------------------------------------------------------
// driver

type chunk struct {
	fam    *family
	lo, hi int
}

type sessPool struct {
	mu   sync.Mutex
	free map[*config][]*sess
}

func (p *sessPool) get(cfg *config) *sess {
	p.mu.Lock()
	l := p.free[cfg]
	if n := len(l); n > 0 {
		s := l[n-1]
		p.free[cfg] = l[:n-1]
		p.mu.Unlock()
		return s
	}
	p.mu.Unlock()
	return newSess(cfg, false)
}

func (p *sessPool) put(s *sess) {
	p.mu.Lock()
	p.free[s.cfg] = append(p.free[s.cfg], s)
	p.mu.Unlock()
}

func watchdog() {
	for {
		time.Sleep(5 * time.Second)
		now := time.Now().UnixNano()
		sessMu.Lock()
		for _, s := range allSess {
			b := atomic.LoadInt64(&s.busy)
			if b != 0 && now-b > int64(120*time.Second) {
				d, _ := s.cur.Load().(string)
				run.EngineError("watchdog: a case did not finish within 120 s (engine error, not a verdict): %s", d)
			}
		}
		sessMu.Unlock()
	}
}

// confirm re-executes a violating case on fresh traced connections; the violation is reported
// only if it shows up identically every time.
func confirm(cfg *config, fam *family, idx int, first *finding) (*finding, bool) {
	var last *finding
	for i := 0; i < 5; i++ {
		s := newSess(cfg, true)
		s.cur.Store(fmt.Sprintf("confirm %s/%s/%d", cfg.Name, fam.name, idx))
		atomic.StoreInt64(&s.busy, time.Now().UnixNano())
		f := runCase(s, fam.at(cfg, idx))
		atomic.StoreInt64(&s.busy, 0)
		s.shutdown()
		if f == nil || f.Key != first.Key {
			return f, false
		}
		last = f
	}
	return last, true
}

func main() {
	run = vk.Start("C02", "exploration")
	if run.Replay != "" {
		replay()
		return
	}
	thorough := run.Thorough()
	fams := families(thorough)
	go watchdog()

	var chunks []chunk
	perCfg := map[string]int64{}
	perFam := map[string]int64{}
	// A chunk is an index range of one family; the worker that takes it runs it under every
	// configuration in turn (one client/server pair per configuration).
	for _, f := range fams {
		size := 128
		for lo := 0; lo < f.n; lo += size {
			hi := lo + size
			if hi > f.n {
				hi = f.n
			}
			chunks = append(chunks, chunk{f, lo, hi})
		}
		for _, cfg := range configs {
			perCfg[cfg.Name] += int64(f.n)
		}
		perFam[f.name] += int64(f.n)
	}
	// big chunks first is not needed; keep the deterministic order (VERIF_SEED only rotates it)
	if run.Seed != 0 && len(chunks) > 0 {
		k := run.Seed % len(chunks)
		if k < 0 {
			k += len(chunks)
		}
		chunks = append(chunks[k:], chunks[:k]...)
	}

	pool := &sessPool{free: map[*config][]*sess{}}
	type hit struct {
		cfg *config
		fam *family
		idx int
		f   *finding
	}
	var hmu sync.Mutex
	hits := map[string]hit{} // first (lowest config order, family order, index) hit per key
	order := func(h hit) [3]int {
		ci, fi := 0, 0
		for i, c := range configs {
			if c == h.cfg {
				ci = i
			}
		}
		for i, f := range fams {
			if f == h.fam {
				fi = i
			}
		}
		return [3]int{len(h.f.Detail["issued"].(string)), fi*10000000 + h.idx, ci}
	}
	less := func(a, b [3]int) bool {
		for i := range a {
			if a[i] != b[i] {
				return a[i] < b[i]
			}
		}
		return false
	}
	hitCount := map[string]int64{}
	famNanos := map[string]*int64{}
	for _, f := range fams {
		famNanos[f.name] = new(int64)
	}
	only := os.Getenv("C02_FAMILIES") // development aid: comma-separated family names

	vk.Parallel(len(chunks), func(ci int) {
		ch := chunks[ci]
		if only != "" && !strings.Contains(","+only+",", ","+ch.fam.name+",") {
			return
		}
		t0 := time.Now()
		defer func() { atomic.AddInt64(famNanos[ch.fam.name], int64(time.Since(t0))) }()
		ctx := &evalCtx{bits: map[string][]uint64{}}
		for _, cfg := range configs {
			s := pool.get(cfg)
			for i := ch.lo; i < ch.hi; i++ {
				tc := ch.fam.at(cfg, i)
				tc.ctx = ctx
				s.cur.Store(fmt.Sprintf("%s/%s/%d %s", cfg.Name, ch.fam.name, i, clip(tc.desc, 300)))
				atomic.StoreInt64(&s.busy, time.Now().UnixNano())
				f := runCase(s, tc)
				atomic.StoreInt64(&s.busy, 0)
				if tc.nontrivial != "" {
					run.NontrivialN(1) // distinct by construction: (configuration, family, index) is unique
				}
				if f != nil {
					h := hit{cfg, ch.fam, i, f}
					hmu.Lock()
					hitCount[f.Key]++
					if old, ok := hits[f.Key]; !ok || less(order(h), order(old)) {
						hits[f.Key] = h
					}
					hmu.Unlock()
				}
			}
			run.AddEvals(int64(ch.hi - ch.lo))
			pool.put(s)
		}
	})
	for _, l := range pool.free {
		for _, s := range l {
			s.shutdown()
		}
	}

	// report: one artefact per key, the case with the shortest description, confirmed 5x on fresh traced connections
	keys := make([]string, 0, len(hits))
	for k := range hits {
		keys = append(keys, k)
	}
	sort.Strings(keys)
	for _, k := range keys {
		h := hits[k]
		f, ok := confirm(h.cfg, h.fam, h.idx, h.f)
		if !ok {
			run.EngineError("case %s/%s/%d reported %q once but not on re-execution (got %v): the check is not deterministic", h.cfg.Name, h.fam.name, h.idx, k, f)
		}
		f.Detail["family"] = h.fam.name
		f.Detail["index"] = h.idx
		f.Detail["tier"] = run.Tier
		f.Detail["cases_with_this_key"] = hitCount[k]
		fmt.Printf("violation key=%s cases=%d first=%s/%s/%d\n  issued:   %s\n  recorded: %s\n  %s\n", k, hitCount[k], h.cfg.Name, h.fam.name, h.idx,
			clip(fmt.Sprint(f.Detail["issued"]), 400), clip(fmt.Sprint(f.Detail["recorded"]), 400), f.Detail["what"])
		run.Violation(k, f.Detail)
	}

	// evidence
	var famNames []string
	for _, f := range fams {
		famNames = append(famNames, fmt.Sprintf("%s=%d", f.name, f.n))
	}
	for _, f := range fams {
		run.Sample(f.name, f.at(configs[0], f.n/2).desc)
	}
	run.Set("families_cases_per_configuration", famNames)
	run.Set("configurations", len(configs))
	run.Set("cases_per_configuration", perCfg[configs[0].Name])
	run.Set("illegal_argument_rejected_by_server", atomic.LoadInt64(&cRejectedIllegal))
	run.Set("illegal_argument_refused_by_client", atomic.LoadInt64(&cRefusedLocally))
	run.Set("illegal_argument_altered", atomic.LoadInt64(&cAlteredIllegal))
	run.Set("over_limit_string_refused_cleanly", atomic.LoadInt64(&cLimitRefused))
	run.Set("over_limit_string_delivered_intact", atomic.LoadInt64(&cLimitPassed))
	run.Set("over_limit_string_not_executed_sync_literal", atomic.LoadInt64(&cLimitSkipped))
	run.Set("search_differential_evaluations", atomic.LoadInt64(&cDiffEvals))
	run.Set("search_reference_matcher_sweeps_over_universe", atomic.LoadInt64(&cDiffSweeps))
	run.Set("search_universe_messages", len(universe))
	run.Set("workers", runtime.GOMAXPROCS(0))
	run.Rule = ruleText
	run.Exhaustive = only == ""
	for _, a := range assumptions {
		run.Assume(a)
	}
	if run.Evals == 0 || (only == "" && atomic.LoadInt64(&cDiffEvals) == 0) {
		run.EngineError("non-vacuity: no case / no differential SEARCH comparison was executed")
	}
	fmt.Printf("C02 configurations=%d families=%d cases/config=%d  illegal: rejected=%d refused-locally=%d altered=%d  over-limit: refused=%d intact=%d\n",
		len(configs), len(fams), perCfg[configs[0].Name], cRejectedIllegal, cRefusedLocally, cAlteredIllegal, cLimitRefused, cLimitPassed)
	for _, f := range fams {
		fmt.Printf("  family %-30s %8d cases x %d configurations  %7.1f worker-s\n", f.name, f.n, len(configs), float64(*famNanos[f.name])/1e9)
	}
	run.Finish()
}

// replay re-executes the case stored in a replay artefact and prints what happens.
func replay() {
	b, err := os.ReadFile(run.Replay)
	if err != nil {
		run.EngineError("cannot read replay file: %v", err)
	}
	var rf struct {
		Key    string `json:"key"`
		Tier   string `json:"tier"`
		Detail struct {
			Config string `json:"config"`
			Family string `json:"family"`
			Index  int    `json:"index"`
			Tier   string `json:"tier"`
		} `json:"detail"`
	}
	if err := json.Unmarshal(b, &rf); err != nil {
		run.EngineError("bad replay file: %v", err)
	}
	tier := rf.Detail.Tier
	if tier == "" {
		tier = rf.Tier
	}
	cfg := configByName(rf.Detail.Config)
	var fam *family
	for _, f := range families(tier == "thorough") {
		if f.name == rf.Detail.Family {
			fam = f
		}
	}
	if cfg == nil || fam == nil || rf.Detail.Index < 0 || rf.Detail.Index >= fam.n {
		run.EngineError("replay file names an unknown case %s/%s/%d", rf.Detail.Config, rf.Detail.Family, rf.Detail.Index)
	}
	go watchdog()
	s := newSess(cfg, true)
	tc := fam.at(cfg, rf.Detail.Index)
	s.cur.Store("replay " + tc.desc)
	atomic.StoreInt64(&s.busy, time.Now().UnixNano())
	f := runCase(s, tc)
	atomic.StoreInt64(&s.busy, 0)
	s.shutdown()
	fmt.Printf("replay %s/%s/%d (tier %s), recorded key %q\n  issued: %s\n", cfg.Name, fam.name, rf.Detail.Index, tier, rf.Key, tc.desc)
	run.AddEvals(1)
	run.Exhaustive = false
	if f == nil {
		fmt.Println("  outcome: the backend received the issued call (no violation)")
		run.Finish()
	}
	out, _ := json.MarshalIndent(f.Detail, "  ", " ")
	fmt.Printf("  outcome: key=%s\n  %s\n", f.Key, out)
	run.Violation(f.Key, f.Detail)
	run.Finish()
}
