package main

// Enumeration families. Every family is a deterministic, index-addressable list of commands
// with concrete arguments (the same list for every configuration; expectations that depend on
// the configuration are computed in at()).

import (
	"fmt"
	"strings"
	"time"
	"unicode/utf8"

	imap "github.com/emersion/go-imap/v2"
	"github.com/emersion/go-imap/v2/imapclient"
	"github.com/emersion/go-imap/v2/imapserver"
	"github.com/emersion/go-imap/v2/verif/refmodel"
	"github.com/emersion/go-imap/v2/verif/srvkit"
)

const ruleText = "E1 bounded-exhaustive over the public client API against a recording backend behind a real server connection, " +
	"x 7 configurations (server caps {IMAP4rev1}, {IMAP4rev1,IMAP4rev2}, {IMAP4rev1,LITERAL+} x client enablement none / UTF8=ACCEPT / IMAP4rev2 where advertised). " +
	"String alphabet S: one symbol per branch of Encoder.String/validQuoted/Quoted/Mailbox/utf7 and of the server's astring/mailbox/list-mailbox readers: " +
	"empty, plain atom, SP (needs quoting), DQUOTE and backslash (escapes), CRLF and NUL (never quotable: literal), valid 2-byte UTF-8 and a lone 0xFF (8-bit: literal unless quoted UTF-8 is on), " +
	"literal look-alike {3}, list delimiter '(', list wildcards %*, '&' inside and alone (modified UTF-7 shift), NIL, inbox (case fold), 4097 bytes (> quoted/LITERAL- limit) " +
	"+ boundary extras 4096 bytes and a 4096-byte 8-bit string (largest non-synchronising LITERAL- literal). Every string position of every command takes every symbol (others benign), then all pairs of positions take all pairs of symbols. " +
	"Boolean options: all subsets (STATUS 2^8 items the server parses; LIST 2^3 selection x 2^2 return x (no STATUS + 2^8 STATUS items); FETCH 3x2^5 attribute sets x representative sections (thorough: x every section shape), all 144 body-section shapes " +
	"(part [] [1] [1.2] x none/HEADER/TEXT/MIME/HEADER.FIELDS 1-2 names/HEADER.FIELDS.NOT 1-2 names x partial none <0.1> <5.4294967295> x PEEK) + 18 BINARY + 3 BINARY.SIZE shapes, pairs of sections; SEARCH RETURN 2^5). " +
	"SEARCH criteria: every tree skeleton of Not/Or wrappers with <= 2 leaf slots up to the nesting depth of the tier, filled with every leaf kind (31 kinds: one per branch of writeSearchKey/readSearchKeyWithAtom; quick: singles over all kinds at depth <= 2, pairs over all kinds at depth 0 and over 14 branch representatives at depth <= 2; thorough: all pairs at depth <= 2, the 14 representatives at depth 3); " +
	"every well-known and some unknown header keys in several spellings; every date field x 6 dates x 3 zones x 2 times of day incl. the ON-shaped pairs. " +
	"Number sets: every set reachable by <= 3 AddNum/AddRange insertions over endpoints {1,2,3,5,2^32-2,2^32-1,*}, both flavours, through FETCH; <= 2 insertions and $ through STORE/COPY/MOVE/UID EXPUNGE/SEARCH. " +
	"STORE 3 ops x silent x flag lists of length 0-2; APPEND flag lists 0-2 x 4 dates x payload sizes {0,1,4096,4097} x {plain, CRLF and '{n}' inside}."

var assumptions = []string{
	"Semantic equality: strings byte-equal; mailbox names and LIST patterns modulo INBOX case folding; flags and mailbox attributes as sets modulo case; header field names in SEARCH modulo case (HEADER vs SUBJECT/FROM/... keys); number sets as sets (membership for every value of the largest message number); APPEND date-time to the second; SEARCH dates to the day; FETCH options as sets of items with UID implied by UID FETCH.",
	"SEARCH criteria equality is decided differentially (refmodel.Match over refmodel.Universe(): the recorded criteria must match exactly the messages the issued criteria match) AND structurally on a normal form, because the universe cannot tell arbitrary strings apart.",
	"LIST with the empty pattern: the server hands the backend an empty pattern list (its representation of the hierarchy-delimiter request); accepted as equal to the issued pattern \"\".",
	"SEARCH without any result option means ALL (RFC 4731 §3.1); with any result option present (including SAVE alone, RFC 5182 §2.1) exactly the issued options must arrive.",
	"Strings longer than 4096 bytes exceed the server's declared limit for buffered strings (NO [TOOBIG]/BAD): with LITERAL+ a clean refusal without a backend call is counted (over_limit_string_refused_cleanly), not reported; without LITERAL+ such a string needs a synchronising literal, which the server refuses without answering (client and server then wait for each other until the server's 30 s read deadline: DESIGN §5 #7, property C04) - those cases are counted (over_limit_string_not_executed_sync_literal) and not executed; payloads of APPEND are not subject to that limit and must arrive intact.",
	"Arguments that are not legal IMAP in any configuration (a NUL byte inside a string, LIST RECURSIVEMATCH without SUBSCRIBED) are enumerated too; refusals or alterations of those are counted (illegal_argument_*) and never reported.",
	"Not enumerated because the server does not implement them: STATUS HIGHESTMODSEQ, SELECT (CONDSTORE), STORE (UNCHANGEDSINCE), FETCH MODSEQ/CHANGEDSINCE, SEARCH MODSEQ, LIST SPECIAL-USE selection/return options, LSUB (server only), SORT/THREAD/METADATA/QUOTA/ACL (client only). Mailbox names that are not valid UTF-8 are not enumerated (no wire representation).",
	"Client.Move on a server without MOVE is documented to fall back to COPY + STORE +FLAGS.SILENT (\\Deleted) + EXPUNGE; that sequence with the issued set and destination is the expected backend trace in the configurations without IMAP4rev2.",
	"Features are enumerated in every configuration in which the server implements them, whether or not the corresponding capability is advertised (BINARY, RETURN options, $, LIST-EXTENDED, CREATE USE, UID EXPUNGE).",
}

// ---------------------------------------------------------------------------------------------
// alphabets

var (
	long4097 = strings.Repeat("a", 4097)
	long4096 = strings.Repeat("a", 4096)
	lit4096  = "é" + strings.Repeat("a", 4094)

	// S is the special-string alphabet of the design.
	S = []string{"", "a", "a b", `a"b`, `a\b`, "a\r\nb", "a\x00b", "é", "\xff", "{3}", "(", "%*", "a&b", "&", "NIL", "inbox", long4097}
	// Sx adds the boundary symbols used in single-position sweeps only.
	Sx = append(append([]string{}, S...), long4096, lit4096, "a\rb", "a\nb", "a]b", `"`, `\`, "a\x7fb")
)

func validUTF8(l []string) []string {
	var o []string
	for _, s := range l {
		if utf8.ValidString(s) {
			o = append(o, s)
		}
	}
	return o
}

var (
	// M: mailbox positions (valid UTF-8 subset of S) plus INBOX spellings and hierarchy.
	M  = append(validUTF8(S), "INBOX", "iNbOx", "INBOX/a", "inboxx", "~peter/mail/台北/日本語", "a&-b", "&AOk-")
	Mx = append(append([]string{}, M...), long4096, lit4096, "a\x7fb", "a]b", `"`)
	// P: LIST patterns: the mailbox alphabet plus wildcards.
	P = append(append([]string{}, M...), "%", "*", "a/%", "INBOX/*", "%&%", "é*", "a b%")
)

func hasByte(s string, f func(b byte) bool) bool {
	for i := 0; i < len(s); i++ {
		if f(s[i]) {
			return true
		}
	}
	return false
}

// strLegal: a NUL can be carried by no IMAP string.
func strLegal(s string) bool { return !strings.Contains(s, "\x00") }

// needsUTF7: the modified UTF-7 form of s differs from s.
func needsUTF7(s string) bool {
	return hasByte(s, func(b byte) bool { return b == '&' || b < 0x20 || b > 0x7e })
}

// overLimit: the wire form of the string is longer than the server's 4096-byte limit.
func overLimit(s string, mailbox bool) bool {
	if len(s) > 4096 {
		return true
	}
	return mailbox && needsUTF7(s) && len(s) > 4000
}

// strNontrivial: the encoder cannot emit s as a plain quoted copy of itself.
func strNontrivial(s string, mailbox bool) bool {
	if mailbox && (needsUTF7(s) || strings.EqualFold(s, "inbox")) {
		return true
	}
	return len(s) > 4096 || hasByte(s, func(b byte) bool { return b == '"' || b == '\\' || b == '\r' || b == '\n' || b == 0 || b > 0x7e })
}

// position is one string position of a command.
type position struct {
	name    string
	benign  string
	single  []string // alphabet for the single-position sweep
	pair    []string // alphabet for the pair sweep
	mailbox bool
}

// vectors enumerates: every position with every symbol of its single alphabet (others benign),
// then all pairs of positions with all pairs of symbols. Duplicate vectors are removed.
func vectors(pos []position) [][]string {
	var out [][]string
	seen := map[string]bool{}
	add := func(v []string) {
		k := strings.Join(v, "\x01\x02")
		if !seen[k] {
			seen[k] = true
			out = append(out, v)
		}
	}
	base := func() []string {
		v := make([]string, len(pos))
		for i, p := range pos {
			v[i] = p.benign
		}
		return v
	}
	add(base())
	for i, p := range pos {
		for _, s := range p.single {
			v := base()
			v[i] = s
			add(v)
		}
	}
	for i := range pos {
		for j := i + 1; j < len(pos); j++ {
			for _, s := range pos[i].pair {
				for _, t := range pos[j].pair {
					v := base()
					v[i], v[j] = s, t
					add(v)
				}
			}
		}
	}
	return out
}

func vecProps(pos []position, v []string) (legal, limit, nontrivial bool) {
	legal = true
	for i, p := range pos {
		if !strLegal(v[i]) {
			legal = false
		}
		if overLimit(v[i], p.mailbox) {
			limit = true
		}
		if strNontrivial(v[i], p.mailbox) {
			nontrivial = true
		}
	}
	return
}

func descStrs(cmd string, pos []position, v []string) string {
	var l []string
	for i, p := range pos {
		l = append(l, p.name+"="+q(v[i]))
	}
	return cmd + " " + strings.Join(l, " ")
}

// ---------------------------------------------------------------------------------------------
// small helpers

func seqOf(r ...rng) imap.SeqSet {
	var s imap.SeqSet
	for _, x := range r {
		s.AddRange(x.a, x.b)
	}
	return s
}

func uidOf(r ...rng) imap.UIDSet {
	var s imap.UIDSet
	for _, x := range r {
		s.AddRange(imap.UID(x.a), imap.UID(x.b))
	}
	return s
}

func benignSet(uid bool) imap.NumSet {
	if uid {
		return uidOf(rng{1, 1})
	}
	return seqOf(rng{1, 1})
}

func kindName(uid bool) string {
	if uid {
		return "UID "
	}
	return ""
}

func wantKind(uid bool) imapserver.NumKind {
	if uid {
		return imapserver.NumKindUID
	}
	return imapserver.NumKindSeq
}

func strCheck(c *srvkit.Call, i int, name, want string, mailbox bool) (string, string) {
	got, ok := c.Args[i].(string)
	if !ok {
		return name + "-altered", fmt.Sprintf("%s: recorded argument is not a string", name)
	}
	if mailbox && mboxEq(want, got) || !mailbox && want == got {
		return "", ""
	}
	return name + "-altered", fmt.Sprintf("%s: issued %s, backend received %s", name, q(want), q(got))
}

func setCheck(c *srvkit.Call, i int, want imap.NumSet) (string, string) {
	got, ok := c.Args[i].(imap.NumSet)
	if !ok || !numSetEq(want, got) {
		return "numset-altered", fmt.Sprintf("number set: issued %s, backend received %s", setStr(want), renderArg(c.Args[i]))
	}
	return "", ""
}

// ---------------------------------------------------------------------------------------------
// families

func families(thorough bool) []*family {
	var fams []*family
	fams = append(fams, famSimple())
	fams = append(fams, famLogin())
	fams = append(fams, famMailbox())
	fams = append(fams, famRename())
	fams = append(fams, famCreateUse())
	fams = append(fams, famListStrings())
	fams = append(fams, famListOptions())
	fams = append(fams, famStatusItems())
	fams = append(fams, famAppend())
	fams = append(fams, famStore())
	fams = append(fams, famFetchAttrs())
	fams = append(fams, famFetchSections())
	fams = append(fams, famFetchSectionPairs(thorough))
	if thorough {
		fams = append(fams, famFetchCross())
	}
	fams = append(fams, famFetchHeaderStrings())
	fams = append(fams, famNumSetsFetch())
	fams = append(fams, famNumSetsOther())
	fams = append(fams, famSearchReturn())
	fams = append(fams, famSearchStrings())
	fams = append(fams, famSearchHeaderKeys())
	fams = append(fams, famSearchDates())
	fams = append(fams, famSearchTrees(thorough)...)
	return fams
}

// ---- commands without arguments, ENABLE, SELECT/EXAMINE flag ----

func famSimple() *family {
	type sc struct {
		name  string
		state int
		after int
		legal func(cfg *config) bool
		do    func(c *imapclient.Client) error
		want  func(cfg *config) []string // expected backend methods
	}
	enable := func(caps ...imap.Cap) func(c *imapclient.Client) error {
		return func(c *imapclient.Client) error {
			data, err := c.Enable(caps...).Wait()
			if err != nil {
				return err
			}
			for _, k := range caps {
				if !data.Caps.Has(k) {
					return fmt.Errorf("c02: ENABLE %v: server enabled only %v", caps, data.Caps)
				}
			}
			return nil
		}
	}
	all := func(*config) bool { return true }
	rev2 := func(cfg *config) bool { return cfg.Rev2 }
	none := func(*config) []string { return nil }
	l := []sc{
		{"NOOP", stAuth, 0, all, func(c *imapclient.Client) error { return c.Noop().Wait() }, none},
		{"NOOP (selected)", stSelected, 0, all, func(c *imapclient.Client) error { return c.Noop().Wait() }, none},
		{"NOOP (not authenticated)", stNotAuth, 0, all, func(c *imapclient.Client) error { return c.Noop().Wait() }, none},
		{"NAMESPACE", stAuth, 0, all, func(c *imapclient.Client) error { _, err := c.Namespace().Wait(); return err }, func(*config) []string { return []string{"Namespace"} }},
		{"UNSELECT", stSelected, stAuth, all, func(c *imapclient.Client) error { return c.Unselect().Wait() }, func(*config) []string { return []string{"Unselect"} }},
		{"CLOSE", stSelected, stAuth, all, func(c *imapclient.Client) error { return c.UnselectAndExpunge().Wait() }, func(*config) []string { return []string{"Expunge:nil", "Unselect"} }},
		{"EXPUNGE", stSelected, 0, all, func(c *imapclient.Client) error { return c.Expunge().Close() }, func(*config) []string { return []string{"Expunge:nil"} }},
		{"IDLE", stAuth, 0, all, func(c *imapclient.Client) error {
			cmd, err := c.Idle()
			if err != nil {
				return err
			}
			if err := cmd.Close(); err != nil {
				return err
			}
			return cmd.Wait()
		}, func(*config) []string { return []string{"Idle"} }},
		{"IDLE (selected)", stSelected, 0, all, func(c *imapclient.Client) error {
			cmd, err := c.Idle()
			if err != nil {
				return err
			}
			if err := cmd.Close(); err != nil {
				return err
			}
			return cmd.Wait()
		}, func(*config) []string { return []string{"Idle"} }},
		{"LOGOUT", stAuth, -1, all, func(c *imapclient.Client) error { return c.Logout().Wait() }, none},
		{"LOGOUT (not authenticated)", stNotAuth, -1, all, func(c *imapclient.Client) error { return c.Logout().Wait() }, none},
		{"ENABLE UTF8=ACCEPT", stAuth, -1, all, enable(imap.CapUTF8Accept), none},
		{"ENABLE IMAP4rev2", stAuth, -1, rev2, enable(imap.CapIMAP4rev2), none},
		{"ENABLE IMAP4rev2 UTF8=ACCEPT", stAuth, -1, rev2, enable(imap.CapIMAP4rev2, imap.CapUTF8Accept), none},
		{"ENABLE UTF8=ACCEPT IMAP4rev2", stAuth, -1, rev2, enable(imap.CapUTF8Accept, imap.CapIMAP4rev2), none},
		{"SELECT INBOX while selected", stSelected, stSelected, all, func(c *imapclient.Client) error { _, err := c.Select("INBOX", nil).Wait(); return err },
			func(*config) []string { return []string{"Unselect", "Select:false"} }},
		{"EXAMINE INBOX while selected", stSelected, stSelected, all, func(c *imapclient.Client) error {
			_, err := c.Select("INBOX", &imap.SelectOptions{ReadOnly: true}).Wait()
			return err
		}, func(*config) []string { return []string{"Unselect", "Select:true"} }},
	}
	return &family{name: "simple-commands", n: len(l), at: func(cfg *config, i int) *tcase {
		x := l[i]
		return &tcase{cmd: strings.ToLower(strings.Fields(x.name)[0]), state: x.state, after: x.after, legal: x.legal(cfg), desc: x.name, do: x.do,
			check: func(calls []srvkit.Call) (string, string) {
				var got []string
				for _, c := range calls {
					s := c.Method
					switch c.Method {
					case "Expunge":
						s += ":" + renderArg(c.Args[0])
					case "Select":
						s += fmt.Sprintf(":%v", c.Args[1].(imap.SelectOptions).ReadOnly)
					}
					got = append(got, s)
				}
				want := x.want(cfg)
				if strings.Join(got, ",") != strings.Join(want, ",") {
					return "wrong-operation", fmt.Sprintf("expected backend trace %v, got %v", want, got)
				}
				return "", ""
			}}
	}}
}

// ---- LOGIN ----

func famLogin() *family {
	pos := []position{{name: "username", benign: "user", single: Sx, pair: S}, {name: "password", benign: "pass", single: Sx, pair: S}}
	vs := vectors(pos)
	return &family{name: "login-strings", n: len(vs), at: func(cfg *config, i int) *tcase {
		v := vs[i]
		legal, limit, nt := vecProps(pos, v)
		return &tcase{cmd: "login", state: stNotAuth, after: -1, legal: legal, limit: limit, nontrivial: ntSig(nt), desc: descStrs("LOGIN", pos, v),
			do: func(c *imapclient.Client) error { return c.Login(v[0], v[1]).Wait() },
			check: func(calls []srvkit.Call) (string, string) {
				c, w, m := one(calls, "Login", 2)
				if w != "" {
					return w, m
				}
				if w, m := strCheck(c, 0, "username", v[0], false); w != "" {
					return w, m
				}
				return strCheck(c, 1, "password", v[1], false)
			}}
	}}
}

func ntSig(b bool) string {
	if b {
		return "x"
	}
	return ""
}

// ---- every command with one mailbox position ----

type mboxCmd struct {
	name   string
	state  int
	after  int
	method func(cfg *config) string
	do     func(c *imapclient.Client, m string) error
	// extra verifies the remaining (benign) arguments of the recorded call
	extra func(cfg *config, calls []srvkit.Call) (string, string)
}

func mboxCmds() []mboxCmd {
	plain := func(m string) func(*config) string { return func(*config) string { return m } }
	return []mboxCmd{
		{"CREATE", stAuth, 0, plain("Create"), func(c *imapclient.Client, m string) error { return c.Create(m, nil).Wait() }, nil},
		{"DELETE", stAuth, 0, plain("Delete"), func(c *imapclient.Client, m string) error { return c.Delete(m).Wait() }, nil},
		{"SUBSCRIBE", stAuth, 0, plain("Subscribe"), func(c *imapclient.Client, m string) error { return c.Subscribe(m).Wait() }, nil},
		{"UNSUBSCRIBE", stAuth, 0, plain("Unsubscribe"), func(c *imapclient.Client, m string) error { return c.Unsubscribe(m).Wait() }, nil},
		{"STATUS", stAuth, 0, plain("Status"), func(c *imapclient.Client, m string) error {
			_, err := c.Status(m, &imap.StatusOptions{NumMessages: true}).Wait()
			return err
		}, func(cfg *config, calls []srvkit.Call) (string, string) {
			if o := calls[0].Args[1].(imap.StatusOptions); o != (imap.StatusOptions{NumMessages: true}) {
				return "items-altered", "issued (MESSAGES), backend received " + statusStr(&o)
			}
			return "", ""
		}},
		{"SELECT", stAuth, stSelected, plain("Select"), func(c *imapclient.Client, m string) error { _, err := c.Select(m, nil).Wait(); return err },
			func(cfg *config, calls []srvkit.Call) (string, string) {
				if calls[0].Args[1].(imap.SelectOptions).ReadOnly {
					return "readonly-altered", "SELECT arrived as EXAMINE"
				}
				return "", ""
			}},
		{"EXAMINE", stAuth, stSelected, plain("Select"), func(c *imapclient.Client, m string) error {
			_, err := c.Select(m, &imap.SelectOptions{ReadOnly: true}).Wait()
			return err
		}, func(cfg *config, calls []srvkit.Call) (string, string) {
			if !calls[0].Args[1].(imap.SelectOptions).ReadOnly {
				return "readonly-altered", "EXAMINE arrived as SELECT"
			}
			return "", ""
		}},
		{"APPEND", stAuth, 0, plain("Append"), func(c *imapclient.Client, m string) error {
			cmd := c.Append(m, 2, nil)
			cmd.Write([]byte("hi"))
			cmd.Close()
			_, err := cmd.Wait()
			return err
		}, func(cfg *config, calls []srvkit.Call) (string, string) {
			if len(calls[0].Args) < 5 || strArg(&calls[0], 3) != "hi" {
				return "payload-altered", "issued payload \"hi\""
			}
			return "", ""
		}},
	}
}

func famMailbox() *family {
	cmds := mboxCmds()
	type item struct {
		cmd int // index in cmds, or -1/-2 for COPY/MOVE
		uid bool
		m   string
	}
	var l []item
	for ci := range cmds {
		for _, m := range Mx {
			l = append(l, item{cmd: ci, m: m})
		}
	}
	for _, k := range []int{-1, -2} {
		for _, uid := range []bool{false, true} {
			for _, m := range Mx {
				l = append(l, item{cmd: k, uid: uid, m: m})
			}
		}
	}
	pos := []position{{name: "mailbox", mailbox: true}}
	return &family{name: "mailbox-strings", n: len(l), at: func(cfg *config, i int) *tcase {
		it := l[i]
		legal, limit, nt := vecProps(pos, []string{it.m})
		if it.cmd >= 0 {
			x := cmds[it.cmd]
			return &tcase{cmd: strings.ToLower(x.name), state: x.state, after: x.after, legal: legal, limit: limit, nontrivial: ntSig(nt),
				desc: x.name + " mailbox=" + q(it.m), do: func(c *imapclient.Client) error { return x.do(c, it.m) },
				check: func(calls []srvkit.Call) (string, string) {
					c, w, m := one(calls, x.method(cfg), 1)
					if w != "" {
						return w, m
					}
					if w, m := strCheck(c, 0, "mailbox", it.m, true); w != "" {
						return w, m
					}
					if x.extra != nil {
						return x.extra(cfg, calls)
					}
					return "", ""
				}}
		}
		set := benignSet(it.uid)
		if it.cmd == -1 {
			return &tcase{cmd: "copy", state: stSelected, legal: legal, limit: limit, nontrivial: ntSig(nt), desc: kindName(it.uid) + "COPY " + setStr(set) + " mailbox=" + q(it.m),
				do:    func(c *imapclient.Client) error { _, err := c.Copy(set, it.m).Wait(); return err },
				check: func(calls []srvkit.Call) (string, string) { return copyCheck(calls, "Copy", set, it.m) }}
		}
		return &tcase{cmd: "move", state: stSelected, legal: legal, limit: limit, nontrivial: ntSig(nt), desc: kindName(it.uid) + "MOVE " + setStr(set) + " mailbox=" + q(it.m),
			do:    func(c *imapclient.Client) error { _, err := c.Move(set, it.m).Wait(); return err },
			check: func(calls []srvkit.Call) (string, string) { return moveCheck(cfg, calls, set, it.m) }}
	}}
}

func copyCheck(calls []srvkit.Call, method string, set imap.NumSet, dest string) (string, string) {
	c, w, m := one(calls, method, 2)
	if w != "" {
		return w, m
	}
	if w, m := setCheck(c, 0, set); w != "" {
		return w, m
	}
	return strCheck(c, 1, "mailbox", dest, true)
}

// moveCheck: MOVE where the server advertises it, else the documented COPY+STORE+EXPUNGE fallback.
func moveCheck(cfg *config, calls []srvkit.Call, set imap.NumSet, dest string) (string, string) {
	if cfg.Rev2 {
		return copyCheck(calls, "Move", set, dest)
	}
	if len(calls) != 3 || calls[0].Method != "Copy" || calls[1].Method != "Store" || calls[2].Method != "Expunge" {
		return "wrong-operation", "expected the documented fallback Copy, Store, Expunge"
	}
	if w, m := copyCheck(calls[:1], "Copy", set, dest); w != "" {
		return w, m
	}
	if w, m := setCheck(&calls[1], 0, set); w != "" {
		return w, m
	}
	sf := calls[1].Args[1].(imap.StoreFlags)
	if sf.Op != imap.StoreFlagsAdd || !sf.Silent || !flagsEq(sf.Flags, []imap.Flag{imap.FlagDeleted}) {
		return "fallback-store-altered", "expected +FLAGS.SILENT (\\Deleted), backend received " + renderArg(sf)
	}
	if calls[2].Args[0] != nil {
		return "fallback-expunge-altered", "expected EXPUNGE without UID set"
	}
	return "", ""
}

// ---- RENAME: two mailbox positions ----

func famRename() *family {
	pos := []position{{name: "mailbox", benign: "old", single: Mx, pair: M, mailbox: true}, {name: "newname", benign: "new", single: Mx, pair: M, mailbox: true}}
	vs := vectors(pos)
	return &family{name: "rename-strings", n: len(vs), at: func(cfg *config, i int) *tcase {
		v := vs[i]
		legal, limit, nt := vecProps(pos, v)
		return &tcase{cmd: "rename", state: stAuth, legal: legal, limit: limit, nontrivial: ntSig(nt), desc: descStrs("RENAME", pos, v),
			do: func(c *imapclient.Client) error { return c.Rename(v[0], v[1]).Wait() },
			check: func(calls []srvkit.Call) (string, string) {
				c, w, m := one(calls, "Rename", 2)
				if w != "" {
					return w, m
				}
				if w, m := strCheck(c, 0, "mailbox", v[0], true); w != "" {
					return w, m
				}
				return strCheck(c, 1, "newname", v[1], true)
			}}
	}}
}

// ---- CREATE (USE (...)) ----

func famCreateUse() *family {
	A := []imap.MailboxAttr{imap.MailboxAttrAll, imap.MailboxAttrArchive, imap.MailboxAttrDrafts, imap.MailboxAttrFlagged, imap.MailboxAttrJunk,
		imap.MailboxAttrSent, imap.MailboxAttrTrash, imap.MailboxAttrImportant, "\\drafts", "\\X-Custom"}
	var l [][]imap.MailboxAttr
	l = append(l, nil)
	for _, a := range A {
		l = append(l, []imap.MailboxAttr{a})
	}
	for _, a := range A {
		for _, b := range A {
			l = append(l, []imap.MailboxAttr{a, b})
		}
	}
	return &family{name: "create-special-use", n: len(l), at: func(cfg *config, i int) *tcase {
		attrs := l[i]
		return &tcase{cmd: "create", state: stAuth, legal: true, nontrivial: ntSig(len(attrs) > 0), desc: fmt.Sprintf("CREATE mailbox=\"mbox\" special-use=%q", attrs),
			do: func(c *imapclient.Client) error {
				return c.Create("mbox", &imap.CreateOptions{SpecialUse: attrs}).Wait()
			},
			check: func(calls []srvkit.Call) (string, string) {
				c, w, m := one(calls, "Create", 2)
				if w != "" {
					return w, m
				}
				if w, m := strCheck(c, 0, "mailbox", "mbox", true); w != "" {
					return w, m
				}
				if got := c.Args[1].(imap.CreateOptions); !attrsEq(attrs, got.SpecialUse) {
					return "special-use-altered", fmt.Sprintf("issued %q, backend received %q", attrs, got.SpecialUse)
				}
				return "", ""
			}}
	}}
}

// ---- LIST ----

func listCheck(calls []srvkit.Call, ref, pattern string, opts *imap.ListOptions) (string, string) {
	c, w, m := one(calls, "List", 3)
	if w != "" {
		return w, m
	}
	if w, m := strCheck(c, 0, "reference", ref, true); w != "" {
		return w, m
	}
	got, _ := c.Args[1].([]string)
	ok := false
	if pattern == "" {
		ok = len(got) == 0
	} else {
		ok = len(got) == 1 && mboxEq(pattern, got[0])
	}
	if !ok {
		what := "pattern-altered"
		if needsUTF7(pattern) {
			what = "pattern-not-utf7"
		}
		return what, fmt.Sprintf("pattern: issued %s, backend received %s", q(pattern), qlist(got))
	}
	var want imap.ListOptions
	if opts != nil {
		want = *opts
	}
	gotO := c.Args[2].(imap.ListOptions)
	if listOptStr(&want) != listOptStr(&gotO) {
		return "options-altered", fmt.Sprintf("options: issued %s, backend received %s", listOptStr(&want), listOptStr(&gotO))
	}
	return "", ""
}

func famListStrings() *family {
	pos := []position{{name: "reference", benign: "", single: Mx, pair: M, mailbox: true}, {name: "pattern", benign: "*", single: append(append([]string{}, P...), long4096, lit4096), pair: P, mailbox: true}}
	vs := vectors(pos)
	return &family{name: "list-strings", n: len(vs), at: func(cfg *config, i int) *tcase {
		v := vs[i]
		legal, limit, nt := vecProps(pos, v)
		return &tcase{cmd: "list", state: stAuth, legal: legal, limit: limit, nontrivial: ntSig(nt), desc: descStrs("LIST", pos, v),
			do:    func(c *imapclient.Client) error { return c.List(v[0], v[1], nil).Close() },
			check: func(calls []srvkit.Call) (string, string) { return listCheck(calls, v[0], v[1], nil) },
			rejectKey: func(err error) string {
				// the reference position is swept on its own with a plain pattern; a rejection
				// with a pattern whose modified UTF-7 form differs from itself is the pattern's
				if needsUTF7(v[1]) {
					return "pattern-not-utf7"
				}
				return ""
			}}
	}}
}

func statusFromBits(b int) *imap.StatusOptions {
	return &imap.StatusOptions{NumMessages: b&1 != 0, UIDNext: b&2 != 0, UIDValidity: b&4 != 0, NumUnseen: b&8 != 0,
		NumDeleted: b&16 != 0, Size: b&32 != 0, AppendLimit: b&64 != 0, DeletedStorage: b&128 != 0}
}

func famListOptions() *family {
	// index = ((sel*4 + ret) * 257) + st, st 0 = no STATUS, st-1 = item bits
	n := 8 * 4 * 257
	return &family{name: "list-options", n: n, at: func(cfg *config, i int) *tcase {
		st := i % 257
		ret := (i / 257) % 4
		sel := i / (257 * 4)
		o := &imap.ListOptions{SelectSubscribed: sel&1 != 0, SelectRemote: sel&2 != 0, SelectRecursiveMatch: sel&4 != 0,
			ReturnSubscribed: ret&1 != 0, ReturnChildren: ret&2 != 0}
		if st > 0 {
			o.ReturnStatus = statusFromBits(st - 1)
		}
		legal := !(o.SelectRecursiveMatch && !o.SelectSubscribed)
		return &tcase{cmd: "list", state: stAuth, legal: legal, nontrivial: ntSig(i > 0), desc: "LIST reference=\"\" pattern=\"*\" options=" + listOptStr(o),
			do:    func(c *imapclient.Client) error { return c.List("", "*", o).Close() },
			check: func(calls []srvkit.Call) (string, string) { return listCheck(calls, "", "*", o) }}
	}}
}

// ---- STATUS items ----

func famStatusItems() *family {
	return &family{name: "status-items", n: 256, at: func(cfg *config, i int) *tcase {
		o := statusFromBits(i)
		return &tcase{cmd: "status", state: stAuth, legal: true, nontrivial: ntSig(i > 0), desc: "STATUS mailbox=\"mbox\" items=" + statusStr(o),
			do: func(c *imapclient.Client) error { _, err := c.Status("mbox", o).Wait(); return err },
			check: func(calls []srvkit.Call) (string, string) {
				c, w, m := one(calls, "Status", 2)
				if w != "" {
					return w, m
				}
				if w, m := strCheck(c, 0, "mailbox", "mbox", true); w != "" {
					return w, m
				}
				if got := c.Args[1].(imap.StatusOptions); got != *o {
					return "items-altered", fmt.Sprintf("issued %s, backend received %s", statusStr(o), statusStr(&got))
				}
				return "", ""
			}}
	}}
}

// ---- flag lists ----

func flagLists(F []imap.Flag) [][]imap.Flag {
	l := [][]imap.Flag{nil}
	for _, a := range F {
		l = append(l, []imap.Flag{a})
	}
	for _, a := range F {
		for _, b := range F {
			l = append(l, []imap.Flag{a, b})
		}
	}
	return l
}

// ---- APPEND ----

func payloadOf(size int, tricky bool) []byte {
	b := make([]byte, size)
	pat := "x"
	if tricky {
		pat = "a\r\n{3}\r\nT1 LOGOUT\r\n"
	}
	for i := range b {
		b[i] = pat[i%len(pat)]
	}
	return b
}

func famAppend() *family {
	fl := flagLists([]imap.Flag{imap.FlagSeen, imap.FlagDraft, "kw", imap.FlagForwarded})
	times := []time.Time{{},
		time.Date(2024, 3, 5, 7, 8, 9, 0, time.UTC),
		time.Date(1999, 12, 31, 23, 59, 59, 500e6, time.FixedZone("", 5*3600+30*60)),
		time.Date(2024, 2, 29, 0, 0, 0, 0, time.FixedZone("", -8*3600))}
	type pl struct {
		size   int
		tricky bool
	}
	pls := []pl{{0, false}, {1, false}, {1, true}, {4096, false}, {4096, true}, {4097, false}, {4097, true}}
	n := len(fl) * len(times) * len(pls)
	return &family{name: "append", n: n, at: func(cfg *config, i int) *tcase {
		p := pls[i%len(pls)]
		t := times[(i/len(pls))%len(times)]
		flags := fl[i/(len(pls)*len(times))]
		payload := payloadOf(p.size, p.tricky)
		opts := &imap.AppendOptions{Flags: flags, Time: t}
		return &tcase{cmd: "append", state: stAuth, legal: true, nontrivial: ntSig(i > 0),
			desc: fmt.Sprintf("APPEND mailbox=\"mbox\" flags=%q time=%s payload=%d bytes (CRLF and {n} inside: %v)", flags, timeStr(t), p.size, p.tricky),
			do: func(c *imapclient.Client) error {
				cmd := c.Append("mbox", int64(len(payload)), opts)
				cmd.Write(payload)
				cmd.Close()
				_, err := cmd.Wait()
				return err
			},
			check: func(calls []srvkit.Call) (string, string) {
				c, w, m := one(calls, "Append", 5)
				if w != "" {
					return w, m
				}
				if w, m := strCheck(c, 0, "mailbox", "mbox", true); w != "" {
					return w, m
				}
				if sz, _ := c.Args[1].(int64); sz != int64(len(payload)) {
					return "size-altered", fmt.Sprintf("issued size %d, backend received %v", len(payload), c.Args[1])
				}
				got := c.Args[2].(imap.AppendOptions)
				if !flagsEq(flags, got.Flags) || len(flags) == 0 && len(got.Flags) != 0 {
					return "flags-altered", fmt.Sprintf("issued %q, backend received %q", flags, got.Flags)
				}
				if t.IsZero() != got.Time.IsZero() || !t.IsZero() && !t.Truncate(time.Second).Equal(got.Time) {
					return "date-altered", fmt.Sprintf("issued %s, backend received %s", timeStr(t), timeStr(got.Time))
				}
				if strArg(c, 3) != string(payload) {
					return "payload-altered", fmt.Sprintf("issued %d bytes %s, backend read %d bytes %s (read error %v)", len(payload), q(string(payload)), len(strArg(c, 3)), q(strArg(c, 3)), c.Args[4])
				}
				if strArg(c, 4) != "<nil>" {
					return "payload-altered", fmt.Sprintf("backend read error %v", c.Args[4])
				}
				return "", ""
			}}
	}}
}

// ---- STORE ----

func famStore() *family {
	fl := flagLists([]imap.Flag{imap.FlagSeen, imap.FlagDeleted, imap.FlagAnswered, "\\seen", "kw", imap.FlagForwarded, "\\Custom"})
	ops := []imap.StoreFlagsOp{imap.StoreFlagsSet, imap.StoreFlagsAdd, imap.StoreFlagsDel}
	n := len(fl) * 3 * 2 * 2
	return &family{name: "store", n: n, at: func(cfg *config, i int) *tcase {
		uid := i%2 == 1
		silent := (i/2)%2 == 1
		op := ops[(i/4)%3]
		flags := fl[i/12]
		set := benignSet(uid)
		sf := &imap.StoreFlags{Op: op, Silent: silent, Flags: flags}
		return &tcase{cmd: "store", state: stSelected, legal: true, nontrivial: ntSig(i > 0), desc: kindName(uid) + "STORE " + setStr(set) + " " + renderArg(*sf),
			do:    func(c *imapclient.Client) error { return c.Store(set, sf, nil).Close() },
			check: func(calls []srvkit.Call) (string, string) { return storeCheck(calls, set, sf) }}
	}}
}

func storeCheck(calls []srvkit.Call, set imap.NumSet, sf *imap.StoreFlags) (string, string) {
	c, w, m := one(calls, "Store", 3)
	if w != "" {
		return w, m
	}
	if w, m := setCheck(c, 0, set); w != "" {
		return w, m
	}
	got := c.Args[1].(imap.StoreFlags)
	if got.Op != sf.Op {
		return "op-altered", fmt.Sprintf("issued %s, backend received %s", renderArg(*sf), renderArg(got))
	}
	if got.Silent != sf.Silent {
		return "silent-altered", fmt.Sprintf("issued %s, backend received %s", renderArg(*sf), renderArg(got))
	}
	if !flagsEq(got.Flags, sf.Flags) {
		return "flags-altered", fmt.Sprintf("issued %s, backend received %s", renderArg(*sf), renderArg(got))
	}
	if o := c.Args[2].(imap.StoreOptions); o != (imap.StoreOptions{}) {
		return "options-altered", fmt.Sprintf("backend received options %+v", o)
	}
	return "", ""
}

// ---- FETCH ----

func fetchCase(name string, uid bool, set imap.NumSet, o *imap.FetchOptions, legal, limit, nt bool) *tcase {
	want := fetchItems(o, uid)
	return &tcase{cmd: "fetch", state: stSelected, legal: legal, limit: limit, nontrivial: ntSig(nt),
		desc: kindName(uid) + "FETCH " + setStr(set) + " [" + strings.Join(want, " ") + "]",
		do:   func(c *imapclient.Client) error { return c.Fetch(set, o).Close() },
		check: func(calls []srvkit.Call) (string, string) {
			c, w, m := one(calls, "Fetch", 2)
			if w != "" {
				return w, m
			}
			if w, m := setCheck(c, 0, set); w != "" {
				return w, m
			}
			gotO := c.Args[1].(imap.FetchOptions)
			got := fetchItems(&gotO, false)
			if strings.Join(got, "\x00") != strings.Join(want, "\x00") {
				return "items-altered", fmt.Sprintf("issued items %v, backend received %v", want, got)
			}
			return "", ""
		}}
}

func attrsFromBits(b int) imap.FetchOptions {
	var o imap.FetchOptions
	switch b % 3 {
	case 1:
		o.BodyStructure = &imap.FetchItemBodyStructure{}
	case 2:
		o.BodyStructure = &imap.FetchItemBodyStructure{Extended: true}
	}
	b /= 3
	o.Envelope = b&1 != 0
	o.Flags = b&2 != 0
	o.InternalDate = b&4 != 0
	o.RFC822Size = b&8 != 0
	o.UID = b&16 != 0
	return o
}

var (
	parts    = [][]int{nil, {1}, {1, 2}}
	partials = []*imap.SectionPartial{nil, {Offset: 0, Size: 1}, {Offset: 5, Size: 4294967295}}
)

// bodyShapes: part x specifier x partial x peek = 3 x 8 x 3 x 2 = 144.
func bodyShapes() []*imap.FetchItemBodySection {
	type spec struct {
		s       imap.PartSpecifier
		f, fnot []string
	}
	specs := []spec{{s: imap.PartSpecifierNone}, {s: imap.PartSpecifierHeader}, {s: imap.PartSpecifierText}, {s: imap.PartSpecifierMIME},
		{s: imap.PartSpecifierHeader, f: []string{"Subject"}}, {s: imap.PartSpecifierHeader, f: []string{"From", "X-Two Words"}},
		{s: imap.PartSpecifierHeader, fnot: []string{"Subject"}}, {s: imap.PartSpecifierHeader, fnot: []string{"From", "X-Two Words"}}}
	var l []*imap.FetchItemBodySection
	for _, p := range parts {
		for _, sp := range specs {
			for _, pa := range partials {
				for _, peek := range []bool{false, true} {
					l = append(l, &imap.FetchItemBodySection{Specifier: sp.s, Part: p, HeaderFields: sp.f, HeaderFieldsNot: sp.fnot, Partial: pa, Peek: peek})
				}
			}
		}
	}
	return l
}

func binaryShapes() []*imap.FetchItemBinarySection {
	var l []*imap.FetchItemBinarySection
	for _, p := range parts {
		for _, pa := range partials {
			for _, peek := range []bool{false, true} {
				l = append(l, &imap.FetchItemBinarySection{Part: p, Partial: pa, Peek: peek})
			}
		}
	}
	return l
}

func binSizeShapes() []*imap.FetchItemBinarySectionSize {
	var l []*imap.FetchItemBinarySectionSize
	for _, p := range parts {
		l = append(l, &imap.FetchItemBinarySectionSize{Part: p})
	}
	return l
}

// section is one of the three section kinds.
type section struct {
	body *imap.FetchItemBodySection
	bin  *imap.FetchItemBinarySection
	size *imap.FetchItemBinarySectionSize
}

func (s section) addTo(o *imap.FetchOptions) {
	switch {
	case s.body != nil:
		o.BodySection = append(o.BodySection, s.body)
	case s.bin != nil:
		o.BinarySection = append(o.BinarySection, s.bin)
	case s.size != nil:
		o.BinarySectionSize = append(o.BinarySectionSize, s.size)
	}
}

func allSections() []section {
	var l []section
	for _, b := range bodyShapes() {
		l = append(l, section{body: b})
	}
	for _, b := range binaryShapes() {
		l = append(l, section{bin: b})
	}
	for _, b := range binSizeShapes() {
		l = append(l, section{size: b})
	}
	return l
}

func famFetchAttrs() *family {
	reps := []section{{}, {body: &imap.FetchItemBodySection{}},
		{body: &imap.FetchItemBodySection{Specifier: imap.PartSpecifierHeader, Part: []int{1, 2}, HeaderFields: []string{"a", "b"}, Partial: &imap.SectionPartial{Offset: 0, Size: 1}, Peek: true}},
		{bin: &imap.FetchItemBinarySection{Part: []int{1}}}, {size: &imap.FetchItemBinarySectionSize{Part: []int{1, 2}}}}
	n := 96 * len(reps) * 2
	return &family{name: "fetch-attributes", n: n, at: func(cfg *config, i int) *tcase {
		uid := i%2 == 1
		rep := reps[(i/2)%len(reps)]
		o := attrsFromBits(i / (2 * len(reps)))
		rep.addTo(&o)
		return fetchCase("fetch-attributes", uid, benignSet(uid), &o, true, false, i > 1)
	}}
}

func famFetchSections() *family {
	secs := allSections()
	n := len(secs) * 2 * 2
	return &family{name: "fetch-sections", n: n, at: func(cfg *config, i int) *tcase {
		uid := i%2 == 1
		var o imap.FetchOptions
		if (i/2)%2 == 1 {
			o = attrsFromBits(95)
		}
		secs[i/4].addTo(&o)
		return fetchCase("fetch-sections", uid, benignSet(uid), &o, true, false, true)
	}}
}

// famFetchCross: every attribute subset x every section shape (thorough tier).
func famFetchCross() *family {
	secs := allSections()
	n := 96 * len(secs) * 2
	return &family{name: "fetch-attributes-x-sections", n: n, at: func(cfg *config, i int) *tcase {
		uid := i%2 == 1
		o := attrsFromBits((i / 2) % 96)
		secs[i/192].addTo(&o)
		return fetchCase("fetch-attributes-x-sections", uid, benignSet(uid), &o, true, false, true)
	}}
}

func famFetchSectionPairs(thorough bool) *family {
	secs := allSections()
	second := secs
	if !thorough {
		second = nil
		for _, k := range []int{0, 1, 7, 30, 61, 100, 143, 144, 150, 161, 162, 164} {
			second = append(second, secs[k])
		}
	}
	n := len(secs) * len(second) * 2
	return &family{name: "fetch-section-pairs", n: n, at: func(cfg *config, i int) *tcase {
		swap := i%2 == 1
		a, b := secs[(i/2)/len(second)], second[(i/2)%len(second)]
		if swap {
			a, b = b, a
		}
		var o imap.FetchOptions
		a.addTo(&o)
		b.addTo(&o)
		uid := (i/2)%3 == 1
		return fetchCase("fetch-section-pairs", uid, benignSet(uid), &o, true, false, true)
	}}
}

func famFetchHeaderStrings() *family {
	pos := []position{{name: "field1", benign: "Subject", single: Sx, pair: S}, {name: "field2", benign: "From", single: Sx, pair: S}}
	vs := vectors(pos)
	// plus the one-name lists
	n := (len(vs) + len(Sx)) * 2
	return &family{name: "fetch-header-field-strings", n: n, at: func(cfg *config, i int) *tcase {
		not := i%2 == 1
		k := i / 2
		var names []string
		if k < len(vs) {
			names = vs[k]
		} else {
			names = []string{Sx[k-len(vs)]}
		}
		legal, limit, nt := true, false, false
		for _, s := range names {
			legal = legal && strLegal(s)
			limit = limit || overLimit(s, false)
			nt = nt || strNontrivial(s, false)
		}
		bs := &imap.FetchItemBodySection{Specifier: imap.PartSpecifierHeader, Peek: true}
		if not {
			bs.HeaderFieldsNot = names
		} else {
			bs.HeaderFields = names
		}
		o := imap.FetchOptions{Flags: true, BodySection: []*imap.FetchItemBodySection{bs}}
		return fetchCase("fetch-header-field-strings", false, benignSet(false), &o, legal, limit, nt)
	}}
}

// ---- number sets ----

var endpoints = []uint32{1, 2, 3, 5, 1<<32 - 2, 1<<32 - 1, 0}

// reachableSets returns every distinct in-memory set reachable by <= depth AddNum/AddRange
// insertions over the endpoints (0 = "*"), as range lists (the empty set excluded).
func reachableSets(depth int) [][]rng {
	type op struct {
		rangeOp bool
		a, b    uint32
	}
	var ops []op
	for _, a := range endpoints {
		ops = append(ops, op{false, a, 0})
	}
	for _, a := range endpoints {
		for _, b := range endpoints {
			ops = append(ops, op{true, a, b})
		}
	}
	key := func(s imap.SeqSet) string { return fmt.Sprint([]imap.SeqRange(s)) }
	seen := map[string]bool{}
	var out [][]rng
	level := []imap.SeqSet{nil}
	for d := 0; d < depth; d++ {
		var next []imap.SeqSet
		for _, s := range level {
			for _, o := range ops {
				t := append(imap.SeqSet{}, s...)
				if o.rangeOp {
					t.AddRange(o.a, o.b)
				} else {
					t.AddNum(o.a)
				}
				k := key(t)
				if seen[k] {
					continue
				}
				seen[k] = true
				next = append(next, t)
				var l []rng
				for _, r := range t {
					l = append(l, rng{r.Start, r.Stop})
				}
				out = append(out, l)
			}
		}
		level = next
	}
	return out
}

// rawSet builds a set with exactly these ranges (the in-memory value the caller holds).
func rawSet(l []rng, uid bool) imap.NumSet {
	if uid {
		s := make(imap.UIDSet, len(l))
		for i, r := range l {
			s[i] = imap.UIDRange{Start: imap.UID(r.a), Stop: imap.UID(r.b)}
		}
		return s
	}
	s := make(imap.SeqSet, len(l))
	for i, r := range l {
		s[i] = imap.SeqRange{Start: r.a, Stop: r.b}
	}
	return s
}

func famNumSetsFetch() *family {
	sets := reachableSets(3)
	return &family{name: "numsets-fetch", n: len(sets) * 2, at: func(cfg *config, i int) *tcase {
		uid := i%2 == 1
		set := rawSet(sets[i/2], uid)
		o := imap.FetchOptions{Flags: true}
		return fetchCase("numsets-fetch", uid, set, &o, true, false, len(sets[i/2]) > 1 || sets[i/2][0].a != sets[i/2][0].b)
	}}
}

func famNumSetsOther() *family {
	sets := reachableSets(2)
	// commands 0..8 over every set, then "$" through the UID commands
	const ncmd = 9
	n := len(sets)*ncmd + 6
	return &family{name: "numsets-other-commands", n: n, at: func(cfg *config, i int) *tcase {
		var set imap.NumSet
		var k int
		if i < len(sets)*ncmd {
			k = i % ncmd
			uid := k == 1 || k == 3 || k == 5 || k == 6 || k == 8
			set = rawSet(sets[i/ncmd], uid)
		} else {
			set = imap.SearchRes()
			k = []int{1, 3, 5, 6, 8, 9}[i-len(sets)*ncmd]
		}
		_, uid := set.(imap.UIDSet)
		sf := &imap.StoreFlags{Op: imap.StoreFlagsAdd, Flags: []imap.Flag{imap.FlagSeen}}
		tc := &tcase{state: stSelected, legal: true, nontrivial: "x"}
		switch k {
		case 0, 1:
			tc.cmd, tc.desc = "store", kindName(uid)+"STORE "+setStr(set)+" +FLAGS (\\Seen)"
			tc.do = func(c *imapclient.Client) error { return c.Store(set, sf, nil).Close() }
			tc.check = func(calls []srvkit.Call) (string, string) { return storeCheck(calls, set, sf) }
		case 2, 3:
			tc.cmd, tc.desc = "copy", kindName(uid)+"COPY "+setStr(set)+" mailbox=\"dest\""
			tc.do = func(c *imapclient.Client) error { _, err := c.Copy(set, "dest").Wait(); return err }
			tc.check = func(calls []srvkit.Call) (string, string) { return copyCheck(calls, "Copy", set, "dest") }
		case 4, 5:
			tc.cmd, tc.desc = "move", kindName(uid)+"MOVE "+setStr(set)+" mailbox=\"dest\""
			tc.do = func(c *imapclient.Client) error { _, err := c.Move(set, "dest").Wait(); return err }
			tc.check = func(calls []srvkit.Call) (string, string) { return moveCheck(cfg, calls, set, "dest") }
		case 6:
			us := set.(imap.UIDSet)
			tc.cmd, tc.desc = "uidexpunge", "UID EXPUNGE "+setStr(set)
			tc.do = func(c *imapclient.Client) error { return c.UIDExpunge(us).Close() }
			tc.check = func(calls []srvkit.Call) (string, string) {
				c, w, m := one(calls, "Expunge", 1)
				if w != "" {
					return w, m
				}
				a, ok := c.Args[0].(uidSetArg)
				var got imap.NumSet = a.Set
				if ok && a.SearchRes {
					got = imap.SearchRes()
				}
				if !ok || !numSetEq(set, got) {
					return "numset-altered", fmt.Sprintf("UID set: issued %s, backend received %s", setStr(set), renderArg(c.Args[0]))
				}
				return "", ""
			}
		case 7, 8, 9:
			// 7: SEARCH <seq set>; 8: SEARCH UID <uid set>; 9: UID FETCH $
			if k == 9 {
				o := imap.FetchOptions{Flags: true}
				return fetchCase("numsets-other-commands", true, set, &o, true, false, true)
			}
			var crit imap.SearchCriteria
			if uid {
				crit.UID = []imap.UIDSet{set.(imap.UIDSet)}
			} else {
				crit.SeqNum = []imap.SeqSet{set.(imap.SeqSet)}
			}
			return searchCase(false, &crit, nil, "SEARCH "+setStr(set), true, false, true)
		}
		return tc
	}}
}

// ---- SEARCH ----

func searchCase(uid bool, crit *imap.SearchCriteria, opts *imap.SearchOptions, desc string, legal, limit, nt bool) *tcase {
	issued := refmodel.CloneCriteria(crit)
	var io imap.SearchOptions
	if opts != nil {
		io = *opts
	}
	d := kindName(uid) + "SEARCH"
	if opts != nil {
		d += " return=" + searchOptStr(*opts)
	}
	d += " criteria={" + critNorm(crit) + "}"
	if desc != "" {
		d += " (" + desc + ")"
	}
	tc := &tcase{cmd: "search", state: stSelected, legal: legal, limit: limit, nontrivial: ntSig(nt), desc: d}
	tc.do = func(c *imapclient.Client) error {
		var err error
		if uid {
			_, err = c.UIDSearch(crit, opts).Wait()
		} else {
			_, err = c.Search(crit, opts).Wait()
		}
		return err
	}
	tc.check = func(calls []srvkit.Call) (string, string) {
		c, w, m := one(calls, "Search", 3)
		if w != "" {
			return w, m
		}
		if k, _ := c.Args[0].(imapserver.NumKind); k != wantKind(uid) {
			return "kind-altered", fmt.Sprintf("issued %sSEARCH, backend received kind %v", kindName(uid), c.Args[0])
		}
		got := c.Args[1].(imap.SearchCriteria)
		if w, m := critEq(issued, &got, tc.ctx); w != "" {
			return w, m
		}
		return searchOptsEq(io, c.Args[2].(imap.SearchOptions))
	}
	return tc
}

func famSearchReturn() *family {
	crits := []*imap.SearchCriteria{{}, {Body: []string{"x"}}}
	// index: opts 0..32 (32 = nil options) x crit x uid
	n := 33 * 2 * 2
	return &family{name: "search-return-options", n: n, at: func(cfg *config, i int) *tcase {
		uid := i%2 == 1
		crit := crits[(i/2)%2]
		b := i / 4
		var o *imap.SearchOptions
		if b < 32 {
			o = &imap.SearchOptions{ReturnMin: b&1 != 0, ReturnMax: b&2 != 0, ReturnAll: b&4 != 0, ReturnCount: b&8 != 0, ReturnSave: b&16 != 0}
		}
		return searchCase(uid, crit, o, "", true, false, b > 0 && b < 32)
	}}
}

func famSearchStrings() *family {
	pos := []position{
		{name: "header-key", benign: "X-K", single: Sx, pair: S},
		{name: "header-value", benign: "v", single: Sx, pair: S},
		{name: "subject", benign: "s", single: Sx, pair: S},
		{name: "body", benign: "b", single: Sx, pair: S},
		{name: "body2", benign: "b2", single: Sx, pair: S},
		{name: "text", benign: "t", single: Sx, pair: S},
	}
	vs := vectors(pos)
	return &family{name: "search-strings", n: len(vs), at: func(cfg *config, i int) *tcase {
		v := vs[i]
		legal, limit, nt := vecProps(pos, v)
		crit := &imap.SearchCriteria{
			Header: []imap.SearchCriteriaHeaderField{{Key: v[0], Value: v[1]}, {Key: "Subject", Value: v[2]}},
			Body:   []string{v[3], v[4]},
			Text:   []string{v[5]},
		}
		tc := searchCase(false, crit, nil, "", legal, limit, nt)
		tc.desc = descStrs("SEARCH", pos, v)
		return tc
	}}
}

// famSearchHeaderKeys: every well-known header key (own SEARCH key) in several spellings, and
// unknown ones (HEADER key), with an empty and a non-empty value.
func famSearchHeaderKeys() *family {
	keys := []string{"Bcc", "Cc", "From", "Subject", "To", "bcc", "CC", "FROM", "subject", "tO", "X-Spam", "Received", "Message-ID", "Subjec", "Tox"}
	vals := []string{"", "hello", "bob@example.org"}
	n := len(keys) * len(vals) * 2
	return &family{name: "search-header-keys", n: n, at: func(cfg *config, i int) *tcase {
		neg := i%2 == 1
		v := vals[(i/2)%len(vals)]
		k := keys[i/(2*len(vals))]
		leaf := imap.SearchCriteria{Header: []imap.SearchCriteriaHeaderField{{Key: k, Value: v}}}
		crit := &leaf
		if neg {
			crit = &imap.SearchCriteria{Not: []imap.SearchCriteria{leaf}}
		}
		return searchCase(false, crit, nil, "", true, false, true)
	}}
}

// famSearchDates: each date field with dates whose day has one and two digits, in three zones
// (only the calendar date in the value's own zone counts), alone and as the ON-shaped pair.
func famSearchDates() *family {
	zones := []*time.Location{time.UTC, time.FixedZone("", 5*3600+30*60), time.FixedZone("", -8*3600)}
	days := [][3]int{{2024, 3, 5}, {2024, 3, 10}, {1999, 12, 31}, {2024, 2, 29}, {2024, 3, 9}, {2024, 3, 11}}
	hours := []int{0, 23}
	// field 0..3 = Since, Before, SentSince, SentBefore; 4 = ON-shaped, 5 = SENTON-shaped, 6 = Since+Before 2 days apart
	const nf = 7
	n := nf * len(days) * len(zones) * len(hours)
	return &family{name: "search-dates", n: n, at: func(cfg *config, i int) *tcase {
		h := hours[i%len(hours)]
		z := zones[(i/len(hours))%len(zones)]
		d := days[(i/(len(hours)*len(zones)))%len(days)]
		f := i / (len(hours) * len(zones) * len(days))
		t := time.Date(d[0], time.Month(d[1]), d[2], h, 59, 58, 0, z)
		var c imap.SearchCriteria
		switch f {
		case 0:
			c.Since = t
		case 1:
			c.Before = t
		case 2:
			c.SentSince = t
		case 3:
			c.SentBefore = t
		case 4:
			c.Since, c.Before = t, t.Add(24*time.Hour)
		case 5:
			c.SentSince, c.SentBefore = t, t.Add(24*time.Hour)
		case 6:
			c.Since, c.Before = t, t.Add(48*time.Hour)
		}
		return searchCase(i%3 == 1, &c, nil, "", true, false, true)
	}}
}

// ---- SEARCH criteria trees ----

type leaf struct {
	name   string
	fields []string // scalar fields it occupies (two leaves of one node must not share one)
	apply  func(c *imap.SearchCriteria)
}

func searchLeaves() (all []leaf, reduced []int) {
	z := time.FixedZone("", -8*3600)
	at := func(n int) time.Time { return time.Date(2024, time.March, 10+n, 18, 30, 0, 0, z) }
	flag := func(f imap.Flag) leaf {
		return leaf{name: "flag " + string(f), apply: func(c *imap.SearchCriteria) { c.Flag = append(c.Flag, f) }}
	}
	unflag := func(f imap.Flag) leaf {
		return leaf{name: "unflag " + string(f), apply: func(c *imap.SearchCriteria) { c.NotFlag = append(c.NotFlag, f) }}
	}
	all = []leaf{
		{name: "seq 1:3", apply: func(c *imap.SearchCriteria) { c.SeqNum = append(c.SeqNum, seqOf(rng{1, 3})) }},
		{name: "seq 5:*", apply: func(c *imap.SearchCriteria) { c.SeqNum = append(c.SeqNum, seqOf(rng{5, 0})) }},
		{name: "uid 2", apply: func(c *imap.SearchCriteria) { c.UID = append(c.UID, uidOf(rng{2, 2})) }},
		{name: "uid 9:*", apply: func(c *imap.SearchCriteria) { c.UID = append(c.UID, uidOf(rng{9, 0})) }},
		{name: "uid $", apply: func(c *imap.SearchCriteria) { c.UID = append(c.UID, imap.SearchRes()) }},
		{name: "since d0", fields: []string{"since"}, apply: func(c *imap.SearchCriteria) { c.Since = at(0) }},
		{name: "before d1", fields: []string{"before"}, apply: func(c *imap.SearchCriteria) { c.Before = at(1) }},
		{name: "sentsince d0", fields: []string{"sentsince"}, apply: func(c *imap.SearchCriteria) { c.SentSince = at(0) }},
		{name: "sentbefore d1", fields: []string{"sentbefore"}, apply: func(c *imap.SearchCriteria) { c.SentBefore = at(1) }},
		{name: "on d0", fields: []string{"since", "before"}, apply: func(c *imap.SearchCriteria) { c.Since = at(0); c.Before = at(0).Add(24 * time.Hour) }},
		{name: "senton d0", fields: []string{"sentsince", "sentbefore"}, apply: func(c *imap.SearchCriteria) { c.SentSince = at(0); c.SentBefore = at(0).Add(24 * time.Hour) }},
		{name: "subject hello", apply: func(c *imap.SearchCriteria) {
			c.Header = append(c.Header, imap.SearchCriteriaHeaderField{Key: "Subject", Value: "hello"})
		}},
		{name: "header x-spam", apply: func(c *imap.SearchCriteria) {
			c.Header = append(c.Header, imap.SearchCriteriaHeaderField{Key: "X-Spam", Value: ""})
		}},
		{name: "body hello", apply: func(c *imap.SearchCriteria) { c.Body = append(c.Body, "hello") }},
		{name: "text quick", apply: func(c *imap.SearchCriteria) { c.Text = append(c.Text, "quick") }},
		flag(imap.FlagSeen), flag(imap.FlagAnswered), flag(imap.FlagDeleted), flag(imap.FlagDraft), flag(imap.FlagFlagged), flag("\\Recent"),
		unflag(imap.FlagSeen), unflag(imap.FlagAnswered), unflag(imap.FlagDeleted), unflag(imap.FlagDraft), unflag(imap.FlagFlagged), unflag("\\Recent"),
		flag("kw"), unflag("kw"),
		{name: "larger 50", fields: []string{"larger"}, apply: func(c *imap.SearchCriteria) { c.Larger = 50 }},
		{name: "smaller 500", fields: []string{"smaller"}, apply: func(c *imap.SearchCriteria) { c.Smaller = 500 }},
	}
	// one representative per encoder branch for the big pair sweeps
	for _, n := range []string{"seq 1:3", "uid 9:*", "uid $", "since d0", "on d0", "sentbefore d1", "subject hello", "header x-spam", "body hello", "flag \\Seen", "unflag \\Deleted", "flag kw", "larger 50", "smaller 500"} {
		for i, l := range all {
			if l.name == n {
				reduced = append(reduced, i)
			}
		}
	}
	return all, reduced
}

func conflict(a, b leaf) bool {
	for _, x := range a.fields {
		for _, y := range b.fields {
			if x == y {
				return true
			}
		}
	}
	return false
}

// node is a skeleton: own leaf slots and wrappers.
type node struct {
	slots  int
	filler bool // an Or arm without leaf slot: a fixed criterion that matches no message of the universe, so that the Or is as selective as its other arm
	nots   []*node
	ors    [][2]*node
}

// skeletons(d, k): all skeletons of nesting depth <= d with exactly k leaf slots; every wrapper
// holds at least one slot; an Or arm without slots is the filler TEXT "zz-no-such-text" (an ALL
// arm would make the Or a tautology and hide its other arm from the differential oracle; ALL
// arms are in the degenerate family).
func skeletons(d, k int) []*node {
	var out []*node
	for own := 0; own <= k; own++ {
		rest := k - own
		if rest == 0 {
			out = append(out, &node{slots: own})
			continue
		}
		if d == 0 {
			continue
		}
		type wrap struct {
			not *node
			or  *[2]*node
		}
		wrapsWith := func(n int) []wrap {
			var l []wrap
			for _, c := range skeletons(d-1, n) {
				l = append(l, wrap{not: c})
			}
			for a := 0; a <= n; a++ {
				for _, x := range skeletons(d-1, a) {
					for _, y := range skeletons(d-1, n-a) {
						if a == 0 {
							x = &node{filler: true}
						}
						if n-a == 0 {
							y = &node{filler: true}
						}
						l = append(l, wrap{or: &[2]*node{x, y}})
					}
				}
			}
			return l
		}
		mk := func(ws ...wrap) *node {
			n := &node{slots: own}
			for _, w := range ws {
				if w.not != nil {
					n.nots = append(n.nots, w.not)
				} else {
					n.ors = append(n.ors, *w.or)
				}
			}
			return n
		}
		for _, w := range wrapsWith(rest) {
			out = append(out, mk(w))
		}
		if rest == 2 {
			w1 := wrapsWith(1)
			for i, a := range w1 {
				for j, b := range w1 {
					// the struct keeps Nots before Ors; among the same kind the order is free, so
					// enumerate unordered pairs of skeleton wrappers (fillings cover both orders)
					if (a.not != nil) == (b.not != nil) && j < i {
						continue
					}
					if a.not == nil && b.not != nil {
						continue
					}
					out = append(out, mk(a, b))
				}
			}
		}
	}
	return out
}

// build instantiates a skeleton with leaves (in slot traversal order); ok=false when two leaves
// of one node occupy the same scalar field.
func build(n *node, leaves []leaf, next *int) (c imap.SearchCriteria, ok bool) {
	ok = true
	if n.filler {
		c.Text = []string{"zz-no-such-text"}
	}
	var mine []leaf
	for i := 0; i < n.slots; i++ {
		l := leaves[*next]
		*next++
		for _, m := range mine {
			if conflict(m, l) {
				ok = false
			}
		}
		mine = append(mine, l)
		l.apply(&c)
	}
	for _, ch := range n.nots {
		cc, o := build(ch, leaves, next)
		ok = ok && o
		c.Not = append(c.Not, cc)
	}
	for _, arms := range n.ors {
		a, o1 := build(arms[0], leaves, next)
		b, o2 := build(arms[1], leaves, next)
		ok = ok && o1 && o2
		c.Or = append(c.Or, [2]imap.SearchCriteria{a, b})
	}
	return c, ok
}

func depthOf(n *node) int {
	d := 0
	for _, c := range n.nots {
		if x := depthOf(c) + 1; x > d {
			d = x
		}
	}
	for _, a := range n.ors {
		for _, c := range a {
			if x := depthOf(c) + 1; x > d {
				d = x
			}
		}
	}
	return d
}

func famSearchTrees(thorough bool) []*family {
	leaves, reduced := searchLeaves()
	allIdx := make([]int, len(leaves))
	for i := range allIdx {
		allIdx[i] = i
	}
	mkFam := func(name string, sk1, sk2 []*node, pairIdx []int, uid bool) *family {
		n1 := len(sk1) * len(leaves)
		np := len(pairIdx) * len(pairIdx)
		n := n1 + len(sk2)*np
		return &family{name: name, n: n, at: func(cfg *config, i int) *tcase {
			var sk *node
			var ls []leaf
			if i < n1 {
				sk = sk1[i/len(leaves)]
				ls = []leaf{leaves[i%len(leaves)]}
			} else {
				j := i - n1
				sk = sk2[j/np]
				p := j % np
				ls = []leaf{leaves[pairIdx[p/len(pairIdx)]], leaves[pairIdx[p%len(pairIdx)]]}
			}
			next := 0
			crit, ok := build(sk, ls, &next)
			if !ok {
				// two leaves of one node on the same scalar field cannot be expressed by one
				// criteria value: the second overwrote the first; still a legal criteria
				next = 0
			}
			var names []string
			for _, l := range ls {
				names = append(names, l.name)
			}
			return searchCase(uid, &crit, nil, strings.Join(names, " + "), true, false, true)
		}}
	}
	var fams []*family
	// special trees
	specials := []*imap.SearchCriteria{{}, {Not: []imap.SearchCriteria{{}}}, {Or: [][2]imap.SearchCriteria{{{}, {}}}},
		{Not: []imap.SearchCriteria{{Not: []imap.SearchCriteria{{}}}}}}
	fams = append(fams, &family{name: "search-trees-degenerate", n: len(specials) * 2, at: func(cfg *config, i int) *tcase {
		return searchCase(i%2 == 1, specials[i/2], nil, "degenerate", true, false, true)
	}})
	if !thorough {
		fams = append(fams, mkFam("search-trees-depth2", skeletons(2, 1), skeletons(2, 2), reduced, false))
		fams = append(fams, mkFam("search-trees-depth0-allpairs", skeletons(0, 1), skeletons(0, 2), allIdx, false))
		fams = append(fams, mkFam("search-trees-depth1-uid", skeletons(1, 1), skeletons(1, 2), reduced, true))
		return fams
	}
	fams = append(fams, mkFam("search-trees-depth2-allpairs", skeletons(2, 1), skeletons(2, 2), allIdx, false))
	var s31, s32 []*node
	for _, s := range skeletons(3, 1) {
		if depthOf(s) == 3 {
			s31 = append(s31, s)
		}
	}
	for _, s := range skeletons(3, 2) {
		if depthOf(s) == 3 {
			s32 = append(s32, s)
		}
	}
	fams = append(fams, mkFam("search-trees-depth3", s31, s32, reduced, false))
	fams = append(fams, mkFam("search-trees-depth2-uid", skeletons(2, 1), skeletons(2, 2), reduced, true))
	return fams
}
