// C18 — the client only uses syntax the server advertised and respects literal synchronisation.
// Part 1 (legality): for every capability configuration x enablement x command x every member of
// the special-string alphabet in every string position (one at a time and all pairs) and APPEND
// sizes around the 4096 threshold, the real client's output is captured (real client under the
// controlled scheduler against a reactive scripted server that grants every continuation) and
// judged by an independent byte-level scanner. Part 2 (synchronisation): scenarios with
// synchronising literals where the server grants or refuses, with every schedule of the server
// relative to the client threads within the bounds; a write hook on the client's connection
// flags any byte written while a continuation is awaited and any payload byte after a refusal.
package main

import (
	"encoding/json"
	"fmt"
	"os"
	"sort"
	"strings"

	imap "github.com/emersion/go-imap/v2"
	"github.com/emersion/go-imap/v2/imapclient"
	"github.com/emersion/go-imap/v2/internal/vsched"
	"github.com/emersion/go-imap/v2/verif/vimap"
	"github.com/emersion/go-imap/v2/verif/vk"
	"github.com/emersion/go-imap/v2/verif/vnet"
	"github.com/emersion/go-imap/v2/verif/vx"
)

// ---------- independent scanner of the client's byte stream ----------

type scanResult struct {
	Problems    []string
	NonSyncLits []int // sizes
	SyncLits    []int
	Quoted8bit  int
	Quoted      int
	HasCharset  bool
}

func scan(stream []byte) scanResult {
	var r scanResult
	i := 0
	n := len(stream)
	for i < n {
		c := stream[i]
		switch {
		case c == '"':
			// quoted string
			j := i + 1
			has8 := false
			closed := false
			for j < n {
				d := stream[j]
				if d == '\\' {
					if j+1 < n && (stream[j+1] == '"' || stream[j+1] == '\\') {
						j += 2
						continue
					}
					r.Problems = append(r.Problems, "bad escape in quoted string")
					j++
					continue
				}
				if d == '"' {
					closed = true
					break
				}
				if d == '\r' || d == '\n' || d == 0 {
					r.Problems = append(r.Problems, fmt.Sprintf("CR/LF/NUL (0x%02x) inside a quoted string", d))
				}
				if d >= 0x80 {
					has8 = true
				}
				j++
			}
			if !closed {
				r.Problems = append(r.Problems, "unterminated quoted string")
				return r
			}
			r.Quoted++
			if has8 {
				r.Quoted8bit++
			}
			i = j + 1
		case c == '{':
			j := i + 1
			for j < n && stream[j] >= '0' && stream[j] <= '9' {
				j++
			}
			if j == i+1 {
				i++
				continue
			}
			size := 0
			fmt.Sscan(string(stream[i+1:j]), &size)
			nonSync := false
			if j < n && stream[j] == '+' {
				nonSync = true
				j++
			}
			if j+2 < n+1 && j < n && stream[j] == '}' && j+2 < n+1 && strings.HasPrefix(string(stream[j+1:]), "\r\n") {
				start := j + 3
				if start+size > n {
					r.Problems = append(r.Problems, fmt.Sprintf("literal {%d} announces more bytes than were written (%d)", size, n-start))
					return r
				}
				if nonSync {
					r.NonSyncLits = append(r.NonSyncLits, size)
				} else {
					r.SyncLits = append(r.SyncLits, size)
				}
				i = start + size
				// after a literal the command continues: SP, ')' or CRLF
				if i < n && stream[i] != ' ' && stream[i] != ')' && stream[i] != '\r' {
					r.Problems = append(r.Problems, fmt.Sprintf("byte 0x%02x follows a literal: its announced size does not match its payload", stream[i]))
				}
				continue
			}
			i++
		default:
			if c == 'C' && strings.HasPrefix(string(stream[i:]), "CHARSET ") {
				r.HasCharset = true
			}
			i++
		}
	}
	return r
}

// ---------- part 1: legality ----------

type capConfig struct {
	name     string
	greeting string
	litPlus  bool
	litMinus bool
	rev2     bool
	utf8     bool // UTF8=ACCEPT advertised
}

var capConfigs = []capConfig{
	{"rev1", "* PREAUTH [CAPABILITY IMAP4rev1 ENABLE] ready\r\n", false, false, false, false},
	{"literal-minus", "* PREAUTH [CAPABILITY IMAP4rev1 LITERAL- ENABLE] ready\r\n", false, true, false, false},
	{"literal-plus", "* PREAUTH [CAPABILITY IMAP4rev1 LITERAL+ ENABLE] ready\r\n", true, true, false, false},
	{"rev2", "* PREAUTH [CAPABILITY IMAP4rev1 IMAP4rev2 ENABLE] ready\r\n", false, true, true, false},
	{"utf8-advertised", "* PREAUTH [CAPABILITY IMAP4rev1 UTF8=ACCEPT ENABLE] ready\r\n", false, false, false, true},
	{"caps-unknown", "* PREAUTH ready\r\n", false, false, false, false},
}

var S = []string{"", "a", "a b", "a\"b", "a\\b", "a\r\nb", "a\nb", "a\rb", "a\x00b", "é", "\xff", "{3}", "(", "%*", "a&b", "&", "NIL", "inbox", strings.Repeat("a", 4096), strings.Repeat("a", 4097), strings.Repeat("é", 2049)}

type cmdDef struct {
	name  string
	nstr  int
	issue func(c *imapclient.Client, a []string) func()
}

func cmdDefs() []cmdDef {
	wait := func(w interface{ Wait() error }) func() { return func() { w.Wait() } }
	return []cmdDef{
		{"LOGIN", 2, func(c *imapclient.Client, a []string) func() { return wait(c.Login(a[0], a[1])) }},
		{"CREATE", 1, func(c *imapclient.Client, a []string) func() { return wait(c.Create(a[0], nil)) }},
		{"DELETE", 1, func(c *imapclient.Client, a []string) func() { return wait(c.Delete(a[0])) }},
		{"RENAME", 2, func(c *imapclient.Client, a []string) func() { return wait(c.Rename(a[0], a[1])) }},
		{"SUBSCRIBE", 1, func(c *imapclient.Client, a []string) func() { return wait(c.Subscribe(a[0])) }},
		{"SELECT", 1, func(c *imapclient.Client, a []string) func() {
			cmd := c.Select(a[0], nil)
			return func() { cmd.Wait() }
		}},
		{"STATUS", 1, func(c *imapclient.Client, a []string) func() {
			cmd := c.Status(a[0], &imap.StatusOptions{NumMessages: true})
			return func() { cmd.Wait() }
		}},
		{"LIST", 2, func(c *imapclient.Client, a []string) func() {
			cmd := c.List(a[0], a[1], nil)
			return func() { cmd.Collect() }
		}},
		{"COPY", 1, func(c *imapclient.Client, a []string) func() {
			cmd := c.Copy(imap.SeqSetNum(1), a[0])
			return func() { cmd.Wait() }
		}},
		{"SEARCH-body-header", 2, func(c *imapclient.Client, a []string) func() {
			cmd := c.Search(&imap.SearchCriteria{Body: []string{a[0]}, Header: []imap.SearchCriteriaHeaderField{{Key: "X-K", Value: a[1]}}}, nil)
			return func() { cmd.Wait() }
		}},
		{"SEARCH-text-subject", 2, func(c *imapclient.Client, a []string) func() {
			cmd := c.UIDSearch(&imap.SearchCriteria{Text: []string{a[0]}, Header: []imap.SearchCriteriaHeaderField{{Key: "Subject", Value: a[1]}}}, nil)
			return func() { cmd.Wait() }
		}},
		{"FETCH-header-fields", 2, func(c *imapclient.Client, a []string) func() {
			cmd := c.Fetch(imap.SeqSetNum(1), &imap.FetchOptions{BodySection: []*imap.FetchItemBodySection{{Specifier: imap.PartSpecifierHeader, HeaderFields: []string{a[0], a[1]}}}})
			return func() { cmd.Close() }
		}},
		// the remaining commands that take caller strings (extensions included: the bytes are judged,
		// whatever the scripted server thinks of the command)
		{"UNSUBSCRIBE", 1, func(c *imapclient.Client, a []string) func() { return wait(c.Unsubscribe(a[0])) }},
		{"MOVE", 1, func(c *imapclient.Client, a []string) func() {
			cmd := c.Move(imap.SeqSetNum(1), a[0])
			return func() { cmd.Wait() }
		}},
		{"GETQUOTA", 1, func(c *imapclient.Client, a []string) func() {
			cmd := c.GetQuota(a[0])
			return func() { cmd.Wait() }
		}},
		{"GETQUOTAROOT", 1, func(c *imapclient.Client, a []string) func() {
			cmd := c.GetQuotaRoot(a[0])
			return func() { cmd.Wait() }
		}},
		{"SETQUOTA", 1, func(c *imapclient.Client, a []string) func() {
			return wait(c.SetQuota(a[0], map[imap.QuotaResourceType]int64{imap.QuotaResourceStorage: 10}))
		}},
		{"GETMETADATA", 2, func(c *imapclient.Client, a []string) func() {
			cmd := c.GetMetadata(a[0], []string{a[1]}, nil)
			return func() { cmd.Wait() }
		}},
		{"SETMETADATA", 2, func(c *imapclient.Client, a []string) func() {
			v := []byte(a[1])
			return wait(c.SetMetadata("INBOX", map[string]*[]byte{a[0]: &v}))
		}},
		{"SORT-body-from", 2, func(c *imapclient.Client, a []string) func() {
			cmd := c.Sort(&imapclient.SortOptions{SearchCriteria: &imap.SearchCriteria{Body: []string{a[0]}, Header: []imap.SearchCriteriaHeaderField{{Key: "From", Value: a[1]}}}, SortCriteria: []imapclient.SortCriterion{{Key: imapclient.SortKeyDate}}})
			return func() { cmd.Wait() }
		}},
		{"THREAD-text", 1, func(c *imapclient.Client, a []string) func() {
			cmd := c.Thread(&imapclient.ThreadOptions{Algorithm: imap.ThreadReferences, SearchCriteria: &imap.SearchCriteria{Text: []string{a[0]}}})
			return func() { cmd.Wait() }
		}},
		{"SEARCH-header-key-not-or", 2, func(c *imapclient.Client, a []string) func() {
			cmd := c.Search(&imap.SearchCriteria{Not: []imap.SearchCriteria{{Header: []imap.SearchCriteriaHeaderField{{Key: a[0], Value: "v"}}}},
				Or: [][2]imap.SearchCriteria{{{Body: []string{a[1]}}, {Text: []string{"t"}}}}}, nil)
			return func() { cmd.Wait() }
		}},
		{"SEARCH-modseq-entry-name", 1, func(c *imapclient.Client, a []string) func() {
			cmd := c.Search(&imap.SearchCriteria{ModSeq: &imap.SearchCriteriaModSeq{ModSeq: 5, MetadataName: a[0], MetadataType: imap.SearchCriteriaMetadataAll}}, nil)
			return func() { cmd.Wait() }
		}},
		{"APPEND-mailbox", 1, func(c *imapclient.Client, a []string) func() {
			cmd := c.Append(a[0], 3, nil)
			cmd.Write([]byte("abc"))
			cmd.Close()
			return func() { cmd.Wait() }
		}},
	}
}

type legalCase struct {
	Cfg    int
	Enable string // "", "UTF8=ACCEPT", "IMAP4rev2"
	Cmd    int
	Args   []int // indexes into S (benign = 1)
	Size   int   // APPEND size case (Cmd == -1)
}

func legalCases(defs []cmdDef, thorough bool) []legalCase {
	var cs []legalCase
	for ci, cfg := range capConfigs {
		enables := []string{""}
		if cfg.name != "caps-unknown" {
			if cfg.utf8 || cfg.rev2 {
				enables = append(enables, "UTF8=ACCEPT")
			}
			// the client asks for UTF8=ACCEPT but the server does not grant it (empty ENABLED)
			enables = append(enables, "UTF8=ACCEPT!declined")
			if cfg.utf8 {
				// granted, then UNAUTHENTICATE (which disables everything that was enabled) and a new LOGIN
				enables = append(enables, "UTF8=ACCEPT!unauthenticated")
			}
			if cfg.rev2 {
				enables = append(enables, "IMAP4rev2")
			}
		}
		if cfg.litPlus || cfg.litMinus || cfg.rev2 {
			// the capabilities are withdrawn: LOGIN is answered OK without a capability code (which
			// invalidates what the greeting said) and the CAPABILITY the client then asks for lists
			// IMAP4rev1 only; what is sent afterwards is judged against that
			enables = append(enables, "@login-drops-caps")
		}
		for _, en := range enables {
			for di, d := range defs {
				for pos := 0; pos < d.nstr; pos++ {
					for si := range S {
						args := make([]int, d.nstr)
						for k := range args {
							args[k] = 1
						}
						args[pos] = si
						cs = append(cs, legalCase{Cfg: ci, Enable: en, Cmd: di, Args: args})
					}
				}
				if d.nstr == 2 {
					for s0 := range S {
						for s1 := range S {
							if s0 == 1 || s1 == 1 {
								continue
							}
							if !thorough && len(S[s0]) > 100 && len(S[s1]) > 100 {
								continue
							}
							cs = append(cs, legalCase{Cfg: ci, Enable: en, Cmd: di, Args: []int{s0, s1}})
						}
					}
				}
			}
			for _, size := range []int{0, 1, 4096, 4097, 70000} {
				cs = append(cs, legalCase{Cfg: ci, Enable: en, Cmd: -1, Size: size})
			}
		}
	}
	return cs
}

func (lc legalCase) name(defs []cmdDef) string {
	cfg := capConfigs[lc.Cfg]
	if lc.Cmd < 0 {
		return fmt.Sprintf("legal/%s/enable=%s/APPEND size=%d", cfg.name, lc.Enable, lc.Size)
	}
	var a []string
	for _, i := range lc.Args {
		s := S[i]
		if len(s) > 20 {
			s = fmt.Sprintf("%s…x%d", s[:2], len(s))
		}
		a = append(a, vk.Q(s))
	}
	return fmt.Sprintf("legal/%s/enable=%s/%s(%s)", cfg.name, lc.Enable, defs[lc.Cmd].name, strings.Join(a, ","))
}

type problem struct{ key, detail string }

func legalBody(lc legalCase, defs []cmdDef) func() interface{} {
	return func() interface{} {
		cfg := capConfigs[lc.Cfg]
		cEnd, sEnd := vnet.Pair("client", "server")
		srv := &vimap.Server{End: sEnd, Greeting: cfg.greeting}
		srv.Respond = func(c *vimap.Cmd) string {
			switch c.Name {
			case "ENABLE":
				if strings.HasSuffix(lc.Enable, "!declined") {
					return "* ENABLED\r\n" + c.Tag + " OK done\r\n"
				}
				return "* ENABLED " + strings.TrimSuffix(lc.Enable, "!unauthenticated") + "\r\n" + c.Tag + " OK done\r\n"
			case "CAPABILITY":
				if strings.HasSuffix(lc.Enable, "!unauthenticated") {
					// the same capabilities as in the greeting (the judge goes by the greeting)
					g := cfg.greeting
					if i, j := strings.Index(g, "[CAPABILITY "), strings.Index(g, "]"); i >= 0 && j > i {
						return "* CAPABILITY " + g[i+len("[CAPABILITY "):j] + "\r\n" + c.Tag + " OK done\r\n"
					}
				}
				return "* CAPABILITY IMAP4rev1\r\n" + c.Tag + " OK done\r\n"
			}
			return ""
		}
		vsched.Go("server", srv.Run)
		c := imapclient.New(cEnd, nil)
		if err := c.WaitGreeting(); err != nil {
			return []problem{{"engine:greeting", err.Error()}}
		}
		if lc.Enable == "@login-drops-caps" {
			if err := c.Login("u", "p").Wait(); err != nil {
				return []problem{{"engine:login", err.Error()}}
			}
			cfg.litPlus, cfg.litMinus, cfg.rev2, cfg.utf8 = false, false, false, false
			cfg.name += "-withdrawn"
		} else if lc.Enable != "" {
			if _, err := c.Enable(imap.Cap(strings.TrimSuffix(strings.TrimSuffix(lc.Enable, "!declined"), "!unauthenticated"))).Wait(); err != nil {
				return []problem{{"engine:enable", err.Error()}}
			}
			if strings.HasSuffix(lc.Enable, "!unauthenticated") {
				if err := c.Unauthenticate().Wait(); err != nil {
					return []problem{{"engine:unauthenticate", err.Error()}}
				}
				if err := c.Login("u", "p").Wait(); err != nil {
					return []problem{{"engine:login", err.Error()}}
				}
			}
		}
		mark := len(cEnd.Written)
		if lc.Cmd < 0 {
			cmd := c.Append("INBOX", int64(lc.Size), nil)
			cmd.Write(make([]byte, lc.Size))
			cmd.Close()
			cmd.Wait()
		} else {
			args := make([]string, len(lc.Args))
			for i, si := range lc.Args {
				args[i] = S[si]
			}
			defs[lc.Cmd].issue(c, args)()
		}
		out := append([]byte{}, cEnd.Written[mark:]...)
		c.Close()
		var probs []problem
		r := scan(out)
		for _, p := range r.Problems {
			probs = append(probs, problem{"illegal-bytes:" + strings.ReplaceAll(strings.SplitN(p, "(", 2)[0], " ", "-"), p})
		}
		for _, n := range r.NonSyncLits {
			switch {
			case cfg.litPlus:
			case (cfg.litMinus || cfg.rev2) && n <= 4096:
			default:
				probs = append(probs, problem{"non-sync-literal-not-advertised:" + cfg.name, fmt.Sprintf("{%d+} sent although the server advertises %q", n, cfg.greeting)})
			}
		}
		if r.Quoted8bit > 0 && !(cfg.rev2 || lc.Enable == "UTF8=ACCEPT" || lc.Enable == "IMAP4rev2") {
			probs = append(probs, problem{"8bit-in-quoted-string:" + cfg.name, "8-bit bytes inside a quoted string without IMAP4rev2 / enabled UTF8=ACCEPT"})
		}
		return probs
	}
}

// ---------- part 2: synchronisation ----------

type syncScenario struct {
	name     string
	refuse   map[int]string // literal index (global order) -> "NO"/"BAD"
	callers  []func(c *imapclient.Client) error
	greeting string                           // default: no LITERAL capability
	after    func(c *imapclient.Client) error // run after the callers (instead of the final NOOP check only)
}

// every literal-bearing argument has a marker payload of a distinct length, so that the size in a
// refused header tells which payload must never appear afterwards
func marker(k int) string { return "PAYLOAD" + strings.Repeat("x", k) + "\x80" }

func syncScenarios() []syncScenario {
	login := func(u, p string) func(c *imapclient.Client) error {
		return func(c *imapclient.Client) error { return c.Login(u, p).Wait() }
	}
	appendCmd := func(c *imapclient.Client) error {
		cmd := c.Append("INBOX", int64(len(marker(3))), nil)
		cmd.Write([]byte(marker(3)))
		cmd.Close()
		_, err := cmd.Wait()
		return err
	}
	search := func(c *imapclient.Client) error {
		_, err := c.Search(&imap.SearchCriteria{Body: []string{marker(4)}}, nil).Wait()
		return err
	}
	var out []syncScenario
	for _, ref := range []string{"", "NO", "BAD"} {
		r := map[int]string{}
		if ref != "" {
			r[0] = ref
		}
		out = append(out,
			syncScenario{name: "login-user-literal/" + ref, refuse: r, callers: []func(*imapclient.Client) error{login(marker(1), "p")}},
			syncScenario{name: "login-pass-literal/" + ref, refuse: r, callers: []func(*imapclient.Client) error{login("u", marker(2))}},
			syncScenario{name: "append/" + ref, refuse: r, callers: []func(*imapclient.Client) error{appendCmd}},
			syncScenario{name: "search-literal/" + ref, refuse: r, callers: []func(*imapclient.Client) error{search}},
			syncScenario{name: "two-threads-literals/" + ref, refuse: r, callers: []func(*imapclient.Client) error{login(marker(1), "p"), search}},
		)
		if ref != "" {
			out = append(out, syncScenario{name: "login-both-literals/second-" + ref, refuse: map[int]string{1: ref}, callers: []func(*imapclient.Client) error{login(marker(1), marker(2))}})
		}
	}
	out = append(out, syncScenario{name: "login-both-literals/", refuse: map[int]string{}, callers: []func(*imapclient.Client) error{login(marker(1), marker(2))}})
	// a command with several string arguments whose FIRST literal is refused: nothing of the rest of
	// the command may reach the wire, and later commands must work
	big := marker(5) + strings.Repeat("u", 5000)
	for _, ref := range []string{"NO", "BAD"} {
		out = append(out,
			syncScenario{name: "literal-minus/first-sync-refused-second-nonsync/" + ref, refuse: map[int]string{0: ref}, greeting: "* PREAUTH [CAPABILITY IMAP4rev1 LITERAL-] ready\r\n",
				callers: []func(*imapclient.Client) error{func(c *imapclient.Client) error { c.WaitGreeting(); return c.Login(big, marker(2)+"\nX").Wait() }}},
			syncScenario{name: "first-refused-then-next-command-with-literal/" + ref, refuse: map[int]string{0: ref},
				callers: []func(*imapclient.Client) error{login(marker(1)+"\n", marker(2)+"\n")},
				after:   func(c *imapclient.Client) error { return c.Login(marker(6)+"\n", "pw").Wait() }},
			syncScenario{name: "append-mailbox-literal-refused/" + ref, refuse: map[int]string{0: ref},
				callers: []func(*imapclient.Client) error{func(c *imapclient.Client) error {
					// a mailbox name only becomes a literal when it is longer than a quoted string may be
					// (control characters are absorbed by the modified UTF-7 encoding)
					cmd := c.Append(marker(7)+strings.Repeat("m", 5000), int64(len(marker(3))), nil)
					cmd.Write([]byte(marker(3)))
					cmd.Close()
					_, err := cmd.Wait()
					return err
				}},
				after: func(c *imapclient.Client) error { return c.Login(marker(6)+"\n", "pw").Wait() }},
		)
	}
	return out
}

type syncObs struct {
	Problems []problem
	Results  []string
	Wire     string // what the client wrote (shown by --replay)
}

func syncBody(sc syncScenario) func() interface{} {
	return func() interface{} {
		var obs syncObs
		cEnd, sEnd := vnet.Pair("client", "server")
		greeting := "* PREAUTH [CAPABILITY IMAP4rev1] ready\r\n"
		if sc.greeting != "" {
			greeting = sc.greeting
		}
		srv := &vimap.Server{End: sEnd, Greeting: greeting}
		litCount := 0
		refusedSize := -1
		srv.AcceptLiteral = func(tag string, n, i int) string {
			k := litCount
			litCount++
			if t, ok := sc.refuse[k]; ok {
				refusedSize = n
				return tag + " " + t + " refused\r\n"
			}
			return ""
		}
		// write hooks: the oracle proper
		awaiting := false
		var stream []byte
		refusedAt := -1
		cEnd.OnWrite = func(b []byte) {
			if awaiting {
				obs.Problems = append(obs.Problems, problem{"client-wrote-before-continuation", fmt.Sprintf("client wrote %q while the server had not answered the synchronising literal header", b)})
			}
			stream = append(stream, b...)
			if strings.HasSuffix(string(stream), "}\r\n") && !strings.HasSuffix(string(stream), "+}\r\n") {
				awaiting = true
			}
		}
		srv.OnAnswer = func(tag string, granted bool) {
			awaiting = false
			if !granted {
				refusedAt = len(stream)
			}
		}
		vsched.Go("server", srv.Run)
		c := imapclient.New(cEnd, nil)
		running := len(sc.callers)
		results := make([]string, len(sc.callers))
		for i, f := range sc.callers {
			i, f := i, f
			vsched.Go(fmt.Sprintf("caller%d", i), func() {
				if err := f(c); err != nil {
					results[i] = "err"
					if ie, ok := err.(*imap.Error); ok {
						results[i] = string(ie.Type)
					}
				} else {
					results[i] = "ok"
				}
				running--
			})
		}
		vsched.WaitUntil("join", func() bool { return running == 0 })
		if sc.greeting != "" {
			c.WaitGreeting()
		}
		var aerr error
		if sc.after != nil {
			aerr = sc.after(c)
		}
		// the connection must survive a refusal: a NOOP still works
		nerr := c.Noop().Wait()
		if aerr != nil {
			obs.Problems = append(obs.Problems, problem{"command-after-refusal-fails", aerr.Error()})
		}
		c.Close()
		obs.Results = results
		obs.Wire = vk.Q(string(stream))
		if refusedAt >= 0 && len(sc.callers) == 1 {
			// single caller: whatever follows the refusal must be the start of a NEW command
			rest := string(stream[refusedAt:])
			ok := rest == ""
			if sp := strings.IndexByte(rest, ' '); sp > 0 {
				ok = vimap.Index(rest[:sp]) > 0 // one of the client's own tags (whatever their syntax)
			}
			if !ok {
				if len(rest) > 80 {
					rest = rest[:80]
				}
				obs.Problems = append(obs.Problems, problem{"bytes-of-refused-command-written-after-refusal", fmt.Sprintf("after the tagged refusal the client wrote %q", rest)})
			}
		}
		if refusedAt >= 0 && refusedSize >= 0 && refusedSize < 100 && strings.Contains(string(stream[refusedAt:]), marker(refusedSize-len(marker(0)))) {
			obs.Problems = append(obs.Problems, problem{"payload-written-after-refusal", fmt.Sprintf("after the tagged refusal the client still wrote %q", stream[refusedAt:])})
		}
		if len(sc.refuse) > 0 {
			found := false
			for _, r := range results {
				if r == "NO" || r == "BAD" {
					found = true
				}
			}
			if !found {
				obs.Problems = append(obs.Problems, problem{"refusal-not-reported", fmt.Sprint(results)})
			}
			if nerr != nil {
				obs.Problems = append(obs.Problems, problem{"connection-unusable-after-refusal", nerr.Error()})
			}
		} else {
			for _, r := range results {
				if r != "ok" {
					obs.Problems = append(obs.Problems, problem{"command-fails-although-granted", fmt.Sprint(results)})
				}
			}
			for _, cmd := range srv.Cmds {
				for _, l := range cmd.Literals {
					if strings.HasPrefix(l, "PAYLOAD") && l != marker(len(l)-len(marker(0))) {
						obs.Problems = append(obs.Problems, problem{"payload-corrupted", vk.Q(l)})
					}
				}
			}
		}
		return obs
	}
}

func main() {
	run := vk.Start("C18", "model_checking")
	vimap.Tag(1) // learn the client's tag syntax before any controlled execution
	defs := cmdDefs()
	lcs := legalCases(defs, run.Thorough())
	scs := syncScenarios()
	dbound, pbound := 2, 1
	maxExec := int64(60000)
	if run.Thorough() {
		dbound, pbound = 3, 2
		maxExec = 4000000
	}
	mkLegal := func(lc legalCase) *vx.Scenario {
		return &vx.Scenario{Name: lc.name(defs), Body: legalBody(lc, defs),
			Sig: func(res *vsched.Result, obs interface{}) string { return fmt.Sprint(obs) },
			Check: func(res *vsched.Result, obs interface{}) (string, string) {
				if len(res.Panics) > 0 {
					return "panic", strings.Join(res.Panics, "\n")
				}
				if res.Verdict != "ok" {
					return "verdict-" + res.Verdict, strings.Join(res.Blocked, "; ")
				}
				if p, _ := obs.([]problem); len(p) > 0 {
					return p[0].key, p[0].detail
				}
				return "", ""
			}}
	}
	mkSync := func(sc syncScenario) *vx.Scenario {
		return &vx.Scenario{Name: "sync/" + sc.name, Body: syncBody(sc),
			Sig: func(res *vsched.Result, obs interface{}) string {
				o, _ := obs.(syncObs)
				return fmt.Sprint(o.Results, len(o.Problems))
			},
			Check: func(res *vsched.Result, obs interface{}) (string, string) {
				if len(res.Panics) > 0 {
					return "panic:" + sc.name, strings.Join(res.Panics, "\n")
				}
				if res.Verdict != "ok" {
					return "verdict-" + res.Verdict + ":" + sc.name, strings.Join(res.Blocked, "; ")
				}
				if o, ok := obs.(syncObs); ok && len(o.Problems) > 0 {
					return o.Problems[0].key, sc.name + ": " + o.Problems[0].detail
				}
				return "", ""
			}}
	}
	if run.Replay != "" {
		b, _ := os.ReadFile(run.Replay)
		var f struct {
			Detail struct {
				Scenario string
				Choices  []int
			}
		}
		json.Unmarshal(b, &f)
		var sc *vx.Scenario
		for _, lc := range legalCases(defs, true) {
			if lc.name(defs) == f.Detail.Scenario {
				sc = mkLegal(lc)
			}
		}
		for _, s := range scs {
			if "sync/"+s.name == f.Detail.Scenario {
				sc = mkSync(s)
			}
		}
		if sc != nil {
			res, obs := vx.RunOnce(sc, f.Detail.Choices, 20000, true)
			fmt.Printf("scenario %s choices=%v\nverdict=%s\nobservation=%+v\nblocked=%v\n", sc.Name, f.Detail.Choices, res.Verdict, obs, res.Blocked)
			if key, detail := sc.Check(res, obs); key != "" {
				run.Violation(key, map[string]interface{}{"scenario": sc.Name, "choices": f.Detail.Choices, "detail": detail})
			}
		}
		run.AddEvals(1)
		run.Finish()
	}
	const batch = 200
	nLegalItems := (len(lcs) + batch - 1) / batch
	results := vx.Sharded(nLegalItems+2*len(scs), func(i int) vx.ItemResult {
		if i < nLegalItems {
			r := vx.ItemResult{Name: fmt.Sprintf("legal-batch%d", i), Exhaustive: true, Outcomes: map[string]int64{}, Verdicts: map[string]int64{}}
			for j := i * batch; j < (i+1)*batch && j < len(lcs); j++ {
				sc := mkLegal(lcs[j])
				res, obs := vx.RunOnce(sc, nil, 20000, false)
				r.Executions++
				r.Points += int64(res.Steps)
				if res.EngineErr != "" {
					r.EngineErr = res.EngineErr
					return r
				}
				if key, detail := sc.Check(res, obs); key != "" {
					dup := false
					for _, f := range r.Failures {
						if f.Key == key {
							dup = true
						}
					}
					if !dup {
						r.Failures = append(r.Failures, vx.FailureRec{Key: key, Name: sc.Name, Detail: detail})
					}
				}
			}
			return r
		}
		k := i - nLegalItems
		sc := mkSync(scs[k/2])
		if k%2 == 0 {
			r := vx.ExploreItem(sc, dbound, vx.Config{MaxExec: maxExec, Delay: true})
			r.Name = "delay:" + r.Name
			return r
		}
		r := vx.ExploreItem(sc, pbound, vx.Config{MaxExec: maxExec})
		r.Name = "preempt:" + r.Name
		return r
	})
	exhaustive := true
	var outcomes int64
	var keys []string
	for i, r := range results {
		if r.EngineErr != "" {
			run.EngineError("%s", r.EngineErr)
		}
		run.AddEvals(r.Executions)
		run.Trans += r.Points
		run.Traces += r.Executions
		if !r.Exhaustive {
			exhaustive = false
		}
		outcomes += int64(len(r.Outcomes))
		for _, f := range r.Failures {
			run.Violation(f.Key, map[string]interface{}{"scenario": f.Name, "choices": f.Choices, "detail": f.Detail, "blocked": f.Blocked})
		}
		if i >= nLegalItems {
			keys = append(keys, fmt.Sprintf("%s: executions=%d bound_completed=%d", r.Name, r.Executions, r.BoundDone))
		}
	}
	sort.Strings(keys)
	for i, k := range keys {
		if i < 6 {
			run.Sample("sync-scenario", k)
		}
	}
	run.Sample("legality-case", lcs[len(lcs)/2].name(defs))
	run.States = int64(len(lcs) + 2*len(scs))
	run.NontrivialN(int64(len(lcs)) + outcomes)
	run.Set("legality_cases", int64(len(lcs)))
	run.Set("sync_scenarios", int64(len(scs)))
	run.Set("delay_bound", int64(dbound))
	run.Set("preemption_bound", int64(pbound))
	run.Exhaustive = exhaustive
	run.Rule = "legality: (capability configuration in {rev1, LITERAL-, LITERAL+, IMAP4rev2, UTF8=ACCEPT advertised, capabilities unknown}) x (nothing / UTF8=ACCEPT / IMAP4rev2 enabled where offered / UTF8=ACCEPT asked but not granted / UTF8=ACCEPT granted, then UNAUTHENTICATE and a new LOGIN / capabilities withdrawn by a LOGIN without capability code followed by a shorter CAPABILITY list) x 24 commands (every client command that takes caller strings, incl. QUOTA, METADATA, SORT, THREAD, MOVE, SEARCH under NOT/OR and the CONDSTORE entry name) x every member of a 21-string alphabet (NUL, CR LF, quote, backslash, 8-bit valid and invalid UTF-8, literal-looking text, lengths 4096/4097) in every string position and all pairs, plus APPEND sizes {0,1,4096,4097,70000}; the bytes the real client writes are judged by an independent scanner. synchronisation: 16 scenarios (LOGIN user/password/both literals, APPEND, SEARCH, two threads with literals; server grants, or refuses with NO/BAD) x all schedules within delay bound and preemption bound; connection write hooks flag bytes written while a continuation is awaited and payload bytes after a refusal"
	run.Assume("legality is judged against what the server ADVERTISED (greeting) and what was ENABLED; CHARSET usage is not judged (the statement does not mention it)")
	run.Finish()
}
