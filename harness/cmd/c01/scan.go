// Independent wire scanner and RFC recognisers for C01. Nothing in this file imports or calls
// the code under test: it reads the bytes the encoder produced with its own (deliberately
// strict, RFC 3501 / 9051 / 7888) idea of the syntax, so that the verdict on "what was written"
// and "how many bytes a value occupies" does not depend on the decoder being checked.
package main

import (
	"strconv"
	"unicode/utf8"
)

type form int

const (
	formNone       form = iota
	formQuoted          // "..."
	formLitSync         // {n}CRLF...   (from a client: synchronising; from a server: the only form)
	formLitNonSync      // {n+}CRLF...
	formAtom
	formList
)

func (f form) String() string {
	return [...]string{"none", "quoted", "literal", "literal+", "atom", "list"}[f]
}

// wireMode is what the scanner needs to know about the negotiated mode of the *writer*.
type wireMode struct {
	Client     bool // bytes were written by the client side
	Q8, LM, LP bool
}

type scanRes struct {
	Form        form
	Payload     []byte // decoded content of a string
	End         int    // offset just past the value
	Problem     string // first syntax/mode problem, "" if the bytes are legal for the mode
	Escapes     int    // number of backslash escapes inside a quoted string
	EightBit    bool   // quoted string contains a byte >= 0x80
	InvalidUTF8 bool   // ... and its content is not valid UTF-8 (informational)
	LitLen      int64
}

func (r *scanRes) problem(p string) {
	if r.Problem == "" {
		r.Problem = p
	}
}

// scanString reads one IMAP string (quoted or literal) starting at w[i]. buf is scratch space
// for the payload of quoted strings.
func scanString(w []byte, i int, m wireMode, buf []byte) scanRes {
	var r scanRes
	r.End = i
	if i >= len(w) {
		r.problem("no bytes where a string was expected")
		return r
	}
	switch w[i] {
	case '"':
		r.Form = formQuoted
		out := buf[:0]
		j := i + 1
		for {
			if j >= len(w) {
				r.problem("unterminated quoted string")
				r.End = j
				break
			}
			c := w[j]
			if c == '"' {
				r.End = j + 1
				break
			}
			switch {
			case c == '\\':
				if j+1 >= len(w) {
					r.problem("backslash at end of data")
					j++
					continue
				}
				n := w[j+1]
				if n != '"' && n != '\\' {
					r.problem("backslash escapes a byte that is not a quoted-special")
				}
				out = append(out, n)
				r.Escapes++
				j += 2
				continue
			case c == 0 || c == '\r' || c == '\n':
				r.problem("CR, LF or NUL inside a quoted string")
			case c >= 0x80:
				r.EightBit = true
				if !m.Q8 {
					r.problem("8-bit byte inside a quoted string although UTF-8 quoting was not negotiated")
				}
			}
			out = append(out, c)
			j++
		}
		r.Payload = out
		if r.EightBit && !utf8.Valid(out) {
			r.InvalidUTF8 = true
		}
		return r
	case '{':
		j := i + 1
		st := j
		for j < len(w) && w[j] >= '0' && w[j] <= '9' {
			j++
		}
		if j == st {
			r.problem("literal header without a count")
			return r
		}
		if w[st] == '0' && j-st > 1 {
			r.problem("literal count with a leading zero")
		}
		n, err := strconv.ParseInt(string(w[st:j]), 10, 64)
		if err != nil {
			r.problem("literal count out of range")
			return r
		}
		r.LitLen = n
		r.Form = formLitSync
		if j < len(w) && w[j] == '+' {
			r.Form = formLitNonSync
			j++
			if !m.Client {
				r.problem("non-synchronising literal {n+} written by the server side")
			} else if !(m.LP || (m.LM && n <= 4096)) {
				r.problem("non-synchronising literal {n+} not permitted by the negotiated mode (LITERAL+ off; LITERAL- off or n > 4096)")
			}
		}
		if j+3 > len(w) || w[j] != '}' || w[j+1] != '\r' || w[j+2] != '\n' {
			r.problem("malformed literal header")
			return r
		}
		j += 3
		if int64(len(w)-j) < n {
			r.problem("literal header count exceeds the bytes on the wire")
			r.Payload = w[j:]
			r.End = len(w)
			return r
		}
		r.Payload = w[j : j+int(n)]
		r.End = j + int(n)
		return r
	}
	r.problem("neither a quoted string nor a literal")
	return r
}

// node is an ordered tree: a parenthesised list or a string leaf.
type node struct {
	List bool
	Leaf string
	Kids []*node
}

func (n *node) eq(o *node) bool {
	if n.List != o.List || n.Leaf != o.Leaf || len(n.Kids) != len(o.Kids) {
		return false
	}
	for i := range n.Kids {
		if !n.Kids[i].eq(o.Kids[i]) {
			return false
		}
	}
	return true
}

func (n *node) String() string {
	if !n.List {
		return strconv.QuoteToASCII(n.Leaf)
	}
	s := "("
	for i, k := range n.Kids {
		if i > 0 {
			s += " "
		}
		s += k.String()
	}
	return s + ")"
}

func (n *node) size() int {
	t := 1
	for _, k := range n.Kids {
		t += k.size()
	}
	return t
}

// scanValue reads one value (list, string or atom-like token) at w[i]; it returns the tree it
// saw (atoms become leaves), the end offset and the first problem.
func scanValue(w []byte, i int, m wireMode) (n *node, end int, problem string) {
	if i >= len(w) {
		return nil, i, "no bytes where a value was expected"
	}
	switch w[i] {
	case '(':
		n = &node{List: true}
		i++
		if i < len(w) && w[i] == ')' {
			return n, i + 1, ""
		}
		for {
			k, e, p := scanValue(w, i, m)
			if p != "" {
				return n, e, p
			}
			n.Kids = append(n.Kids, k)
			i = e
			if i >= len(w) {
				return n, i, "unterminated list"
			}
			if w[i] == ')' {
				return n, i + 1, ""
			}
			if w[i] != ' ' {
				return n, i, "list items not separated by SP"
			}
			i++
			if i < len(w) && (w[i] == ' ' || w[i] == ')') {
				return n, i, "stray SP inside a list"
			}
		}
	case '"', '{':
		r := scanString(w, i, m, nil)
		return &node{Leaf: string(r.Payload)}, r.End, r.Problem
	}
	j := i
	for j < len(w) && w[j] != ' ' && w[j] != '(' && w[j] != ')' && w[j] != '\r' && w[j] != '\n' {
		j++
	}
	if j == i {
		return nil, i, "empty token"
	}
	return &node{Leaf: string(w[i:j])}, j, ""
}

// ---- RFC recognisers ----

// rfcAtomChar: ATOM-CHAR of RFC 3501/9051 (7-bit only): any CHAR except atom-specials
// "(" ")" "{" SP CTL list-wildcards quoted-specials resp-specials.
func rfcAtomChar(c byte) bool {
	if c <= 0x20 || c >= 0x7f {
		return false
	}
	switch c {
	case '(', ')', '{', '%', '*', '"', '\\', ']':
		return false
	}
	return true
}

func rfcAtom(s string) bool {
	if s == "" {
		return false
	}
	for i := 0; i < len(s); i++ {
		if !rfcAtomChar(s[i]) {
			return false
		}
	}
	return true
}

// rfcFlagOK: flag / flag-perm = "\*" / "\" atom / atom.
func rfcFlagOK(s string) bool {
	if s == "\\*" {
		return true
	}
	if len(s) > 0 && s[0] == '\\' {
		return rfcAtom(s[1:])
	}
	return rfcAtom(s)
}

// rfcAttrOK: mbx-list-flags are all of the form "\" atom.
func rfcAttrOK(s string) bool {
	return len(s) > 1 && s[0] == '\\' && rfcAtom(s[1:])
}

func has8bit(s string) bool {
	for i := 0; i < len(s); i++ {
		if s[i] >= 0x80 {
			return true
		}
	}
	return false
}

// rfcNumber: 1*DIGIT without leading zeros (except "0"), value <= max.
func rfcNumber(s string, max uint64) bool {
	if s == "" || (len(s) > 1 && s[0] == '0') {
		return false
	}
	for i := 0; i < len(s); i++ {
		if s[i] < '0' || s[i] > '9' {
			return false
		}
	}
	v, err := strconv.ParseUint(s, 10, 64)
	return err == nil && v <= max
}

// rfcSeqSetOK: sequence-set = (seq-number / seq-range) *("," ...), seq-number = nz-number / "*".
func rfcSeqSetOK(s string) bool {
	if s == "" {
		return false
	}
	start := 0
	for i := 0; i <= len(s); i++ {
		if i < len(s) && s[i] != ',' {
			continue
		}
		el := s[start:i]
		start = i + 1
		colon := -1
		for k := 0; k < len(el); k++ {
			if el[k] == ':' {
				if colon >= 0 {
					return false
				}
				colon = k
			}
		}
		num := func(t string) bool { return t == "*" || (rfcNumber(t, 1<<32-1) && t != "0") }
		if colon < 0 {
			if !num(el) {
				return false
			}
		} else if !num(el[:colon]) || !num(el[colon+1:]) {
			return false
		}
	}
	return true
}

func asciiLower(s string) string {
	b := []byte(s)
	for i, c := range b {
		if c >= 'A' && c <= 'Z' {
			b[i] = c + 32
		}
	}
	return string(b)
}

// refUTF7 is an independent RFC 3501 §5.1.3 modified UTF-7 encoder (valid UTF-8 input).
func refUTF7(s string) string {
	const b64 = "ABCDEFGHIJKLMNOPQRSTUVWXYZabcdefghijklmnopqrstuvwxyz0123456789+,"
	var out []byte
	var pend []byte
	flush := func() {
		if len(pend) == 0 {
			return
		}
		out = append(out, '&')
		var acc uint32
		n := uint(0)
		for _, b := range pend {
			acc = acc<<8 | uint32(b)
			n += 8
			for n >= 6 {
				out = append(out, b64[(acc>>(n-6))&63])
				n -= 6
			}
		}
		if n > 0 {
			out = append(out, b64[(acc<<(6-n))&63])
		}
		out = append(out, '-')
		pend = pend[:0]
	}
	for _, r := range s {
		if r >= 0x20 && r <= 0x7e {
			flush()
			out = append(out, byte(r))
			if r == '&' {
				out = append(out, '-')
			}
			continue
		}
		if r >= 0x10000 {
			r -= 0x10000
			hi, lo := 0xd800+(r>>10), 0xdc00+(r&0x3ff)
			pend = append(pend, byte(hi>>8), byte(hi), byte(lo>>8), byte(lo))
		} else {
			pend = append(pend, byte(r>>8), byte(r))
		}
	}
	flush()
	return string(out)
}
