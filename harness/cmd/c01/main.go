// C01 — wire encoder/decoder round trip for every IMAP data value.
//
// Bounded-exhaustive enumeration on the real imapwire.Encoder / imapwire.Decoder (and the flag
// helpers of package internal) over an in-memory buffer, in both directions (client-side
// encoder -> server-side decoder, server-side encoder -> client-side decoder) and under all 8
// combinations of QuotedUTF8 x LiteralMinus x LiteralPlus. Every value is written followed by
// ` END\r\n`. Oracle: (1) the decoder succeeds and yields canon(x); (2) it consumed exactly the
// bytes of the value (offset computed by the independent scanner of scan.go) and then reads
// SP, END, CRLF, EOF; (3) unrepresentable values are refused with an error and leave nothing on
// the wire; (4) the bytes written are legal for the negotiated mode (independent scanner).
package main

import (
	"bufio"
	"bytes"
	"encoding/json"
	"fmt"
	"io"
	"math/bits"
	"os"
	"strconv"
	"strings"
	"sync"
	"unicode/utf8"

	imap "github.com/emersion/go-imap/v2"
	"github.com/emersion/go-imap/v2/internal"
	"github.com/emersion/go-imap/v2/internal/imapwire"
	"github.com/emersion/go-imap/v2/verif/vk"
)

var (
	run     *vk.Run
	verbose bool // replay mode: print every step
)

// ---------------------------------------------------------------------------------------------
// configurations

const (
	hookDone   = iota // NewContinuationRequest returns a request that is already completed
	hookAbsent        // NewContinuationRequest == nil
	hookNil           // NewContinuationRequest returns nil
)

type cfg struct {
	C2S        bool // client-side encoder -> server-side decoder (else the reverse)
	Q8, LM, LP bool
	Hook       int
}

func (c cfg) String() string {
	d := "server->client"
	if c.C2S {
		d = "client->server"
	}
	s := fmt.Sprintf("%s QuotedUTF8=%v LiteralMinus=%v LiteralPlus=%v", d, c.Q8, c.LM, c.LP)
	if c.C2S {
		s += " hook=" + [...]string{"completes-at-once", "absent", "returns-nil"}[c.Hook]
	}
	return s
}

func (c cfg) wm() wireMode { return wireMode{Client: c.C2S, Q8: c.Q8, LM: c.LM, LP: c.LP} }

func (c cfg) encSide() imapwire.ConnSide {
	if c.C2S {
		return imapwire.ConnSideClient
	}
	return imapwire.ConnSideServer
}

func (c cfg) decSide() imapwire.ConnSide {
	if c.C2S {
		return imapwire.ConnSideServer
	}
	return imapwire.ConnSideClient
}

var cfgs []cfg // the 16 (direction x mode) configurations with a completing hook

func init() {
	for _, c2s := range []bool{true, false} {
		for m := 0; m < 8; m++ {
			cfgs = append(cfgs, cfg{C2S: c2s, Q8: m&1 != 0, LM: m&2 != 0, LP: m&4 != 0})
		}
	}
}

// ---------------------------------------------------------------------------------------------
// per-worker context and counters

const (
	cQuotedPlain = iota
	cQuotedEscaped
	cQuoted8bit
	cQuotedInvalidUTF8
	cLitSync
	cLitNonSync
	cLitServer
	cHookCalls
	cHookMissingRefused
	cHookMissingSameBytes
	cStreamedLiteral
	cDecodeShared
	cMailboxNonIdentity
	cInboxFolded
	cFlagAccepted
	cFlagRefused
	cFlagMalformedCases
	cFlagFolded
	cFlag8bitAccepted
	cAttrFoldedAsFlag
	cNumSetRefused
	cNumSetReprDiffers
	cSearchRes
	cDepthCapCases
	cDepthErrors
	cDepthDontCare
	cTreeLiteralLeaf
	nCounters
)

var cntNames = [nCounters]string{
	"strings_quoted_plain", "strings_quoted_with_escapes", "strings_quoted_8bit", "strings_quoted_invalid_utf8_under_QuotedUTF8",
	"strings_literal_sync_client", "strings_literal_nonsync_client", "strings_literal_server",
	"continuation_hook_calls", "hook_missing_cases_needing_sync_literal", "hook_missing_cases_not_needing_it", "literals_streamed_through_reader", "string_decodes_not_repeated_identical_bytes_same_decoder_side",
	"mailbox_encoding_not_identity", "mailbox_inbox_folded",
	"flags_accepted", "flags_refused", "flags_malformed_cases", "flags_case_fold_cases", "flags_8bit_accepted_dont_care", "attrs_folded_as_wellknown_flag",
	"numsets_empty_cases", "numsets_representation_differs_same_set", "searchres_cases",
	"list_depth_cap_cases", "list_depth_cap_errors", "list_depth_dont_care", "trees_with_literal_leaf",
}

type wctx struct {
	buf   bytes.Buffer
	bw    *bufio.Writer
	rd    bytes.Reader
	br    *bufio.Reader
	hooks int
	ref   []byte
	pay   []byte
	out   []byte
	chunk [1024]byte

	nonSync bool // reported by the last ExpectNStringReader
	seen    [2][8][]byte
	nSeen   [2]int

	cnt       [nCounters]int64
	evals     int64
	nt        int64
	maxQuoted int
	maxLMOnly int64
	evalsKind map[string]int64
}

var (
	ctxMu   sync.Mutex
	ctxFree []*wctx
	ctxAll  []*wctx
)

func getCtx() *wctx {
	ctxMu.Lock()
	defer ctxMu.Unlock()
	if n := len(ctxFree); n > 0 {
		x := ctxFree[n-1]
		ctxFree = ctxFree[:n-1]
		return x
	}
	x := &wctx{evalsKind: map[string]int64{}}
	x.bw = bufio.NewWriter(&x.buf)
	x.br = bufio.NewReader(&x.rd)
	ctxAll = append(ctxAll, x)
	return x
}

func putCtx(x *wctx) {
	ctxMu.Lock()
	ctxFree = append(ctxFree, x)
	ctxMu.Unlock()
}

// seenWire reports whether identical bytes were already decoded for this string in this
// direction, and remembers them otherwise.
func (x *wctx) seenWire(c2s bool, w []byte) bool {
	d := 0
	if c2s {
		d = 1
	}
	for i := 0; i < x.nSeen[d]; i++ {
		if bytes.Equal(x.seen[d][i], w) {
			return true
		}
	}
	i := x.nSeen[d]
	x.seen[d][i] = append(x.seen[d][i][:0], w...)
	x.nSeen[d]++
	return false
}

func (x *wctx) eval(kind string, n int64) {
	x.evals += n
	x.evalsKind[kind] += n
}

// ---------------------------------------------------------------------------------------------
// case descriptions (replay artefacts)

type genDesc struct {
	Len int    `json:"len"`
	Sym string `json:"sym"` // Go-quoted
	Pos string `json:"pos"` // none|first|middle|last
}

func (g genDesc) build() string {
	b := bytes.Repeat([]byte{'a'}, g.Len)
	sym, _ := strconv.Unquote(g.Sym)
	if sym == "" || g.Pos == "none" {
		return string(b)
	}
	p := 0
	switch g.Pos {
	case "middle":
		p = g.Len / 2
	case "last":
		p = g.Len - len(sym)
	}
	copy(b[p:], sym)
	return string(b)
}

type caseDesc struct {
	Kind  string   `json:"kind"`
	Input string   `json:"input,omitempty"` // Go-quoted value
	Gen   *genDesc `json:"gen,omitempty"`
	Index int      `json:"index"`
	Param int      `json:"param"`
	Text  string   `json:"text,omitempty"`
}

func abbrev(w []byte) string {
	if len(w) <= 160 {
		return vk.Q(string(w))
	}
	return vk.Q(string(w[:80])) + fmt.Sprintf(" ...(%d bytes in all)... ", len(w)) + vk.Q(string(w[len(w)-40:]))
}

func errStr(err error) string {
	if err == nil {
		return "<nil>"
	}
	return err.Error()
}

func violation(key string, cd *caseDesc, c cfg, reader, problem string, wire []byte) {
	d := map[string]interface{}{"case": cd, "config": c.String(), "problem": problem, "wire": abbrev(wire)}
	if reader != "" {
		d["reader"] = reader
	}
	run.Violation(key, d)
	if verbose {
		fmt.Printf("  VIOLATION key=%s config=[%s] reader=%s\n    %s\n    wire=%s\n", key, c, reader, problem, abbrev(wire))
	}
}

// ---------------------------------------------------------------------------------------------
// driving the encoder and the decoder

type encOut struct {
	wire []byte
	err  error
	pan  interface{}
}

func (x *wctx) encode(c cfg, write func(enc *imapwire.Encoder)) (o encOut) {
	x.buf.Reset()
	x.bw.Reset(&x.buf)
	x.hooks = 0
	enc := imapwire.NewEncoder(x.bw, c.encSide())
	enc.QuotedUTF8, enc.LiteralMinus, enc.LiteralPlus = c.Q8, c.LM, c.LP
	if c.C2S {
		switch c.Hook {
		case hookDone:
			enc.NewContinuationRequest = func() *imapwire.ContinuationRequest {
				x.hooks++
				r := imapwire.NewContinuationRequest()
				r.Done("")
				return r
			}
		case hookNil:
			enc.NewContinuationRequest = func() *imapwire.ContinuationRequest {
				x.hooks++
				return nil
			}
		}
	}
	func() {
		defer func() {
			if r := recover(); r != nil {
				o.pan = r
			}
		}()
		write(enc)
		enc.SP().Atom("END")
		o.err = enc.CRLF()
	}()
	if o.err != nil || o.pan != nil {
		x.bw.Flush() // reveal whatever had been buffered before the refusal
	}
	o.wire = x.buf.Bytes()
	return o
}

func (x *wctx) open(c cfg, wire []byte) *imapwire.Decoder {
	x.rd.Reset(wire)
	x.br.Reset(&x.rd)
	return imapwire.NewDecoder(x.br, c.decSide())
}

// consumed: number of bytes the decoder has taken so far.
func (x *wctx) consumed(wire []byte) int { return len(wire) - x.rd.Len() - x.br.Buffered() }

// tail: after the value the decoder must read SP, atom END, CRLF and be at EOF.
func (x *wctx) tail(dec *imapwire.Decoder) string {
	var a string
	if !dec.ExpectSP() {
		return "after the value the decoder does not find SP: " + errStr(dec.Err())
	}
	if !dec.ExpectAtom(&a) {
		return "after the value and SP the decoder does not find an atom: " + errStr(dec.Err())
	}
	if a != "END" {
		return "after the value the decoder reads atom " + vk.Q(a) + " instead of END"
	}
	if !dec.ExpectCRLF() {
		return "after END the decoder does not find CRLF: " + errStr(dec.Err())
	}
	if !dec.EOF() || x.rd.Len()+x.br.Buffered() != 0 {
		return "bytes left after END CRLF"
	}
	if dec.Err() != nil {
		return "decoder error recorded although every step succeeded: " + dec.Err().Error()
	}
	return ""
}

// decodeCheck runs read (which returns "" or a problem) under recover, then the consumption and
// tail checks. end is the scanner's offset of the end of the value.
func (x *wctx) decodeCheck(c cfg, wire []byte, end int, read func(dec *imapwire.Decoder) string) (problem, class string) {
	dec := x.open(c, wire)
	var pan interface{}
	func() {
		defer func() {
			if r := recover(); r != nil {
				pan = r
			}
		}()
		problem = read(dec)
		if problem != "" {
			class = "decode"
			return
		}
		if got := x.consumed(wire); got != end {
			problem = fmt.Sprintf("decoder consumed %d bytes, the value occupies %d", got, end)
			class = "consumption"
			return
		}
		if problem = x.tail(dec); problem != "" {
			class = "consumption"
		}
	}()
	if pan != nil {
		return fmt.Sprintf("decoder panic: %v", pan), "decoder-panic"
	}
	return
}

// ---------------------------------------------------------------------------------------------
// strings

var stringReaders = []string{"ExpectAString", "ExpectString", "ExpectNString", "ExpectNStringReader", "DiscardValue"}

func (x *wctx) readString(dec *imapwire.Decoder, ri int, want string) string {
	var got string
	var ok bool
	switch ri {
	case 0:
		ok = dec.ExpectAString(&got)
	case 1:
		ok = dec.ExpectString(&got)
	case 2:
		ok = dec.ExpectNString(&got)
	case 3:
		lit, nonSync, ok2 := dec.ExpectNStringReader()
		if !ok2 {
			return "ExpectNStringReader failed: " + errStr(dec.Err())
		}
		if lit == nil {
			return "ExpectNStringReader returned NIL for a string"
		}
		x.nonSync = nonSync
		out := x.out[:0]
		chunk := x.chunk[:]
		if lit.Size() <= 64 {
			chunk = chunk[:3]
		}
		for iter := 0; ; iter++ {
			n, err := lit.Read(chunk)
			out = append(out, chunk[:n]...)
			if err == io.EOF {
				break
			}
			if err != nil {
				return "literal reader: " + err.Error()
			}
			if iter > 1<<20 {
				return "literal reader never reports EOF"
			}
		}
		x.out = out
		if lit.Size() != int64(len(out)) {
			return fmt.Sprintf("literal reader Size()=%d but delivered %d bytes", lit.Size(), len(out))
		}
		if string(out) != want {
			return "decoded value differs: got " + abbrev(out)
		}
		return ""
	case 4:
		if !dec.DiscardValue() {
			return "DiscardValue failed: " + errStr(dec.Err())
		}
		return ""
	}
	if !ok {
		return stringReaders[ri] + " failed: " + errStr(dec.Err())
	}
	if got != want {
		return "decoded value differs: got " + abbrev([]byte(got))
	}
	return ""
}

func stringDesc(s string, cd *caseDesc) *caseDesc {
	if cd != nil {
		return cd
	}
	return &caseDesc{Kind: "string", Input: vk.Q(s)}
}

func checkString(x *wctx, s string, cd *caseDesc) {
	var mask uint
	x.nSeen[0], x.nSeen[1] = 0, 0
	for _, c := range cfgs {
		c := c
		x.eval("string-encode", 1)
		o := x.encode(c, func(e *imapwire.Encoder) { e.String(s) })
		if verbose {
			fmt.Printf("config [%s]\n  encoder err=%v wire=%s\n", c, o.err, abbrev(o.wire))
		}
		if o.pan != nil {
			violation("string:encoder-panic", stringDesc(s, cd), c, "", fmt.Sprint(o.pan), o.wire)
			continue
		}
		if o.err != nil {
			violation("string:encoder-error", stringDesc(s, cd), c, "", "Encoder.String refused a string although a continuation hook is present: "+o.err.Error(), o.wire)
			continue
		}
		sc := scanString(o.wire, 0, c.wm(), x.pay)
		if sc.Form == formQuoted {
			x.pay = sc.Payload[:0]
		}
		fkey := sc.Form.String()
		bad := false
		if sc.Problem != "" {
			bad = true
			violation("string:wire-illegal:"+strings.ReplaceAll(strings.SplitN(sc.Problem, " (", 2)[0], " ", "-"), stringDesc(s, cd), c, "", sc.Problem, o.wire)
		} else if string(sc.Payload) != s {
			bad = true
			violation("string:wire-content-differs:"+fkey, stringDesc(s, cd), c, "", "an independent reading of the bytes gives "+abbrev(sc.Payload), o.wire)
		} else if string(o.wire[sc.End:]) != " END\r\n" {
			bad = true
			violation("string:wire-extent:"+fkey, stringDesc(s, cd), c, "", fmt.Sprintf("the value ends at offset %d by its own header/quotes but what follows is %s, not \" END\\r\\n\"", sc.End, abbrev(o.wire[sc.End:])), o.wire)
		}
		isLit := sc.Form == formLitSync || sc.Form == formLitNonSync
		if !bad && ((s == "a\"\\" && c == cfgs[0]) || (s == "\xc3\xa9\r" && c == cfg{C2S: true, LM: true})) {
			run.Sample("string", map[string]string{"input": vk.Q(s), "config": c.String(), "wire": abbrev(o.wire), "form": fkey})
		}
		// the negotiated mode is honoured and the hook is used exactly when needed
		wantHooks := 0
		if c.C2S && sc.Form == formLitSync {
			wantHooks = 1
			if c.LP || (c.LM && sc.LitLen <= 4096) {
				violation("string:synchronising-literal-although-non-synchronising-negotiated", stringDesc(s, cd), c, "", fmt.Sprintf("{%d} sent as a synchronising literal", sc.LitLen), o.wire)
			}
		}
		if x.hooks != wantHooks {
			violation("string:continuation-hook-calls", stringDesc(s, cd), c, "", fmt.Sprintf("NewContinuationRequest called %d times, wire form %s", x.hooks, fkey), o.wire)
		}
		x.cnt[cHookCalls] += int64(x.hooks)
		switch {
		case sc.Form == formQuoted:
			if len(s) > x.maxQuoted {
				x.maxQuoted = len(s)
			}
			switch {
			case sc.Escapes > 0:
				x.cnt[cQuotedEscaped]++
				mask |= 1
			case sc.EightBit:
				x.cnt[cQuoted8bit]++
				mask |= 2
			default:
				x.cnt[cQuotedPlain]++
			}
			if sc.EightBit && sc.Escapes > 0 {
				mask |= 2
			}
			if sc.InvalidUTF8 {
				x.cnt[cQuotedInvalidUTF8]++
			}
		case !c.C2S && isLit:
			x.cnt[cLitServer]++
			mask |= 4
		case sc.Form == formLitSync:
			x.cnt[cLitSync]++
			mask |= 8
		case sc.Form == formLitNonSync:
			x.cnt[cLitNonSync]++
			mask |= 16
			if c.LM && !c.LP && sc.LitLen > x.maxLMOnly {
				x.maxLMOnly = sc.LitLen
			}
		}
		// The decoder has no mode: what it does is a function of (bytes, decoder side) only. Bytes
		// identical to those of an earlier configuration of the same direction are not decoded again.
		if !bad && !verbose && x.seenWire(c.C2S, o.wire) {
			x.cnt[cDecodeShared] += int64(len(stringReaders))
			bad = true
		}
		if !bad {
			for ri := range stringReaders {
				ri := ri
				x.eval("string-decode", 1)
				problem, class := x.decodeCheck(c, o.wire, sc.End, func(dec *imapwire.Decoder) string { return x.readString(dec, ri, s) })
				if verbose {
					fmt.Printf("  %-20s %s\n", stringReaders[ri], orOK(problem))
				}
				if ri == 3 && isLit {
					x.cnt[cStreamedLiteral]++
				}
				if problem != "" {
					violation("string:"+class+":"+fkey, stringDesc(s, cd), c, stringReaders[ri], problem, o.wire)
					continue
				}
				if ri == 3 && isLit {
					if want := c.C2S && sc.Form == formLitNonSync; x.nonSync != want {
						violation("string:nonsync-flag", stringDesc(s, cd), c, stringReaders[ri], fmt.Sprintf("decoder reports nonSync=%v for wire form %s", x.nonSync, fkey), o.wire)
					}
				}
			}
		}
		// the same write without a usable continuation hook
		if c.C2S {
			needHook := sc.Form == formLitSync
			if !needHook {
				x.ref = append(x.ref[:0], o.wire...)
			}
			for _, h := range []int{hookAbsent, hookNil} {
				ch := c
				ch.Hook = h
				x.eval("string-hook-missing", 1)
				oh := x.encode(ch, func(e *imapwire.Encoder) { e.String(s) })
				if verbose {
					fmt.Printf("config [%s]\n  encoder err=%v wire=%s\n", ch, oh.err, abbrev(oh.wire))
				}
				if needHook {
					x.cnt[cHookMissingRefused]++
				} else {
					x.cnt[cHookMissingSameBytes]++
				}
				switch {
				case oh.pan != nil:
					violation("string:encoder-panic", stringDesc(s, cd), ch, "", fmt.Sprint(oh.pan), oh.wire)
				case needHook && oh.err == nil:
					violation("string:hook-missing-no-error", stringDesc(s, cd), ch, "", "a synchronising literal is needed, no continuation request can be made, yet CRLF() reports success", oh.wire)
				case needHook && len(oh.wire) != 0:
					violation("string:hook-missing-bytes-on-wire", stringDesc(s, cd), ch, "", "encoder refused the value but bytes reached the writer", oh.wire)
				case needHook:
					// refused, nothing written
				case oh.err != nil:
					violation("string:hook-missing-spurious-error", stringDesc(s, cd), ch, "", "no synchronising literal is needed (with a hook the value went out as "+fkey+") but the encoder fails: "+oh.err.Error(), oh.wire)
				case !bytes.Equal(oh.wire, x.ref):
					violation("string:hook-missing-different-bytes", stringDesc(s, cd), ch, "", "bytes differ from the run with a hook: "+abbrev(x.ref), oh.wire)
				}
			}
		}
	}
	x.nt += int64(bits.OnesCount(mask))
}

func orOK(p string) string {
	if p == "" {
		return "ok"
	}
	return "PROBLEM: " + p
}

// ---------------------------------------------------------------------------------------------
// mailbox names

func canonMailbox(name string) string {
	if len(name) == 5 && asciiLower(name) == "inbox" {
		return "INBOX"
	}
	return name
}

func checkMailbox(x *wctx, name string) {
	cd := &caseDesc{Kind: "mailbox", Input: vk.Q(name)}
	want := canonMailbox(name)
	nontriv := false
	for _, c := range cfgs {
		x.eval("mailbox", 1)
		o := x.encode(c, func(e *imapwire.Encoder) { e.Mailbox(name) })
		if verbose {
			fmt.Printf("config [%s]\n  encoder err=%v wire=%s\n", c, o.err, abbrev(o.wire))
		}
		if o.pan != nil {
			violation("mailbox:encoder-panic", cd, c, "", fmt.Sprint(o.pan), o.wire)
			continue
		}
		if o.err != nil {
			violation("mailbox:encoder-error", cd, c, "", o.err.Error(), o.wire)
			continue
		}
		// independent reading of the wire
		var end int
		var payload string
		if len(o.wire) > 0 && (o.wire[0] == '"' || o.wire[0] == '{') {
			sc := scanString(o.wire, 0, c.wm(), nil)
			if sc.Problem != "" {
				violation("mailbox:wire-illegal", cd, c, "", sc.Problem, o.wire)
				continue
			}
			end, payload = sc.End, string(sc.Payload)
			if sc.Escapes > 0 {
				nontriv = true
			}
		} else {
			n, e, p := scanValue(o.wire, 0, c.wm())
			if p != "" || n == nil {
				violation("mailbox:wire-illegal", cd, c, "", p, o.wire)
				continue
			}
			end, payload = e, n.Leaf
			if !rfcAtom(payload) {
				violation("mailbox:wire-illegal", cd, c, "", "unquoted mailbox name is not an atom", o.wire)
				continue
			}
		}
		if string(o.wire[end:]) != " END\r\n" {
			violation("mailbox:wire-extent", cd, c, "", "what follows the name is "+abbrev(o.wire[end:]), o.wire)
			continue
		}
		if want == "INBOX" {
			if asciiLower(payload) != "inbox" {
				violation("mailbox:wire-content", cd, c, "", "INBOX written as "+vk.Q(payload), o.wire)
				continue
			}
			if name != "INBOX" {
				nontriv = true
			}
		} else {
			if ref := refUTF7(name); payload != ref {
				violation("mailbox:wire-content", cd, c, "", "name on the wire is "+vk.Q(payload)+", RFC 3501 modified UTF-7 of the name is "+vk.Q(ref), o.wire)
				continue
			}
			if payload != name {
				nontriv = true
			}
		}
		problem, class := x.decodeCheck(c, o.wire, end, func(dec *imapwire.Decoder) string {
			var got string
			if !dec.ExpectMailbox(&got) {
				return "ExpectMailbox failed: " + errStr(dec.Err())
			}
			if got != want {
				return "decoded name differs: got " + vk.Q(got) + " want " + vk.Q(want)
			}
			return ""
		})
		if verbose {
			fmt.Printf("  %-20s %s\n", "ExpectMailbox", orOK(problem))
		}
		if problem == "" && c == cfgs[0] && (name == "a&é" || name == "iNbOx") {
			run.Sample("mailbox", map[string]string{"input": vk.Q(name), "config": c.String(), "wire": abbrev(o.wire), "decoded": vk.Q(want)})
		}
		if problem != "" {
			violation("mailbox:"+class, cd, c, "ExpectMailbox", problem, o.wire)
		}
	}
	if nontriv {
		x.nt++
		if want == "INBOX" {
			x.cnt[cInboxFolded]++
		} else {
			x.cnt[cMailboxNonIdentity]++
		}
	}
}

// ---------------------------------------------------------------------------------------------
// flags and mailbox attributes

var wellKnownFlags = []string{"\\Seen", "\\Answered", "\\Flagged", "\\Deleted", "\\Draft",
	"$Forwarded", "$MDNSent", "$Junk", "$NotJunk", "$Phishing", "$Important"}

var wellKnownAttrs = []string{"\\NonExistent", "\\Noinferiors", "\\Noselect", "\\HasChildren", "\\HasNoChildren",
	"\\Marked", "\\Unmarked", "\\Subscribed", "\\Remote", "\\All", "\\Archive", "\\Drafts", "\\Flagged", "\\Junk",
	"\\Sent", "\\Trash", "\\Important"}

func canonFlag(f string) (string, bool) {
	l := asciiLower(f)
	for _, w := range wellKnownFlags {
		if asciiLower(w) == l {
			return w, true
		}
	}
	return f, false
}

// canonAttr: well-known attributes are case-normalised. An attribute spelled like a well-known
// *flag* is normalised to that flag's case (stated as an assumption in the evidence).
func canonAttr(a string) (canon string, viaFlag bool) {
	l := asciiLower(a)
	for _, w := range wellKnownAttrs {
		if asciiLower(w) == l {
			return w, false
		}
	}
	if w, ok := canonFlag(a); ok {
		return w, w != a
	}
	return a, false
}

func alternating(s string) string {
	b := []byte(s)
	for i, c := range b {
		switch {
		case i%2 == 0 && c >= 'a' && c <= 'z':
			b[i] = c - 32
		case i%2 == 1 && c >= 'A' && c <= 'Z':
			b[i] = c + 32
		}
	}
	return string(b)
}

var malformedFlags = []string{"", "a b", "a(b", "a)b", "a{b", "a%b", "a*b", "a\"b", "a]b", "\\", "a\\b", "\\\\a",
	"a\r\nb", "a\x00b", "a\x7fb", "\\*x", "*", "%", "\\ ", " ", "a ", " a", "\\(", "a\tb", "\\\\", "a\\", "\\a\\",
	"(", ")", "{", "\"", "]", "a\nb", "a\rb", "\x01", "\x7f", "\\a b", "\\a)", "\\%"}

func flagCandidates() []string {
	seen := map[string]bool{}
	var out []string
	add := func(s string) {
		if !seen[s] {
			seen[s] = true
			out = append(out, s)
		}
	}
	for _, l := range [][]string{wellKnownFlags, wellKnownAttrs, {"\\Recent"}} {
		for _, f := range l {
			add(f)
			add(strings.ToLower(f))
			add(strings.ToUpper(f))
			add(alternating(f))
			if strings.HasPrefix(f, "\\") {
				add(f[1:]) // without the leading backslash
				add(strings.ToLower(f[1:]))
			}
		}
	}
	for _, k := range []string{"a", "A", "keyword", "$label1", "$MailFlagBit0", "NIL", "nil", "1", "12", "a.b", "a+b", "a[b",
		"a&b", "a~b", "a:b", "a,b", "a=b", "a'b", "a/b", "a|b", "a}b", "a<b", "a>b", "a!b", "a#b", "a;b", "a?b", "a@b", "a^b",
		"a_b", "a`b", "\\Custom", "\\x", "\\*", "$", "+", "-", "\\$x", "\\1"} {
		add(k)
	}
	for _, k := range malformedFlags {
		add(k)
	}
	for _, k := range []string{"fé", "\\é", "a\x80b", "a\xffb", "a\xa0b"} {
		add(k)
	}
	return out
}

// checkFlag: attr selects Encoder.MailboxAttr / ExpectMailboxAttr instead of Flag / ExpectFlag.
func checkFlag(x *wctx, f string, attr bool) {
	kind := "flag"
	if attr {
		kind = "attr"
	}
	cd := &caseDesc{Kind: kind, Input: vk.Q(f)}
	rfcOK := rfcFlagOK(f)
	if attr {
		rfcOK = rfcAttrOK(f)
	}
	eight := has8bit(f)
	var want string
	folded, viaFlag := false, false
	if attr {
		want, viaFlag = canonAttr(f)
	} else {
		want, _ = canonFlag(f)
	}
	folded = want != f
	wellKnown := false
	if _, ok := canonFlag(f); ok && !attr {
		wellKnown = true
	}
	if attr {
		for _, w := range wellKnownAttrs {
			if asciiLower(w) == asciiLower(f) {
				wellKnown = true
			}
		}
	}
	for _, c := range cfgs {
		x.eval(kind, 1)
		if !rfcOK && !eight {
			x.cnt[cFlagMalformedCases]++
		}
		if folded && rfcOK {
			x.cnt[cFlagFolded]++
			if viaFlag {
				x.cnt[cAttrFoldedAsFlag]++
			}
		}
		o := x.encode(c, func(e *imapwire.Encoder) {
			if attr {
				e.MailboxAttr(imap.MailboxAttr(f))
			} else {
				e.Flag(imap.Flag(f))
			}
		})
		if verbose {
			fmt.Printf("config [%s]\n  encoder err=%v wire=%s\n", c, o.err, abbrev(o.wire))
		}
		if o.pan != nil {
			violation(kind+":encoder-panic", cd, c, "", fmt.Sprint(o.pan), o.wire)
			continue
		}
		if o.err != nil {
			x.cnt[cFlagRefused]++
			if f == "a b" && c == cfgs[0] {
				run.Sample("refusal", map[string]string{"input": kind + " " + vk.Q(f), "config": c.String(), "encoder_error": o.err.Error(), "wire": abbrev(o.wire)})
			}
			if len(o.wire) != 0 {
				violation(kind+":refused-but-bytes-on-wire", cd, c, "", "encoder refused the value but bytes reached the writer", o.wire)
			}
			if wellKnown {
				violation(kind+":well-known-refused", cd, c, "", "encoder refuses a well-known "+kind+": "+o.err.Error(), o.wire)
			}
			continue
		}
		x.cnt[cFlagAccepted]++
		read := func(dec *imapwire.Decoder) string {
			var got string
			var err error
			if attr {
				var a imap.MailboxAttr
				a, err = internal.ExpectMailboxAttr(dec)
				got = string(a)
			} else {
				var fl imap.Flag
				fl, err = internal.ExpectFlag(dec)
				got = string(fl)
			}
			if err != nil {
				return "decoder fails: " + err.Error()
			}
			if dec.Err() != nil {
				return "decoder error recorded: " + dec.Err().Error()
			}
			if got != want {
				return "decoded value differs: got " + vk.Q(got) + " want " + vk.Q(want)
			}
			return ""
		}
		if !rfcOK && !eight {
			// must have been refused; show what the peer makes of it
			problem, _ := x.decodeCheck(c, o.wire, len(f), read)
			violation(kind+":malformed-accepted:"+vk.Q(f), cd, c, "", "not a valid "+kind+" (RFC 3501/9051 flag = \"\\\" atom / atom; attributes always start with \"\\\"), yet the encoder emits it; the peer's decoder then: "+orOK(problem), o.wire)
			continue
		}
		if string(o.wire) != f+" END\r\n" {
			violation(kind+":wire-content", cd, c, "", "expected the "+kind+" verbatim followed by \" END\\r\\n\"", o.wire)
			continue
		}
		if eight {
			x.cnt[cFlag8bitAccepted]++
		}
		rdr := "ExpectFlag"
		if attr {
			rdr = "ExpectMailboxAttr"
		}
		problem, class := x.decodeCheck(c, o.wire, len(f), read)
		if verbose {
			fmt.Printf("  %-20s %s\n", rdr, orOK(problem))
		}
		if problem != "" {
			violation(kind+":"+class, cd, c, rdr, problem, o.wire)
			continue
		}
		if f == "\\sEeN" && c == cfgs[0] {
			run.Sample(kind, map[string]string{"input": vk.Q(f), "config": c.String(), "wire": abbrev(o.wire), "decoded": vk.Q(want)})
		}
		if folded {
			run.Nontrivial(kind + ":" + f)
		}
	}
}

var listFlags = []string{"\\Seen", "\\seen", "$FORWARDED", "kw", "\\*", "\\Custom", "NIL"}
var listAttrs = []string{"\\Noselect", "\\HASCHILDREN", "\\x", "\\Marked"}

func seqOf(items []string, idx int) []string {
	// index -> sequence of length 0..3 (by length, then odometer)
	n := len(items)
	for l := 0; ; l++ {
		cnt := 1
		for i := 0; i < l; i++ {
			cnt *= n
		}
		if idx < cnt {
			out := make([]string, l)
			for i := l - 1; i >= 0; i-- {
				out[i] = items[idx%n]
				idx /= n
			}
			return out
		}
		idx -= cnt
	}
}

func numSeqs(n, maxLen int) int {
	t, p := 0, 1
	for l := 0; l <= maxLen; l++ {
		t += p
		p *= n
	}
	return t
}

func checkFlagList(x *wctx, idx int, attr bool) {
	items := listFlags
	kind := "flaglist"
	if attr {
		items, kind = listAttrs, "attrlist"
	}
	fl := seqOf(items, idx)
	cd := &caseDesc{Kind: kind, Index: idx, Text: "(" + strings.Join(fl, " ") + ")"}
	want := make([]string, len(fl))
	anyFold := false
	for i, f := range fl {
		if attr {
			want[i], _ = canonAttr(f)
		} else {
			want[i], _ = canonFlag(f)
		}
		anyFold = anyFold || want[i] != f
	}
	for _, c := range cfgs {
		for w := 0; w < 2; w++ {
			x.eval(kind, 1)
			o := x.encode(c, func(e *imapwire.Encoder) {
				item := func(e *imapwire.Encoder, f string) {
					if attr {
						e.MailboxAttr(imap.MailboxAttr(f))
					} else {
						e.Flag(imap.Flag(f))
					}
				}
				if w == 0 {
					e.List(len(fl), func(i int) { item(e, fl[i]) })
				} else {
					le := e.BeginList()
					for _, f := range fl {
						item(le.Item(), f)
					}
					le.End()
				}
			})
			if verbose {
				fmt.Printf("config [%s] writer=%d\n  encoder err=%v wire=%s\n", c, w, o.err, abbrev(o.wire))
			}
			if o.pan != nil || o.err != nil {
				violation(kind+":encoder-error", cd, c, "", fmt.Sprint(o.pan, o.err), o.wire)
				continue
			}
			wantWire := "(" + strings.Join(fl, " ") + ") END\r\n"
			if string(o.wire) != wantWire {
				violation(kind+":wire-content", cd, c, "", "expected "+vk.Q(wantWire), o.wire)
				continue
			}
			problem, class := x.decodeCheck(c, o.wire, len(wantWire)-6, func(dec *imapwire.Decoder) string {
				var got []string
				if attr {
					l, err := internal.ExpectMailboxAttrList(dec)
					if err != nil {
						return "ExpectMailboxAttrList fails: " + err.Error()
					}
					for _, a := range l {
						got = append(got, string(a))
					}
				} else {
					l, err := internal.ExpectFlagList(dec)
					if err != nil {
						return "ExpectFlagList fails: " + err.Error()
					}
					for _, a := range l {
						got = append(got, string(a))
					}
				}
				if strings.Join(got, "\x00") != strings.Join(want, "\x00") || len(got) != len(want) {
					return fmt.Sprintf("decoded list differs: got %q want %q", got, want)
				}
				return ""
			})
			if verbose {
				fmt.Printf("  %s\n", orOK(problem))
			}
			if problem != "" {
				violation(kind+":"+class, cd, c, "", problem, o.wire)
			}
		}
	}
	if anyFold {
		run.Nontrivial(kind + ":" + cd.Text)
	}
}

// ---------------------------------------------------------------------------------------------
// numbers

type numCase struct {
	Writer  string
	V       uint64
	Readers []string
}

func numCases() []numCase {
	const m32 = 1<<32 - 1
	var out []numCase
	for _, v := range []uint64{0, 1, 9, 10, 99, 100, 1<<31 - 1, 1 << 31, m32 - 1, m32} {
		out = append(out, numCase{"Number", v, []string{"ExpectNumber", "ExpectNumber64", "ExpectModSeq"}})
		out = append(out, numCase{"UID", v, []string{"ExpectUID", "ExpectNumber"}})
	}
	for _, v := range []uint64{0, 1, 10, m32, m32 + 1, 1 << 53, 1<<63 - 2, 1<<63 - 1} {
		r := []string{"ExpectNumber64", "ExpectModSeq"}
		if v <= m32 {
			r = append(r, "ExpectNumber")
		}
		out = append(out, numCase{"Number64", v, r})
	}
	for _, v := range []uint64{0, 1, m32, m32 + 1, 1<<63 - 1, 1 << 63, 1<<64 - 2, 1<<64 - 1} {
		r := []string{"ExpectModSeq"}
		if v <= 1<<63-1 {
			r = append(r, "ExpectNumber64")
		}
		out = append(out, numCase{"ModSeq", v, r})
	}
	return out
}

func checkNumber(x *wctx, idx int) {
	nc := numCases()[idx]
	text := strconv.FormatUint(nc.V, 10)
	cd := &caseDesc{Kind: "number", Index: idx, Text: nc.Writer + "(" + text + ")"}
	for _, c := range cfgs {
		o := x.encode(c, func(e *imapwire.Encoder) {
			switch nc.Writer {
			case "Number":
				e.Number(uint32(nc.V))
			case "UID":
				e.UID(imap.UID(nc.V))
			case "Number64":
				e.Number64(int64(nc.V))
			case "ModSeq":
				e.ModSeq(nc.V)
			}
		})
		if verbose {
			fmt.Printf("config [%s]\n  encoder err=%v wire=%s\n", c, o.err, abbrev(o.wire))
		}
		if o.pan != nil || o.err != nil {
			violation("number:encoder-error", cd, c, "", fmt.Sprint(o.pan, o.err), o.wire)
			continue
		}
		if string(o.wire) != text+" END\r\n" || !rfcNumber(text, 1<<64-1) {
			violation("number:wire-content", cd, c, "", "expected the decimal number "+text, o.wire)
			continue
		}
		for _, rd := range nc.Readers {
			rd := rd
			x.eval("number", 1)
			problem, class := x.decodeCheck(c, o.wire, len(text), func(dec *imapwire.Decoder) string {
				var got uint64
				var ok bool
				switch rd {
				case "ExpectNumber":
					var v uint32
					ok = dec.ExpectNumber(&v)
					got = uint64(v)
				case "ExpectUID":
					var v imap.UID
					ok = dec.ExpectUID(&v)
					got = uint64(v)
				case "ExpectNumber64":
					var v int64
					ok = dec.ExpectNumber64(&v)
					got = uint64(v)
				case "ExpectModSeq":
					ok = dec.ExpectModSeq(&got)
				}
				if !ok {
					return rd + " failed: " + errStr(dec.Err())
				}
				if got != nc.V {
					return fmt.Sprintf("decoded number differs: got %d", got)
				}
				return ""
			})
			if verbose {
				fmt.Printf("  %-20s %s\n", rd, orOK(problem))
			}
			if problem != "" {
				violation("number:"+class, cd, c, rd, problem, o.wire)
			}
		}
	}
}

// ---------------------------------------------------------------------------------------------
// number sets

const m32 = ^uint32(0)

var nsEndpoints = []uint32{1, 2, 3, 5, m32 - 1, m32, 0} // 0 stands for "*"

type nsOp struct {
	Num  bool
	A, B uint32
}

var nsOps []nsOp

func init() {
	for _, e := range nsEndpoints {
		nsOps = append(nsOps, nsOp{Num: true, A: e})
	}
	for _, a := range nsEndpoints {
		for _, b := range nsEndpoints {
			nsOps = append(nsOps, nsOp{A: a, B: b})
		}
	}
}

func nsSeq(idx int) []nsOp {
	n := len(nsOps)
	for l := 0; ; l++ {
		cnt := 1
		for i := 0; i < l; i++ {
			cnt *= n
		}
		if idx < cnt {
			out := make([]nsOp, l)
			for i := l - 1; i >= 0; i-- {
				out[i] = nsOps[idx%n]
				idx /= n
			}
			return out
		}
		idx -= cnt
	}
}

func nsText(ops []nsOp) string {
	e := func(v uint32) string {
		if v == 0 {
			return "*"
		}
		return strconv.FormatUint(uint64(v), 10)
	}
	var p []string
	for _, o := range ops {
		if o.Num {
			p = append(p, "AddNum("+e(o.A)+")")
		} else {
			p = append(p, "AddRange("+e(o.A)+","+e(o.B)+")")
		}
	}
	return strings.Join(p, ";")
}

type rng struct{ Start, Stop uint32 }

// renderSet: independent rendering of the documented representation (Start==Stop: a number,
// Stop==0: "n:*", 0 is "*").
func renderSet(r []rng) string {
	var sb strings.Builder
	for i, x := range r {
		if i > 0 {
			sb.WriteByte(',')
		}
		num := func(v uint32) {
			if v == 0 {
				sb.WriteByte('*')
			} else {
				sb.WriteString(strconv.FormatUint(uint64(v), 10))
			}
		}
		num(x.Start)
		if x.Start != x.Stop {
			sb.WriteByte(':')
			num(x.Stop)
		}
	}
	return sb.String()
}

var nsProbes = []uint32{1, 2, 3, 4, 5, 6, 7, m32 - 2, m32 - 1, m32}

// checkNumSet: flavour 0 = SeqSet, 1 = UIDSet. idx is the index of the insertion sequence;
// idx -1 = non-nil empty set, -2 = SEARCHRES marker (UID flavour only).
func checkNumSet(x *wctx, idx int, flavour int) {
	var set imap.NumSet
	var ranges []rng
	var text string
	kind := imapwire.NumKindSeq
	fname := "SeqSet"
	if flavour == 1 {
		kind = imapwire.NumKindUID
		fname = "UIDSet"
	}
	var contains func(uint32) bool
	switch {
	case idx == -2:
		set = imap.SearchRes()
		text = "SearchRes()"
	case idx == -1:
		if flavour == 0 {
			set = imap.SeqSet{}
		} else {
			set = imap.UIDSet{}
		}
		text = "non-nil empty set"
	default:
		ops := nsSeq(idx)
		text = nsText(ops)
		if flavour == 0 {
			var s imap.SeqSet
			for _, o := range ops {
				if o.Num {
					s.AddNum(o.A)
				} else {
					s.AddRange(o.A, o.B)
				}
			}
			set = s
			for _, r := range s {
				ranges = append(ranges, rng{r.Start, r.Stop})
			}
			contains = s.Contains
		} else {
			var s imap.UIDSet
			for _, o := range ops {
				if o.Num {
					s.AddNum(imap.UID(o.A))
				} else {
					s.AddRange(imap.UID(o.A), imap.UID(o.B))
				}
			}
			set = s
			for _, r := range s {
				ranges = append(ranges, rng{uint32(r.Start), uint32(r.Stop)})
			}
			contains = func(q uint32) bool { return s.Contains(imap.UID(q)) }
		}
	}
	cd := &caseDesc{Kind: "numset", Index: idx, Param: flavour, Text: fname + ": " + text}
	empty := idx != -2 && len(ranges) == 0
	wantText := renderSet(ranges)
	if idx == -2 {
		wantText = "$"
	}
	for _, c := range cfgs {
		x.eval("numset", 1)
		o := x.encode(c, func(e *imapwire.Encoder) { e.NumSet(set) })
		if verbose {
			fmt.Printf("config [%s]\n  encoder err=%v wire=%s\n", c, o.err, abbrev(o.wire))
		}
		if o.pan != nil {
			violation("numset:encoder-panic", cd, c, "", fmt.Sprint(o.pan), o.wire)
			continue
		}
		if empty {
			x.cnt[cNumSetRefused]++
			switch {
			case o.err == nil:
				violation("numset:empty-set-emitted", cd, c, "", "the empty set has no wire form but CRLF() reports success", o.wire)
			case len(o.wire) != 0:
				violation("numset:refused-but-bytes-on-wire", cd, c, "", "encoder refused the value but bytes reached the writer", o.wire)
			default:
				if c == cfgs[0] && flavour == 0 {
					run.Sample("refusal", map[string]string{"input": fname + ": " + text, "config": c.String(), "encoder_error": o.err.Error(), "wire": abbrev(o.wire)})
				}
			}
			continue
		}
		if o.err != nil {
			violation("numset:encoder-error", cd, c, "", o.err.Error(), o.wire)
			continue
		}
		if c == cfgs[0] && (idx == -2 || text == "AddRange(5,*);AddNum(1);AddRange(2,3)") {
			run.Sample("numset", map[string]string{"input": fname + ": " + text, "config": c.String(), "wire": abbrev(o.wire)})
		}
		if string(o.wire) != wantText+" END\r\n" {
			violation("numset:wire-content", cd, c, "", "an independent rendering of the set's ranges gives "+vk.Q(wantText), o.wire)
			continue
		}
		if idx != -2 && !rfcSeqSetOK(wantText) {
			violation("numset:wire-illegal", cd, c, "", "not a sequence-set by the RFC 3501 ABNF", o.wire)
			continue
		}
		readers := []string{"ExpectNumSet"}
		if flavour == 1 {
			readers = append(readers, "ExpectUIDSet")
		}
		for ri, rd := range readers {
			ri := ri
			if ri > 0 {
				x.eval("numset", 1)
			}
			if idx == -2 {
				x.cnt[cSearchRes]++
			}
			problem, class := x.decodeCheck(c, o.wire, len(wantText), func(dec *imapwire.Decoder) string {
				var got imap.NumSet
				if ri == 0 {
					if !dec.ExpectNumSet(kind, &got) {
						return "ExpectNumSet failed: " + errStr(dec.Err())
					}
				} else {
					var u imap.UIDSet
					if !dec.ExpectUIDSet(&u) {
						return "ExpectUIDSet failed: " + errStr(dec.Err())
					}
					got = u
				}
				if idx == -2 {
					if !imap.IsSearchRes(got) {
						return fmt.Sprintf("decoded value is not the SEARCHRES marker: %#v", got)
					}
					return ""
				}
				var gr []rng
				var gc func(uint32) bool
				switch g := got.(type) {
				case imap.SeqSet:
					if flavour != 0 {
						return "decoded a SeqSet where a UIDSet was asked for"
					}
					for _, r := range g {
						gr = append(gr, rng{r.Start, r.Stop})
					}
					gc = g.Contains
				case imap.UIDSet:
					if flavour != 1 {
						return "decoded a UIDSet where a SeqSet was asked for"
					}
					if imap.IsSearchRes(g) {
						return "decoded the SEARCHRES marker for an ordinary set"
					}
					for _, r := range g {
						gr = append(gr, rng{uint32(r.Start), uint32(r.Stop)})
					}
					gc = func(q uint32) bool { return g.Contains(imap.UID(q)) }
				default:
					return fmt.Sprintf("decoded value has type %T", got)
				}
				same := len(gr) == len(ranges)
				for i := 0; same && i < len(gr); i++ {
					same = gr[i] == ranges[i]
				}
				if same {
					return ""
				}
				// different representation: same set?
				if got.String() != set.String() || got.Dynamic() != set.Dynamic() {
					return "decoded set differs: got " + got.String()
				}
				for _, q := range nsProbes {
					if gc(q) != contains(q) {
						return fmt.Sprintf("decoded set differs: membership of %d", q)
					}
				}
				x.cnt[cNumSetReprDiffers]++
				return ""
			})
			if verbose {
				fmt.Printf("  %-20s %s\n", rd, orOK(problem))
			}
			if problem != "" {
				violation("numset:"+class, cd, c, rd, problem, o.wire)
			}
		}
	}
	if strings.ContainsAny(wantText, ":,*$") {
		run.Nontrivial("numset:" + fname + ":" + wantText)
	}
}

// ---------------------------------------------------------------------------------------------
// nested lists

var treeLeaves = []string{"a", "", ") \"(\\", "\r\n)", "é"}

// genTrees returns every ordered tree with exactly n nodes whose root is a list. A node without
// children is the empty list or one of the leaves.
func genTrees(maxNodes int) [][]*node {
	tree := make([][]*node, maxNodes+1)     // any node kind, exactly n nodes
	forest := make([][][]*node, maxNodes+1) // sequences of trees, exactly n nodes in all
	forest[0] = [][]*node{nil}
	for n := 1; n <= maxNodes; n++ {
		if n == 1 {
			tree[1] = append(tree[1], &node{List: true})
			for _, l := range treeLeaves {
				tree[1] = append(tree[1], &node{Leaf: l})
			}
		} else {
			for _, f := range forest[n-1] {
				tree[n] = append(tree[n], &node{List: true, Kids: f})
			}
		}
		for k := 1; k <= n; k++ {
			for _, t := range tree[k] {
				for _, rest := range forest[n-k] {
					f := make([]*node, 0, 1+len(rest))
					f = append(append(f, t), rest...)
					forest[n] = append(forest[n], f)
				}
			}
		}
	}
	roots := make([][]*node, maxNodes+1)
	for n := 1; n <= maxNodes; n++ {
		for _, t := range tree[n] {
			if t.List {
				roots[n] = append(roots[n], t)
			}
		}
	}
	return roots
}

func writeList(e *imapwire.Encoder, n *node) {
	e.List(len(n.Kids), func(i int) {
		if k := n.Kids[i]; k.List {
			writeList(e, k)
		} else {
			e.String(k.Leaf)
		}
	})
}

func writeBeginList(e *imapwire.Encoder, n *node) {
	le := e.BeginList()
	for _, k := range n.Kids {
		it := le.Item()
		if k.List {
			writeBeginList(it, k)
		} else {
			it.String(k.Leaf)
		}
	}
	le.End()
}

func readNode(dec *imapwire.Decoder) (*node, error) {
	n := &node{}
	isList, err := dec.List(func() error {
		k, err := readNode(dec)
		if err != nil {
			return err
		}
		n.Kids = append(n.Kids, k)
		return nil
	})
	if err != nil {
		return nil, err
	}
	if isList {
		n.List = true
		return n, nil
	}
	var s string
	if !dec.ExpectString(&s) {
		return nil, dec.Err()
	}
	n.Leaf = s
	return n, nil
}

func readRoot(dec *imapwire.Decoder) (*node, error) {
	root := &node{List: true}
	err := dec.ExpectList(func() error {
		k, err := readNode(dec)
		if err != nil {
			return err
		}
		root.Kids = append(root.Kids, k)
		return nil
	})
	return root, err
}

func depthOf(n *node) int {
	if !n.List {
		return 0
	}
	d := 0
	for _, k := range n.Kids {
		if kd := depthOf(k); kd > d {
			d = kd
		}
	}
	return d + 1
}

func hasInterestingLeaf(n *node) bool {
	if !n.List {
		return n.Leaf != "a" && n.Leaf != ""
	}
	for _, k := range n.Kids {
		if hasInterestingLeaf(k) {
			return true
		}
	}
	return false
}

// checkTree: expect = +1 must round-trip, -1 must yield an error, 0 don't care (safety only).
func checkTree(x *wctx, t *node, cd *caseDesc, expect int) {
	for _, c := range cfgs {
		for w := 0; w < 2; w++ {
			o := x.encode(c, func(e *imapwire.Encoder) {
				if w == 0 {
					writeList(e, t)
				} else {
					writeBeginList(e, t)
				}
			})
			wn := [...]string{"Encoder.List", "Encoder.BeginList"}[w]
			if verbose {
				fmt.Printf("config [%s] writer=%s\n  encoder err=%v wire=%s\n", c, wn, o.err, abbrev(o.wire))
			}
			if o.pan != nil || o.err != nil {
				violation("list:encoder-error", cd, c, wn, fmt.Sprint(o.pan, o.err), o.wire)
				continue
			}
			seen, end, p := scanValue(o.wire, 0, c.wm())
			switch {
			case p != "":
				violation("list:wire-illegal", cd, c, wn, p, o.wire)
				continue
			case !seen.eq(t):
				violation("list:wire-content", cd, c, wn, "an independent reading of the bytes gives a different tree", o.wire)
				continue
			case string(o.wire[end:]) != " END\r\n":
				violation("list:wire-extent", cd, c, wn, "what follows the list is "+abbrev(o.wire[end:]), o.wire)
				continue
			}
			if bytes.IndexByte(o.wire, '{') >= 0 && bytes.Contains(o.wire, []byte("}\r\n")) {
				x.cnt[cTreeLiteralLeaf]++
			}
			for ri, rd := range []string{"ExpectList", "DiscardValue"} {
				ri := ri
				x.eval(cd.Kind, 1)
				yieldedError := false
				reportedOK := false
				problem, class := x.decodeCheck(c, o.wire, end, func(dec *imapwire.Decoder) string {
					if ri == 0 {
						got, err := readRoot(dec)
						if err != nil {
							yieldedError = true
							return "ExpectList fails: " + err.Error()
						}
						reportedOK = true
						if !got.eq(t) {
							return "decoded tree differs"
						}
						return ""
					}
					if !dec.DiscardValue() || dec.Err() != nil {
						yieldedError = true
						return "DiscardValue fails: " + errStr(dec.Err())
					}
					reportedOK = true
					return ""
				})
				if verbose {
					fmt.Printf("  %-20s %s\n", rd, orOK(problem))
				}
				if class == "decoder-panic" {
					violation("list:decoder-panic", cd, c, rd, problem, o.wire)
					continue
				}
				if c == cfgs[0] && w == 0 && (t == sampleTree || (cd.Kind == "chain" && cd.Param == 1000 && cd.Text == "quoted")) {
					run.Sample(cd.Kind, map[string]string{"input": sampleInput(cd), "config": c.String(), "writer": wn, "reader": rd, "wire": abbrev(o.wire), "outcome": orOK(problem)})
				}
				switch expect {
				case 1:
					if problem != "" {
						violation("list:"+class, cd, c, rd, problem, o.wire)
					}
				case -1:
					x.cnt[cDepthCapCases]++
					if yieldedError {
						x.cnt[cDepthErrors]++
					} else if reportedOK {
						violation("list:over-depth-cap-no-error:"+rd, cd, c, rd, "nesting is at or beyond the depth cap, the reader must fail, but it reports success with no decoder error ("+orOK(problem)+")", o.wire)
					}
				default:
					x.cnt[cDepthDontCare]++
				}
			}
		}
	}
}

func chainTree(depth int, leaf string) *node {
	var cur *node
	switch leaf {
	case "empty":
		cur = &node{List: true}
		depth--
	case "quoted":
		cur = &node{Leaf: "a"}
	default:
		cur = &node{Leaf: "\r\n"}
	}
	for i := 0; i < depth; i++ {
		cur = &node{List: true, Kids: []*node{cur}}
	}
	return cur
}

var sampleTree *node

func sampleInput(cd *caseDesc) string {
	if cd.Input != "" {
		return cd.Input
	}
	return cd.Text
}

var chainLeaves = []string{"empty", "quoted", "literal"}

func checkChain(x *wctx, depth int, leaf string) {
	cd := &caseDesc{Kind: "chain", Param: depth, Text: leaf, Input: fmt.Sprintf("%d nested parentheses, innermost: %s", depth, leaf)}
	nonEmpty := depth
	if leaf == "empty" {
		nonEmpty = depth - 1
	}
	expect := 0
	switch {
	case depth <= 999:
		expect = 1
	case nonEmpty >= 1000:
		expect = -1
	}
	checkTree(x, chainTree(depth, leaf), cd, expect)
}

// ---------------------------------------------------------------------------------------------
// enumeration

var strAlphabet = []string{"a", " ", "\"", "\\", "\r", "\n", "\x00", "\x7f", "{", "(", ")", "%", "]", "\xc3", "\xa9", "\xff"}
var mboxAlphabet = []string{"a", "&", "-", "/", "~", "é", "€", "\U0001f600", " ", "\"", "\\", "\r"}
var thresholdLens = []int{4093, 4094, 4095, 4096, 4097, 8192}

func thresholdFamily() []genDesc {
	var out []genDesc
	for _, l := range thresholdLens {
		out = append(out, genDesc{Len: l, Sym: `""`, Pos: "none"})
		for _, sym := range append(append([]string{}, strAlphabet[1:]...), "\xc3\xa9") {
			for _, pos := range []string{"first", "middle", "last"} {
				out = append(out, genDesc{Len: l, Sym: strconv.Quote(sym), Pos: pos})
			}
		}
	}
	return out
}

func inboxVariants() []string {
	var out []string
	for m := 0; m < 32; m++ {
		b := []byte("inbox")
		for i := range b {
			if m&(1<<uint(i)) != 0 {
				b[i] -= 32
			}
		}
		out = append(out, string(b))
	}
	return append(out, "INBOX/x", "xINBOX", "INBOX ", " INBOX", "INBO", "INBOXX", "INBOXé", "İNBOX", "ınbox", "inbo×", "NIL", "nil", "")
}

func replay() {
	b, err := os.ReadFile(run.Replay)
	if err != nil {
		run.EngineError("cannot read replay file: %v", err)
	}
	var f struct {
		Key    string
		Detail struct {
			Case   caseDesc
			Config string
		}
	}
	if err := json.Unmarshal(b, &f); err != nil {
		run.EngineError("cannot parse replay file: %v", err)
	}
	cd := f.Detail.Case
	fmt.Printf("replaying key=%s kind=%s input=%s index=%d param=%d text=%q (recorded under config [%s]); all configurations are re-run\n",
		f.Key, cd.Kind, cd.Input, cd.Index, cd.Param, cd.Text, f.Detail.Config)
	verbose = true
	x := getCtx()
	in, _ := strconv.Unquote(cd.Input)
	switch cd.Kind {
	case "string":
		if cd.Gen != nil {
			checkString(x, cd.Gen.build(), &cd)
		} else {
			checkString(x, in, nil)
		}
	case "mailbox":
		checkMailbox(x, in)
	case "flag":
		checkFlag(x, in, false)
	case "attr":
		checkFlag(x, in, true)
	case "flaglist":
		checkFlagList(x, cd.Index, false)
	case "attrlist":
		checkFlagList(x, cd.Index, true)
	case "number":
		checkNumber(x, cd.Index)
	case "numset":
		checkNumSet(x, cd.Index, cd.Param)
	case "tree":
		roots := genTrees(cd.Param)
		if cd.Index >= len(roots[cd.Param]) {
			run.EngineError("tree index out of range")
		}
		checkTree(x, roots[cd.Param][cd.Index], &cd, 1)
	case "chain":
		checkChain(x, cd.Param, cd.Text)
	default:
		run.EngineError("unknown case kind %q", cd.Kind)
	}
	run.AddEvals(x.evals)
	run.Finish()
}

func main() {
	run = vk.Start("C01", "exploration")
	if run.Replay != "" {
		replay()
	}
	strLen, mboxRunes, treeNodes := 4, 4, 5
	if run.Thorough() {
		strLen, mboxRunes, treeNodes = 5, 5, 6
	}

	// strings
	vk.StringsSharded(strAlphabet, strLen, func(s string) {
		x := getCtx()
		checkString(x, s, nil)
		putCtx(x)
	})
	fam := thresholdFamily()
	vk.Parallel(len(fam), func(i int) {
		x := getCtx()
		g := fam[i]
		checkString(x, g.build(), &caseDesc{Kind: "string", Gen: &g})
		putCtx(x)
	})

	// mailbox names
	var nMbox int64
	var mu sync.Mutex
	vk.StringsSharded(mboxAlphabet, mboxRunes, func(s string) {
		x := getCtx()
		checkMailbox(x, s)
		putCtx(x)
		mu.Lock()
		nMbox++
		mu.Unlock()
	})
	// long names: the modified UTF-7 form crosses the sizes at which the transformer's output buffer
	// is (re)allocated (128, 256, 512 bytes for x/text's transform.String) with every kind of symbol
	// astride the boundary
	var long []string
	for _, x := range []string{"\u00e9", "&", "/", "\u65e5\u672c", "\u00e9&\u00e9", "\U0001f600", "-", "&-"} {
		for _, base := range []int{128, 256, 512} {
			for k := base - 14; k <= base+2; k++ {
				for _, tail := range []string{"", "b", "/bbbbbbbbbb"} {
					long = append(long, strings.Repeat("a", k)+x+tail)
				}
			}
		}
	}
	for _, unit := range []string{"\u00e9", "\u65e5", "\u00e9/", "a\u00e9", "&", "\U0001f600"} {
		for n := 20; n <= 70; n++ {
			long = append(long, strings.Repeat(unit, n))
		}
		long = append(long, strings.Repeat(unit, 200))
	}
	vk.Parallel(len(long), func(i int) {
		x := getCtx()
		checkMailbox(x, long[i])
		putCtx(x)
	})
	run.Set("mailbox_long_names", int64(len(long)))
	inb := inboxVariants()
	vk.Parallel(len(inb), func(i int) {
		x := getCtx()
		if utf8.ValidString(inb[i]) {
			checkMailbox(x, inb[i])
		}
		putCtx(x)
	})

	// flags, attributes, lists of them
	fc := flagCandidates()
	vk.Parallel(len(fc)*2, func(i int) {
		x := getCtx()
		checkFlag(x, fc[i/2], i%2 == 1)
		putCtx(x)
	})
	nfl, nal := numSeqs(len(listFlags), 3), numSeqs(len(listAttrs), 3)
	vk.Parallel(nfl+nal, func(i int) {
		x := getCtx()
		if i < nfl {
			checkFlagList(x, i, false)
		} else {
			checkFlagList(x, i-nfl, true)
		}
		putCtx(x)
	})

	// numbers
	nn := len(numCases())
	vk.Parallel(nn, func(i int) {
		x := getCtx()
		checkNumber(x, i)
		putCtx(x)
	})

	// number sets
	nseq := numSeqs(len(nsOps), 3)
	vk.Parallel(nseq*2, func(i int) {
		x := getCtx()
		checkNumSet(x, i/2, i%2)
		putCtx(x)
	})
	{
		x := getCtx()
		checkNumSet(x, -1, 0)
		checkNumSet(x, -1, 1)
		checkNumSet(x, -2, 1)
		putCtx(x)
	}

	// nested lists
	roots := genTrees(treeNodes)
	var nTrees, ntTrees int64
	sampleTree = roots[treeNodes][len(roots[treeNodes])/2]
	for n := 1; n <= treeNodes; n++ {
		n := n
		nTrees += int64(len(roots[n]))
		for _, t := range roots[n] {
			if depthOf(t) >= 2 || hasInterestingLeaf(t) {
				ntTrees++
			}
		}
		vk.Parallel(len(roots[n]), func(i int) {
			x := getCtx()
			t := roots[n][i]
			checkTree(x, t, &caseDesc{Kind: "tree", Index: i, Param: n, Text: t.String()}, 1)
			putCtx(x)
		})
	}
	run.NontrivialN(ntTrees)
	chainDepths := []int{1, 2, 998, 999, 1000, 1001, 1100}
	vk.Parallel(len(chainDepths)*len(chainLeaves), func(i int) {
		x := getCtx()
		checkChain(x, chainDepths[i/len(chainLeaves)], chainLeaves[i%len(chainLeaves)])
		putCtx(x)
	})
	run.NontrivialN(int64(len(chainDepths) * len(chainLeaves)))

	// merge per-worker counters
	var cnt [nCounters]int64
	kinds := map[string]int64{}
	maxQuoted, maxLMOnly := 0, int64(0)
	for _, x := range ctxAll {
		run.AddEvals(x.evals)
		run.NontrivialN(x.nt)
		for i, v := range x.cnt {
			cnt[i] += v
		}
		for k, v := range x.evalsKind {
			kinds[k] += v
		}
		if x.maxQuoted > maxQuoted {
			maxQuoted = x.maxQuoted
		}
		if x.maxLMOnly > maxLMOnly {
			maxLMOnly = x.maxLMOnly
		}
	}
	for i, v := range cnt {
		run.Set(cntNames[i], v)
	}
	run.Set("evaluations_by_kind", kinds)
	run.Set("observed_longest_quoted_string", int64(maxQuoted))
	run.Set("observed_longest_nonsync_literal_under_LiteralMinus_only", maxLMOnly)
	run.Set("string_alphabet", []string{"a", "SP", "\"", "\\", "CR", "LF", "NUL", "DEL", "{", "(", ")", "%", "]", "0xC3", "0xA9", "0xFF"})
	run.Set("string_max_len", int64(strLen))
	run.Set("threshold_family", map[string]interface{}{"lengths": thresholdLens, "strings": len(fam), "positions": "first/middle/last"})
	run.Set("mailbox_alphabet", mboxAlphabet)
	run.Set("mailbox_max_runes", int64(mboxRunes))
	run.Set("mailbox_names", nMbox+int64(len(inb)))
	run.Set("flag_candidates", int64(len(fc)))
	run.Set("malformed_flag_candidates", int64(len(malformedFlags)))
	run.Set("flag_lists", int64(nfl))
	run.Set("attr_lists", int64(nal))
	run.Set("number_cases", int64(nn))
	run.Set("numset_endpoints", "1,2,3,5,4294967294,4294967295,*")
	run.Set("numset_insertion_sequences_per_flavour", int64(nseq))
	run.Set("tree_max_nodes", int64(treeNodes))
	run.Set("tree_leaves", treeLeaves)
	run.Set("trees", nTrees)
	run.Set("chain_depths", chainDepths)
	run.Set("configurations", int64(len(cfgs)))

	// non-vacuity: every branch the check is about must have been exercised
	for _, i := range []int{cQuotedPlain, cQuotedEscaped, cQuoted8bit, cLitSync, cLitNonSync, cLitServer, cHookCalls,
		cHookMissingRefused, cHookMissingSameBytes, cStreamedLiteral, cMailboxNonIdentity, cInboxFolded, cFlagAccepted,
		cFlagMalformedCases, cFlagFolded, cNumSetRefused, cSearchRes, cDepthCapCases, cTreeLiteralLeaf} {
		if cnt[i] == 0 {
			if run.NumViolations() > 0 {
				fmt.Printf("note: counter %s is 0 (violations reported below take precedence)\n", cntNames[i])
				continue
			}
			run.EngineError("non-vacuity counter %s is 0", cntNames[i])
		}
	}

	run.Rule = "every byte string up to the length bound over a 16-symbol alphabet derived from the branches of Encoder.validQuoted/Quoted/stringLiteral and Decoder.Quoted/Literal (7-bit, SP, the two quoted-specials, CR, LF, NUL, DEL, '{', '(', ')', '%', ']', the two halves of a valid 2-byte rune, an invalid UTF-8 byte) plus a threshold family (lengths 4093..4097 and 8192 with each symbol first/middle/last) written under 16 configurations (2 directions x QuotedUTF8 x LiteralMinus x LiteralPlus), each distinct byte sequence per direction read by 5 readers (the decoder has no mode, identical bytes are decoded once per side), and again with the continuation hook absent / returning nil; every valid UTF-8 mailbox name up to the rune bound over a 12-rune alphabet plus INBOX casings and neighbours plus 1500 long names whose UTF-7 form crosses 128/256/512 bytes with each symbol kind astride the boundary; system flags / attributes in 4 casings, keywords, one flag per atom-special and a malformed set; boundary numbers through every compatible reader; every number set reachable by <=3 insertions over 7 endpoints in both flavours, empty sets, SEARCHRES; every ordered tree up to the node bound with 5 leaf kinds through 2 writers x 2 readers; depth chains around the cap of 1000. non-trivial = distinct (string, wire form) pairs whose encoding needs an escape, 8-bit quoting or a literal; distinct names with UTF-7/escape/INBOX fold; distinct folded flags; distinct number-set texts with ':' ',' '*' '$'; trees with depth >= 2 or a leaf that needs escaping/literal"
	run.Exhaustive = true
	run.Assume("negative int64 is not an IMAP number64 (Encoder.Number64 carries a TODO to disallow it): excluded")
	run.Assume("flags/attributes containing 8-bit bytes: RFC-illegal but the encoder and decoder are deliberately liberal; only the round trip is checked, their acceptance is not reported")
	run.Assume("a mailbox attribute spelled like a well-known flag (e.g. \\seen) comes back in that flag's canonical case (ExpectMailboxAttr goes through ExpectFlag); counted as case normalisation of a well-known name")
	run.Assume("quoted strings under QuotedUTF8 may carry invalid UTF-8 (encoder does not validate); RFC 9051 forbids it but the statement only asks for the round trip, which holds; counted in strings_quoted_invalid_utf8_under_QuotedUTF8")
	run.Assume("a chain of exactly 1000 parentheses whose innermost list is empty is neither required to decode nor to fail (the decoder counts non-empty lists only); 1000 or more nested non-empty lists must yield an error, 999 or fewer parentheses must round-trip")
	run.Assume("mailbox names are valid UTF-8 (quantifier of the property)")
	run.Assume("the synchronising-literal handshake itself (waiting for '+') is C18's subject; here the continuation request is completed before the encoder waits")
	run.Finish()
}
