// C14 — concurrent sessions on shared mailboxes never deadlock. The real imapserver with the
// real in-memory backend runs under the vsched controlled scheduler (every lock, channel,
// goroutine and connection operation is a scheduling point). A sequential prefix logs two (three)
// sessions in and selects a mailbox for each; then each session receives its racing command(s)
// and all schedules within the bounds are explored. Oracle: the scheduler's deadlock verdict
// (blocked threads with the lock each waits for), one tagged completion per command, no panic.
package main

import (
	"encoding/json"
	"fmt"
	"io"
	"os"
	"sort"
	"strings"
	"time"

	imap "github.com/emersion/go-imap/v2"
	"github.com/emersion/go-imap/v2/imapserver"
	"github.com/emersion/go-imap/v2/imapserver/imapmemserver"
	"github.com/emersion/go-imap/v2/internal/vsched"
	"github.com/emersion/go-imap/v2/verif/srvkit"
	"github.com/emersion/go-imap/v2/verif/vk"
	"github.com/emersion/go-imap/v2/verif/vnet"
	"github.com/emersion/go-imap/v2/verif/vx"
)

const msg1 = "From: a@example.org\r\nSubject: one\r\n\r\nbody one\r\n"

type lit struct {
	b []byte
	i int
}

func (l *lit) Read(p []byte) (int, error) {
	if l.i >= len(l.b) {
		return 0, io.EOF
	}
	n := copy(p, l.b[l.i:])
	l.i += n
	return n, nil
}
func (l *lit) Size() int64 { return int64(len(l.b)) }

type session struct {
	end     *vnet.End
	mailbox string
	cmds    []string // racing commands (raw, with tags)
	tags    []string
}

type observation struct {
	Outputs  []string
	Problems []string
	Logs     []string
}

// commands: %O = the other mailbox, %S = own mailbox
var alphabet = []string{
	"COPY 1 %O", "MOVE 1 %O", "UID MOVE 1:* %O", "FETCH 1:* (FLAGS BODY[])", "STORE 1 +FLAGS (\\Deleted)", "EXPUNGE",
	"APPEND %O {5+}\r\nhello", "SELECT %O", "CLOSE", "LIST \"\" *", "LIST \"\" * RETURN (STATUS (MESSAGES))", "STATUS %O (MESSAGES UNSEEN)",
	"RENAME %O Z", "DELETE %O", "CREATE C", "IDLE\r\nDONE", "NOOP", "SEARCH ALL",
}

// early-return and special-marker paths of the backend (see enumerate)
var hygiene = []string{
	"UID EXPUNGE $", "UID EXPUNGE *", "UID EXPUNGE 1:*", "UID EXPUNGE 99", "UID STORE $ +FLAGS (\\Seen)", "UID FETCH $ (FLAGS)", "FETCH $ (FLAGS)",
	"UID COPY $ %O", "UID MOVE $ %O", "UID SEARCH RETURN (SAVE) HEADER Subject nothing", "SEARCH $", "STORE 9 +FLAGS (\\Seen)", "FETCH 9 (FLAGS)",
	"COPY 9 %O", "MOVE 9 %O", "COPY 1 nosuch", "MOVE 1 nosuch", "APPEND nosuch {5+}\r\nhello", "STATUS nosuch (MESSAGES)", "SELECT nosuch", "EXAMINE %O",
	"RENAME nosuch Z", "RENAME %O %S", "DELETE nosuch", "CREATE %O", "SUBSCRIBE nosuch", "UNSUBSCRIBE %O", "LSUB \"\" *", "UNSELECT",
}

func expand(cmd, own string) string {
	other := "B"
	if own == "B" {
		other = "A"
	}
	return strings.ReplaceAll(strings.ReplaceAll(cmd, "%O", other), "%S", own)
}

type scenarioDef struct {
	Name     string
	Sessions []struct {
		Mailbox string
		Cmds    []string
	}
}

//go:norace
func body(def scenarioDef) func() interface{} {
	return func() interface{} {
		var obs observation
		mem := imapmemserver.New()
		user := imapmemserver.NewUser("u", "p")
		for _, name := range []string{"A", "B"} {
			user.Create(name, nil)
			user.Append(name, &lit{b: []byte(msg1)}, &imap.AppendOptions{Time: time.Date(2024, 3, 10, 12, 0, 0, 0, time.UTC)})
			user.Append(name, &lit{b: []byte(msg1)}, &imap.AppendOptions{Time: time.Date(2024, 3, 11, 12, 0, 0, 0, time.UTC), Flags: []imap.Flag{imap.FlagDeleted}})
		}
		mem.AddUser(user)
		logger := &srvkit.Logger{}
		srv := imapserver.New(&imapserver.Options{
			NewSession: func(c *imapserver.Conn) (imapserver.Session, *imapserver.GreetingData, error) {
				return mem.NewSession(), nil, nil
			},
			Caps:         imap.CapSet{imap.CapIMAP4rev1: {}, imap.CapIMAP4rev2: {}, imap.CapLiteralPlus: {}},
			InsecureAuth: true,
			Logger:       logger,
		})
		ln := &vnet.Listener{}
		vsched.Go("serve", func() { srv.Serve(ln) })
		quiet := func(e *vnet.End) {
			vsched.WaitUntil("session quiescent", func() bool {
				p := e.Peer()
				return (p.Waiting() && p.Pending() == 0) || p.Closed()
			})
		}
		var ss []*session
		for i, sd := range def.Sessions {
			s := &session{end: ln.Dial(fmt.Sprintf("s%d", i)), mailbox: sd.Mailbox}
			ss = append(ss, s)
			quiet(s.end)
			s.end.Peer().Deliver([]byte(fmt.Sprintf("p1 LOGIN u p\r\np2 SELECT %s\r\n", sd.Mailbox)))
			quiet(s.end)
			for j, c := range sd.Cmds {
				tag := fmt.Sprintf("x%d", j)
				s.tags = append(s.tags, tag)
				s.cmds = append(s.cmds, tag+" "+expand(c, sd.Mailbox)+"\r\n")
			}
		}
		// the race: every session gets its commands at once
		for _, s := range ss {
			s.end.Peer().Deliver([]byte(strings.Join(s.cmds, "")))
		}
		for _, s := range ss {
			quiet(s.end)
		}
		for _, s := range ss {
			s.end.Peer().InjectEOF()
		}
		for _, s := range ss {
			vsched.WaitUntil("server closes connection", func() bool { return s.end.Peer().Closed() })
		}
		ln.Close()
		srv.Close()
		for i, s := range ss {
			out := drain(s.end)
			obs.Outputs = append(obs.Outputs, out)
			resps, rest, err := srvkit.ParseResponses([]byte(out))
			if err != nil || len(rest) > 0 {
				obs.Problems = append(obs.Problems, fmt.Sprintf("session %d: malformed output: %v rest=%q", i, err, rest))
				continue
			}
			got := map[string]int{}
			for _, r := range resps {
				if strings.HasPrefix(r.Tag, "x") {
					got[r.Tag]++
				}
			}
			for _, t := range s.tags {
				if got[t] != 1 {
					obs.Problems = append(obs.Problems, fmt.Sprintf("session %d: command %s got %d tagged completions", i, t, got[t]))
				}
			}
		}
		for _, l := range logger.Snapshot() {
			if strings.Contains(l, "panic") {
				obs.Problems = append(obs.Problems, "server log: "+firstLine(l))
			}
		}
		obs.Logs = logger.Snapshot()
		return obs
	}
}

func firstLine(s string) string {
	if i := strings.IndexByte(s, '\n'); i >= 0 {
		return s[:i]
	}
	return s
}

//go:norace
func drain(e *vnet.End) string {
	var sb strings.Builder
	buf := make([]byte, 65536)
	for e.Pending() > 0 {
		n, err := e.Read(buf)
		sb.Write(buf[:n])
		if err != nil {
			break
		}
	}
	return sb.String()
}

func build(def scenarioDef) *vx.Scenario {
	return &vx.Scenario{
		Name: def.Name,
		Body: body(def),
		Sig: func(res *vsched.Result, obs interface{}) string {
			o, _ := obs.(observation)
			// outcome = the status words of the racing commands per session
			var parts []string
			for _, out := range o.Outputs {
				resps, _, _ := srvkit.ParseResponses([]byte(out))
				var st []string
				for _, r := range resps {
					if strings.HasPrefix(r.Tag, "x") {
						st = append(st, r.Tag+"="+strings.Fields(r.Text + " ?")[0])
					}
				}
				parts = append(parts, strings.Join(st, ","))
			}
			return strings.Join(parts, "|")
		},
		Check: func(res *vsched.Result, obs interface{}) (string, string) {
			if len(res.Panics) > 0 {
				return "panic:" + def.Name, strings.Join(res.Panics, "\n")
			}
			if res.Verdict == "deadlock" {
				return "deadlock:" + lockSig(res.Blocked), def.Name + ": " + strings.Join(res.Blocked, "; ")
			}
			if res.Verdict != "ok" {
				return "verdict-" + res.Verdict + ":" + def.Name, ""
			}
			o, ok := obs.(observation)
			if !ok {
				return "no-observation", ""
			}
			if len(o.Problems) > 0 {
				return "problem:" + strings.Join(strings.Fields(o.Problems[0])[2:], "-"), def.Name + ": " + strings.Join(o.Problems, "; ")
			}
			return "", ""
		},
	}
}

// lockSig: the functions in which the server-side threads are blocked (stable key of a cycle)
func lockSig(blocked []string) string {
	var parts []string
	for _, b := range blocked {
		if i := strings.Index(b, " at "); i >= 0 {
			loc := b[i+4:]
			if j := strings.Index(loc, "("); j >= 0 {
				loc = strings.TrimSuffix(loc[j+1:], ")")
			}
			if strings.Contains(loc, "main.") || strings.Contains(loc, "vnet.") {
				continue
			}
			parts = append(parts, loc)
		}
	}
	sort.Strings(parts)
	if len(parts) == 0 {
		return "harness-only"
	}
	return strings.Join(parts, "+")
}

func enumerate(thorough bool) []scenarioDef {
	var defs []scenarioDef
	mk := func(name string, sess ...[2]interface{}) scenarioDef {
		d := scenarioDef{Name: name}
		for _, s := range sess {
			d.Sessions = append(d.Sessions, struct {
				Mailbox string
				Cmds    []string
			}{s[0].(string), s[1].([]string)})
		}
		return d
	}
	// all ordered pairs of single commands x all assignments of selected mailboxes
	for _, m1 := range []string{"A", "B"} {
		for _, m2 := range []string{"A", "B"} {
			for _, c1 := range alphabet {
				for _, c2 := range alphabet {
					if c1 > c2 && m1 == m2 {
						continue // symmetric
					}
					defs = append(defs, mk(fmt.Sprintf("pair/%s:%s|%s:%s", m1, c1, m2, c2), [2]interface{}{m1, []string{c1}}, [2]interface{}{m2, []string{c2}}))
				}
			}
		}
	}
	// lock hygiene on the paths the pair alphabet does not walk (empty / out-of-range / unknown
	// targets, the saved-search marker, UID forms): the command, then a probe that takes the user's
	// and every mailbox's lock, in the same session and racing in another one
	probe := "LIST \"\" * RETURN (STATUS (MESSAGES))"
	for _, c := range hygiene {
		for _, m2 := range []string{"A", "B"} {
			defs = append(defs, mk(fmt.Sprintf("hygiene/A:%s|%s:probe", c, m2), [2]interface{}{"A", []string{c, probe}}, [2]interface{}{m2, []string{probe}}))
		}
	}
	// same 3-command history in 2..3 sessions
	hist := []string{"STORE 1 +FLAGS (\\Seen)", "COPY 1 %O", "EXPUNGE"}
	defs = append(defs, mk("same-history-2", [2]interface{}{"A", hist}, [2]interface{}{"B", hist}))
	if thorough {
		defs = append(defs, mk("same-history-3", [2]interface{}{"A", hist}, [2]interface{}{"B", hist}, [2]interface{}{"A", hist}))
		// triples over a reduced alphabet
		red := []string{"COPY 1 %O", "MOVE 1 %O", "FETCH 1:* (FLAGS BODY[])", "EXPUNGE", "APPEND %O {5+}\r\nhello", "RENAME %O Z", "IDLE\r\nDONE"}
		for _, c1 := range red {
			for _, c2 := range red {
				for _, c3 := range red {
					defs = append(defs, mk(fmt.Sprintf("triple/A:%s|B:%s|A:%s", c1, c2, c3), [2]interface{}{"A", []string{c1}}, [2]interface{}{"B", []string{c2}}, [2]interface{}{"A", []string{c3}}))
				}
			}
		}
	}
	return defs
}

func main() {
	run := vk.Start("C14", "model_checking")
	defs := enumerate(run.Thorough())
	if only := os.Getenv("C14_ONLY"); only != "" { // debugging aid: restrict to scenarios whose name contains this
		var keep []scenarioDef
		for _, d := range defs {
			if strings.Contains(d.Name, only) {
				keep = append(keep, d)
			}
		}
		defs = keep
	}
	dbound, pbound := 2, 1
	maxExec := int64(6000)
	if run.Thorough() {
		dbound, pbound = 3, 1
		maxExec = 12000
	}
	if run.Replay != "" {
		b, _ := os.ReadFile(run.Replay)
		var f struct {
			Detail struct {
				Scenario string
				Choices  []int
			}
		}
		json.Unmarshal(b, &f)
		for _, d := range enumerate(true) {
			if d.Name != f.Detail.Scenario {
				continue
			}
			sc := build(d)
			res, obs := vx.RunOnce(sc, f.Detail.Choices, 50000, true)
			fmt.Printf("scenario %s choices=%v\nverdict=%s\nobservation=%+v\nblocked:\n  %s\npanics=%v\n", sc.Name, f.Detail.Choices, res.Verdict, obs, strings.Join(res.Blocked, "\n  "), res.Panics)
			for _, l := range res.Log {
				fmt.Println("  ", l)
			}
			if os.Getenv("C14_REPLAY_TWICE") != "" {
				res2, _ := vx.RunOnce(sc, f.Detail.Choices, 50000, true)
				fmt.Println("second run in the same process:")
				for _, l := range res2.Log {
					fmt.Println("  ", l)
				}
			}
			if key, detail := sc.Check(res, obs); key != "" {
				run.Violation(key, map[string]interface{}{"scenario": d.Name, "choices": f.Detail.Choices, "detail": detail})
			}
			break
		}
		run.AddEvals(1)
		run.Finish()
	}
	results := vx.Sharded(2*len(defs), func(i int) vx.ItemResult {
		d := defs[i/2]
		if i%2 == 0 {
			r := vx.ExploreItem(build(d), dbound, vx.Config{MaxExec: maxExec, Delay: true, Horizon: 50000})
			r.Name = "delay:" + r.Name
			return r
		}
		r := vx.ExploreItem(build(d), pbound, vx.Config{MaxExec: maxExec, Horizon: 50000})
		r.Name = "preempt:" + r.Name
		return r
	})
	exhaustive := true
	outcomes := 0
	boundHist := map[string]int64{}
	for i, r := range results {
		if r.EngineErr != "" {
			run.EngineError("%s", r.EngineErr)
		}
		run.AddEvals(r.Executions)
		run.Trans += r.Points
		run.Traces += r.Executions
		if !r.Exhaustive {
			exhaustive = false
		}
		outcomes += len(r.Outcomes)
		mode := "delay"
		if i%2 == 1 {
			mode = "preempt"
		}
		boundHist[fmt.Sprintf("%s_bound_completed=%d", mode, r.BoundDone)]++
		for _, f := range r.Failures {
			run.Violation(f.Key, map[string]interface{}{"scenario": defs[i/2].Name, "choices": f.Choices, "detail": f.Detail, "blocked": f.Blocked, "panics": f.Panics})
		}
		if i%401 == 0 {
			run.Sample("scenario", map[string]interface{}{"name": r.Name, "executions": r.Executions, "bound_completed": r.BoundDone, "distinct_outcomes": len(r.Outcomes)})
		}
	}
	// ---- data-race pass (plan A, DESIGN §0.2): the same scenarios in a -race build under the
	// controlled scheduler whose hand-offs are invisible to the race detector ----
	if bin := os.Getenv("VERIF_RACE_BIN"); bin != "" {
		rbound, rmax := 1, int64(150)
		if run.Thorough() {
			rbound, rmax = 2, 1000
		}
		rres, stderr := vx.ShardedBin(bin, "race", len(defs), func(i int) vx.ItemResult {
			r := vx.ExploreItem(build(defs[i]), rbound, vx.Config{MaxExec: rmax, Delay: true, Horizon: 50000})
			r.Name = "race:" + r.Name
			return r
		})
		var rexec int64
		for _, r := range rres {
			if r.EngineErr != "" {
				run.EngineError("race pass: %s", r.EngineErr)
			}
			rexec += r.Executions
			run.Trans += r.Points
			run.Traces += r.Executions
			if !r.Exhaustive {
				exhaustive = false
			}
		}
		run.AddEvals(rexec)
		reports := vx.ParseRaceReports(stderr, []string{"go-imap/v2/imapserver", "go-imap/v2/internal/imapwire", "go-imap/v2.", "go-imap/v2/internal."})
		var harnessReports int64
		for _, rep := range reports {
			if !rep.Inner {
				harnessReports++
				run.Set("last_harness_side_race_report", rep.Key+"\n"+rep.Text)
				continue
			}
			name := "?"
			if rep.Item >= 0 && rep.Item < len(defs) {
				name = defs[rep.Item].Name
			}
			run.Violation("data-race:"+rep.Key, map[string]interface{}{"scenario": name, "report": rep.Text})
		}
		run.Set("race_pass_executions", rexec)
		run.Set("race_pass_delay_bound", int64(rbound))
		run.Set("race_pass_reports_total", int64(len(reports)))
		run.Set("race_pass_reports_with_a_harness_side_ignored", harnessReports)
	} else {
		run.Set("race_pass", "skipped: no -race build available")
	}
	for k, v := range boundHist {
		run.Set("scenarios_with_"+k, v)
	}
	run.States = int64(2 * len(defs))
	run.NontrivialN(int64(outcomes))
	run.Set("scenarios", int64(len(defs)))
	run.Set("delay_bound", int64(dbound))
	run.Set("preemption_bound", int64(pbound))
	run.Set("max_executions_per_scenario_and_mode", maxExec)
	run.Exhaustive = exhaustive
	run.Rule = "scenario = 2 (3) sessions on one user's mailboxes A and B (2 messages each), each logged in and selected sequentially, then given its racing command(s) at once: every ordered pair of commands from an 18-command alphabet (COPY/MOVE/UID MOVE to the other mailbox, FETCH with bodies, STORE, EXPUNGE, APPEND, SELECT, CLOSE, LIST, LIST-STATUS, STATUS, RENAME, DELETE, CREATE, IDLE+DONE, NOOP, SEARCH) x every assignment of selected mailboxes (includes opposite-direction COPY/MOVE pairs), the same 3-command history in all sessions, 29 further commands on early-return / special-marker paths (UID EXPUNGE $ with an empty saved result, out-of-range numbers, unknown or existing target names, UID forms) each followed by and racing with a LIST-STATUS probe, and (thorough) triples over a reduced alphabet; per scenario DFS over schedules of the real server + in-memory backend under delay bounding and preemption bounding. distinct_nontrivial = distinct (scenario, per-command status vector) outcomes"
	run.Assume("peers drain their sockets: server writes never block")
	run.Assume("data races themselves are not visible to a cooperative scheduler; deadlocks, lost completions and panics are")
	run.Finish()
}
