package main

import (
	"strings"
	"time"
)

// The corpus. Every message is written by hand with CRLF line ends; the section table of each
// message (what BODY[<section>] must return per RFC 9051 §6.4.5 / RFC 3501 §6.4.5) is also
// written by hand below, from the text of the message, not computed by a MIME parser.

func crlf(lines ...string) string { return strings.Join(lines, "\r\n") + "\r\n" }

type corpusMsg struct {
	name string
	raw  string
	// sent is the Date header as a day number in the header's own zone (0 = no Date header)
	sentY, sentM, sentD int
	// header of the top-level message: lower-case key → values (unfolded, trimmed)
	header map[string][]string
	// body = everything after the blank line that ends the top-level header
	body string
	// sections: canonical section text (upper-case, e.g. "", "1", "2.MIME", "HEADER",
	// "2.HEADER.FIELDS (SUBJECT)") → expected full content.
	sections map[string]string
	// unspecified sections: the RFC leaves the result open (part does not exist, HEADER/TEXT of a
	// part that is not message/rfc822, MIME without a part number, sub-part ".1" of a leaf part):
	// only the framing clause is checked and, when data comes back, that it is one of the listed
	// alternatives (nil slice = anything goes).
	nonexistent map[string]bool
	// MIME shape, written by hand: 'l' leaf, 'm' multipart, 'r' message/rfc822 (one kid: the inner message's top part)
	shape *pnode
}

type pnode struct {
	kind byte
	kids []*pnode
}

func lf() *pnode                 { return &pnode{kind: 'l'} }
func mp(k ...*pnode) *pnode      { return &pnode{kind: 'm', kids: k} }
func rfc822(inner *pnode) *pnode { return &pnode{kind: 'r', kids: []*pnode{inner}} }

// partMissing reports whether the part path certainly does not exist (RFC 9051 §6.4.5 numbering:
// a multipart numbers its parts from 1; a message — the whole one or a message/rfc822 part —
// whose body is not multipart has exactly part 1). ".1" below a leaf part is left open.
func (m *corpusMsg) partMissing(path []int) bool {
	n := rfc822(m.shape)
	for _, k := range path {
		switch n.kind {
		case 'm':
			if k < 1 || k > len(n.kids) {
				return true
			}
			n = n.kids[k-1]
		case 'r':
			inner := n.kids[0]
			if inner.kind == 'm' {
				if k < 1 || k > len(inner.kids) {
					return true
				}
				n = inner.kids[k-1]
			} else {
				if k != 1 {
					return true
				}
				n = inner
				if inner.kind == 'l' {
					n = &pnode{kind: 'L'} // the body of a non-multipart message, addressed as its part 1
				}
			}
		default: // leaf
			if k != 1 {
				return true
			}
			return false // ".1" of a leaf: open
		}
	}
	return false
}

// ---- M0: plain text ----
var m0Header = crlf(
	"From: Alice <alice@example.org>",
	"To: bob@example.org",
	"Subject: Hello World",
	"Date: Sun, 10 Mar 2024 07:00:00 +0000",
	"Message-ID: <m0@example.org>",
	"X-Empty:",
	"X-Folded: first",
	" second",
	"Content-Type: text/plain; charset=us-ascii",
)
var m0Body = crlf("The quick brown fox", "jumps over the lazy dog.")

// ---- M1: multipart/mixed with two parts, preamble and epilogue ----
var m1Header = crlf(
	"From: carol@example.org",
	"To: Alice <alice@example.org>",
	"Cc: bob@example.org",
	"Subject: Report attached",
	"Date: Mon, 11 Mar 2024 23:30:00 -0500",
	"MIME-Version: 1.0",
	"Content-Type: multipart/mixed; boundary=\"b1\"",
)
var m1P1Mime = crlf("Content-Type: text/plain")
var m1P1Body = "part one text"
var m1P2Mime = crlf(
	"Content-Type: application/octet-stream",
	"Content-Transfer-Encoding: base64",
	"Content-Disposition: attachment; filename=\"a.bin\"",
)
var m1P2Body = "AAECAwQF"
var m1Body = "preamble line\r\n" +
	"--b1\r\n" + m1P1Mime + "\r\n" + m1P1Body + "\r\n" +
	"--b1\r\n" + m1P2Mime + "\r\n" + m1P2Body + "\r\n" +
	"--b1--\r\n" + "epilogue\r\n"

// ---- M2: multipart/mixed: text, message/rfc822 (plain inner), message/rfc822 (multipart inner) ----
var m2Header = crlf(
	"From: dave@example.org",
	"To: erin@example.org",
	"Subject: Fwd: nested",
	"Date: Tue, 12 Mar 2024 00:15:00 +0900",
	"MIME-Version: 1.0",
	"Content-Type: multipart/mixed; boundary=outer",
)
var m2P1Mime = crlf("Content-Type: text/plain")
var m2P1Body = "see forwarded"
var m2P2Mime = crlf("Content-Type: message/rfc822")
var m2InnerAHeader = crlf(
	"From: frank@example.org",
	"Subject: inner subject",
	"Date: Fri, 01 Mar 2024 12:00:00 +0000",
	"Content-Type: text/plain",
)
var m2InnerABody = "inner body text"
var m2P3Mime = crlf("Content-Type: message/rfc822", "Content-Description: second forward")
var m2InnerBHeader = crlf(
	"From: grace@example.org",
	"Subject: inner multipart",
	"MIME-Version: 1.0",
	"Content-Type: multipart/alternative; boundary=inner",
)
var m2InnerBP1Mime = crlf("Content-Type: text/plain")
var m2InnerBP1Body = "alt plain"
var m2InnerBP2Mime = crlf("Content-Type: text/html")
var m2InnerBP2Body = "<p>alt html</p>"
var m2InnerBBody = "--inner\r\n" + m2InnerBP1Mime + "\r\n" + m2InnerBP1Body + "\r\n" +
	"--inner\r\n" + m2InnerBP2Mime + "\r\n" + m2InnerBP2Body + "\r\n" +
	"--inner--"
var m2InnerA = m2InnerAHeader + "\r\n" + m2InnerABody
var m2InnerB = m2InnerBHeader + "\r\n" + m2InnerBBody
var m2Body = "--outer\r\n" + m2P1Mime + "\r\n" + m2P1Body + "\r\n" +
	"--outer\r\n" + m2P2Mime + "\r\n" + m2InnerA + "\r\n" +
	"--outer\r\n" + m2P3Mime + "\r\n" + m2InnerB + "\r\n" +
	"--outer--\r\n"

// ---- M3: 8-bit body ----
var m3Header = crlf(
	"From: =?utf-8?q?J=C3=BCrgen?= <juergen@example.org>",
	"To: bob@example.org",
	"Subject: =?utf-8?q?Gr=C3=BC=C3=9Fe?=",
	"Date: Sat, 09 Mar 2024 10:00:00 +0000",
	"MIME-Version: 1.0",
	"Content-Type: text/plain; charset=utf-8",
	"Content-Transfer-Encoding: 8bit",
)
var m3Body = "Gr\xc3\xbc\xc3\x9fe aus K\xc3\xb6ln\r\n"

// ---- M4: header only (RFC 5322 §3.5: message = fields [CRLF body]; the blank line and the
// body are both absent) ----
var m4Raw = crlf(
	"From: gina@example.org",
	"Subject: only header",
	"Date: Sun, 10 Mar 2024 23:59:59 +0000",
)

// ---- M5: truncated multipart: a boundary parameter but no parts ----
var m5Header = crlf(
	"From: hal@example.org",
	"To: alice@example.org",
	"Subject: truncated",
	"Date: Mon, 11 Mar 2024 00:00:01 +0000",
	"MIME-Version: 1.0",
	"Content-Type: multipart/mixed; boundary=zz",
)
var m5Body = "this message was cut\r\n"

func hdrMinus(h string, drop ...string) string {
	// removes whole fields (with continuation lines) whose name is in drop (case-insensitive)
	lines := strings.SplitAfter(h, "\r\n")
	var out strings.Builder
	skipping := false
	for _, l := range lines {
		if l == "" {
			continue
		}
		if l[0] == ' ' || l[0] == '\t' {
			if !skipping {
				out.WriteString(l)
			}
			continue
		}
		name := strings.ToLower(l[:strings.IndexByte(l, ':')])
		skipping = false
		for _, d := range drop {
			if strings.ToLower(d) == name {
				skipping = true
			}
		}
		if !skipping {
			out.WriteString(l)
		}
	}
	return out.String()
}

var corpus []*corpusMsg

func init() {
	M0 := &corpusMsg{name: "plain", raw: m0Header + "\r\n" + m0Body, sentY: 2024, sentM: 3, sentD: 10,
		header: map[string][]string{
			"from": {"Alice <alice@example.org>"}, "to": {"bob@example.org"}, "subject": {"Hello World"},
			"date": {"Sun, 10 Mar 2024 07:00:00 +0000"}, "message-id": {"<m0@example.org>"}, "x-empty": {""},
			"x-folded": {"first second"}, "content-type": {"text/plain; charset=us-ascii"}},
		body: m0Body,
		sections: map[string]string{
			"":                                      m0Header + "\r\n" + m0Body,
			"HEADER":                                m0Header + "\r\n",
			"TEXT":                                  m0Body,
			"1":                                     m0Body, // a non-multipart message has exactly part 1 = its body
			"HEADER.FIELDS (SUBJECT X-FOLDED NOPE)": "Subject: Hello World\r\nX-Folded: first\r\n second\r\n\r\n",
			"HEADER.FIELDS.NOT (SUBJECT X-FOLDED NOPE)": hdrMinus(m0Header, "subject", "x-folded") + "\r\n",
		},
		nonexistent: map[string]bool{"2": true, "3": true, "1.2.3": true, "2.1": true},
	}
	M1 := &corpusMsg{name: "multipart", raw: m1Header + "\r\n" + m1Body, sentY: 2024, sentM: 3, sentD: 11,
		header: map[string][]string{
			"from": {"carol@example.org"}, "to": {"Alice <alice@example.org>"}, "cc": {"bob@example.org"},
			"subject": {"Report attached"}, "date": {"Mon, 11 Mar 2024 23:30:00 -0500"}, "mime-version": {"1.0"},
			"content-type": {"multipart/mixed; boundary=\"b1\""}},
		body: m1Body,
		sections: map[string]string{
			"":                                      m1Header + "\r\n" + m1Body,
			"HEADER":                                m1Header + "\r\n",
			"TEXT":                                  m1Body,
			"1":                                     m1P1Body,
			"1.MIME":                                m1P1Mime + "\r\n",
			"2":                                     m1P2Body,
			"2.MIME":                                m1P2Mime + "\r\n",
			"HEADER.FIELDS (SUBJECT X-FOLDED NOPE)": "Subject: Report attached\r\n\r\n",
			"HEADER.FIELDS.NOT (SUBJECT X-FOLDED NOPE)": hdrMinus(m1Header, "subject") + "\r\n",
		},
		nonexistent: map[string]bool{"3": true, "1.2.3": true},
	}
	M2 := &corpusMsg{name: "nested", raw: m2Header + "\r\n" + m2Body, sentY: 2024, sentM: 3, sentD: 12,
		header: map[string][]string{
			"from": {"dave@example.org"}, "to": {"erin@example.org"}, "subject": {"Fwd: nested"},
			"date": {"Tue, 12 Mar 2024 00:15:00 +0900"}, "mime-version": {"1.0"},
			"content-type": {"multipart/mixed; boundary=outer"}},
		body: m2Body,
		sections: map[string]string{
			"":         m2Header + "\r\n" + m2Body,
			"HEADER":   m2Header + "\r\n",
			"TEXT":     m2Body,
			"1":        m2P1Body,
			"1.MIME":   m2P1Mime + "\r\n",
			"2":        m2InnerA,
			"2.MIME":   m2P2Mime + "\r\n",
			"2.HEADER": m2InnerAHeader + "\r\n",
			"2.TEXT":   m2InnerABody,
			"2.1":      m2InnerABody, // the encapsulated non-multipart message has part 1 = its body
			"2.HEADER.FIELDS (SUBJECT X-FOLDED NOPE)":     "Subject: inner subject\r\n\r\n",
			"2.HEADER.FIELDS.NOT (SUBJECT X-FOLDED NOPE)": hdrMinus(m2InnerAHeader, "subject") + "\r\n",
			"3":        m2InnerB,
			"3.MIME":   m2P3Mime + "\r\n",
			"3.HEADER": m2InnerBHeader + "\r\n",
			"3.TEXT":   m2InnerBBody,
			"3.1":      m2InnerBP1Body,
			"3.1.MIME": m2InnerBP1Mime + "\r\n",
			"3.2":      m2InnerBP2Body,
			"3.2.MIME": m2InnerBP2Mime + "\r\n",
			"3.HEADER.FIELDS (SUBJECT X-FOLDED NOPE)":     "Subject: inner multipart\r\n\r\n",
			"3.HEADER.FIELDS.NOT (SUBJECT X-FOLDED NOPE)": hdrMinus(m2InnerBHeader, "subject") + "\r\n",
			"HEADER.FIELDS (SUBJECT X-FOLDED NOPE)":       "Subject: Fwd: nested\r\n\r\n",
			"HEADER.FIELDS.NOT (SUBJECT X-FOLDED NOPE)":   hdrMinus(m2Header, "subject") + "\r\n",
		},
		nonexistent: map[string]bool{"4": true, "1.2.3": true, "3.3": true, "2.2": true},
	}
	M3 := &corpusMsg{name: "8bit", raw: m3Header + "\r\n" + m3Body, sentY: 2024, sentM: 3, sentD: 9,
		header: map[string][]string{
			"from": {"=?utf-8?q?J=C3=BCrgen?= <juergen@example.org>"}, "to": {"bob@example.org"},
			"subject": {"=?utf-8?q?Gr=C3=BC=C3=9Fe?="}, "date": {"Sat, 09 Mar 2024 10:00:00 +0000"},
			"mime-version": {"1.0"}, "content-type": {"text/plain; charset=utf-8"}, "content-transfer-encoding": {"8bit"}},
		body: m3Body,
		sections: map[string]string{
			"":                                      m3Header + "\r\n" + m3Body,
			"HEADER":                                m3Header + "\r\n",
			"TEXT":                                  m3Body,
			"1":                                     m3Body,
			"HEADER.FIELDS (SUBJECT X-FOLDED NOPE)": "Subject: =?utf-8?q?Gr=C3=BC=C3=9Fe?=\r\n\r\n",
			"HEADER.FIELDS.NOT (SUBJECT X-FOLDED NOPE)": hdrMinus(m3Header, "subject") + "\r\n",
		},
		nonexistent: map[string]bool{"2": true, "3": true, "1.2.3": true, "2.1": true},
	}
	M4 := &corpusMsg{name: "header-only", raw: m4Raw, sentY: 2024, sentM: 3, sentD: 10,
		header: map[string][]string{"from": {"gina@example.org"}, "subject": {"only header"}, "date": {"Sun, 10 Mar 2024 23:59:59 +0000"}},
		body:   "",
		sections: map[string]string{
			"":     m4Raw,
			"TEXT": "",
			"1":    "",
			// BODY[HEADER] "includes the delimiting blank line" which this message does not have:
			// both the bare fields and fields+CRLF are accepted (see sectionAlternatives)
		},
		nonexistent: map[string]bool{"2": true, "3": true, "1.2.3": true, "2.1": true},
	}
	M5 := &corpusMsg{name: "truncated-multipart", raw: m5Header + "\r\n" + m5Body, sentY: 2024, sentM: 3, sentD: 11,
		header: map[string][]string{
			"from": {"hal@example.org"}, "to": {"alice@example.org"}, "subject": {"truncated"},
			"date": {"Mon, 11 Mar 2024 00:00:01 +0000"}, "mime-version": {"1.0"}, "content-type": {"multipart/mixed; boundary=zz"}},
		body: m5Body,
		sections: map[string]string{
			"":                                      m5Header + "\r\n" + m5Body,
			"HEADER":                                m5Header + "\r\n",
			"TEXT":                                  m5Body,
			"HEADER.FIELDS (SUBJECT X-FOLDED NOPE)": "Subject: truncated\r\n\r\n",
			"HEADER.FIELDS.NOT (SUBJECT X-FOLDED NOPE)": hdrMinus(m5Header, "subject") + "\r\n",
		},
		nonexistent: map[string]bool{"1": true, "2": true, "3": true, "1.1": true, "2.1": true, "1.2.3": true},
	}
	M0.shape, M3.shape, M4.shape = lf(), lf(), lf()
	M1.shape = mp(lf(), lf())
	M2.shape = mp(lf(), rfc822(lf()), rfc822(mp(lf(), lf())))
	M5.shape = mp()
	corpus = []*corpusMsg{M0, M1, M2, M3, M4, M5}
	for _, m := range corpus {
		// the hand-written lists and the shape must agree
		for k := range m.nonexistent {
			var path []int
			for _, x := range strings.Split(k, ".") {
				n := 0
				for _, ch := range x {
					n = n*10 + int(ch-'0')
				}
				path = append(path, n)
			}
			if !m.partMissing(path) {
				panic("corpus: " + m.name + " part " + k + " listed as nonexistent but the shape has it")
			}
		}
	}
}

func (m *corpusMsg) sentTime() *time.Time {
	if m.sentY == 0 {
		return nil
	}
	t := time.Date(m.sentY, time.Month(m.sentM), m.sentD, 12, 0, 0, 0, time.UTC)
	return &t
}
