package main

import (
	"fmt"
	"sort"
	"strings"
	"sync"
	"sync/atomic"
	"time"

	"github.com/emersion/go-imap/v2/verif/srvkit"
	"github.com/emersion/go-imap/v2/verif/vk"
)

// ---------- observation through a fresh probe connection ----------

type obsMsg struct {
	seq, uid uint32
	flags    string
	date     string
	size     int64
}

type obsBox struct {
	statusOK                                        bool
	messages, uidNext, uidValidity, unseen, deleted uint32
	size                                            int64
	examineOK                                       bool
	msgs                                            []obsMsg
	uidSearch, seqSearch                            []uint32
}

type obs struct {
	list, lsub, listSub []string
	listStatus          map[string][2]uint32 // name → MESSAGES, UIDNEXT from LIST … RETURN (STATUS …)
	listStatusSeen      map[string]bool
	boxes               map[string]*obsBox
	problems            []string
}

func listName(r srvkit.Resp) (string, bool) {
	v, err := parseSexps(r.Text, r.Literals)
	if err != nil || len(v) != 4 {
		return "", false
	}
	if v[3].kind == 'l' {
		return string(v[3].lit), true
	}
	return v[3].atom, true
}

// probe observes the whole store on a fresh connection (one pipelined segment).
func (srv *server) probe(names []string) *obs {
	o := &obs{boxes: map[string]*obsBox{}, listStatus: map[string][2]uint32{}, listStatusSeen: map[string]bool{}}
	c := srv.dial("p")
	defer c.hangup()
	var cmds []string
	cmds = append(cmds, `LIST "" *`, `LSUB "" *`, `LIST (SUBSCRIBED) "" *`, `LIST "" * RETURN (STATUS (MESSAGES UIDNEXT))`)
	for _, n := range names {
		cmds = append(cmds,
			"STATUS "+n+" (MESSAGES UIDNEXT UIDVALIDITY UNSEEN DELETED SIZE)",
			"EXAMINE "+n,
			"UID FETCH 1:* (UID FLAGS INTERNALDATE RFC822.SIZE)",
			"UID SEARCH ALL",
			"SEARCH ALL")
	}
	var sb strings.Builder
	for i, x := range cmds {
		fmt.Fprintf(&sb, "q%d %s\r\n", i, x)
	}
	c.p.SendString(sb.String())
	out, closed, err := c.p.Quiesce()
	if err != nil {
		run.EngineError("probe watchdog: %v", err)
	}
	if closed {
		c.closed = true
		o.problems = append(o.problems, "probe-connection-closed")
	}
	resps, rest, perr := srvkit.ParseResponses(out)
	if perr != nil || len(rest) > 0 {
		o.problems = append(o.problems, fmt.Sprintf("probe-output-malformed: %v %q", perr, rest))
	}
	// split by tagged replies
	groups := make([][]srvkit.Resp, len(cmds))
	status := make([]string, len(cmds))
	cur := 0
	for _, r := range resps {
		if cur >= len(cmds) {
			o.problems = append(o.problems, "probe-extra-output")
			break
		}
		if r.Tag == "*" {
			groups[cur] = append(groups[cur], r)
			continue
		}
		if r.Tag != fmt.Sprintf("q%d", cur) {
			o.problems = append(o.problems, fmt.Sprintf("probe-tag-mismatch %q", r.Tag))
			break
		}
		status[cur] = strings.ToUpper(strings.SplitN(r.Text, " ", 2)[0])
		cur++
	}
	if cur != len(cmds) && len(o.problems) == 0 {
		o.problems = append(o.problems, fmt.Sprintf("probe-incomplete: %d of %d replies", cur, len(cmds)))
	}
	if len(o.problems) > 0 {
		return o
	}
	names4 := func(g []srvkit.Resp, kind string, dst *[]string) {
		for _, r := range g {
			if r.Kind() != kind {
				continue
			}
			n, ok := listName(r)
			if !ok {
				o.problems = append(o.problems, "unparsable "+kind+": "+r.Text)
				continue
			}
			*dst = append(*dst, n)
		}
		sort.Strings(*dst)
	}
	names4(groups[0], "LIST", &o.list)
	names4(groups[1], "LSUB", &o.lsub)
	names4(groups[2], "LIST", &o.listSub)
	for i := 0; i < 4; i++ {
		if status[i] != "OK" {
			o.problems = append(o.problems, fmt.Sprintf("probe %q answered %s", cmds[i], status[i]))
		}
	}
	for _, r := range groups[3] {
		if r.Kind() == "STATUS" {
			name, kv, ok := parseStatus(r)
			if !ok {
				o.problems = append(o.problems, "unparsable STATUS: "+r.Text)
				continue
			}
			o.listStatus[name] = [2]uint32{kv["MESSAGES"], kv["UIDNEXT"]}
			o.listStatusSeen[name] = true
		}
	}
	for k, n := range names {
		base := 4 + 5*k
		b := &obsBox{}
		o.boxes[n] = b
		b.statusOK = status[base] == "OK"
		if b.statusOK {
			found := false
			for _, r := range groups[base] {
				if r.Kind() == "STATUS" {
					_, kv, ok := parseStatus(r)
					if !ok {
						o.problems = append(o.problems, "unparsable STATUS: "+r.Text)
						continue
					}
					found = true
					b.messages, b.uidNext, b.uidValidity, b.unseen, b.deleted = kv["MESSAGES"], kv["UIDNEXT"], kv["UIDVALIDITY"], kv["UNSEEN"], kv["DELETED"]
					b.size = int64(kv64(r, "SIZE"))
				}
			}
			if !found {
				o.problems = append(o.problems, "STATUS OK without STATUS data for "+n)
			}
		}
		b.examineOK = status[base+1] == "OK"
		if !b.examineOK {
			continue
		}
		for _, r := range groups[base+2] {
			if r.Kind() != "FETCH" {
				continue
			}
			fr, err := parseFetch(r)
			if err != nil {
				o.problems = append(o.problems, "unparsable FETCH: "+err.Error())
				continue
			}
			uid, _ := u32(fr.items["UID"].atom)
			var sz int64
			fmt.Sscan(fr.items["RFC822.SIZE"].atom, &sz)
			b.msgs = append(b.msgs, obsMsg{seq: fr.seq, uid: uid, flags: strings.Join(flagSetOf(fr.items["FLAGS"]), " "), date: fr.items["INTERNALDATE"].atom, size: sz})
		}
		nums := func(g []srvkit.Resp) []uint32 {
			var out []uint32
			for _, r := range g {
				if r.Kind() == "SEARCH" {
					for _, w := range r.Words()[1:] {
						n, ok := u32(w)
						if !ok {
							o.problems = append(o.problems, "unparsable SEARCH: "+r.Text)
						}
						out = append(out, n)
					}
				}
			}
			return out
		}
		b.uidSearch = nums(groups[base+3])
		b.seqSearch = nums(groups[base+4])
		for j := 2; j <= 4; j++ {
			if status[base+j] != "OK" {
				o.problems = append(o.problems, fmt.Sprintf("probe %q on %s answered %s", cmds[base+j], n, status[base+j]))
			}
		}
	}
	return o
}

func parseStatus(r srvkit.Resp) (string, map[string]uint32, bool) {
	v, err := parseSexps(r.Text, r.Literals)
	if err != nil || len(v) != 3 || v[2].kind != '(' || len(v[2].list)%2 != 0 {
		return "", nil, false
	}
	kv := map[string]uint32{}
	for i := 0; i+1 < len(v[2].list); i += 2 {
		n, _ := u32(v[2].list[i+1].atom)
		kv[strings.ToUpper(v[2].list[i].atom)] = n
	}
	name := v[1].atom
	if v[1].kind == 'l' {
		name = string(v[1].lit)
	}
	return name, kv, true
}

func kv64(r srvkit.Resp, key string) uint64 {
	v, err := parseSexps(r.Text, r.Literals)
	if err != nil || len(v) != 3 {
		return 0
	}
	for i := 0; i+1 < len(v[2].list); i += 2 {
		if strings.ToUpper(v[2].list[i].atom) == key {
			var n uint64
			fmt.Sscan(v[2].list[i+1].atom, &n)
			return n
		}
	}
	return 0
}

var dateLayout = "_2-Jan-2006 15:04:05 -0700"

func sameInstant(a, b string) bool {
	ta, err1 := time.Parse(dateLayout, a)
	tb, err2 := time.Parse(dateLayout, b)
	return err1 == nil && err2 == nil && ta.Equal(tb)
}

// ---------- comparing an observation with the model (and adopting the free values) ----------

type diff struct {
	field string // stable, short: which clause
	text  string // human readable detail
}

// adoptAndCompare checks o against m. Free values are adopted into m. names = probed universe.
func (m *model) adoptAndCompare(o *obs, names []string) []diff {
	var ds []diff
	add := func(field, format string, a ...interface{}) { ds = append(ds, diff{field, fmt.Sprintf(format, a...)}) }
	for _, p := range o.problems {
		add("probe-framing", "%s", p)
	}
	if len(o.problems) > 0 {
		return ds
	}
	want := m.sortedNames()
	if strings.Join(want, ",") != strings.Join(o.list, ",") {
		add("LIST", "LIST \"\" * returned %v, model has %v", o.list, want)
	}
	// subscriptions (names whose state the RFC/statement leave open are skipped)
	checkSub := func(kind string, got []string) {
		gs := map[string]bool{}
		for _, n := range got {
			gs[n] = true
		}
		all := map[string]bool{}
		for n := range gs {
			all[n] = true
		}
		for n := range m.sub {
			all[n] = true
		}
		for n := range all {
			switch m.sub[n] {
			case subUnknown:
			case subYes:
				if !gs[n] && (m.names[n] != nil) {
					add(kind, "%s does not list subscribed mailbox %q (got %v)", kind, n, got)
				}
			case subNo:
				if gs[n] {
					add(kind, "%s lists %q which is not subscribed (got %v)", kind, n, got)
				}
			}
		}
	}
	checkSub("LSUB", o.lsub)
	checkSub("LIST-SUBSCRIBED", o.listSub)
	for _, n := range names {
		b := m.names[n]
		ob := o.boxes[n]
		if b == nil {
			if ob.statusOK || ob.examineOK {
				add("nonexistent-mailbox-answers", "STATUS/EXAMINE of %q succeeded, the model has no such mailbox", n)
			}
			if o.listStatusSeen[n] {
				add("LIST-STATUS", "LIST-STATUS reports nonexistent %q", n)
			}
			continue
		}
		if !ob.statusOK || !ob.examineOK {
			add("existing-mailbox-refused", "STATUS ok=%v EXAMINE ok=%v for existing mailbox %q", ob.statusOK, ob.examineOK, n)
			continue
		}
		// UIDVALIDITY
		if b.uv == 0 {
			b.uv = ob.uidValidity
			if b.uv == 0 {
				add("UIDVALIDITY", "UIDVALIDITY of %q is 0", n)
			}
		} else if b.uv != ob.uidValidity {
			add("UIDVALIDITY", "UIDVALIDITY of %q changed from %d to %d without delete", n, b.uv, ob.uidValidity)
		}
		for _, past := range m.pastUV[n] {
			if past.uv == ob.uidValidity && past.id != b.id {
				add("UIDVALIDITY-reused", "mailbox %q has UIDVALIDITY %d, the value an earlier, different mailbox of that name had", n, past.uv)
			}
		}
		// messages: adopt UIDs of new messages
		var temps []int
		known := map[uint32]bool{}
		for i, g := range b.msgs {
			if g.uid >= tempUID {
				temps = append(temps, i)
			} else {
				known[g.uid] = true
			}
		}
		var fresh []obsMsg
		for _, g := range ob.msgs {
			if !known[g.uid] {
				fresh = append(fresh, g)
			}
		}
		if len(fresh) != len(temps) {
			add("messages", "mailbox %q: %d new message(s) expected, UID FETCH shows %d unknown UID(s); listing %v", n, len(temps), len(fresh), ob.msgs)
		} else {
			used := make([]bool, len(fresh))
			for _, ti := range temps {
				g := b.msgs[ti]
				found := -1
				for k, f := range fresh {
					if !used[k] && f.size == int64(len(corpus[g.c].raw)) && f.flags == g.flags && sameInstant(f.date, appendDates[g.date]) {
						found = k
						break
					}
				}
				if found < 0 {
					add("new-message-content", "mailbox %q: no new message with size %d flags (%s) date %q; new ones: %v", n, len(corpus[g.c].raw), g.flags, appendDates[g.date], fresh)
					continue
				}
				used[found] = true
				f := fresh[found]
				if f.uid <= b.maxUID {
					add("UID-not-increasing", "mailbox %q: new message got UID %d, but UID %d was already assigned earlier", n, f.uid, b.maxUID)
				}
				m.renameUID(b, g.uid, f.uid)
			}
			for _, f := range fresh {
				if f.uid > b.maxUID {
					b.maxUID = f.uid
				}
			}
			sort.Slice(b.msgs, func(i, j int) bool { return b.msgs[i].uid < b.msgs[j].uid })
		}
		// listing
		if len(ob.msgs) != len(b.msgs) {
			add("messages", "mailbox %q: UID FETCH 1:* shows %d messages %v, model has %d %v", n, len(ob.msgs), ob.msgs, len(b.msgs), b.msgs)
		} else {
			for i, g := range b.msgs {
				f := ob.msgs[i]
				switch {
				case f.uid != g.uid || f.seq != uint32(i+1):
					add("messages", "mailbox %q: message #%d is (seq %d uid %d), model says (seq %d uid %d)", n, i+1, f.seq, f.uid, i+1, g.uid)
				case f.flags != g.flags:
					add("flags", "mailbox %q uid %d: flags (%s), model says (%s)", n, g.uid, f.flags, g.flags)
				case f.size != int64(len(corpus[g.c].raw)):
					add("RFC822.SIZE", "mailbox %q uid %d: size %d, model says %d", n, g.uid, f.size, len(corpus[g.c].raw))
				case !sameInstant(f.date, appendDates[g.date]):
					add("INTERNALDATE", "mailbox %q uid %d: INTERNALDATE %q, model says %q", n, g.uid, f.date, appendDates[g.date])
				}
			}
		}
		var uids, seqs []uint32
		var unseen, deleted uint32
		var size int64
		for i, g := range b.msgs {
			uids = append(uids, g.uid)
			seqs = append(seqs, uint32(i+1))
			if !hasFlagStr(g.flags, "\\seen") {
				unseen++
			}
			if hasFlagStr(g.flags, "\\deleted") {
				deleted++
			}
			size += int64(len(corpus[g.c].raw))
		}
		if joinU32(uids) != joinU32(ob.uidSearch) {
			add("SEARCH", "mailbox %q: UID SEARCH ALL = %v, model says %v", n, ob.uidSearch, uids)
		}
		if joinU32(seqs) != joinU32(ob.seqSearch) {
			add("SEARCH", "mailbox %q: SEARCH ALL = %v, model says %v", n, ob.seqSearch, seqs)
		}
		if ob.messages != uint32(len(b.msgs)) {
			add("STATUS-MESSAGES", "mailbox %q: STATUS MESSAGES %d, model says %d", n, ob.messages, len(b.msgs))
		}
		if ob.unseen != unseen {
			add("STATUS-UNSEEN", "mailbox %q: STATUS UNSEEN %d, model says %d", n, ob.unseen, unseen)
		}
		if ob.deleted != deleted {
			add("STATUS-DELETED", "mailbox %q: STATUS DELETED %d, model says %d", n, ob.deleted, deleted)
		}
		if ob.size != size {
			add("STATUS-SIZE", "mailbox %q: STATUS SIZE %d, model says %d", n, ob.size, size)
		}
		if ob.uidNext <= b.maxUID {
			add("UIDNEXT", "mailbox %q: UIDNEXT %d is not above the highest UID ever assigned (%d)", n, ob.uidNext, b.maxUID)
		}
		if ob.uidNext < b.uidNext {
			add("UIDNEXT", "mailbox %q: UIDNEXT decreased from %d to %d", n, b.uidNext, ob.uidNext)
		}
		b.uidNext = ob.uidNext
		if ls, ok := o.listStatus[n]; !ok {
			add("LIST-STATUS", "LIST … RETURN (STATUS …) has no STATUS for %q", n)
		} else if ls[0] != uint32(len(b.msgs)) || ls[1] != ob.uidNext {
			add("LIST-STATUS", "LIST-STATUS of %q says MESSAGES %d UIDNEXT %d; STATUS/model say %d / %d", n, ls[0], ls[1], len(b.msgs), ob.uidNext)
		}
	}
	return ds
}

// ---------- executing one history on a fresh server ----------

type scenario struct {
	name     string
	pre      []string // created on the backend with user.Create
	universe []string // names probed after every step
	seed     []cmd    // fixed prefix (still a history from the empty server; checked like any other)
	alphabet func(m *model) []cmd
	depth    int
}

type node struct {
	hist []cmd
	ok   []bool // tagged status of every step of hist (replay must reproduce it)
	m    *model
}

type outcome struct {
	n     *node
	c     cmd
	key   [16]byte
	m     *model
	ok    bool
	viol  string // violation key ("" = conforming)
	det   map[string]interface{}
	leafy bool
}

func scriptOf(sc *scenario, hist []cmd) script {
	s := script{Kind: "history", Pre: sc.pre, Note: "scenario " + sc.name}
	for _, c := range hist {
		s.Steps = append(s.Steps, step{S: c.S, Cmd: c.wire()})
	}
	return s
}

var quirkList = []struct {
	key string
	q   quirks
}{
	{"seq-star-resolved-against-server-count-on-stale-view", quirks{starServerCount: true}},
	{"uid-star-is-uidnext-minus-1-not-last-message", quirks{uidStarUIDNext: true}},
	{"uid-expunge-does-not-resolve-star", quirks{uidExpungeStar: true}},
	{"examine-is-not-read-only", quirks{readOnlyIgnored: true}},
	{"examine-is-not-read-only", quirks{readOnlyIgnored: true, starServerCount: true}},
	{"examine-is-not-read-only", quirks{readOnlyIgnored: true, uidStarUIDNext: true}},
}

// judge compares one executed step with the model under quirk set q, starting from parent state.
// It returns the resulting model and the list of differences.
type nvCounters struct {
	staleSeq, appendUID, copyUID, expunged, recreated, storeChanged, uidGap int64
}

var nv nvCounters

func judge(parent *model, c cmd, q quirks, r reply, o *obs, universe []string) (*model, []diff) {
	m := parent.clone()
	ok := r.status == "OK"
	e := m.apply(c, q, ok)
	if q == (quirks{}) {
		// non-vacuity counters (strict judgement only)
		ps := &parent.sess[c.S]
		if ps.box != nil && len(ps.pend) > 0 && !c.UID && c.Set != "" {
			atomic.AddInt64(&nv.staleSeq, 1)
		}
		if e.code == "APPENDUID" && ok {
			atomic.AddInt64(&nv.appendUID, 1)
		}
		if e.code == "COPYUID" && ok {
			atomic.AddInt64(&nv.copyUID, 1)
		}
		removed, changed := false, false
		parent.forEachBox(func(pb *mBox) {
			m.forEachBox(func(nb *mBox) {
				if nb.id != pb.id {
					return
				}
				for _, g := range pb.msgs {
					k := nb.find(g.uid)
					if k < 0 {
						removed = true
					} else if nb.msgs[k].flags != g.flags {
						changed = true
					}
				}
			})
		})
		if removed {
			atomic.AddInt64(&nv.expunged, 1)
		}
		if changed && c.Op == "STORE" {
			atomic.AddInt64(&nv.storeChanged, 1)
		}
		if c.Op == "CREATE" && ok && len(parent.pastUV[c.Name]) > 0 {
			atomic.AddInt64(&nv.recreated, 1)
		}
		if e.code != "" && ok && e.codeBox != nil && len(e.codeBox.msgs) > 0 {
			// a new message arrives in a mailbox whose highest UID was expunged earlier (UID reuse would show here)
			var hi uint32
			for _, g := range e.codeBox.msgs {
				if g.uid < tempUID && g.uid > hi {
					hi = g.uid
				}
			}
			if hi < e.codeBox.maxUID {
				atomic.AddInt64(&nv.uidGap, 1)
			}
		}
	}
	var ds []diff
	add := func(field, format string, a ...interface{}) { ds = append(ds, diff{field, fmt.Sprintf(format, a...)}) }
	switch {
	case e.status == "ok" && !ok:
		add("status", "%s answered %s %s, the model expects OK", c.Op, r.status, r.text)
	case e.status == "fail" && ok:
		add("status", "%s answered OK, the model expects a refusal", c.Op)
	}
	pds := m.adoptAndCompare(o, universe)
	ds = append(ds, pds...)
	if len(ds) > 0 {
		return m, ds
	}
	// response codes
	if ok && e.code != "" {
		code, args := respCode(r.text)
		if c.Op == "MOVE" {
			code, args = "", nil
			for _, u := range r.untagged("OK") {
				w := strings.SplitN(u.Text, " ", 2)
				if len(w) == 2 {
					if cd, a := respCode(w[1]); cd == "COPYUID" {
						code, args = cd, a
					}
				}
			}
		}
		b := e.codeBox
		switch e.code {
		case "APPENDUID":
			// the new message is the one whose placeholder was adopted last: highest UID among from==0 … simply: it must be in the box
			if code != "APPENDUID" || len(args) != 2 {
				add("APPENDUID", "APPEND OK without a well-formed APPENDUID: %q", r.text)
				break
			}
			uv, _ := u32(args[0])
			uid, _ := u32(args[1])
			newest := b.msgs[len(b.msgs)-1]
			if uv != b.uv || uid != newest.uid {
				add("APPENDUID", "APPENDUID %d %d, but the new message has UID %d in UIDVALIDITY %d", uv, uid, newest.uid, b.uv)
			}
		case "COPYUID":
			if code != "COPYUID" || len(args) != 3 {
				add("COPYUID", "%s OK without a well-formed COPYUID: %q", c.Op, r.raw)
				break
			}
			uv, _ := u32(args[0])
			src, ok1 := parseSet(args[1])
			dst, ok2 := parseSet(args[2])
			if !ok1 || !ok2 || len(src) != len(dst) || uv != b.uv {
				add("COPYUID", "COPYUID %v malformed or wrong UIDVALIDITY (mailbox has %d)", args, b.uv)
				break
			}
			if joinU32(src) != joinU32(e.srcUIDs) {
				add("COPYUID", "COPYUID source set %v, addressed messages are %v", src, e.srcUIDs)
				break
			}
			for i := range src {
				k := b.find(dst[i])
				if k < 0 || b.msgs[k].from != src[i] {
					// content-identical copies may be paired either way
					okPair := false
					if k >= 0 && b.msgs[k].from != 0 {
						for _, g := range b.msgs {
							if g.from == src[i] && g.c == b.msgs[k].c && g.flags == b.msgs[k].flags && g.date == b.msgs[k].date {
								okPair = true
							}
						}
					}
					if !okPair {
						add("COPYUID", "COPYUID pairs source UID %d with destination UID %d, which is not the copy of it (destination %v)", src[i], dst[i], b.msgs)
						break
					}
				}
			}
		}
	}
	if ok && e.noMatch {
		if code, _ := respCode(r.text); code == "COPYUID" {
			add("COPYUID", "COPYUID although no message was addressed: %q", r.text)
		}
	}
	// leaf observers
	if ok && c.Op == "FETCH" {
		got := map[string]bool{}
		for _, u := range r.untagged("FETCH") {
			fr, err := parseFetch(u)
			if err != nil {
				add("FETCH", "unparsable FETCH response %q", u.Text)
				continue
			}
			uid, _ := u32(fr.items["UID"].atom)
			got[fmt.Sprintf("%d/%d/%s", fr.seq, uid, strings.Join(flagSetOf(fr.items["FLAGS"]), " "))] = true
		}
		for _, l := range e.fetch {
			k := fmt.Sprintf("%d/%d/%s", l.seq, l.uid, l.flags)
			if c.UID && l.seq == 0 {
				continue // a message the session has not been told about: its number is C08's subject
			}
			if !got[k] {
				add("FETCH", "%s: no response seq %d uid %d flags (%s); got %v", c.wire(), l.seq, l.uid, l.flags, keysOf(got))
			}
			delete(got, k)
		}
		// anything else must be an unsolicited update about a message of this mailbox
		for k := range got {
			var seq, uid uint32
			fmt.Sscanf(k, "%d/%d/", &seq, &uid)
			addressedToo := false
			for _, l := range e.fetch {
				if l.uid == uid {
					addressedToo = true
				}
			}
			updated := false
			for _, u := range m.sess[c.S].flagUpd {
				if u == uid {
					updated = true
				}
			}
			if !addressedToo && !updated {
				add("FETCH", "%s: unexpected response %s (seq/uid/flags)", c.wire(), k)
			}
		}
	}
	if ok && c.Op == "SEARCH" {
		var got []uint32
		for _, u := range r.untagged("SEARCH") {
			for _, w := range u.Words()[1:] {
				n, _ := u32(w)
				got = append(got, n)
			}
		}
		if joinU32(got) != joinU32(e.search) {
			add("SEARCH", "%s = %v, model says %v", c.wire(), got, e.search)
		}
	}
	return m, ds
}

func keysOf(m map[string]bool) []string {
	var l []string
	for k := range m {
		l = append(l, k)
	}
	sort.Strings(l)
	return l
}

// execute replays n.hist on a fresh server, applies c, probes and judges.
func execute(sc *scenario, n *node, c cmd) outcome {
	srv := newServer(sc.pre...)
	defer srv.close()
	conns := [2]*conn{srv.dial("a"), srv.dial("b")}
	defer conns[0].hangup()
	defer conns[1].hangup()
	for i, h := range n.hist {
		r := conns[h.S].do(expandCmd(h.wire()))
		if r.problem != "" || (r.status == "OK") != n.ok[i] {
			run.EngineError("replay of an already validated prefix diverged at step %d (%s): %+v", i, h.wire(), r)
		}
	}
	r := conns[c.S].do(expandCmd(c.wire()))
	hist := append(append([]cmd{}, n.hist...), c)
	out := outcome{n: n, c: c, ok: r.status == "OK", leafy: c.Leaf}
	det := func(key string, ds []diff, extra string) {
		out.viol = key
		var dl []string
		for _, d := range ds {
			dl = append(dl, d.field+": "+d.text)
		}
		out.det = map[string]interface{}{"script": scriptOf(sc, hist), "scenario": sc.name, "history": hist, "failing_step": c.wire(), "session": c.S,
			"reply": r.raw, "differences": dl, "note": extra, "server_log": srv.panics()}
	}
	// framing clause: exactly one tagged reply, connection open, no panic
	if pan := srv.panics(); r.problem != "" || len(pan) > 0 {
		noMatch := false
		for _, q := range []quirks{{readOnlyIgnored: true}, {readOnlyIgnored: true, starServerCount: true}, {readOnlyIgnored: true, uidStarUIDNext: true}} {
			pm := parent(n).clone()
			if e := pm.apply(c, q, true); e.noMatch {
				noMatch = true
			}
		}
		if (c.Op == "COPY" || c.Op == "MOVE") && noMatch {
			det("copy-move-of-no-message-corrupts-the-reply", nil, "the sequence set addresses no message; reply framing problem: "+r.problem)
		} else {
			det("crash-or-framing:"+c.Op+":"+r.problem, nil, "framing clause")
		}
		return out
	}
	if (c.Op == "COPY" || c.Op == "MOVE") && strings.Contains(r.raw, "SERVERBUG") {
		det("copy-move-of-no-message-corrupts-the-reply", nil, "the tagged line contains a second, interleaved reply")
		return out
	}
	o := srv.probe(sc.universe)
	if pan := srv.panics(); len(pan) > 0 {
		det("crash-or-framing:probe", nil, "probe made the server panic")
		return out
	}
	m, ds := judge(n.m, c, quirks{}, r, o, sc.universe)
	if len(ds) == 0 {
		out.m = m
		out.key = m.key()
		return out
	}
	// explain by a known deviation?
	for _, ql := range quirkList {
		if _, ds2 := judge(n.m, c, ql.q, r, o, sc.universe); len(ds2) == 0 {
			det(ql.key, ds, "the observation is exactly what the model predicts when it is given this deviation")
			return out
		}
	}
	det("model-mismatch:"+c.Op+":"+ds[0].field, ds, "")
	return out
}

func parent(n *node) *model { return n.m }

// ---------- BFS ----------

type scenStats struct {
	Name          string  `json:"scenario"`
	Depth         int     `json:"depth_bound"`
	Alphabet      int     `json:"alphabet_size_max"`
	States        int64   `json:"states"`
	Transitions   int64   `json:"transitions"`
	LeafTrans     int64   `json:"leaf_only_transitions"`
	PerDepth      []int64 `json:"new_states_per_depth"`
	Violating     int64   `json:"violating_transitions"`
	Wall          float64 `json:"wall_s"`
	FrontierEmpty bool    `json:"frontier_exhausted_within_bound"`
	SeedViolated  bool    `json:"seed_prefix_already_violates"`
}

var violCount sync.Map // key → *int64

func bfs(sc *scenario) scenStats {
	t0 := time.Now()
	st := scenStats{Name: sc.name, Depth: sc.depth}
	// root: run the seed as a history (each seed step is checked like any other)
	root := &node{m: newModel(sc.pre)}
	{
		srv := newServer(sc.pre...)
		o := srv.probe(sc.universe)
		if ds := root.m.adoptAndCompare(o, sc.universe); len(ds) > 0 {
			run.Violation("model-mismatch:initial-state:"+ds[0].field, map[string]interface{}{"script": scriptOf(sc, nil), "differences": fmt.Sprint(ds)})
		}
		srv.close()
	}
	for _, c := range sc.seed {
		out := execute(sc, root, c)
		st.Transitions++
		if out.viol != "" {
			reportViolation(sc, out)
			st.Violating++
			st.SeedViolated = true
			st.Wall = time.Since(t0).Seconds()
			return st
		}
		root = &node{hist: append(append([]cmd{}, root.hist...), c), ok: append(append([]bool{}, root.ok...), out.ok), m: out.m}
	}
	visited := map[[16]byte]bool{root.m.key(): true}
	frontier := []*node{root}
	st.States = 1
	st.PerDepth = append(st.PerDepth, 1)
	type task struct {
		n *node
		c cmd
	}
	for d := 1; d <= sc.depth && len(frontier) > 0; d++ {
		var tasks []task
		for _, n := range frontier {
			al := sc.alphabet(n.m)
			if len(al) > st.Alphabet {
				st.Alphabet = len(al)
			}
			for _, c := range al {
				if c.Leaf || d <= sc.depth {
					tasks = append(tasks, task{n, c})
				}
			}
		}
		var next []*node
		const chunk = 20000
		for lo := 0; lo < len(tasks); lo += chunk {
			hi := lo + chunk
			if hi > len(tasks) {
				hi = len(tasks)
			}
			outs := make([]outcome, hi-lo)
			vk.ParallelW(workers(), hi-lo, func(i int) {
				outs[i] = execute(sc, tasks[lo+i].n, tasks[lo+i].c)
			})
			for i, out := range outs {
				t := tasks[lo+i]
				st.Transitions++
				if t.c.Leaf {
					st.LeafTrans++
				}
				if out.viol != "" {
					st.Violating++
					reportViolation(sc, out)
					continue
				}
				if t.c.Leaf || visited[out.key] {
					continue
				}
				visited[out.key] = true
				st.States++
				if d < sc.depth {
					next = append(next, &node{hist: append(append([]cmd{}, t.n.hist...), t.c), ok: append(append([]bool{}, t.n.ok...), out.ok), m: out.m})
				}
			}
		}
		st.PerDepth = append(st.PerDepth, st.States-sum(st.PerDepth))
		frontier = next
		fmt.Printf("  [A:%s] depth %d: %d transitions so far, %d states, frontier %d (%.1fs)\n", sc.name, d, st.Transitions, st.States, len(frontier), time.Since(t0).Seconds())
	}
	st.FrontierEmpty = len(frontier) == 0
	st.Wall = time.Since(t0).Seconds()
	return st
}

func sum(l []int64) int64 {
	var s int64
	for _, x := range l {
		s += x
	}
	return s
}

var reported sync.Map

func reportViolation(sc *scenario, out outcome) {
	v, _ := violCount.LoadOrStore(out.viol, new(int64))
	atomic.AddInt64(v.(*int64), 1)
	if _, dup := reported.LoadOrStore(out.viol, true); dup {
		return
	}
	// every counterexample is re-executed from scratch before it is printed
	for i := 0; i < 4; i++ {
		if again := execute(sc, out.n, out.c); again.viol != out.viol {
			run.EngineError("counterexample for %s is not reproducible (run %d gave %q): %v", out.viol, i+2, again.viol, out.det)
		}
	}
	run.Violation(out.viol, out.det)
}
